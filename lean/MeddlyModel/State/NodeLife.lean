/-
  Model of node lifetime management in MEDDLY:
    src/node_headers.h / node_headers.cc  (linkNode, unlinkNode, cacheNode, uncacheNode,
        lastUnlink, lastUncache, getFreeNodeHandle, recycleNodeHandle)
    src/forest.cc  (createReducedNode: new-node path; deleteNode → unlinkDownAndRecycle)

  Per node handle the library keeps  level (0 = "deleted"), incoming count, cache count.
  The model distinguishes three liveness classes of a handle
      active  lvl inc cc kids   level ≠ 0; the node exists (possibly unreachable: inc = 0)
      deleted cc                level = 0, cache count cc > 0: node content gone, handle retained
                                ("zombie"; only produced by the pessimistic policy)
      free                      level = 0, cache count 0: never used, or recycled
  and two policies.  `policies::setNeverDelete()` is NOT distinguished by the code base from
  the optimistic policy: `node_headers::initialize` only records `isPessimistic()`, and nothing
  else reads `node_deletion::NEVER`.

  Reference bookkeeping is explicit: `ext` lists every reference held OUTSIDE the forest's node
  storage (root edges, `unpacked_node` slots under construction, temporaries of operations),
  one list entry per reference; references held by parent nodes are the `kids` of active nodes.
  The operations below pair every creation / destruction of a reference with the matching
  `linkNode` / `unlinkNode` (that pairing is the API contract, called `Paired` below):
      link h     a new outside reference to h is created, `linkNode(h)` is called
      unlink h   an outside reference to h is destroyed (must exist), `unlinkNode(h)` is called
      alloc h lvl kids
                 the new-node path of `createReducedNode`: `getFreeNodeHandle()` returned h
                 (nondeterministic: any free handle), the under-construction references to the
                 children become parent references (NO count changes: the caller linked them when
                 it filled the unpacked node), the caller receives one reference to h (inc = 1)
      cache h / uncache h   a compute-table entry mentioning h is added / removed.
  Deleting a node (`forest::deleteNode`) destroys its parent references and calls `unlinkNode`
  on each child, recursively; the model runs that recursion with an explicit work list
  (`drain`), in the same order as the C++ recursion.
-/
namespace Meddly.NodeLife

inductive Policy where
  | pessimistic
  | optimistic
  deriving DecidableEq, Repr

inductive HState where
  | free
  | active (lvl inc cc : Nat) (kids : List Nat)
  | deleted (cc : Nat)
  deriving DecidableEq, Repr

/-- the handle table; index = handle; handles beyond the list are free -/
abbrev Tab := List HState

def tget (t : Tab) (h : Nat) : HState := t.getD h .free

def tset (t : Tab) (h : Nat) (v : HState) : Tab :=
  if h < t.length then t.set h v else t ++ List.replicate (h - t.length) .free ++ [v]

theorem ext_get (t : Tab) (h x : Nat) (v : HState) (hl : ¬ h < t.length) :
    (t ++ List.replicate (h - t.length) HState.free ++ [v])[x]?.getD .free =
      if x = h then v else t[x]?.getD .free := by
  simp only [List.getElem?_append, List.getElem?_replicate, List.length_append, List.length_replicate]
  by_cases e : x = h
  · subst e
    have h1 : ¬ x < t.length + (x - t.length) := by omega
    have h2 : x - (t.length + (x - t.length)) = 0 := by omega
    simp [h1, h2]
  · by_cases hx : x < t.length
    · have : x < t.length + (h - t.length) := by omega
      simp [e, hx, this]
    · by_cases hx2 : x < h
      · have h1 : x < t.length + (h - t.length) := by omega
        have h3 : x - t.length < h - t.length := by omega
        simp [e, hx, h1, h3]
      · have h1 : ¬ x < t.length + (h - t.length) := by omega
        have h2 : x - (t.length + (h - t.length)) ≠ 0 := by omega
        simp [e, h1, h2, List.getElem?_eq_none (by omega : t.length ≤ x)]

theorem tget_tset (t : Tab) (h x : Nat) (v : HState) :
    tget (tset t h v) x = if x = h then v else tget t x := by
  unfold tget tset
  by_cases hl : h < t.length
  · simp only [hl, if_true, List.getD_eq_getElem?_getD, List.getElem?_set]
    by_cases e : x = h
    · subst e; simp
    · have : ¬ h = x := fun a => e a.symm
      simp [e, this]
  · simp only [hl, if_false, List.getD_eq_getElem?_getD]
    exact ext_get t h x v hl

/-- sum of `f` over the table -/
def tsum (f : HState → Nat) : Tab → Nat
  | [] => 0
  | e :: t => f e + tsum f t

theorem tsum_append (f : HState → Nat) (a b : Tab) : tsum f (a ++ b) = tsum f a + tsum f b := by
  induction a with
  | nil => simp [tsum]
  | cons e a ih => simp [tsum, ih]; omega

theorem tsum_replicate_free (f : HState → Nat) (hf : f .free = 0) (n : Nat) :
    tsum f (List.replicate n .free) = 0 := by
  induction n with
  | zero => rfl
  | succ n ih => simp [List.replicate_succ, tsum, hf, ih]

theorem tsum_set (f : HState → Nat) : ∀ (t : Tab) (h : Nat) (v : HState), h < t.length →
    tsum f (t.set h v) + f (t.getD h .free) = tsum f t + f v
  | [], _, _, hl => by simp at hl
  | e :: t, 0, v, _ => by simp [tsum]; omega
  | e :: t, h+1, v, hl => by
    have := tsum_set f t h v (by simpa using hl)
    simp [tsum] at this ⊢; omega

theorem tsum_tset (f : HState → Nat) (hf : f .free = 0) (t : Tab) (h : Nat) (v : HState) :
    tsum f (tset t h v) + f (tget t h) = tsum f t + f v := by
  unfold tset tget
  by_cases hl : h < t.length
  · simp only [hl, if_true]; exact tsum_set f t h v hl
  · simp only [hl, if_false, tsum_append, tsum_replicate_free f hf]
    have : t.getD h .free = .free := by
      simp [List.getD_eq_getElem?_getD, List.getElem?_eq_none (by omega : t.length ≤ h)]
    rw [this]
    simp [hf, tsum]

/-! ### State, operations -/

def incOf : HState → Nat
  | .active _ inc _ _ => inc
  | _ => 0

def ccOf : HState → Nat
  | .active _ _ cc _ => cc
  | .deleted cc => cc
  | .free => 0

def kidsOf : HState → List Nat
  | .active _ _ _ kids => kids
  | _ => []

def lvlOf : HState → Nat
  | .active lvl _ _ _ => lvl
  | _ => 0

def isActive : HState → Bool
  | .active .. => true
  | _ => false

def isFree : HState → Bool
  | .free => true
  | _ => false

structure St where
  pol : Policy
  /-- number of levels of the forest (children live at strictly lower levels) -/
  K   : Nat
  tab : Tab
  /-- references held outside node storage, one entry per reference -/
  ext : List Nat
  deriving Repr, DecidableEq

def St.get (s : St) (h : Nat) : HState := tget s.tab h
def St.set (s : St) (h : Nat) (v : HState) : St := { s with tab := tset s.tab h v }

def init (pol : Policy) (K : Nat) : St := { pol := pol, K := K, tab := [], ext := [] }

/-- number of parent references to `h` (slots of active nodes that hold `h`) -/
def prefs (t : Tab) (h : Nat) : Nat := tsum (fun e => (kidsOf e).count h) t

/-- total number of child slots of active nodes (bounds the work of a recursive deletion) -/
def kidSum (t : Tab) : Nat := tsum (fun e => (kidsOf e).length) t

/-- (largest index of a non-free table entry) + 1, or 0 if every entry is free -/
def lastUsed : Tab → Nat
  | [] => 0
  | e :: t =>
    let r := lastUsed t
    if r ≠ 0 then r + 1 else if isFree e then 0 else 1

/-- largest handle that is not free (`node_headers::a_last` = `forest::getLastNode()`): when the
    last handle is recycled, `recycleNodeHandle` collapses `a_last` over all trailing handles that
    are deleted and have cache count 0; 0 if no handle is in use -/
def St.last (s : St) : Nat := lastUsed s.tab - 1

inductive Op where
  | alloc (h lvl : Nat) (kids : List Nat)
  | link (h : Nat)
  | unlink (h : Nat)
  | cache (h : Nat)
  | uncache (h : Nat)
  deriving Repr, DecidableEq

/-- The body of `unlinkNode(h)` for a non-terminal `h`, without the recursion: the new state and
    the children on which `unlinkNode` has to be called next (because `deleteNode(h)` ran).
      count stays positive → done;
      count reaches 0 → `lastUnlink(h)`:
        cache count 0            → `deleteNode(h)` + `recycleNodeHandle(h)`    (h becomes free)
        else, pessimistic        → `deleteNode(h)`, handle kept                (h becomes deleted)
        else (optimistic/never)  → nothing                                    (h stays, unreachable)
    `none`: `h` is not an active node with a positive count (contract violation; guarded by
    `MEDDLY_DCASSERT`s in the code). -/
def unlink1 (s : St) (h : Nat) : Option (St × List Nat) :=
  match s.get h with
  | .active lvl (inc+1) cc kids =>
    if inc ≠ 0 then some (s.set h (.active lvl inc cc kids), [])
    else if cc = 0 then some (s.set h .free, kids)
    else
      match s.pol with
      | .pessimistic => some (s.set h (.deleted cc), kids)
      | .optimistic  => some (s.set h (.active lvl 0 cc kids), [])
  | _ => none

/-- Run the pending `unlinkNode` calls of a (recursive) node deletion, in the order of the C++
    recursion (`deleteNode(h)` calls `unlinkNode` on every child of h, depth first).
    `none`: out of fuel, or a contract violation in `unlink1`. -/
def drain : Nat → St → List Nat → Option St
  | _, s, [] => some s
  | 0, _, _ :: _ => none
  | f+1, s, h :: wl =>
    if h = 0 then drain f s wl      -- terminal: `unlinkNode` returns immediately
    else
      match unlink1 s h with
      | some (s1, ks) => drain f s1 (ks ++ wl)
      | none => none

/-- enough fuel for any deletion cascade started by one `unlinkNode` (see `drain_total`) -/
def fuelFor (s : St) : Nat := 1 + kidSum s.tab

/-- the under-construction references to the children are consumed (they become parent slots) -/
def takeRefs : List Nat → List Nat → Option (List Nat)
  | ext, [] => some ext
  | ext, k :: ks =>
    if k = 0 then takeRefs ext ks
    else if k ∈ ext then takeRefs (ext.erase k) ks else none

def kidsBelow (s : St) (lvl : Nat) (kids : List Nat) : Bool :=
  kids.all (fun k => k == 0 || (isActive (s.get k) && decide (lvlOf (s.get k) < lvl)))

/-- One operation.  `none` = the call violates the API contract (`Paired`):
    unlink without owning a reference, link/cache of a non-active handle, uncache without a
    cache mark, alloc of a handle that is not free / children not owned / not at lower levels. -/
def step (s : St) : Op → Option St
  | .link h =>
    if h = 0 then some s
    else match s.get h with
      | .active lvl inc cc kids =>
        some { (s.set h (.active lvl (inc+1) cc kids)) with ext := h :: s.ext }
      | _ => none
  | .unlink h =>
    if h = 0 then some s
    else if h ∈ s.ext then drain (fuelFor s) { s with ext := s.ext.erase h } [h]
    else none
  | .cache h =>
    if h = 0 then some s
    else match s.get h with
      | .active lvl inc cc kids => some (s.set h (.active lvl inc (cc+1) kids))
      | _ => none
  | .uncache h =>
    if h = 0 then some s
    else match s.get h with
      | .active lvl inc (cc+1) kids =>
        -- lastUncache on an active node: delete + recycle iff no incoming edges
        if cc = 0 ∧ inc = 0 then drain (fuelFor s) (s.set h .free) kids
        else some (s.set h (.active lvl inc cc kids))
      | .deleted (cc+1) =>
        -- lastUncache on a deleted node: recycle the handle
        if cc = 0 then some (s.set h .free) else some (s.set h (.deleted cc))
      | _ => none
  | .alloc h lvl kids =>
    if h = 0 then none
    else match s.get h with
      | .free =>
        if 1 ≤ lvl ∧ lvl ≤ s.K ∧ kidsBelow s lvl kids = true then
          match takeRefs s.ext kids with
          | some ext' => some { (s.set h (.active lvl 1 0 kids)) with ext := h :: ext' }
          | none => none
        else none
      | _ => none

/-- run an operation sequence; `none` as soon as one call violates the contract -/
def run (s : St) : List Op → Option St
  | [] => some s
  | op :: ops =>
    match step s op with
    | none => none
    | some s' => run s' ops

/-- `Paired`: every operation of the trace is within the API contract (each unlink releases a
    reference that is actually held, each alloc consumes references actually held, …) -/
def Paired (s : St) (ops : List Op) : Prop := (run s ops).isSome = true

theorem paired_iff (s : St) (ops : List Op) : Paired s ops ↔ ∃ s', run s ops = some s' := by
  unfold Paired; cases run s ops <;> simp

/-! ### Invariants -/

/-- The invariant of the state together with a work list `wl` of pending `unlinkNode` calls
    (`wl = []` between API calls). -/
structure WInv (s : St) (wl : List Nat) : Prop where
  /-- recorded incoming count = outside references + parent slots + pending unlinks -/
  counts : ∀ h, h ≠ 0 → incOf (s.get h) = s.ext.count h + prefs s.tab h + wl.count h
  /-- children of active nodes are active nodes at strictly lower levels (or terminals) -/
  lower : ∀ p k, k ∈ kidsOf (s.get p) → k ≠ 0 →
      isActive (s.get k) = true ∧ lvlOf (s.get k) < lvlOf (s.get p)
  bound : ∀ p, lvlOf (s.get p) ≤ s.K
  /-- a retained deleted handle is mentioned by some cache entry -/
  zombie : ∀ p cc, s.get p = .deleted cc → 0 < cc
  /-- an unreachable node is kept only under the optimistic policy and only while cached -/
  unreach : ∀ p, isActive (s.get p) = true → incOf (s.get p) = 0 →
      0 < ccOf (s.get p) ∧ s.pol = .optimistic
  /-- handle 0 is the terminal / transparent node and is never a table entry -/
  zero : s.get 0 = .free

theorem get_set (s : St) (h x : Nat) (v : HState) :
    (s.set h v).get x = if x = h then v else s.get x := tget_tset s.tab h x v

theorem prefs_set (s : St) (h x : Nat) (v : HState) :
    prefs (s.set h v).tab x + (kidsOf (s.get h)).count x = prefs s.tab x + (kidsOf v).count x :=
  tsum_tset (fun e => (kidsOf e).count x) (by simp [kidsOf]) s.tab h v

theorem kidSum_set (s : St) (h : Nat) (v : HState) :
    kidSum (s.set h v).tab + (kidsOf (s.get h)).length = kidSum s.tab + (kidsOf v).length :=
  tsum_tset (fun e => (kidsOf e).length) (by simp [kidsOf]) s.tab h v

theorem tsum_ge (f : HState → Nat) (hf : f .free = 0) : ∀ (t : Tab) (p : Nat), f (tget t p) ≤ tsum f t
  | [], p => by simp [tget, hf, tsum]
  | e :: t, 0 => by simp [tget, tsum]
  | e :: t, p+1 => by
    have := tsum_ge f hf t p
    simp [tget, tsum] at this ⊢; omega

theorem tsum_pos (f : HState → Nat) : ∀ (t : Tab), 0 < tsum f t → ∃ p, 0 < f (tget t p)
  | [], h => by simp [tsum] at h
  | e :: t, h => by
    by_cases he : 0 < f e
    · exact ⟨0, by simpa [tget] using he⟩
    · have : 0 < tsum f t := by simp [tsum] at h; omega
      obtain ⟨p, hp⟩ := tsum_pos f t this
      exact ⟨p+1, by simpa [tget] using hp⟩

theorem prefs_pos_of_mem {t : Tab} {p k : Nat} (h : k ∈ kidsOf (tget t p)) : 0 < prefs t k := by
  have := tsum_ge (fun e => (kidsOf e).count k) (by simp [kidsOf]) t p
  have h2 : 0 < (kidsOf (tget t p)).count k := List.count_pos_iff.mpr h
  unfold prefs; omega

theorem mem_of_prefs_pos {t : Tab} {k : Nat} (h : 0 < prefs t k) : ∃ p, k ∈ kidsOf (tget t p) := by
  obtain ⟨p, hp⟩ := tsum_pos _ t h
  exact ⟨p, List.count_pos_iff.mp hp⟩

theorem winv_init (pol : Policy) (K : Nat) : WInv (init pol K) [] := by
  refine ⟨?_, ?_, ?_, ?_, ?_, ?_⟩ <;> simp [init, St.get, tget, prefs, tsum, incOf, kidsOf, lvlOf, isActive]

/-- dropping a terminal from the work list -/
theorem winv_skip0 {s : St} {wl : List Nat} (h : WInv s (0 :: wl)) : WInv s wl := by
  refine ⟨?_, h.lower, h.bound, h.zombie, h.unreach, h.zero⟩
  intro x hx
  have := h.counts x hx
  have e : (0 :: wl).count x = wl.count x := by
    rw [List.count_cons]; simp; omega
  omega

/-- An update of node `h` that changes only its two counters. -/
theorem winv_recount {s : St} {wl wl' : List Nat} {h lvl inc cc inc' cc' : Nat} {kids ext' : List Nat}
    (hw : WInv s wl) (hg : s.get h = .active lvl inc cc kids)
    (hc : ∀ x, x ≠ 0 →
      (if x = h then inc' else incOf (s.get x)) = ext'.count x + prefs s.tab x + wl'.count x)
    (hu : inc' = 0 → 0 < cc' ∧ s.pol = .optimistic) :
    WInv { (s.set h (.active lvl inc' cc' kids)) with ext := ext' } wl' := by
  have G : ∀ x, ({ (s.set h (.active lvl inc' cc' kids)) with ext := ext' } : St).get x =
      if x = h then .active lvl inc' cc' kids else s.get x := fun x => get_set s h x _
  have P : ∀ x, prefs (s.set h (.active lvl inc' cc' kids)).tab x = prefs s.tab x := by
    intro x
    have := prefs_set s h x (.active lvl inc' cc' kids)
    rw [hg] at this; simp [kidsOf] at this; omega
  have KO : ∀ x, kidsOf (({ (s.set h (.active lvl inc' cc' kids)) with ext := ext' } : St).get x) = kidsOf (s.get x) := by
    intro x; rw [G]; split
    · rename_i e; rw [e, hg]; rfl
    · rfl
  have LO : ∀ x, lvlOf (({ (s.set h (.active lvl inc' cc' kids)) with ext := ext' } : St).get x) = lvlOf (s.get x) := by
    intro x; rw [G]; split
    · rename_i e; rw [e, hg]; rfl
    · rfl
  have AO : ∀ x, isActive (({ (s.set h (.active lvl inc' cc' kids)) with ext := ext' } : St).get x) = isActive (s.get x) := by
    intro x; rw [G]; split
    · rename_i e; rw [e, hg]; rfl
    · rfl
  have Z : ({ (s.set h (.active lvl inc' cc' kids)) with ext := ext' } : St).get 0 = .free := by
    have h0 : (0:Nat) ≠ h := by intro e; subst e; rw [hw.zero] at hg; cases hg
    rw [G]; simp only [h0, if_false]; exact hw.zero
  refine ⟨?_, ?_, ?_, ?_, ?_, Z⟩
  · intro x hx
    have := hc x hx
    rw [G]
    show _ = ext'.count x + prefs (s.set h (.active lvl inc' cc' kids)).tab x + _
    rw [P]
    split
    · rename_i e; subst e; simp at this; simp [incOf]; omega
    · rename_i e; simp [e] at this; omega
  · intro p k hk hk0
    rw [KO] at hk; rw [AO, LO, LO]; exact hw.lower p k hk hk0
  · intro p; rw [LO]; exact hw.bound p
  · intro p c hp
    rw [G] at hp
    split at hp
    · cases hp
    · exact hw.zombie p c hp
  · intro p ha hi
    rw [G] at ha hi ⊢
    split
    · rename_i e; simp [e, incOf] at hi; simpa [ccOf, St.set] using hu hi
    · rename_i e; simp [e] at ha hi; exact hw.unreach p ha hi

/-- `deleteNode(h)`: node `h` (no references left) disappears, its children go to the work list. -/
theorem winv_delete {s : St} {wl0 wl : List Nat} {h lvl inc cc : Nat} {kids : List Nat} {v : HState}
    (hw : WInv s wl0) (hne : h ≠ 0) (hg : s.get h = .active lvl inc cc kids)
    (hv : v = .free ∨ ∃ c, 0 < c ∧ v = .deleted c)
    (hz : s.ext.count h = 0 ∧ prefs s.tab h = 0)
    (hc : ∀ x, x ≠ 0 → x ≠ h → incOf (s.get x) = s.ext.count x + prefs s.tab x + wl.count x)
    (hwl : wl.count h = 0) :
    WInv (s.set h v) (kids ++ wl) := by
  have G : ∀ x, (s.set h v).get x = if x = h then v else s.get x := fun x => get_set s h x _
  have KV : kidsOf v = [] := by rcases hv with rfl | ⟨c, _, rfl⟩ <;> rfl
  have P : ∀ x, prefs (s.set h v).tab x + kids.count x = prefs s.tab x := by
    intro x
    have := prefs_set s h x v
    rw [hg, KV] at this; simpa [kidsOf] using this
  have noparent : ∀ p, h ∉ kidsOf (s.get p) := by
    intro p hp
    have := prefs_pos_of_mem hp
    omega
  have Z : (s.set h v).get 0 = .free := by
    rw [G]; simp only [Ne.symm hne, if_false]; exact hw.zero
  refine ⟨?_, ?_, ?_, ?_, ?_, Z⟩
  · intro x hx
    rw [G, List.count_append]
    have hP := P x
    show _ = s.ext.count x + prefs (s.set h v).tab x + _
    split
    · rename_i e; subst e
      have : incOf v = 0 := by rcases hv with rfl | ⟨c, _, rfl⟩ <;> rfl
      omega
    · rename_i e
      have := hc x hx e
      omega
  · intro p k hk hk0
    rw [G] at hk
    split at hk
    · rw [KV] at hk; simp at hk
    · rename_i e
      have hkh : k ≠ h := fun ek => noparent p (ek ▸ hk)
      have := hw.lower p k hk hk0
      rw [G, G]; simp only [hkh, e, if_false]; exact this
  · intro p; rw [G]; split
    · rcases hv with rfl | ⟨c, _, rfl⟩ <;> simp [lvlOf]
    · exact hw.bound p
  · intro p c hp
    rw [G] at hp
    split at hp
    · rcases hv with rfl | ⟨c', hc', rfl⟩
      · cases hp
      · cases hp; exact hc'
    · exact hw.zombie p c hp
  · intro p ha hi
    rw [G] at ha hi ⊢
    split
    · rename_i e; simp only [e, if_true] at ha
      rcases hv with rfl | ⟨c', _, rfl⟩ <;> simp [isActive] at ha
    · rename_i e; simp only [e, if_false] at ha hi; exact hw.unreach p ha hi

/-- One `unlinkNode(h)` with `h` pending: it cannot fail, keeps the invariant (its children
    become pending if the node was deleted) and uses up the child slots it releases. -/
theorem unlink1_ok {s : St} {h : Nat} {wl : List Nat} (hw : WInv s (h :: wl)) (hne : h ≠ 0) :
    ∃ s1 ks, unlink1 s h = some (s1, ks) ∧ WInv s1 (ks ++ wl) ∧
      kidSum s1.tab + ks.length = kidSum s.tab ∧ s1.pol = s.pol ∧ s1.K = s.K ∧ s1.ext = s.ext := by
  have hch := hw.counts h hne
  rw [List.count_cons_self] at hch
  have hcx : ∀ x, x ≠ 0 → x ≠ h → incOf (s.get x) = s.ext.count x + prefs s.tab x + wl.count x := by
    intro x hx hxh
    have := hw.counts x hx
    rwa [List.count_cons_of_ne (fun e => hxh e.symm)] at this
  cases hg : s.get h with
  | free => rw [hg] at hch; simp [incOf] at hch
  | deleted c => rw [hg] at hch; simp [incOf] at hch
  | active lvl inc0 cc kids =>
    rw [hg] at hch
    cases inc0 with
    | zero => simp [incOf] at hch
    | succ inc =>
      simp only [incOf] at hch
      have KS : ∀ inc' cc', kidSum (s.set h (.active lvl inc' cc' kids)).tab = kidSum s.tab := by
        intro inc' cc'
        have := kidSum_set s h (.active lvl inc' cc' kids)
        rw [hg] at this; simpa [kidsOf] using this
      have KD : ∀ v, kidsOf v = [] → kidSum (s.set h v).tab + kids.length = kidSum s.tab := by
        intro v hv
        have := kidSum_set s h v
        rw [hg, hv] at this; simpa [kidsOf] using this
      by_cases hi : inc ≠ 0
      · refine ⟨s.set h (.active lvl inc cc kids), [], by simp [unlink1, hg, hi], ?_, by simp [KS], rfl, rfl, rfl⟩
        have := winv_recount (ext' := s.ext) (wl' := wl) (inc' := inc) (cc' := cc) hw hg ?_ (fun e => absurd e hi)
        · exact this
        · intro x hx
          split
          · rename_i e; subst e; omega
          · rename_i e; exact hcx x hx e
      · have hi0 : inc = 0 := by omega
        subst hi0
        have hz : s.ext.count h = 0 ∧ prefs s.tab h = 0 := by omega
        have hwl : wl.count h = 0 := by omega
        by_cases hc0 : cc = 0
        · refine ⟨s.set h .free, kids, by simp [unlink1, hg, hc0], ?_, KD _ rfl, rfl, rfl, rfl⟩
          exact winv_delete hw hne hg (Or.inl rfl) hz hcx hwl
        · cases hp : s.pol with
          | pessimistic =>
            refine ⟨s.set h (.deleted cc), kids, by simp [unlink1, hg, hc0, hp], ?_, KD _ rfl, hp, rfl, rfl⟩
            exact winv_delete hw hne hg (Or.inr ⟨cc, by omega, rfl⟩) hz hcx hwl
          | optimistic =>
            refine ⟨s.set h (.active lvl 0 cc kids), [], by simp [unlink1, hg, hc0, hp], ?_, by simp [KS], hp, rfl, rfl⟩
            have := winv_recount (ext' := s.ext) (wl' := wl) (inc' := 0) (cc' := cc) hw hg ?_
              (fun _ => ⟨by omega, hp⟩)
            · exact this
            · intro x hx
              split
              · rename_i e; subst e; omega
              · rename_i e; exact hcx x hx e

/-- a deletion cascade preserves the invariant -/
theorem drain_inv : ∀ (f : Nat) (s : St) (wl : List Nat) (s' : St),
    WInv s wl → drain f s wl = some s' →
    WInv s' [] ∧ s'.pol = s.pol ∧ s'.K = s.K ∧ s'.ext = s.ext
  | _, s, [], s', hw, hd => by
    cases ‹Nat› <;> (simp only [drain, Option.some.injEq] at hd; subst hd; exact ⟨hw, rfl, rfl, rfl⟩)
  | 0, s, _ :: _, s', _, hd => by simp [drain] at hd
  | f+1, s, h :: wl, s', hw, hd => by
    simp only [drain] at hd
    by_cases h0 : h = 0
    · subst h0
      simp only [if_true] at hd
      exact drain_inv f s wl s' (winv_skip0 hw) hd
    · simp only [h0, if_false] at hd
      obtain ⟨s1, ks, hu, hw1, _, hp, hk, he⟩ := unlink1_ok hw h0
      rw [hu] at hd
      obtain ⟨a, b, c, d⟩ := drain_inv f s1 (ks ++ wl) s' hw1 hd
      exact ⟨a, b.trans hp, c.trans hk, d.trans he⟩

/-- with `wl.length + kidSum` fuel a deletion cascade always completes (it never runs into a
    contract violation and never runs out of fuel) -/
theorem drain_total : ∀ (f : Nat) (s : St) (wl : List Nat),
    WInv s wl → wl.length + kidSum s.tab ≤ f → ∃ s', drain f s wl = some s'
  | f, s, [], _, _ => ⟨s, by cases f <;> rfl⟩
  | 0, s, _ :: _, _, hf => by simp at hf
  | f+1, s, h :: wl, hw, hf => by
    simp only [drain]
    by_cases h0 : h = 0
    · subst h0
      simp only [if_true]
      exact drain_total f s wl (winv_skip0 hw) (by simp at hf; omega)
    · simp only [h0, if_false]
      obtain ⟨s1, ks, hu, hw1, hks, _, _, _⟩ := unlink1_ok hw h0
      rw [hu]
      exact drain_total f s1 (ks ++ wl) hw1 (by simp at hf ⊢; omega)

/-- replacing a deleted handle by a free one / another deleted one -/
theorem winv_relabel {s : St} {wl : List Nat} {h c : Nat} {v : HState}
    (hw : WInv s wl) (hg : s.get h = .deleted c) (hv : v = .free ∨ ∃ c', 0 < c' ∧ v = .deleted c') :
    WInv (s.set h v) wl := by
  have G : ∀ x, (s.set h v).get x = if x = h then v else s.get x := fun x => get_set s h x _
  have KV : kidsOf v = [] := by rcases hv with rfl | ⟨c, _, rfl⟩ <;> rfl
  have IV : incOf v = 0 := by rcases hv with rfl | ⟨c, _, rfl⟩ <;> rfl
  have LV : lvlOf v = 0 := by rcases hv with rfl | ⟨c, _, rfl⟩ <;> rfl
  have AV : isActive v = false := by rcases hv with rfl | ⟨c, _, rfl⟩ <;> rfl
  have P : ∀ x, prefs (s.set h v).tab x = prefs s.tab x := by
    intro x
    have := prefs_set s h x v
    rw [hg, KV] at this; simpa [kidsOf] using this
  have Z : (s.set h v).get 0 = .free := by
    have h0 : (0:Nat) ≠ h := by intro e; subst e; rw [hw.zero] at hg; cases hg
    rw [G]; simp only [h0, if_false]; exact hw.zero
  refine ⟨?_, ?_, ?_, ?_, ?_, Z⟩
  · intro x hx
    rw [G]
    show _ = s.ext.count x + prefs (s.set h v).tab x + _
    rw [P]
    have := hw.counts x hx
    split
    · rename_i e; subst e; rw [hg] at this; simp [incOf] at this; omega
    · exact this
  · intro p k hk hk0
    rw [G] at hk
    split at hk
    · rw [KV] at hk; simp at hk
    · rename_i e
      have := hw.lower p k hk hk0
      have hkh : k ≠ h := by
        intro ek; subst ek; rw [hg] at this; simp [isActive] at this
      rw [G, G]; simp only [hkh, e, if_false]; exact this
  · intro p; rw [G]; split
    · omega
    · exact hw.bound p
  · intro p c hp
    rw [G] at hp
    split at hp
    · rcases hv with rfl | ⟨c', hc', rfl⟩
      · cases hp
      · cases hp; exact hc'
    · exact hw.zombie p c hp
  · intro p ha hi
    rw [G] at ha hi ⊢
    split
    · rename_i e; simp only [e, if_true, AV] at ha; cases ha
    · rename_i e; simp only [e, if_false] at ha hi; exact hw.unreach p ha hi

theorem takeRefs_count : ∀ (kids ext ext' : List Nat), takeRefs ext kids = some ext' →
    ∀ x, x ≠ 0 → ext.count x = ext'.count x + kids.count x
  | [], ext, ext', h, x, _ => by simp [takeRefs] at h; subst h; simp
  | k :: ks, ext, ext', h, x, hx => by
    simp only [takeRefs] at h
    by_cases k0 : k = 0
    · subst k0
      simp only [if_true] at h
      have := takeRefs_count ks ext ext' h x hx
      rw [List.count_cons_of_ne (fun e => hx e.symm)]; exact this
    · simp only [k0, if_false] at h
      by_cases km : k ∈ ext
      · simp only [km, if_true] at h
        have := takeRefs_count ks (ext.erase k) ext' h x hx
        by_cases e : x = k
        · subst e
          rw [List.count_cons_self]
          rw [List.count_erase_self] at this
          have : 0 < ext.count x := List.count_pos_iff.mpr km
          omega
        · rw [List.count_cons_of_ne (fun a => e a.symm)]
          rw [List.count_erase_of_ne e] at this
          exact this
      · simp [km] at h

theorem winv_alloc {s : St} {h lvl : Nat} {kids ext' : List Nat}
    (hw : WInv s []) (hne : h ≠ 0) (hg : s.get h = .free)
    (hl : lvl ≤ s.K) (hk : kidsBelow s lvl kids = true) (ht : takeRefs s.ext kids = some ext') :
    WInv { (s.set h (.active lvl 1 0 kids)) with ext := h :: ext' } [] := by
  have G : ∀ x, ({ (s.set h (.active lvl 1 0 kids)) with ext := h :: ext' } : St).get x =
      if x = h then .active lvl 1 0 kids else s.get x := fun x => get_set s h x _
  have P : ∀ x, prefs (s.set h (.active lvl 1 0 kids)).tab x = prefs s.tab x + kids.count x := by
    intro x
    have := prefs_set s h x (.active lvl 1 0 kids)
    rw [hg] at this; simpa [kidsOf] using this
  have hh := hw.counts h hne
  rw [hg] at hh; simp [incOf] at hh
  have noparent : ∀ p, h ∉ kidsOf (s.get p) := by
    intro p hp
    have := prefs_pos_of_mem hp
    omega
  have TC := takeRefs_count kids s.ext ext' ht
  have KB : ∀ k ∈ kids, k ≠ 0 → isActive (s.get k) = true ∧ lvlOf (s.get k) < lvl := by
    intro k hk1 hk0
    simp only [kidsBelow, List.all_eq_true] at hk
    have := hk k hk1
    simpa [hk0] using this
  have Z : ({ (s.set h (.active lvl 1 0 kids)) with ext := h :: ext' } : St).get 0 = .free := by
    rw [G]; simp only [Ne.symm hne, if_false]; exact hw.zero
  refine ⟨?_, ?_, ?_, ?_, ?_, Z⟩
  · intro x hx
    rw [G]
    show _ = (h :: ext').count x + prefs (s.set h (.active lvl 1 0 kids)).tab x + _
    rw [P]
    have t := TC x hx
    split
    · rename_i e; subst e; rw [List.count_cons_self]; simp [incOf]; omega
    · rename_i e
      rw [List.count_cons_of_ne (fun a => e a.symm)]
      have := hw.counts x hx
      simp at this ⊢; omega
  · intro p k hk1 hk0
    rw [G] at hk1
    split at hk1
    · rename_i e
      simp only [kidsOf] at hk1
      have ⟨a, b⟩ := KB k hk1 hk0
      have hkh : k ≠ h := by intro ek; subst ek; rw [hg] at a; simp [isActive] at a
      rw [G, G]; simp only [hkh, e, if_false, if_true]; exact ⟨a, by simpa [lvlOf] using b⟩
    · rename_i e
      have hkh : k ≠ h := fun ek => noparent p (ek ▸ hk1)
      rw [G, G]; simp only [hkh, e, if_false]; exact hw.lower p k hk1 hk0
  · intro p; rw [G]; split
    · simpa [lvlOf, St.set] using hl
    · exact hw.bound p
  · intro p c hp
    rw [G] at hp
    split at hp
    · cases hp
    · exact hw.zombie p c hp
  · intro p ha hi
    rw [G] at ha hi ⊢
    split
    · rename_i e; simp [e, incOf] at hi
    · rename_i e; simp only [e, if_false] at ha hi; exact hw.unreach p ha hi

theorem winv_unlink_start {s : St} {h : Nat} (hw : WInv s []) (hm : h ∈ s.ext) :
    WInv { s with ext := s.ext.erase h } [h] := by
  refine ⟨?_, hw.lower, hw.bound, hw.zombie, hw.unreach, hw.zero⟩
  intro x hx
  have := hw.counts x hx
  show incOf (s.get x) = (s.ext.erase h).count x + prefs s.tab x + _
  by_cases e : x = h
  · subst e
    have hp : 0 < s.ext.count x := List.count_pos_iff.mpr hm
    rw [List.count_erase_self]; simp at this ⊢; omega
  · rw [List.count_erase_of_ne e, List.count_cons_of_ne (fun a => e a.symm)]; simpa using this

/-- every operation preserves the invariant (and never changes policy / number of levels) -/
theorem step_inv {s s' : St} {op : Op} (hw : WInv s []) (hs : step s op = some s') :
    WInv s' [] ∧ s'.pol = s.pol ∧ s'.K = s.K := by
  cases op with
  | link h =>
    simp only [step] at hs
    by_cases h0 : h = 0
    · simp [h0] at hs; subst hs; exact ⟨hw, rfl, rfl⟩
    · simp only [h0, if_false] at hs
      cases hg : s.get h with
      | free => simp [hg] at hs
      | deleted c => simp [hg] at hs
      | active lvl inc cc kids =>
        simp only [hg, Option.some.injEq] at hs
        subst hs
        refine ⟨winv_recount hw hg ?_ (by omega), rfl, rfl⟩
        intro x hx
        have := hw.counts x hx
        split
        · rename_i e; subst e; rw [hg] at this; rw [List.count_cons_self]; simp [incOf] at *; omega
        · rename_i e; rw [List.count_cons_of_ne (fun a => e a.symm)]; exact this
  | unlink h =>
    simp only [step] at hs
    by_cases h0 : h = 0
    · simp [h0] at hs; subst hs; exact ⟨hw, rfl, rfl⟩
    · simp only [h0, if_false] at hs
      by_cases hm : h ∈ s.ext
      · simp only [hm, if_true] at hs
        obtain ⟨a, b, c, _⟩ := drain_inv _ _ _ _ (winv_unlink_start hw hm) hs
        exact ⟨a, b, c⟩
      · simp [hm] at hs
  | cache h =>
    simp only [step] at hs
    by_cases h0 : h = 0
    · simp [h0] at hs; subst hs; exact ⟨hw, rfl, rfl⟩
    · simp only [h0, if_false] at hs
      cases hg : s.get h with
      | free => simp [hg] at hs
      | deleted c => simp [hg] at hs
      | active lvl inc cc kids =>
        simp only [hg, Option.some.injEq] at hs
        subst hs
        have hu := hw.unreach h (by rw [hg]; rfl)
        rw [hg] at hu
        have := winv_recount (ext' := s.ext) (wl' := []) (inc' := inc) (cc' := cc+1) hw hg ?_
          (fun e => ⟨by omega, (hu (by simpa [incOf] using e)).2⟩)
        · exact ⟨this, rfl, rfl⟩
        · intro x hx
          have := hw.counts x hx
          split
          · rename_i e; subst e; rw [hg] at this; simpa [incOf] using this
          · exact this
  | uncache h =>
    simp only [step] at hs
    by_cases h0 : h = 0
    · simp [h0] at hs; subst hs; exact ⟨hw, rfl, rfl⟩
    · simp only [h0, if_false] at hs
      cases hg : s.get h with
      | free => simp [hg] at hs
      | deleted c0 =>
        cases c0 with
        | zero => simp [hg] at hs
        | succ c =>
          simp only [hg] at hs
          by_cases hc : c = 0
          · simp only [hc, if_true, Option.some.injEq] at hs
            subst hs
            exact ⟨winv_relabel hw hg (Or.inl rfl), rfl, rfl⟩
          · simp only [hc, if_false, Option.some.injEq] at hs
            subst hs
            exact ⟨winv_relabel hw hg (Or.inr ⟨c, by omega, rfl⟩), rfl, rfl⟩
      | active lvl inc cc0 kids =>
        cases cc0 with
        | zero => simp [hg] at hs
        | succ cc =>
          simp only [hg] at hs
          have hcnt := hw.counts h h0
          rw [hg] at hcnt; simp [incOf] at hcnt
          by_cases hlast : cc = 0 ∧ inc = 0
          · simp only [hlast, and_self, if_true] at hs
            obtain ⟨rfl, rfl⟩ := hlast
            have hd := winv_delete (wl := []) (v := .free) hw h0 hg (Or.inl rfl) (by omega)
              (fun x hx _ => hw.counts x hx) (by simp)
            simp only [List.append_nil] at hd
            obtain ⟨a, b, c, _⟩ := drain_inv _ _ _ _ hd hs
            exact ⟨a, b, c⟩
          · simp only [hlast, if_false, Option.some.injEq] at hs
            subst hs
            have hu := hw.unreach h (by rw [hg]; rfl)
            rw [hg] at hu
            have := winv_recount (ext' := s.ext) (wl' := []) (inc' := inc) (cc' := cc) hw hg ?_
              (fun e => ⟨by omega, (hu (by simpa [incOf] using e)).2⟩)
            · exact ⟨this, rfl, rfl⟩
            · intro x hx
              have := hw.counts x hx
              split
              · rename_i e; subst e; rw [hg] at this; simpa [incOf] using this
              · exact this
  | alloc h lvl kids =>
    simp only [step] at hs
    by_cases h0 : h = 0
    · simp [h0] at hs
    · simp only [h0, if_false] at hs
      cases hg : s.get h with
      | deleted c => simp [hg] at hs
      | active lvl inc cc kids => simp [hg] at hs
      | free =>
        simp only [hg] at hs
        by_cases hc : 1 ≤ lvl ∧ lvl ≤ s.K ∧ kidsBelow s lvl kids = true
        · simp only [hc, and_self, if_true] at hs
          cases ht : takeRefs s.ext kids with
          | none => simp [ht] at hs
          | some ext' =>
            simp only [ht, Option.some.injEq] at hs
            subst hs
            exact ⟨winv_alloc hw h0 hg hc.2.1 hc.2.2 ht, rfl, rfl⟩
        · simp [hc] at hs

/-- the invariant holds in every state reachable by a `Paired` trace -/
theorem run_inv : ∀ (ops : List Op) (s s' : St), WInv s [] → run s ops = some s' →
    WInv s' [] ∧ s'.pol = s.pol ∧ s'.K = s.K
  | [], s, s', hw, hr => by simp [run] at hr; subst hr; exact ⟨hw, rfl, rfl⟩
  | op :: ops, s, s', hw, hr => by
    simp only [run] at hr
    cases h1 : step s op with
    | none => simp [h1] at hr
    | some s1 =>
      simp only [h1] at hr
      obtain ⟨w1, p1, k1⟩ := step_inv hw h1
      obtain ⟨w2, p2, k2⟩ := run_inv ops s1 s' w1 hr
      exact ⟨w2, p2.trans p1, k2.trans k1⟩

/-! ### Node contents never change while a node is alive -/

/-- `s'` has no new nodes, and every node of `s'` has the level and children it had in `s` -/
def Shrinks (s s' : St) : Prop :=
  ∀ p, isActive (s'.get p) = true →
    isActive (s.get p) = true ∧ lvlOf (s'.get p) = lvlOf (s.get p) ∧ kidsOf (s'.get p) = kidsOf (s.get p)

theorem shrinks_refl (s : St) : Shrinks s s := fun _ h => ⟨h, rfl, rfl⟩

theorem shrinks_trans {a b c : St} (h1 : Shrinks a b) (h2 : Shrinks b c) : Shrinks a c := by
  intro p hp
  obtain ⟨x, y, z⟩ := h2 p hp
  obtain ⟨x', y', z'⟩ := h1 p x
  exact ⟨x', y.trans y', z.trans z'⟩

theorem shrinks_set {s : St} {h : Nat} {v : HState}
    (hv : isActive v = true → isActive (s.get h) = true ∧ lvlOf v = lvlOf (s.get h) ∧ kidsOf v = kidsOf (s.get h)) :
    Shrinks s (s.set h v) := by
  intro p hp
  rw [get_set] at hp ⊢
  split
  · rename_i e; subst e; simp only [if_true] at hp; exact hv hp
  · rename_i e; simp only [e, if_false] at hp; exact ⟨hp, rfl, rfl⟩

theorem unlink1_shrinks {s s1 : St} {h : Nat} {ks : List Nat} (hu : unlink1 s h = some (s1, ks)) :
    Shrinks s s1 := by
  unfold unlink1 at hu
  split at hu
  · rename_i lvl inc cc kids hg
    split at hu
    · simp only [Option.some.injEq, Prod.mk.injEq] at hu; obtain ⟨rfl, _⟩ := hu
      exact shrinks_set (fun _ => by rw [hg]; exact ⟨rfl, rfl, rfl⟩)
    · split at hu
      · simp only [Option.some.injEq, Prod.mk.injEq] at hu; obtain ⟨rfl, _⟩ := hu
        exact shrinks_set (fun h => by simp [isActive] at h)
      · split at hu
        · simp only [Option.some.injEq, Prod.mk.injEq] at hu; obtain ⟨rfl, _⟩ := hu
          exact shrinks_set (fun h => by simp [isActive] at h)
        · simp only [Option.some.injEq, Prod.mk.injEq] at hu; obtain ⟨rfl, _⟩ := hu
          exact shrinks_set (fun _ => by rw [hg]; exact ⟨rfl, rfl, rfl⟩)
  · cases hu

theorem drain_shrinks : ∀ (f : Nat) (s : St) (wl : List Nat) (s' : St),
    drain f s wl = some s' → Shrinks s s'
  | f, s, [], s', hd => by
    cases f <;> (simp only [drain, Option.some.injEq] at hd; subst hd; exact shrinks_refl _)
  | 0, s, _ :: _, s', hd => by simp [drain] at hd
  | f+1, s, h :: wl, s', hd => by
    simp only [drain] at hd
    by_cases h0 : h = 0
    · simp only [h0, if_true] at hd; exact drain_shrinks f s wl s' hd
    · simp only [h0, if_false] at hd
      cases hu : unlink1 s h with
      | none => simp [hu] at hd
      | some r =>
        obtain ⟨s1, ks⟩ := r
        simp only [hu] at hd
        exact shrinks_trans (unlink1_shrinks hu) (drain_shrinks f s1 (ks ++ wl) s' hd)

/-- a node that is alive before and after an operation has the same level and children -/
theorem step_stable {s s' : St} {op : Op} (hs : step s op = some s') :
    ∀ p, isActive (s.get p) = true → isActive (s'.get p) = true →
      lvlOf (s'.get p) = lvlOf (s.get p) ∧ kidsOf (s'.get p) = kidsOf (s.get p) := by
  have fromShrinks : Shrinks s s' → ∀ p, isActive (s.get p) = true → isActive (s'.get p) = true →
      lvlOf (s'.get p) = lvlOf (s.get p) ∧ kidsOf (s'.get p) = kidsOf (s.get p) :=
    fun h p _ hp => (h p hp).2
  cases op with
  | link h =>
    simp only [step] at hs
    by_cases h0 : h = 0
    · simp [h0] at hs; subst hs; exact fun _ _ _ => ⟨rfl, rfl⟩
    · simp only [h0, if_false] at hs
      split at hs
      · rename_i lvl inc cc kids hg
        simp only [Option.some.injEq] at hs; subst hs
        exact fromShrinks (shrinks_set (s := s) (fun _ => by rw [hg]; exact ⟨rfl, rfl, rfl⟩))
      · cases hs
  | unlink h =>
    simp only [step] at hs
    by_cases h0 : h = 0
    · simp [h0] at hs; subst hs; exact fun _ _ _ => ⟨rfl, rfl⟩
    · simp only [h0, if_false] at hs
      split at hs
      · have := drain_shrinks _ _ _ _ hs
        exact fromShrinks (fun p hp => this p hp)
      · cases hs
  | cache h =>
    simp only [step] at hs
    by_cases h0 : h = 0
    · simp [h0] at hs; subst hs; exact fun _ _ _ => ⟨rfl, rfl⟩
    · simp only [h0, if_false] at hs
      split at hs
      · rename_i lvl inc cc kids hg
        simp only [Option.some.injEq] at hs; subst hs
        exact fromShrinks (shrinks_set (s := s) (fun _ => by rw [hg]; exact ⟨rfl, rfl, rfl⟩))
      · cases hs
  | uncache h =>
    simp only [step] at hs
    by_cases h0 : h = 0
    · simp [h0] at hs; subst hs; exact fun _ _ _ => ⟨rfl, rfl⟩
    · simp only [h0, if_false] at hs
      split at hs
      · rename_i lvl inc cc kids hg
        split at hs
        · exact fromShrinks (shrinks_trans (shrinks_set (fun h => by simp [isActive] at h))
            (drain_shrinks _ _ _ _ hs))
        · simp only [Option.some.injEq] at hs; subst hs
          exact fromShrinks (shrinks_set (s := s) (fun _ => by rw [hg]; exact ⟨rfl, rfl, rfl⟩))
      · split at hs <;>
        · simp only [Option.some.injEq] at hs; subst hs
          exact fromShrinks (shrinks_set (fun h => by simp [isActive] at h))
      · cases hs
  | alloc h lvl kids =>
    simp only [step] at hs
    by_cases h0 : h = 0
    · simp [h0] at hs
    · simp only [h0, if_false] at hs
      split at hs
      · rename_i hg
        split at hs
        · split at hs
          · simp only [Option.some.injEq] at hs; subst hs
            intro p hp _
            have : p ≠ h := by intro e; subst e; rw [hg] at hp; simp [isActive] at hp
            have G : ∀ ext', ({ (s.set h (.active lvl 1 0 kids)) with ext := ext' } : St).get p = s.get p := by
              intro ext'
              have e := get_set s h p (.active lvl 1 0 kids)
              simp only [this, if_false] at e
              exact e
            rw [G]; exact ⟨rfl, rfl⟩
          · cases hs
        · cases hs
      · cases hs

theorem active_of_kids {e : HState} {k : Nat} (h : k ∈ kidsOf e) : isActive e = true := by
  cases e <;> simp [kidsOf] at h ⊢ <;> rfl

/-- no node survives without a reason: if no outside reference exists and no node is kept alive
    by the "unreachable but cached" rule, then no node is active (induction from the top level
    down: the highest active node has no parent). -/
theorem no_active_of_no_ext {s : St} (hw : WInv s []) (hext : s.ext = [])
    (hreason : ∀ p, isActive (s.get p) = true → incOf (s.get p) ≠ 0) :
    ∀ (n p : Nat), s.K - lvlOf (s.get p) ≤ n → isActive (s.get p) = false
  | n, p, hn => by
    cases ha : isActive (s.get p) with
    | false => rfl
    | true =>
      exfalso
      have p0 : p ≠ 0 := by intro e; subst e; rw [hw.zero] at ha; simp [isActive] at ha
      have hc := hw.counts p p0
      rw [hext] at hc
      simp at hc
      have hpos : 0 < prefs s.tab p := by have := hreason p ha; omega
      obtain ⟨q, hq⟩ := mem_of_prefs_pos hpos
      have hlow := (hw.lower q p hq p0).2
      have hb := hw.bound q
      have hqa : isActive (s.get q) = true := active_of_kids hq
      cases n with
      | zero => omega
      | succ n =>
        have := no_active_of_no_ext hw hext hreason n q (by omega)
        rw [hqa] at this; cases this

/-! ## Property theorems -/

/-- `counts_exact`: after any history of API calls that respects the link/unlink pairing, the
    incoming count recorded in `node_headers` for every handle equals the number of references
    that actually exist: outside references (root edges, unpacked nodes under construction) plus
    child slots of live nodes.  In particular free and deleted handles are referenced by nobody. -/
theorem counts_exact (pol : Policy) (K : Nat) (ops : List Op) (s : St)
    (hr : run (init pol K) ops = some s) :
    ∀ h, h ≠ 0 → incOf (s.get h) = s.ext.count h + prefs s.tab h := by
  intro h hne
  have := (run_inv ops _ _ (winv_init pol K) hr).1.counts h hne
  simpa using this

example :
    let ops := [Op.alloc 1 1 [0, 0], .alloc 2 1 [0, 0], .link 1, .link 2, .alloc 3 2 [1, 2], .link 1,
                .cache 3, .unlink 3]
    (run (init .pessimistic 3) ops) =
      some ⟨.pessimistic, 3, [.free, .active 1 2 0 [0, 0], .active 1 1 0 [0, 0], .deleted 1], [1, 2, 1]⟩ := by
  decide

/-- `no_dangling`: a live node never points to a reclaimed (free or deleted) handle; its
    non-terminal children are live nodes, and they sit at strictly lower levels. -/
theorem no_dangling (pol : Policy) (K : Nat) (ops : List Op) (s : St)
    (hr : run (init pol K) ops = some s) :
    ∀ p k, isActive (s.get p) = true → k ∈ kidsOf (s.get p) → k ≠ 0 →
      isActive (s.get k) = true ∧ lvlOf (s.get k) < lvlOf (s.get p) := by
  intro p k _ hk hk0
  exact (run_inv ops _ _ (winv_init pol K) hr).1.lower p k hk hk0

example :
    let ops := [Op.alloc 1 1 [0, 0], .alloc 2 1 [0, 0], .link 1, .link 2, .alloc 3 2 [1, 2]]
    (run (init .optimistic 2) ops).map (fun s => (kidsOf (s.get 3), isActive (s.get 1), isActive (s.get 2),
        lvlOf (s.get 1), lvlOf (s.get 3))) = some ([1, 2], true, true, 1, 2) := by
  decide

/-- `held_alive`: every handle to which an outside reference exists (a user `dd_edge`, a slot of an
    unpacked node) is a live node. -/
theorem held_alive (pol : Policy) (K : Nat) (ops : List Op) (s : St)
    (hr : run (init pol K) ops = some s) :
    ∀ h, h ≠ 0 → h ∈ s.ext → isActive (s.get h) = true ∧ 0 < incOf (s.get h) := by
  intro h hne hm
  have hc := counts_exact pol K ops s hr h hne
  have : 0 < s.ext.count h := List.count_pos_iff.mpr hm
  have hi : 0 < incOf (s.get h) := by omega
  refine ⟨?_, hi⟩
  cases hg : s.get h <;> rw [hg] at hi <;> simp [incOf] at hi
  rfl

example :
    let ops := [Op.alloc 1 1 [0, 0], .link 1, .cache 1]
    (run (init .pessimistic 2) ops).map (fun s => (s.ext, s.get 1)) =
      some ([1, 1], .active 1 2 1 [0, 0]) := by
  decide

/-- `content_stable`: an operation never changes the level or the children of a node that is alive
    before and after it (so, with `held_alive` and `no_dangling`, the whole sub-graph under an edge
    the user keeps holding is unchanged: the edge keeps denoting the same function). -/
theorem content_stable (s s' : St) (op : Op) (hs : step s op = some s') :
    ∀ p, isActive (s.get p) = true → isActive (s'.get p) = true →
      lvlOf (s'.get p) = lvlOf (s.get p) ∧ kidsOf (s'.get p) = kidsOf (s.get p) :=
  step_stable hs

example :
    let s : St := ⟨.optimistic, 2, [.free, .active 1 3 0 [0, 0], .active 2 1 0 [1, 1]], [2, 1]⟩
    (step s (.unlink 2)).map (fun s' => (s'.get 1, s'.get 2)) =
      some (.active 1 1 0 [0, 0], .free) := by
  decide

/-- `reuse_only_free`: `getFreeNodeHandle` (the `alloc` step) can only hand out a handle that is
    free — incoming count 0, cache count 0 — and, in every reachable state, such a handle is
    referenced by nobody (no outside reference, no child slot of a live node). -/
theorem reuse_only_free (pol : Policy) (K : Nat) (ops : List Op) (s s' : St)
    (hr : run (init pol K) ops = some s) (h lvl : Nat) (kids : List Nat)
    (ha : step s (.alloc h lvl kids) = some s') :
    s.get h = .free ∧ incOf (s.get h) = 0 ∧ ccOf (s.get h) = 0 ∧
      s.ext.count h = 0 ∧ prefs s.tab h = 0 := by
  simp only [step] at ha
  by_cases h0 : h = 0
  · simp [h0] at ha
  · simp only [h0, if_false] at ha
    cases hg : s.get h with
    | deleted c => simp [hg] at ha
    | active lvl inc cc kids => simp [hg] at ha
    | free =>
      have hc := counts_exact pol K ops s hr h h0
      rw [hg] at hc; simp [incOf] at hc
      exact ⟨rfl, rfl, rfl, by omega, by omega⟩

example :
    let ops := [Op.alloc 1 1 [0, 0], .unlink 1]
    (run (init .pessimistic 2) ops).map (fun s => (s.get 1, (step s (.alloc 1 2 [0, 0])).isSome)) =
      some (.free, true) := by
  decide

/-- `no_reuse_while_cached`: a handle that some compute-table entry still mentions (cache count
    > 0) is never handed out again, whether its node is alive, unreachable or already deleted. -/
theorem no_reuse_while_cached (s : St) (h lvl : Nat) (kids : List Nat)
    (hc : 0 < ccOf (s.get h)) : step s (.alloc h lvl kids) = none := by
  simp only [step]
  by_cases h0 : h = 0
  · simp [h0]
  · simp only [h0, if_false]
    cases hg : s.get h with
    | free => rw [hg] at hc; simp [ccOf] at hc
    | deleted c => rfl
    | active lvl inc cc kids => rfl

example : step ⟨.pessimistic, 3, [.free, .active 1 2 0 [0, 0], .active 1 1 0 [0, 0], .deleted 1], [1, 2, 1]⟩
    (.alloc 3 2 [1, 2]) = none := by decide

/-- `all_reclaimed`: once the user has released every edge (no outside reference) and the compute
    tables are empty (every cache count 0), every handle is free again: nothing leaks, under
    either policy. -/
theorem all_reclaimed (pol : Policy) (K : Nat) (ops : List Op) (s : St)
    (hr : run (init pol K) ops = some s) (hext : s.ext = []) (hcc : ∀ h, ccOf (s.get h) = 0) :
    ∀ h, s.get h = .free := by
  have hw := (run_inv ops _ _ (winv_init pol K) hr).1
  intro h
  have hreason : ∀ p, isActive (s.get p) = true → incOf (s.get p) ≠ 0 := by
    intro p ha hi
    have := (hw.unreach p ha hi).1
    have := hcc p
    omega
  have hna := no_active_of_no_ext hw hext hreason (s.K - lvlOf (s.get h)) h (Nat.le_refl _)
  cases hg : s.get h with
  | free => rfl
  | active lvl inc cc kids => rw [hg] at hna; simp [isActive] at hna
  | deleted c =>
    have := hw.zombie h c hg
    have := hcc h
    rw [hg] at this; simp [ccOf] at this; omega

example :
    let ops := [Op.alloc 1 1 [0, 0], .alloc 2 1 [0, 0], .link 1, .alloc 3 2 [1, 2], .cache 3, .cache 1,
                .unlink 3, .uncache 1, .unlink 1, .uncache 3]
    (run (init .optimistic 3) ops).map (fun s => (s.ext, s.tab)) =
      some ([], [.free, .free, .free, .free]) := by
  decide

/-- `all_reclaimed_pessimistic`: under the pessimistic policy no node outlives the last outside
    reference, even while compute-table entries still mention it (only deleted handles remain). -/
theorem all_reclaimed_pessimistic (K : Nat) (ops : List Op) (s : St)
    (hr : run (init .pessimistic K) ops = some s) (hext : s.ext = []) :
    ∀ h, isActive (s.get h) = false := by
  obtain ⟨hw, hp, _⟩ := run_inv ops _ _ (winv_init .pessimistic K) hr
  intro h
  have hreason : ∀ p, isActive (s.get p) = true → incOf (s.get p) ≠ 0 := by
    intro p ha hi
    have := (hw.unreach p ha hi).2
    rw [hp] at this; cases this
  exact no_active_of_no_ext hw hext hreason (s.K - lvlOf (s.get h)) h (Nat.le_refl _)

example :
    let ops := [Op.alloc 1 1 [0, 0], .alloc 2 1 [0, 0], .link 1, .alloc 3 2 [1, 2], .cache 3, .cache 1,
                .unlink 3, .unlink 1]
    (run (init .pessimistic 3) ops).map (fun s => (s.ext, s.tab)) =
      some ([], [.free, .deleted 1, .free, .deleted 1]) := by
  decide

/-- `release_never_fails`: the API contract is sufficient — in every reachable state, releasing a
    reference one holds (`unlinkNode`) and removing a cache mark one placed (`uncacheNode`) are
    always legal: the deletion cascade never meets a handle that is not a live node with a
    positive count (none of the `MEDDLY_DCASSERT`s in `unlinkNode`/`deleteNode` can fire) and the
    fuel bound of the model is never exhausted. -/
theorem release_never_fails (pol : Policy) (K : Nat) (ops : List Op) (s : St)
    (hr : run (init pol K) ops = some s) (h : Nat) :
    (h ∈ s.ext → (step s (.unlink h)).isSome = true) ∧
    (0 < ccOf (s.get h) → (step s (.uncache h)).isSome = true) := by
  have hw := (run_inv ops _ _ (winv_init pol K) hr).1
  constructor
  · intro hm
    simp only [step]
    by_cases h0 : h = 0
    · simp [h0]
    · simp only [h0, if_false, hm, if_true]
      obtain ⟨s', hs'⟩ := drain_total (fuelFor s) _ [h] (winv_unlink_start hw hm)
        (by simp [fuelFor])
      simp [hs']
  · intro hc
    simp only [step]
    by_cases h0 : h = 0
    · simp [h0]
    · simp only [h0, if_false]
      cases hg : s.get h with
      | free => rw [hg] at hc; simp [ccOf] at hc
      | deleted c0 =>
        rw [hg] at hc; simp only [ccOf] at hc
        cases c0 with
        | zero => omega
        | succ c => by_cases e : c = 0 <;> simp [e]
      | active lvl inc cc0 kids =>
        rw [hg] at hc; simp only [ccOf] at hc
        cases cc0 with
        | zero => omega
        | succ cc =>
          by_cases hlast : cc = 0 ∧ inc = 0
          · simp only [hlast, and_self, if_true]
            obtain ⟨rfl, rfl⟩ := hlast
            have hcnt := hw.counts h h0
            rw [hg] at hcnt; simp [incOf] at hcnt
            have hd := winv_delete (wl := []) (v := .free) hw h0 hg (Or.inl rfl) (by omega)
              (fun x hx _ => hw.counts x hx) (by simp)
            simp only [List.append_nil] at hd
            have hk := kidSum_set s h .free
            rw [hg] at hk; simp [kidsOf] at hk
            obtain ⟨s', hs'⟩ := drain_total (fuelFor s) _ kids hd (by simp [fuelFor]; omega)
            simp [hs']
          · simp [hlast]

example :
    let ops := [Op.alloc 1 1 [0, 0], .link 1, .alloc 2 2 [1, 1], .cache 2]
    (run (init .optimistic 2) ops).map (fun s => ((step s (.unlink 2)).isSome, (step s (.uncache 2)).isSome)) =
      some (true, true) := by
  decide

end Meddly.NodeLife

/-
`#print axioms` (Lean 4.33.0):
  counts_exact              [propext, Classical.choice, Quot.sound]
  no_dangling               [propext, Classical.choice, Quot.sound]
  held_alive                [propext, Classical.choice, Quot.sound]
  content_stable            [propext, Quot.sound]
  reuse_only_free           [propext, Classical.choice, Quot.sound]
  no_reuse_while_cached     [propext, Quot.sound]
  all_reclaimed             [propext, Classical.choice, Quot.sound]
  all_reclaimed_pessimistic [propext, Classical.choice, Quot.sound]
  release_never_fails       [propext, Classical.choice, Quot.sound]
-/
