/-
  C18  "Memory managers never hand out overlapping or corrupted chunks".

  Model of MEDDLY's five memory-manager styles
  (src/memory.h, src/memory_managers/{orig_grid,array_grid,heap_manager,malloc_style,freelists}.cc,
  hole_base.h).

  * `Alloc`     – the specification automaton every style must satisfy (live chunks,
                  request / recycle legality).  Two address interpretations (`Mode`):
                  `slot`   – a handle is the index of the first slot of the chunk inside one
                             shared slot array (orig grid, array+grid, heap, free-lists:
                             `getChunkAddress(h) = base + sizeof(INT)*h`);
                  `opaque` – a handle is an opaque identifier owning a private address space
                             (malloc style: the handle is the `malloc` pointer itself, chunk
                             multiplier 1, base 0; all we may require is that a live handle
                             is not handed out again).
  * `Tiling`    – refinement model of the three hole-based managers (`hole_manager<INT>`):
                  the arena `1..last` is a sequence of tiles (live chunk / hole).
                  What the code does (read from the sources, NOT what one would expect):
                    - `requestChunk(n)` never changes `n` on success: got = want, always;
                    - a hole of size `s ≥ n` is used from its START; if `s > n` the remainder
                      `s-n` (ANY size ≥ 1, "we even recycle holes of size 1") becomes a hole;
                      there is no minimum hole size, holes too small for the index
                      (< 5 slots orig grid / heap, < 4 array+grid) simply stay untracked
                      until a neighbour is recycled;
                    - otherwise the chunk is taken from the end of the array
                      (`allocateFromArray`: handle = last_used_slot+1);
                    - `recycleChunk` turns the chunk into a hole, merges with the hole on its
                      left, then – if the result is the last tile – gives it back to the
                      array (`recycleHoleInArray`), else merges with the hole on its right.
                      Hence: never two adjacent holes, and the last tile is never a hole.
                  WHICH hole the index structure (grid / lists / heap / current hole) picks
                  is deliberately not modelled: the handle returned by the library is the
                  nondeterministic choice, validated by `Tiling.step`.
  * `FreeList`  – refinement model of the free-list manager (no merging at all, one list per
                  size 1..15, the array only grows).
  * `Mem`       – contents: memory as `Addr → Nat`, manager writes only outside chunks that
                  stay live across the step.
-/
namespace Meddly
namespace MemMan

/-! ## Styles -/

inductive Style where
  | origGrid | arrayGrid | heap | malloc | freeLists
  deriving DecidableEq, Repr, Inhabited

inductive Mode where
  | slot | opaque
  deriving DecidableEq, Repr

def Style.mode : Style → Mode
  | .malloc => .opaque
  | _ => .slot

/-- the three managers derived from `hole_manager<INT>` -/
def Style.holeBased : Style → Bool
  | .origGrid | .arrayGrid | .heap => true
  | _ => false

/-- `firstSlotMustClearMSB()` = `lastSlotMustClearMSB()` -/
def Style.mustClearMSB (s : Style) : Bool := s.holeBased

/-- `mustRecycleManually()` -/
def Style.manual : Style → Bool
  | .malloc => true
  | _ => false

/-- largest request the style accepts (`freelist_manager::maxEntrySize`) -/
def Style.maxRequest : Style → Option Nat
  | .freeLists => some 15
  | _ => none

/-- holes smaller than this are not entered into the index structure (never chosen) -/
def Style.minTracked : Style → Nat
  | .origGrid => 5
  | .heap => 5
  | .arrayGrid => 4
  | _ => 0

def Style.name : Style → String
  | .origGrid => "orig"
  | .arrayGrid => "array"
  | .heap => "heap"
  | .malloc => "malloc"
  | .freeLists => "free"

def Style.ofName : String → Option Style
  | "orig" => some .origGrid
  | "array" => some .arrayGrid
  | "heap" => some .heap
  | "malloc" => some .malloc
  | "free" => some .freeLists
  | _ => none

/-! ## Chunks, addresses, operations -/

structure Chunk where
  h : Nat
  size : Nat
  deriving DecidableEq, Repr, Inhabited

/-- an address: (space, index).  Slot mode: space 0, index = slot number.
    Opaque mode: space = handle, index = offset inside the chunk. -/
abbrev Addr := Nat × Nat

def owns (m : Mode) (c : Chunk) (a : Addr) : Prop :=
  match m with
  | .slot => a.1 = 0 ∧ c.h ≤ a.2 ∧ a.2 < c.h + c.size
  | .opaque => a.1 = c.h ∧ a.2 < c.size

instance (m : Mode) (c : Chunk) (a : Addr) : Decidable (owns m c a) := by
  cases m <;> unfold owns <;> infer_instance

/-- the address of slot `i` of chunk `c` -/
def slotAddr (m : Mode) (c : Chunk) (i : Nat) : Addr :=
  match m with
  | .slot => (0, c.h + i)
  | .opaque => (c.h, i)

def disjoint (m : Mode) (a b : Chunk) : Prop :=
  match m with
  | .slot => a.h + a.size ≤ b.h ∨ b.h + b.size ≤ a.h
  | .opaque => a.h ≠ b.h

instance (m : Mode) (a b : Chunk) : Decidable (disjoint m a b) := by
  cases m <;> unfold disjoint <;> infer_instance

theorem disjoint_symm {m : Mode} {a b : Chunk} (h : disjoint m a b) : disjoint m b a := by
  cases m <;> simp only [disjoint] at * <;> omega

theorem owns_slotAddr {m : Mode} {c : Chunk} {i : Nat} (hi : i < c.size) :
    owns m c (slotAddr m c i) := by
  cases m <;> simp only [owns, slotAddr, true_and] <;> omega

theorem disjoint_no_common {m : Mode} {a b : Chunk} (h : disjoint m a b) (x : Addr) :
    ¬ (owns m a x ∧ owns m b x) := by
  cases m <;> simp only [disjoint, owns] at * <;> omega

/-- the decidable test is exactly "no common address" (so the specification is not
    stricter than the property), for non-empty chunks -/
theorem disjoint_iff_no_common {m : Mode} {a b : Chunk} (ha : 1 ≤ a.size) (hb : 1 ≤ b.size) :
    disjoint m a b ↔ ∀ x, ¬ (owns m a x ∧ owns m b x) := by
  constructor
  · exact disjoint_no_common
  · intro h
    cases m
    · -- slot
      simp only [disjoint]
      by_cases hab : a.h ≤ b.h
      · by_cases hlt : b.h < a.h + a.size
        · exact absurd ⟨by simp only [owns, true_and]; omega, by simp only [owns, true_and]; omega⟩ (h (0, b.h))
        · omega
      · by_cases hlt : a.h < b.h + b.size
        · exact absurd ⟨by simp only [owns, true_and]; omega, by simp only [owns, true_and]; omega⟩ (h (0, a.h))
        · omega
    · -- opaque
      simp only [disjoint]
      intro heq
      exact absurd ⟨by simp only [owns, true_and]; omega, by simp only [owns]; omega⟩ (h (a.h, 0))

inductive Op where
  /-- `requestChunk(numSlots = want)` returned `handle`, `numSlots` became `got` -/
  | request (want got handle : Nat)
  /-- `recycleChunk(handle, size)` -/
  | recycle (handle size : Nat)
  deriving DecidableEq, Repr, Inhabited

/-! ## (a) Specification automaton -/

namespace Alloc

abbrev State := List Chunk

def legal (m : Mode) (s : State) : Op → Prop
  | .request want got h => 1 ≤ want ∧ want ≤ got ∧ 1 ≤ h ∧ ∀ c ∈ s, disjoint m ⟨h, got⟩ c
  | .recycle h n => (⟨h, n⟩ : Chunk) ∈ s

instance (m : Mode) (s : State) (op : Op) : Decidable (legal m s op) := by
  cases op <;> unfold legal <;> infer_instance

/-- effect of an operation (defined also for illegal ones, so that a checker can go on) -/
def apply (s : State) : Op → State
  | .request _ got h => ⟨h, got⟩ :: s
  | .recycle h n => s.filter (fun c => decide (c ≠ ⟨h, n⟩))

def step (m : Mode) (s : State) (op : Op) : Option State :=
  if legal m s op then some (apply s op) else none

def run (m : Mode) : State → List Op → Option State
  | s, [] => some s
  | s, op :: ops =>
    match step m s op with
    | none => none
    | some s' => run m s' ops

/-- invariant of reachable states -/
def Inv (m : Mode) (s : State) : Prop :=
  s.Pairwise (disjoint m) ∧ ∀ c ∈ s, 1 ≤ c.size ∧ 1 ≤ c.h

theorem step_some {m : Mode} {s s' : State} {op : Op} (h : step m s op = some s') :
    legal m s op ∧ s' = apply s op := by
  unfold step at h
  split at h
  · rename_i hl; exact ⟨hl, by injection h with h; exact h.symm⟩
  · cases h

theorem inv_step {m : Mode} {s s' : State} {op : Op} (hi : Inv m s)
    (h : step m s op = some s') : Inv m s' := by
  obtain ⟨hl, rfl⟩ := step_some h
  cases op with
  | request want got hd =>
    obtain ⟨h1, h2, h3, h4⟩ := hl
    refine ⟨List.pairwise_cons.mpr ⟨h4, hi.1⟩, ?_⟩
    intro c hc
    rcases List.mem_cons.mp hc with rfl | hc
    · exact ⟨by show 1 ≤ got; omega, h3⟩
    · exact hi.2 c hc
  | recycle hd n =>
    refine ⟨hi.1.filter _, ?_⟩
    intro c hc
    exact hi.2 c (List.mem_filter.mp hc).1

theorem run_append (m : Mode) (s : State) (xs ys : List Op) :
    run m s (xs ++ ys) = (run m s xs).bind (fun s' => run m s' ys) := by
  induction xs generalizing s with
  | nil => rfl
  | cons x xs ih =>
    simp only [List.cons_append, run]
    cases step m s x with
    | none => rfl
    | some s' => exact ih s'

theorem inv_run {m : Mode} {s s' : State} {ops : List Op} (hi : Inv m s)
    (h : run m s ops = some s') : Inv m s' := by
  induction ops generalizing s with
  | nil => simp only [run] at h; injection h with h; exact h ▸ hi
  | cons op ops ih =>
    simp only [run] at h
    cases hs : step m s op with
    | none => rw [hs] at h; cases h
    | some s1 => rw [hs] at h; exact ih (inv_step hi hs) h

theorem inv_nil (m : Mode) : Inv m [] := ⟨List.Pairwise.nil, fun _ h => nomatch h⟩

/-- every op of an accepted trace was legal: requests grant at least what was wanted -/
theorem run_requests_ok {m : Mode} {s s' : State} {ops : List Op}
    (h : run m s ops = some s') :
    ∀ w g hd, Op.request w g hd ∈ ops → 1 ≤ w ∧ w ≤ g ∧ 1 ≤ hd := by
  induction ops generalizing s with
  | nil => intro w g hd hm; cases hm
  | cons op ops ih =>
    simp only [run] at h
    cases hs : step m s op with
    | none => rw [hs] at h; cases h
    | some s1 =>
      rw [hs] at h
      intro w g hd hm
      rcases List.mem_cons.mp hm with heq | hm
      · subst heq
        obtain ⟨hl, _⟩ := step_some hs
        exact ⟨hl.1, hl.2.1, hl.2.2.1⟩
      · exact ih h w g hd hm

/-- every live chunk stems from a request of the trace (or was live initially) -/
theorem run_live_origin {m : Mode} {s s' : State} {ops : List Op}
    (h : run m s ops = some s') :
    ∀ c ∈ s', c ∈ s ∨ ∃ w, Op.request w c.size c.h ∈ ops := by
  induction ops generalizing s with
  | nil => simp only [run] at h; injection h with h; subst h; intro c hc; exact Or.inl hc
  | cons op ops ih =>
    simp only [run] at h
    cases hs : step m s op with
    | none => rw [hs] at h; cases h
    | some s1 =>
      rw [hs] at h
      obtain ⟨_, rfl⟩ := step_some hs
      intro c hc
      rcases ih h c hc with h1 | ⟨w, hw⟩
      · cases op with
        | request want got hd =>
          rcases List.mem_cons.mp h1 with rfl | h1
          · exact Or.inr ⟨want, List.mem_cons_self⟩
          · exact Or.inl h1
        | recycle hd n => exact Or.inl (List.mem_filter.mp h1).1
      · exact Or.inr ⟨w, List.mem_cons_of_mem _ hw⟩

/-- a live chunk stays live as long as it is not recycled -/
theorem run_keeps {m : Mode} {s s' : State} {ops : List Op} {c : Chunk}
    (h : run m s ops = some s') (hc : c ∈ s) (hn : Op.recycle c.h c.size ∉ ops) : c ∈ s' := by
  induction ops generalizing s with
  | nil => simp only [run] at h; injection h with h; exact h ▸ hc
  | cons op ops ih =>
    simp only [run] at h
    cases hs : step m s op with
    | none => rw [hs] at h; cases h
    | some s1 =>
      rw [hs] at h
      obtain ⟨_, rfl⟩ := step_some hs
      apply ih h
      · cases op with
        | request want got hd => exact List.mem_cons_of_mem _ hc
        | recycle hd n =>
          simp only [apply]
          refine List.mem_filter.mpr ⟨hc, ?_⟩
          simp only [decide_eq_true_eq]
          intro heq
          apply hn
          rw [heq]
          exact List.mem_cons_self
      · intro hm; exact hn (List.mem_cons_of_mem _ hm)

end Alloc

/-! ## (b) Tiling refinement for the hole-based managers -/

structure Tile where
  live : Bool
  size : Nat
  deriving DecidableEq, Repr, Inhabited

namespace Tiling

/-- tiles in address order; the first tile starts at slot 1 (slot 0 is never used) -/
abbrev State := List Tile

/-- live chunks of a tile list whose first tile starts at `a` -/
def chunksFrom (a : Nat) : List Tile → List Chunk
  | [] => []
  | t :: ts =>
    if t.live then ⟨a, t.size⟩ :: chunksFrom (a + t.size) ts
    else chunksFrom (a + t.size) ts

def proj (t : State) : List Chunk := chunksFrom 1 t

/-- one past the last used slot -/
def endFrom (a : Nat) : List Tile → Nat
  | [] => a
  | t :: ts => endFrom (a + t.size) ts

/-- place a chunk of `n` slots at handle `h`: either at the start of a hole beginning
    exactly at `h` (remainder, of any size ≥ 1, stays a hole) or at the end of the arena. -/
def requestAt (a h n : Nat) : List Tile → Option (List Tile)
  | [] => if a = h then some [⟨true, n⟩] else none
  | t :: ts =>
    if a = h then
      if t.live = false ∧ n ≤ t.size then
        some (⟨true, n⟩ :: (if n < t.size then ⟨false, t.size - n⟩ :: ts else ts))
      else none
    else
      match requestAt (a + t.size) h n ts with
      | none => none
      | some ts' => some (t :: ts')

/-- turn the live tile `(h,n)` into a hole -/
def markAt (a h n : Nat) : List Tile → Option (List Tile)
  | [] => none
  | t :: ts =>
    if a = h then
      if t.live = true ∧ t.size = n then some (⟨false, n⟩ :: ts) else none
    else
      match markAt (a + t.size) h n ts with
      | none => none
      | some ts' => some (t :: ts')

/-- merge adjacent holes and give a trailing hole back to the array.  On a state that
    satisfies the invariant except around one freshly marked hole this is exactly
    "merge left, absorb at the end, else merge right" of `recycleChunk`
    (see `coalesce_id_of_inv`: everything else is left alone). -/
def coalesce : List Tile → List Tile
  | [] => []
  | t :: ts =>
    if t.live then t :: coalesce ts
    else
      match coalesce ts with
      | [] => []
      | u :: r => if u.live then t :: u :: r else ⟨false, t.size + u.size⟩ :: r

def step (t : State) : Op → Option State
  | .request want got h => if 1 ≤ want ∧ got = want then requestAt 1 h got t else none
  | .recycle h n =>
    match markAt 1 h n t with
    | none => none
    | some t' => some (coalesce t')

def run : State → List Op → Option State
  | s, [] => some s
  | s, op :: ops =>
    match step s op with
    | none => none
    | some s' => run s' ops

/-- positive sizes, no two adjacent holes, the last tile is not a hole
    (`prevHole`: the tile before the list is a hole). -/
def invAux (prevHole : Bool) : List Tile → Bool
  | [] => !prevHole
  | t :: ts => decide (1 ≤ t.size) && (t.live || !prevHole) && invAux (!t.live) ts

def inv (t : State) : Bool := invAux false t

theorem invAux_weaken {ts : List Tile} (h : invAux true ts = true) : invAux false ts = true := by
  cases ts with
  | nil => simp [invAux] at h
  | cons t ts =>
    simp only [invAux, Bool.and_eq_true, Bool.or_eq_true, decide_eq_true_eq] at *
    exact ⟨⟨h.1.1, Or.inr rfl⟩, h.2⟩

theorem invAux_pos {p : Bool} {ts : List Tile} (h : invAux p ts = true) :
    ∀ t ∈ ts, 1 ≤ t.size := by
  induction ts generalizing p with
  | nil => intro t ht; cases ht
  | cons u us ih =>
    simp only [invAux, Bool.and_eq_true, decide_eq_true_eq] at h
    intro t ht
    rcases List.mem_cons.mp ht with rfl | ht
    · exact h.1.1
    · exact ih h.2 t ht

theorem requestAt_inv {p : Bool} {a h n : Nat} {ts ts' : List Tile} (hn : 1 ≤ n)
    (hi : invAux p ts = true) (hr : requestAt a h n ts = some ts') : invAux p ts' = true := by
  induction ts generalizing a p ts' with
  | nil =>
    simp only [requestAt] at hr
    split at hr
    · injection hr with hr; subst hr
      simp [invAux, hn]
    · cases hr
  | cons t ts ih =>
    simp only [requestAt] at hr
    split at hr
    · -- a = h
      split at hr
      · rename_i hc
        injection hr with hr; subst hr
        obtain ⟨hlive, hle⟩ := hc
        simp only [invAux, hlive, Bool.false_or, Bool.not_false, Bool.and_eq_true,
          decide_eq_true_eq, Bool.not_eq_true'] at hi
        obtain ⟨⟨hpos, hp⟩, hrest⟩ := hi
        subst hp
        by_cases hlt : n < t.size
        · simp only [hlt, if_true, invAux, Bool.true_or, Bool.not_true, Bool.not_false,
            Bool.false_or, Bool.and_eq_true, decide_eq_true_eq, Bool.and_true]
          exact ⟨hn, by omega, hrest⟩
        · simp only [hlt, if_false, invAux, Bool.true_or, Bool.not_true, Bool.and_eq_true,
            decide_eq_true_eq, Bool.and_true]
          exact ⟨hn, invAux_weaken hrest⟩
      · cases hr
    · -- a ≠ h
      cases hq : requestAt (a + t.size) h n ts with
      | none => rw [hq] at hr; cases hr
      | some ts1 =>
        rw [hq] at hr
        injection hr with hr; subst hr
        simp only [invAux, Bool.and_eq_true] at hi ⊢
        exact ⟨hi.1, ih hi.2 hq⟩

theorem markAt_pos {a h n : Nat} {ts ts' : List Tile} (hp : ∀ t ∈ ts, 1 ≤ t.size)
    (hm : markAt a h n ts = some ts') : ∀ t ∈ ts', 1 ≤ t.size := by
  induction ts generalizing a ts' with
  | nil => cases hm
  | cons t ts ih =>
    simp only [markAt] at hm
    split at hm
    · split at hm
      · rename_i hc
        injection hm with hm; subst hm
        intro u hu
        rcases List.mem_cons.mp hu with rfl | hu
        · have := hp t List.mem_cons_self
          show 1 ≤ n
          omega
        · exact hp u (List.mem_cons_of_mem _ hu)
      · cases hm
    · cases hq : markAt (a + t.size) h n ts with
      | none => rw [hq] at hm; cases hm
      | some ts1 =>
        rw [hq] at hm
        injection hm with hm; subst hm
        intro u hu
        rcases List.mem_cons.mp hu with rfl | hu
        · exact hp u List.mem_cons_self
        · exact ih (fun v hv => hp v (List.mem_cons_of_mem _ hv)) hq u hu

/-- the result of `coalesce` always satisfies the invariant -/
theorem coalesce_inv {ts : List Tile} (hp : ∀ t ∈ ts, 1 ≤ t.size) :
    invAux false (coalesce ts) = true := by
  induction ts with
  | nil => rfl
  | cons t ts ih =>
    have ih := ih (fun v hv => hp v (List.mem_cons_of_mem _ hv))
    have ht := hp t List.mem_cons_self
    obtain ⟨l, sz⟩ := t
    cases l
    · simp only [coalesce, Bool.false_eq_true, if_false]
      cases hc : coalesce ts with
      | nil => rfl
      | cons u r =>
        rw [hc] at ih
        obtain ⟨ul, usz⟩ := u
        cases ul
        · simp [invAux] at ih ⊢
          exact ⟨by omega, ih.2⟩
        · simp [invAux] at ih ⊢
          exact ⟨ht, ih.1, ih.2⟩
    · simp [coalesce, invAux] at ht ⊢
      exact ⟨ht, ih⟩

/-- on a state satisfying the invariant `coalesce` changes nothing: a recycle only
    touches the neighbourhood of the freed chunk -/
theorem coalesce_id_of_inv {p : Bool} {ts : List Tile} (hi : invAux p ts = true) :
    coalesce ts = ts := by
  induction ts generalizing p with
  | nil => rfl
  | cons t ts ih =>
    simp only [invAux, Bool.and_eq_true] at hi
    have ih := ih hi.2
    obtain ⟨l, sz⟩ := t
    cases l
    · simp only [coalesce, ih, Bool.false_eq_true, if_false]
      cases ts with
      | nil => simp [invAux] at hi
      | cons u r =>
        obtain ⟨ul, usz⟩ := u
        cases ul
        · simp [invAux] at hi
        · simp
    · simp [coalesce, ih]

theorem step_inv {t t' : State} {op : Op} (hi : inv t = true) (h : step t op = some t') :
    inv t' = true := by
  cases op with
  | request want got hd =>
    simp only [step] at h
    split at h
    · rename_i hc
      exact requestAt_inv (by omega) hi h
    · cases h
  | recycle hd n =>
    simp only [step] at h
    cases hm : markAt 1 hd n t with
    | none => rw [hm] at h; cases h
    | some t1 =>
      rw [hm] at h
      injection h with h; subst h
      exact coalesce_inv (markAt_pos (invAux_pos hi) hm)

theorem chunksFrom_lb {a : Nat} {ts : List Tile} : ∀ c ∈ chunksFrom a ts, a ≤ c.h := by
  induction ts generalizing a with
  | nil => intro c hc; cases hc
  | cons t ts ih =>
    intro c hc
    simp only [chunksFrom] at hc
    split at hc
    · rcases List.mem_cons.mp hc with rfl | hc
      · exact Nat.le_refl _
      · have := ih c hc; omega
    · have := ih c hc; omega

theorem chunksFrom_coalesce (a : Nat) (ts : List Tile) :
    chunksFrom a (coalesce ts) = chunksFrom a ts := by
  induction ts generalizing a with
  | nil => rfl
  | cons t ts ih =>
    obtain ⟨l, sz⟩ := t
    cases l
    · have h1 : chunksFrom a (⟨false, sz⟩ :: ts) = chunksFrom (a + sz) (coalesce ts) := by
        simp [chunksFrom, ih]
      rw [h1]
      simp only [coalesce, Bool.false_eq_true, if_false]
      cases hc : coalesce ts with
      | nil => rfl
      | cons u r =>
        obtain ⟨ul, usz⟩ := u
        cases ul
        · simp [chunksFrom, Nat.add_assoc]
        · simp [chunksFrom]
    · simp [coalesce, chunksFrom, ih]

theorem requestAt_spec {a h n : Nat} {ts ts' : List Tile}
    (hr : requestAt a h n ts = some ts') :
    a ≤ h ∧ (∀ c ∈ chunksFrom a ts, c.h + c.size ≤ h ∨ h + n ≤ c.h) ∧
    (∀ c, c ∈ chunksFrom a ts' ↔ c = ⟨h, n⟩ ∨ c ∈ chunksFrom a ts) := by
  induction ts generalizing a ts' with
  | nil =>
    simp only [requestAt] at hr
    split at hr
    · rename_i heq
      injection hr with hr; subst hr; subst heq
      refine ⟨Nat.le_refl _, ?_, ?_⟩
      · intro c hc; cases hc
      · intro c
        simp [chunksFrom]
    · cases hr
  | cons t ts ih =>
    simp only [requestAt] at hr
    split at hr
    · rename_i heq
      subst heq
      split at hr
      · rename_i hc
        injection hr with hr; subst hr
        obtain ⟨hlive, hle⟩ := hc
        refine ⟨Nat.le_refl _, ?_, ?_⟩
        · intro c hc
          simp only [chunksFrom, hlive, Bool.false_eq_true, if_false] at hc
          have := chunksFrom_lb c hc
          omega
        · intro c
          by_cases hlt : n < t.size
          · have e : a + n + (t.size - n) = a + t.size := by omega
            simp [hlt, chunksFrom, hlive, e]
          · have e : n = t.size := by omega
            simp [chunksFrom, hlive, e]
      · cases hr
    · rename_i hne
      cases hq : requestAt (a + t.size) h n ts with
      | none => rw [hq] at hr; cases hr
      | some ts1 =>
        rw [hq] at hr
        injection hr with hr; subst hr
        obtain ⟨h1, h2, h3⟩ := ih hq
        refine ⟨by omega, ?_, ?_⟩
        · intro c hc
          simp only [chunksFrom] at hc
          split at hc
          · rcases List.mem_cons.mp hc with rfl | hc
            · left; show a + t.size ≤ h; exact h1
            · exact h2 c hc
          · exact h2 c hc
        · intro c
          simp only [chunksFrom]
          split
          · simp only [List.mem_cons, h3]
            constructor
            · rintro (h | h | h)
              · exact Or.inr (Or.inl h)
              · exact Or.inl h
              · exact Or.inr (Or.inr h)
            · rintro (h | h | h)
              · exact Or.inr (Or.inl h)
              · exact Or.inl h
              · exact Or.inr (Or.inr h)
          · exact h3 c

theorem markAt_spec {a h n : Nat} {ts ts' : List Tile} (hp : ∀ t ∈ ts, 1 ≤ t.size)
    (hm : markAt a h n ts = some ts') :
    (⟨h, n⟩ : Chunk) ∈ chunksFrom a ts ∧
    (∀ c, c ∈ chunksFrom a ts' ↔ c ∈ chunksFrom a ts ∧ c ≠ ⟨h, n⟩) := by
  induction ts generalizing a ts' with
  | nil => cases hm
  | cons t ts ih =>
    simp only [markAt] at hm
    split at hm
    · rename_i heq
      subst heq
      split at hm
      · rename_i hc
        injection hm with hm; subst hm
        obtain ⟨hlive, hsz⟩ := hc
        subst hsz
        have hpos := hp t List.mem_cons_self
        refine ⟨by simp [chunksFrom, hlive], ?_⟩
        intro c
        simp only [chunksFrom, hlive, Bool.false_eq_true, if_false, if_true, List.mem_cons]
        constructor
        · intro hc
          have := chunksFrom_lb c hc
          refine ⟨Or.inr hc, ?_⟩
          intro heq; subst heq
          simp only at this
          omega
        · rintro ⟨h1 | h1, h2⟩
          · exact absurd h1 h2
          · exact h1
      · cases hm
    · rename_i hne
      cases hq : markAt (a + t.size) h n ts with
      | none => rw [hq] at hm; cases hm
      | some ts1 =>
        rw [hq] at hm
        injection hm with hm; subst hm
        obtain ⟨h1, h2⟩ := ih (fun v hv => hp v (List.mem_cons_of_mem _ hv)) hq
        refine ⟨?_, ?_⟩
        · simp only [chunksFrom]
          split
          · exact List.mem_cons_of_mem _ h1
          · exact h1
        · intro c
          simp only [chunksFrom]
          split
          · simp only [List.mem_cons, h2]
            constructor
            · rintro (h | h)
              · refine ⟨Or.inl h, ?_⟩
                subst h
                intro heq
                injection heq with e1 e2
                exact hne e1
              · exact ⟨Or.inr h.1, h.2⟩
            · rintro ⟨h | h, h'⟩
              · exact Or.inl h
              · exact Or.inr ⟨h, h'⟩
          · exact h2 c

end Tiling

/-! ## Free-list refinement (freelists.cc) -/

namespace FreeList

/-- `fin` = `entriesSize` (first never-used slot), `free` = all chunks on the 15 lists -/
structure State where
  fin : Nat
  free : List Chunk
  deriving DecidableEq, Repr, Inhabited

def init : State := ⟨1, []⟩

def maxEntry : Nat := 15

/-- a request for `n` slots returns either a chunk of EXACTLY size `n` from the free list
    of size `n` or the next `n` never-used slots; a recycle pushes the chunk on its list. -/
def step (s : State) : Op → Option State
  | .request want got h =>
    if 1 ≤ want ∧ got = want ∧ want ≤ maxEntry then
      if (⟨h, got⟩ : Chunk) ∈ s.free then some ⟨s.fin, s.free.erase ⟨h, got⟩⟩
      else if h = s.fin then some ⟨s.fin + got, s.free⟩
      else none
    else none
  | .recycle h n => some ⟨s.fin, ⟨h, n⟩ :: s.free⟩

end FreeList

/-! ## (c) Contents -/

namespace Mem

abbrev Memory := Addr → Nat

def update (mem : Memory) (a : Addr) (v : Nat) : Memory := fun x => if x = a then v else mem x

def writeAll (mem : Memory) : List (Addr × Nat) → Memory
  | [] => mem
  | w :: ws => writeAll (update mem w.1 w.2) ws

structure State where
  live : Alloc.State
  mem : Memory

inductive Ev where
  /-- a manager call together with everything the manager wrote during the call -/
  | mgr (op : Op) (writes : List (Addr × Nat))
  /-- the client stores `v` at address `a` -/
  | client (a : Addr) (v : Nat)

/-- The manager may write only outside chunks that are live before AND after the call
    (i.e. into holes, unused array space, the chunk being handed out before it is returned,
    the chunk being recycled); the client writes only into its own live chunks. -/
def step (m : Mode) (st : State) : Ev → Option State
  | .mgr op ws =>
    match Alloc.step m st.live op with
    | none => none
    | some live' =>
      if ∀ w ∈ ws, ∀ c ∈ st.live, c ∈ live' → ¬ owns m c w.1 then
        some ⟨live', writeAll st.mem ws⟩
      else none
  | .client a v =>
    if ∃ c ∈ st.live, owns m c a then some ⟨st.live, update st.mem a v⟩ else none

def run (m : Mode) : State → List Ev → Option State
  | s, [] => some s
  | s, e :: es =>
    match step m s e with
    | none => none
    | some s' => run m s' es

theorem run_append (m : Mode) (s : State) (xs ys : List Ev) :
    run m s (xs ++ ys) = (run m s xs).bind (fun s' => run m s' ys) := by
  induction xs generalizing s with
  | nil => rfl
  | cons x xs ih =>
    simp only [List.cons_append, run]
    cases step m s x with
    | none => rfl
    | some s' => exact ih s'

theorem writeAll_other {mem : Memory} {ws : List (Addr × Nat)} {a : Addr}
    (h : ∀ w ∈ ws, w.1 ≠ a) : writeAll mem ws a = mem a := by
  induction ws generalizing mem with
  | nil => rfl
  | cons w ws ih =>
    simp only [writeAll]
    rw [ih (fun v hv => h v (List.mem_cons_of_mem _ hv))]
    simp only [update]
    have := h w List.mem_cons_self
    rw [if_neg (fun e => this e.symm)]

theorem run_preserves {m : Mode} {st st' : State} {es : List Ev} {a : Addr} {v : Nat}
    (hr : run m st es = some st')
    (hown : ∃ c ∈ st.live, owns m c a) (hv : st.mem a = v)
    (hnw : ∀ v', Ev.client a v' ∉ es)
    (hnr : ∀ h n ws, Ev.mgr (.recycle h n) ws ∈ es → ¬ owns m ⟨h, n⟩ a) :
    (∃ c ∈ st'.live, owns m c a) ∧ st'.mem a = v := by
  induction es generalizing st with
  | nil => simp only [run] at hr; injection hr with hr; subst hr; exact ⟨hown, hv⟩
  | cons e es ih =>
    simp only [run] at hr
    cases hs : step m st e with
    | none => rw [hs] at hr; cases hr
    | some st1 =>
      rw [hs] at hr
      have hnw' : ∀ v', Ev.client a v' ∉ es := fun v' hm => hnw v' (List.mem_cons_of_mem _ hm)
      have hnr' : ∀ h n ws, Ev.mgr (.recycle h n) ws ∈ es → ¬ owns m ⟨h, n⟩ a :=
        fun h n ws hm => hnr h n ws (List.mem_cons_of_mem _ hm)
      cases e with
      | client a' v' =>
        simp only [step] at hs
        split at hs
        · injection hs with hs; subst hs
          have hne : a' ≠ a := by
            intro heq; subst heq
            exact hnw v' List.mem_cons_self
          apply ih hr hown _ hnw' hnr'
          simp only [update]
          rw [if_neg (fun e => hne e.symm)]
          exact hv
        · cases hs
      | mgr op ws =>
        simp only [step] at hs
        cases ha : Alloc.step m st.live op with
        | none => rw [ha] at hs; cases hs
        | some live' =>
          rw [ha] at hs
          simp only at hs
          split at hs
          · rename_i hw
            injection hs with hs; subst hs
            obtain ⟨c, hc, hca⟩ := hown
            obtain ⟨_, rfl⟩ := Alloc.step_some ha
            have hc' : c ∈ Alloc.apply st.live op := by
              cases op with
              | request want got hd => exact List.mem_cons_of_mem _ hc
              | recycle hd n =>
                simp only [Alloc.apply]
                refine List.mem_filter.mpr ⟨hc, ?_⟩
                simp only [decide_eq_true_eq]
                intro heq
                exact hnr hd n ws List.mem_cons_self (heq ▸ hca)
            apply ih hr ⟨c, hc', hca⟩ _ hnw' hnr'
            show writeAll st.mem ws a = v
            rw [writeAll_other, hv]
            intro w hwm heq
            exact hw w hwm c hc hc' (heq ▸ hca)
          · cases hs

end Mem

/-! ## Auxiliary lemmas for the property theorems -/

theorem pairwise_mem {R : Chunk → Chunk → Prop} (hs : ∀ a b, R a b → R b a) {l : List Chunk}
    (hp : l.Pairwise R) {a b : Chunk} (ha : a ∈ l) (hb : b ∈ l) (hne : a ≠ b) : R a b := by
  induction l with
  | nil => cases ha
  | cons x l ih =>
    obtain ⟨hx, hl⟩ := List.pairwise_cons.mp hp
    rcases List.mem_cons.mp ha with ha1 | ha1
    · rcases List.mem_cons.mp hb with hb1 | hb1
      · exact absurd (ha1.trans hb1.symm) hne
      · rw [ha1]; exact hx b hb1
    · rcases List.mem_cons.mp hb with hb1 | hb1
      · rw [hb1]; exact hs _ _ (hx a ha1)
      · exact ih hl ha1 hb1

namespace Alloc

theorem legal_congr {m : Mode} {s t : State} {op : Op} (he : ∀ c, c ∈ s ↔ c ∈ t) :
    legal m s op ↔ legal m t op := by
  cases op with
  | request want got hd =>
    simp only [legal]
    constructor
    · rintro ⟨h1, h2, h3, h4⟩; exact ⟨h1, h2, h3, fun c hc => h4 c ((he c).mpr hc)⟩
    · rintro ⟨h1, h2, h3, h4⟩; exact ⟨h1, h2, h3, fun c hc => h4 c ((he c).mp hc)⟩
  | recycle hd n => exact he _

theorem apply_congr {s t : State} {op : Op} (he : ∀ c, c ∈ s ↔ c ∈ t) :
    ∀ c, c ∈ apply s op ↔ c ∈ apply t op := by
  intro c
  cases op with
  | request want got hd => simp only [apply, List.mem_cons, he]
  | recycle hd n => simp only [apply, List.mem_filter, he]

end Alloc

namespace FreeList

def run : State → List Op → Option State
  | s, [] => some s
  | s, op :: ops =>
    match step s op with
    | none => none
    | some s' => run s' ops

/-- coupling invariant between the free-list manager state and the live chunks `s` -/
def Inv (fl : State) (s : Alloc.State) : Prop :=
  1 ≤ fl.fin ∧ s.Pairwise (disjoint .slot) ∧ fl.free.Pairwise (disjoint .slot) ∧
  (∀ a ∈ s, ∀ b ∈ fl.free, disjoint .slot a b) ∧
  (∀ c, c ∈ s ∨ c ∈ fl.free → 1 ≤ c.h ∧ 1 ≤ c.size ∧ c.h + c.size ≤ fl.fin)

theorem inv_init : Inv init [] := by
  refine ⟨Nat.le_refl 1, List.Pairwise.nil, List.Pairwise.nil, ?_, ?_⟩
  · intro a ha; cases ha
  · intro c hc; rcases hc with hc | hc <;> cases hc

theorem step_refines {fl fl' : State} {s : Alloc.State} {op : Op} (hi : Inv fl s)
    (h : step fl op = some fl') (hc : ∀ hd n, op = .recycle hd n → (⟨hd, n⟩ : Chunk) ∈ s) :
    Alloc.legal .slot s op ∧ Inv fl' (Alloc.apply s op) := by
  obtain ⟨i0, i1, i2, i3, i4⟩ := hi
  cases op with
  | request want got hd =>
    simp only [step] at h
    split at h
    · rename_i hc1
      obtain ⟨hw, hg, _⟩ := hc1
      subst hg
      split at h
      · -- reuse of a chunk of exactly this size
        rename_i hmem
        injection h with h; subst h
        have hb := i4 ⟨hd, got⟩ (Or.inr hmem)
        have hnd : fl.free.Nodup := by
          rw [List.nodup_iff_pairwise_ne]
          refine i2.imp_of_mem ?_
          intro a b ha _ hab heq
          subst heq
          have := (i4 a (Or.inr ha)).2.1
          simp only [disjoint] at hab
          omega
        refine ⟨⟨hw, Nat.le_refl _, hb.1, fun c hc => disjoint_symm (i3 c hc _ hmem)⟩, i0, ?_, ?_, ?_, ?_⟩
        · exact List.pairwise_cons.mpr ⟨fun c hc => disjoint_symm (i3 c hc _ hmem), i1⟩
        · exact i2.sublist List.erase_sublist
        · intro a ha b hb'
          have hb2 := (hnd.mem_erase_iff.mp hb')
          rcases List.mem_cons.mp ha with rfl | ha
          · exact pairwise_mem (fun _ _ => disjoint_symm) i2 hmem hb2.2 (fun e => hb2.1 e.symm)
          · exact i3 a ha b hb2.2
        · intro c hc
          simp only [Alloc.apply, List.mem_cons] at hc
          rcases hc with (rfl | hc) | hc
          · exact hb
          · exact i4 c (Or.inl hc)
          · exact i4 c (Or.inr (List.mem_of_mem_erase hc))
      · split at h
        · -- fresh slots at the end of the array
          rename_i heq
          injection h with h; subst h; subst heq
          have hnew : ∀ c, c ∈ s ∨ c ∈ fl.free → disjoint .slot ⟨fl.fin, got⟩ c := by
            intro c hc
            have := i4 c hc
            simp only [disjoint]
            omega
          refine ⟨⟨hw, Nat.le_refl _, i0, fun c hc => hnew c (Or.inl hc)⟩, ?_, ?_, i2, ?_, ?_⟩
          · show 1 ≤ fl.fin + got
            omega
          · exact List.pairwise_cons.mpr ⟨fun c hc => hnew c (Or.inl hc), i1⟩
          · intro a ha b hb
            rcases List.mem_cons.mp ha with rfl | ha
            · exact hnew b (Or.inr hb)
            · exact i3 a ha b hb
          · intro c hc
            simp only [Alloc.apply, List.mem_cons] at hc
            show 1 ≤ c.h ∧ 1 ≤ c.size ∧ c.h + c.size ≤ fl.fin + got
            rcases hc with (rfl | hc) | hc
            · exact ⟨i0, by show 1 ≤ got; omega, Nat.le_refl _⟩
            · have := i4 c (Or.inl hc); omega
            · have := i4 c (Or.inr hc); omega
        · cases h
    · cases h
  | recycle hd n =>
    simp only [step] at h
    injection h with h; subst h
    have hm := hc hd n rfl
    refine ⟨hm, i0, i1.filter _, ?_, ?_, ?_⟩
    · exact List.pairwise_cons.mpr ⟨fun b hb => i3 _ hm b hb, i2⟩
    · intro a ha b hb
      obtain ⟨ha1, ha2⟩ := List.mem_filter.mp ha
      simp only [decide_eq_true_eq] at ha2
      rcases List.mem_cons.mp hb with rfl | hb
      · exact pairwise_mem (fun _ _ => disjoint_symm) i1 ha1 hm ha2
      · exact i3 a ha1 b hb
    · intro c hc
      simp only [Alloc.apply, List.mem_filter, List.mem_cons] at hc
      rcases hc with hc | rfl | hc
      · exact i4 c (Or.inl hc.1)
      · exact i4 _ (Or.inl hm)
      · exact i4 c (Or.inr hc)

end FreeList

/-! ## Property theorems -/

section Properties
open Alloc

/-- C18, no overlap: in every state reachable by ANY accepted sequence of requests and
    recycles, no two live chunks share an address – `requestChunk` never hands out memory
    that belongs to a chunk its owner has not yet recycled. -/
theorem alloc_no_overlap (m : Mode) (ops : List Op) (s : Alloc.State)
    (h : Alloc.run m [] ops = some s) :
    s.Pairwise (fun a b => ∀ x : Addr, ¬ (owns m a x ∧ owns m b x)) :=
  (inv_run (inv_nil m) h).1.imp (fun hd => disjoint_no_common hd)

example : Alloc.run .slot [] [.request 3 3 1, .request 5 5 4, .recycle 1 3, .request 2 3 1]
    = some [⟨1, 3⟩, ⟨4, 5⟩] := by decide

/-- C18, size: every request of an accepted trace was for ≥ 1 slot and was granted at least
    the requested number of slots at a non-null handle, and every live chunk has exactly
    the extent `(handle, got)` of some request of the trace that asked for no more than that. -/
theorem alloc_size_ok (m : Mode) (ops : List Op) (s : Alloc.State)
    (h : Alloc.run m [] ops = some s) :
    (∀ w g hd, Op.request w g hd ∈ ops → 1 ≤ w ∧ w ≤ g ∧ 1 ≤ hd) ∧
    (∀ c ∈ s, ∃ w, Op.request w c.size c.h ∈ ops ∧ 1 ≤ w ∧ w ≤ c.size) := by
  refine ⟨run_requests_ok h, ?_⟩
  intro c hc
  rcases run_live_origin h c hc with h1 | ⟨w, hw⟩
  · cases h1
  · exact ⟨w, hw, (run_requests_ok h w c.size c.h hw).1, (run_requests_ok h w c.size c.h hw).2.1⟩

example : Alloc.run .opaque [] [.request 3 4 7, .request 5 5 9] = some [⟨9, 5⟩, ⟨7, 4⟩] := by
  decide

/-- C18, stability: a chunk stays live with the extent it was granted, from its request until
    a recycle of exactly that chunk – the handle stays valid and its slots stay its own
    whatever other requests/recycles happen in between. -/
theorem live_stable (m : Mode) (pre mid post : List Op) (w g hd : Nat) (sf : Alloc.State)
    (h : Alloc.run m [] (pre ++ Op.request w g hd :: (mid ++ post)) = some sf)
    (hn : Op.recycle hd g ∉ mid) :
    ∃ s, Alloc.run m [] (pre ++ Op.request w g hd :: mid) = some s ∧ (⟨hd, g⟩ : Chunk) ∈ s ∧
      ∀ c ∈ s, c ≠ ⟨hd, g⟩ → ∀ x : Addr, ¬ (owns m ⟨hd, g⟩ x ∧ owns m c x) := by
  rw [Alloc.run_append] at h
  cases h1 : Alloc.run m [] pre with
  | none => rw [h1] at h; cases h
  | some s1 =>
    rw [h1] at h
    simp only [Option.bind, Alloc.run] at h
    cases h2 : Alloc.step m s1 (Op.request w g hd) with
    | none => rw [h2] at h; cases h
    | some s2 =>
      rw [h2] at h
      simp only at h
      rw [Alloc.run_append] at h
      cases h3 : Alloc.run m s2 mid with
      | none => rw [h3] at h; cases h
      | some s3 =>
        have hrun : Alloc.run m [] (pre ++ Op.request w g hd :: mid) = some s3 := by
          rw [Alloc.run_append, h1]
          simp only [Option.bind, Alloc.run, h2, h3]
        obtain ⟨_, rfl⟩ := step_some h2
        have hmem : (⟨hd, g⟩ : Chunk) ∈ s3 :=
          run_keeps (c := ⟨hd, g⟩) h3 List.mem_cons_self hn
        refine ⟨s3, hrun, hmem, ?_⟩
        intro c hc hne x
        have hinv := (inv_run (inv_nil m) hrun).1
        exact disjoint_no_common
          (pairwise_mem (fun _ _ => disjoint_symm) hinv hmem hc (fun e => hne e.symm)) x

/-- hypotheses of `live_stable` with pre = [req (1,2)], the chunk (3,3), mid = [req (6,4), rec (1,2)],
    post = [rec (3,3)] -/
example : Alloc.run .slot [] ([.request 2 2 1] ++ Op.request 3 3 3 ::
    ([.request 4 4 6, .recycle 1 2] ++ [.recycle 3 3])) = some [⟨6, 4⟩] ∧
    Op.recycle 3 3 ∉ [Op.request 4 4 6, Op.recycle 1 2] := by decide

/-- C18, reuse only after recycle: if two requests of an accepted trace are granted chunks
    that share an address, the first chunk was recycled in between – the memory of a chunk is
    never handed out again while its owner still holds it. -/
theorem reuse_only_after_recycle (m : Mode) (pre mid post : List Op) (w g hd w' g' hd' : Nat)
    (sf : Alloc.State) (x : Addr)
    (h : Alloc.run m [] (pre ++ Op.request w g hd :: (mid ++ Op.request w' g' hd' :: post))
      = some sf)
    (h1 : owns m ⟨hd, g⟩ x) (h2 : owns m ⟨hd', g'⟩ x) : Op.recycle hd g ∈ mid := by
  apply Classical.byContradiction
  intro hn
  obtain ⟨s, hrun, hmem, _⟩ := live_stable m pre mid (Op.request w' g' hd' :: post) w g hd sf h hn
  have e : pre ++ Op.request w g hd :: (mid ++ Op.request w' g' hd' :: post)
      = (pre ++ Op.request w g hd :: mid) ++ (Op.request w' g' hd' :: post) := by
    simp
  rw [e, Alloc.run_append, hrun] at h
  simp only [Option.bind, Alloc.run] at h
  cases hs : Alloc.step m s (Op.request w' g' hd') with
  | none => rw [hs] at h; cases h
  | some s2 =>
    obtain ⟨hl, _⟩ := step_some hs
    exact disjoint_no_common (hl.2.2.2 _ hmem) x ⟨h2, h1⟩

example : Alloc.run .slot [] ([.request 2 2 1] ++ Op.request 3 3 3 ::
    ([.request 4 4 6, .recycle 3 3] ++ Op.request 2 2 4 :: [])) = some [⟨4, 2⟩, ⟨6, 4⟩, ⟨1, 2⟩] := by
  decide
example : owns .slot ⟨3, 3⟩ (0, 4) ∧ owns .slot ⟨4, 2⟩ (0, 4) := by decide

/-- C18, hole-based managers keep a partition: every step of the tiling model (request from
    the start of any sufficiently large hole or from the end of the array; recycle with
    coalescing) preserves "sizes positive, no two adjacent holes, last tile live" – the arena
    `1..last_used_slot` of orig-grid / array+grid / heap is always exactly tiled by live chunks
    and maximal holes. -/
theorem tiling_inv (t t' : Tiling.State) (op : Op) (hi : Tiling.inv t = true)
    (h : Tiling.step t op = some t') : Tiling.inv t' = true :=
  Tiling.step_inv hi h

example : Tiling.run [] [.request 3 3 1, .request 5 5 4, .request 2 2 9, .recycle 4 5,
    .request 2 2 4] = some [⟨true, 3⟩, ⟨true, 2⟩, ⟨false, 3⟩, ⟨true, 2⟩] := by decide
example : Tiling.inv [⟨true, 3⟩, ⟨true, 2⟩, ⟨false, 3⟩, ⟨true, 2⟩] = true := by decide

/-- C18, refinement: every step the tiling model can take is a legal step of the specification
    automaton on the live chunks of the arena, and leads to the corresponding set of live
    chunks – whichever hole the index structure selects, the hole-based managers never violate
    the allocation contract. -/
theorem tiling_refines_alloc (t t' : Tiling.State) (op : Op) (hi : Tiling.inv t = true)
    (h : Tiling.step t op = some t') :
    Alloc.legal .slot (Tiling.proj t) op ∧
    ∀ c, c ∈ Tiling.proj t' ↔ c ∈ Alloc.apply (Tiling.proj t) op := by
  cases op with
  | request want got hd =>
    simp only [Tiling.step] at h
    split at h
    · rename_i hc
      obtain ⟨hw, hg⟩ := hc
      subst hg
      obtain ⟨h1, h2, h3⟩ := Tiling.requestAt_spec h
      refine ⟨⟨hw, Nat.le_refl _, h1, ?_⟩, ?_⟩
      · intro c hc
        have := h2 c hc
        simp only [disjoint]
        omega
      · intro c
        simp only [Tiling.proj, Alloc.apply, List.mem_cons]
        exact h3 c
    · cases h
  | recycle hd n =>
    simp only [Tiling.step] at h
    cases hm : Tiling.markAt 1 hd n t with
    | none => rw [hm] at h; cases h
    | some t1 =>
      rw [hm] at h
      injection h with h; subst h
      obtain ⟨h1, h2⟩ := Tiling.markAt_spec (Tiling.invAux_pos hi) hm
      refine ⟨h1, ?_⟩
      intro c
      simp only [Tiling.proj, Tiling.chunksFrom_coalesce, Alloc.apply, List.mem_filter,
        decide_eq_true_eq]
      exact h2 c

/-- trace form of the refinement: every trace accepted by the tiling model is accepted by the
    specification automaton, with the same live chunks, and the invariant holds at the end. -/
theorem tiling_run_refines_alloc (ops : List Op) (t : Tiling.State)
    (h : Tiling.run [] ops = some t) :
    Tiling.inv t = true ∧
    ∃ s, Alloc.run .slot [] ops = some s ∧ ∀ c, c ∈ Tiling.proj t ↔ c ∈ s := by
  suffices H : ∀ (ops : List Op) (t0 : Tiling.State) (s0 : Alloc.State),
      Tiling.inv t0 = true → (∀ c, c ∈ Tiling.proj t0 ↔ c ∈ s0) →
      Tiling.run t0 ops = some t →
      Tiling.inv t = true ∧
      ∃ s, Alloc.run .slot s0 ops = some s ∧ ∀ c, c ∈ Tiling.proj t ↔ c ∈ s from
    H ops [] [] rfl (fun c => Iff.rfl) h
  intro ops
  induction ops with
  | nil =>
    intro t0 s0 hi he hr
    simp only [Tiling.run] at hr
    injection hr with hr; subst hr
    exact ⟨hi, s0, rfl, he⟩
  | cons op ops ih =>
    intro t0 s0 hi he hr
    simp only [Tiling.run] at hr
    cases hs : Tiling.step t0 op with
    | none => rw [hs] at hr; cases hr
    | some t1 =>
      rw [hs] at hr
      obtain ⟨hl, hm⟩ := tiling_refines_alloc t0 t1 op hi hs
      have hl' : Alloc.legal .slot s0 op := (Alloc.legal_congr he).mp hl
      have he' : ∀ c, c ∈ Tiling.proj t1 ↔ c ∈ Alloc.apply s0 op :=
        fun c => (hm c).trans (Alloc.apply_congr he c)
      obtain ⟨r1, s, r2, r3⟩ := ih t1 (Alloc.apply s0 op) (tiling_inv t0 t1 op hi hs) he' hr
      refine ⟨r1, s, ?_, r3⟩
      simp only [Alloc.run, Alloc.step, hl', if_true]
      exact r2

example : Tiling.proj [⟨true, 3⟩, ⟨true, 2⟩, ⟨false, 3⟩, ⟨true, 2⟩] = [⟨1, 3⟩, ⟨4, 2⟩, ⟨9, 2⟩] := by
  decide

/-- C18, free lists: as long as the client recycles only chunks it holds, every request served
    by the free-list model (a previously recycled chunk of EXACTLY the requested size, or fresh
    slots at the end of the array) is a legal step of the specification automaton, and the
    coupling invariant (live and free chunks pairwise disjoint, all inside `1..entriesSize`)
    is preserved. -/
theorem freelist_refines_alloc (fl fl' : FreeList.State) (s : Alloc.State) (op : Op)
    (hi : FreeList.Inv fl s) (h : FreeList.step fl op = some fl')
    (hc : ∀ hd n, op = .recycle hd n → (⟨hd, n⟩ : Chunk) ∈ s) :
    Alloc.legal .slot s op ∧ FreeList.Inv fl' (Alloc.apply s op) :=
  FreeList.step_refines hi h hc

example : FreeList.run FreeList.init [.request 3 3 1, .request 2 2 4, .recycle 1 3, .request 2 2 6,
    .request 3 3 1] = some ⟨8, []⟩ := by decide

/-- trace form: a trace accepted by the free-list model in which every recycle is legal for the
    client (recycles a chunk that is live at that point) is accepted by the specification. -/
theorem freelist_run_refines_alloc (ops : List Op) (fl : FreeList.State)
    (h : FreeList.run FreeList.init ops = some fl)
    (hc : ∀ pre hd n post s, ops = pre ++ Op.recycle hd n :: post →
      Alloc.run .slot [] pre = some s → (⟨hd, n⟩ : Chunk) ∈ s) :
    ∃ s, Alloc.run .slot [] ops = some s ∧ FreeList.Inv fl s := by
  suffices H : ∀ (ops : List Op) (fl0 : FreeList.State) (s0 : Alloc.State),
      FreeList.Inv fl0 s0 → FreeList.run fl0 ops = some fl →
      (∀ pre hd n post s, ops = pre ++ Op.recycle hd n :: post →
        Alloc.run .slot s0 pre = some s → (⟨hd, n⟩ : Chunk) ∈ s) →
      ∃ s, Alloc.run .slot s0 ops = some s ∧ FreeList.Inv fl s from
    H ops FreeList.init [] FreeList.inv_init h hc
  intro ops
  induction ops with
  | nil =>
    intro fl0 s0 hi hr _
    simp only [FreeList.run] at hr
    injection hr with hr; subst hr
    exact ⟨s0, rfl, hi⟩
  | cons op ops ih =>
    intro fl0 s0 hi hr hcl
    simp only [FreeList.run] at hr
    cases hs : FreeList.step fl0 op with
    | none => rw [hs] at hr; cases hr
    | some fl1 =>
      rw [hs] at hr
      have hrec : ∀ hd n, op = .recycle hd n → (⟨hd, n⟩ : Chunk) ∈ s0 := by
        intro hd n heq
        exact hcl [] hd n ops s0 (by rw [heq]; rfl) rfl
      obtain ⟨hl, hi'⟩ := FreeList.step_refines hi hs hrec
      have hstep : Alloc.step .slot s0 op = some (Alloc.apply s0 op) := by
        simp only [Alloc.step, hl, if_true]
      obtain ⟨s, r1, r2⟩ := ih fl1 (Alloc.apply s0 op) hi' hr (by
        intro pre hd n post s heq hrun
        apply hcl (op :: pre) hd n post s (by rw [heq]; rfl)
        simp only [Alloc.run, hstep]
        exact hrun)
      refine ⟨s, ?_, r2⟩
      simp only [Alloc.run, hstep]
      exact r1

/-- C18, contents: along every accepted trace (manager writes only outside chunks that stay
    live across the call, client writes only into its own live chunks), a slot of a live chunk
    still holds the last value its owner stored there, until that chunk is recycled – the
    manager never alters the contents of a live chunk. -/
theorem live_contents_untouched (m : Mode) (st0 st : Mem.State) (pre mid : List Mem.Ev)
    (a : Addr) (v : Nat)
    (h : Mem.run m st0 (pre ++ Mem.Ev.client a v :: mid) = some st)
    (hnw : ∀ v', Mem.Ev.client a v' ∉ mid)
    (hnr : ∀ hd n ws, Mem.Ev.mgr (.recycle hd n) ws ∈ mid → ¬ owns m ⟨hd, n⟩ a) :
    st.mem a = v ∧ ∃ c ∈ st.live, owns m c a := by
  rw [Mem.run_append] at h
  cases h1 : Mem.run m st0 pre with
  | none => rw [h1] at h; cases h
  | some st1 =>
    rw [h1] at h
    simp only [Option.bind, Mem.run] at h
    cases h2 : Mem.step m st1 (Mem.Ev.client a v) with
    | none => rw [h2] at h; cases h
    | some st2 =>
      rw [h2] at h
      simp only at h
      simp only [Mem.step] at h2
      split at h2
      · rename_i hown
        injection h2 with h2; subst h2
        have := Mem.run_preserves (v := v) h hown (by simp [Mem.update]) hnw hnr
        exact ⟨this.2, this.1⟩
      · cases h2

/-- the client stores 7 into slot 2 of chunk (1,3); afterwards the manager serves a request,
    writes hole bookkeeping outside live chunks, recycles another chunk: the 7 is still there. -/
example :
    (Mem.run .slot ⟨[], fun _ => 0⟩
      ([.mgr (.request 3 3 1) [((0, 1), 99)], .mgr (.request 2 2 4) []] ++
        Mem.Ev.client (0, 2) 7 ::
        [.mgr (.request 4 4 6) [((0, 6), 0)], .mgr (.recycle 4 2) [((0, 4), 2), ((0, 5), 2)],
         .client (0, 3) 5])).map (fun st => (st.mem (0, 2), st.mem (0, 4), st.live))
    = some (7, 2, [⟨6, 4⟩, ⟨1, 3⟩]) := by decide

/-- a manager write into a chunk that stays live is rejected by the model -/
example : (Mem.run .slot ⟨[], fun _ => 0⟩
      [.mgr (.request 3 3 1) [], .mgr (.request 2 2 4) [((0, 2), 1)]]).isNone = true := by decide

end Properties

end MemMan
end Meddly

/-
  `#print axioms` of the property theorems (Lean 4.33.0):

  alloc_no_overlap            : [propext, Quot.sound]
  alloc_size_ok               : [propext]
  live_stable                 : [propext, Quot.sound]
  reuse_only_after_recycle    : [propext, Classical.choice, Quot.sound]
  tiling_inv                  : [propext, Quot.sound]
  tiling_refines_alloc        : [propext, Quot.sound]
  tiling_run_refines_alloc    : [propext, Quot.sound]
  freelist_refines_alloc      : [propext, Classical.choice, Quot.sound]
  freelist_run_refines_alloc  : [propext, Classical.choice, Quot.sound]
  live_contents_untouched     : [propext]
  (auxiliary) disjoint_iff_no_common : [propext, Classical.choice, Quot.sound]
  (auxiliary) Tiling.coalesce_id_of_inv : [propext, Quot.sound]
-/
