/-
  C07  Compute tables are transparent.

  Model `CT` of MEDDLY's compute tables (src/storage/ct_styles.cc, template
  `ct_tmpl<TTYPE, MONOLITHIC, CHAINED, INTSLOTS>`; src/compute_table.{h,cc};
  src/ct_entry_type.{h,cc}; the node-liveness tests `forest::isDeadEntry`,
  `forest::isStaleEntry`, `forest::cacheNode`, `forest::uncacheNode` in src/forest.h).

  What the code does (all four styles):

  * `addEntry` inserts the entry unconditionally (front of the chain / a free slot of the
    probe window h, h+1, h+2, else it overwrites the home slot h after `deleteEntry` of the
    victim) and calls `cacheNode` once for EVERY node item of the key and of the result
    (so a node occurring k times in one entry is counted k times).  It never looks for an
    existing entry with the same key: the protocol is `find` -> miss -> `addEntry` with the
    same `ct_vector` (which carries the pre-built entry), or `doneKey`.
  * `find` walks the chain / the probe window.  For an entry whose (type, key) is EQUAL:
    if `isDead` (some RESULT node item is dead: deleted node, or its forest is marked /
    destroyed) the entry is discarded and the search stops with a MISS; otherwise HIT.
    An UNEQUAL entry is discarded when `checkStalesOnFind` (Aggressive) and it `isStale`.
    The key items of an equal entry are not tested: the caller holds those nodes.
  * `deleteEntry` calls `uncacheNode` once for every node item of key and result.
  * `removeStales` discards exactly the entries that are stale when they are scanned
    (some node item is stale: deleted, or in-count 0 under reference counting; or the entry
    type is marked for deletion / a forest of the type is gone); `removeAll` discards all.
  * when `numEntries >= tableExpand` an add runs `removeStaleEntries` and possibly
    `resizeTable`; in the unchained styles `resizeTable` re-inserts through `setTable`
    and may therefore evict arbitrary entries.
  * NOTE (documented quirk, not a transparency issue): `maxSize` is only honoured when
    the doubling sequence 1024, 2048, ... hits it exactly; `checkStalesOnResize` is never
    read, so Moderate and Lazy behave identically.

  Which entries survive is therefore a function of hash values and table geometry.  The
  model is a SPECIFICATION AUTOMATON: the table is a list of entries, any set of entries may
  disappear at any step (`Op.lose`), and a trace is ACCEPTED iff every observed hit is
  justified by the table.  All definitions are total and computable; the acceptor
  (`MeddlyModel/Fam/CTableAccept.lean`) replays transcripts with `CT.step`.
-/
namespace Meddly.CT

/-! ## Entries -/

/-- A node as a compute-table item sees it.  `gen` is the logical identity of the node
    currently occupying `handle` (the harness uses the content of the node); two
    references with the same handle but different `gen` are different nodes (the handle was
    recycled in between). -/
structure NodeRef where
  forest : Nat
  handle : Nat
  gen : Nat
  deriving DecidableEq, Repr, Inhabited

/-- key / result items: a node of some forest, or plain data ('I','L', terminals). -/
inductive Item where
  | node (n : NodeRef)
  | int (v : Int)
  deriving DecidableEq, Repr, Inhabited

def Item.nodes : Item → List NodeRef
  | .node n => [n]
  | .int _ => []

/-- node items of an item list, in order, WITH multiplicity -/
def nodesOf : List Item → List NodeRef
  | [] => []
  | i :: is => i.nodes ++ nodesOf is

structure Entry where
  etype : Nat
  key : List Item
  result : List Item
  deriving DecidableEq, Repr, Inhabited

namespace Entry
/-- every node item of key and result (what `addEntry` passes to `cacheNode`) -/
def nodes (e : Entry) : List NodeRef := nodesOf e.key ++ nodesOf e.result
/-- number of items of `e` that are node `n` -/
def mentions (e : Entry) (n : NodeRef) : Nat := e.nodes.count n
def hasKey (e : Entry) (et : Nat) (key : List Item) : Bool := e.etype == et && e.key == key
end Entry

/-- number of node items equal to `n` over a list of entries
    (= what `compute_table::countAllNodeEntries` computes) -/
def total : List Entry → NodeRef → Nat
  | [], _ => 0
  | e :: es, n => e.mentions n + total es n

/-! ## The node-liveness view (input of every step; owned by NodeLife) -/

structure View where
  /-- `forest::isDeadEntry`: the node is deleted (or its forest is marked for deletion) -/
  dead : NodeRef → Bool
  /-- `forest::isStaleEntry`: dead, or unreachable (in-count 0) under reference counting -/
  stale : NodeRef → Bool
  /-- the entry type is marked for deletion or one of its forests no longer exists -/
  typeDead : Nat → Bool
  /-- the handle is on the forest's free list (may be handed out for a new node) -/
  free : NodeRef → Bool

def View.allLive : View := ⟨fun _ => false, fun _ => false, fun _ => false, fun _ => false⟩

/-- `ct_tmpl::isDead` : only RESULT node items are inspected -/
def deadEntry (v : View) (e : Entry) : Bool :=
  v.typeDead e.etype || (nodesOf e.result).any v.dead
/-- `ct_tmpl::isStale` : key and result node items -/
def staleEntry (v : View) (e : Entry) : Bool :=
  v.typeDead e.etype || e.nodes.any v.stale
/-- some node of the entry (key or result) is dead, or its type is -/
def deadish (v : View) (e : Entry) : Prop :=
  v.typeDead e.etype = true ∨ ∃ n, n ∈ e.nodes ∧ v.dead n = true

/-! ## The table -/

/-- `entries`: newest first.  `cc`: the per-node cache counters, maintained the way the
    code maintains them (increment per item on add, decrement per item on discard). -/
structure Table where
  entries : List Entry
  cc : NodeRef → Nat

def incr (cc : NodeRef → Nat) (n : NodeRef) : NodeRef → Nat :=
  fun m => if m = n then cc m + 1 else cc m
def decr (cc : NodeRef → Nat) (n : NodeRef) : NodeRef → Nat :=
  fun m => if m = n then cc m - 1 else cc m
/-- `cacheNode` for every listed node -/
def cacheAll (cc : NodeRef → Nat) (ns : List NodeRef) : NodeRef → Nat := ns.foldl incr cc
/-- `uncacheNode` for every listed node -/
def uncacheAll (cc : NodeRef → Nat) (ns : List NodeRef) : NodeRef → Nat := ns.foldl decr cc
/-- `deleteEntry` for every listed entry (counter part) -/
def uncacheEntries (cc : NodeRef → Nat) (es : List Entry) : NodeRef → Nat :=
  es.foldl (fun c e => uncacheAll c e.nodes) cc

namespace Table
def empty : Table := ⟨[], fun _ => 0⟩
/-- `addEntry` -/
def add (t : Table) (e : Entry) : Table := ⟨e :: t.entries, cacheAll t.cc e.nodes⟩
/-- `deleteEntry` on every entry satisfying `p` -/
def discardWhere (t : Table) (p : Entry → Bool) : Table :=
  ⟨t.entries.filter (fun e => !p e), uncacheEntries t.cc (t.entries.filter p)⟩
/-- newest entry with this type and key -/
def lookup (t : Table) (et : Nat) (key : List Item) : Option Entry :=
  t.entries.find? (fun e => e.hasKey et key)
/-- what `find` does on a table from which nothing else is lost during the call -/
def find (t : Table) (v : View) (et : Nat) (key : List Item) : Table × Option (List Item) :=
  match t.lookup et key with
  | none => (t, none)
  | some e =>
    if deadEntry v e then (t.discardWhere (fun x => x.hasKey et key), none)
    else (t, some e.result)
end Table

/-! ## Steps of the specification automaton -/

inductive Op where
  /-- `addCT(key,res)`; protocol: only after a miss for that key -/
  | add (e : Entry)
  /-- `findCT(key)` with its observed outcome (`some r` = hit returning `r`) -/
  | find (et : Nat) (key : List Item) (out : Option (List Item))
  /-- any set of entries disappears (overwrite of a home slot, resize, stale removal
      during `find`, clearing the tables of one forest, ...) -/
  | lose (p : Entry → Bool)
  /-- `removeStales()` -/
  | removeStales
  /-- `removeAll()` -/
  | removeAll

structure Step where
  view : View
  op : Op

/-- One step; `none` = the observation is not a behaviour of a correct table. -/
def step (t : Table) (v : View) : Op → Option Table
  | .add e => if (t.lookup e.etype e.key).isNone then some (t.add e) else none
  | .find et key (some r) =>
    match t.lookup et key with
    | some e => if e.result = r ∧ deadEntry v e = false then some t else none
    | none => none
  | .find et key none => some (t.discardWhere (fun e => e.hasKey et key))
  | .lose p => some (t.discardWhere p)
  | .removeStales => some (t.discardWhere (staleEntry v))
  | .removeAll => some (t.discardWhere (fun _ => true))

/-- A history is a list of steps, NEWEST FIRST; `exec` replays it from the empty table. -/
def exec : List Step → Option Table
  | [] => some Table.empty
  | s :: rest => (exec rest).bind (fun t => step t s.view s.op)

/-- forward replay (oldest first), as the acceptor does it -/
def run (t : Table) : List Step → Option Table
  | [] => some t
  | s :: rest => (step t s.view s.op).bind (fun t' => run t' rest)

/-- Specification of lookup on the HISTORY: the most recent `add` for (et,key), and whether
    any later step saw one of its nodes (or its type) dead. -/
def specFind (et : Nat) (key : List Item) : List Step → Option (Entry × Bool)
  | [] => none
  | s :: rest =>
    let older := (specFind et key rest).map
      (fun p => (p.1, p.2 || (p.1.nodes.any s.view.dead || s.view.typeDead p.1.etype)))
    match s.op with
    | .add e => if e.hasKey et key then some (e, false) else older
    | _ => older

/-! ## Basic lemmas -/

theorem incr_apply (cc : NodeRef → Nat) (n m : NodeRef) :
    incr cc n m = cc m + (if m = n then 1 else 0) := by
  unfold incr; split <;> simp

theorem cacheAll_apply (ns : List NodeRef) (cc : NodeRef → Nat) (m : NodeRef) :
    cacheAll cc ns m = cc m + ns.count m := by
  induction ns generalizing cc with
  | nil => simp [cacheAll]
  | cons n ns ih =>
    have : cacheAll cc (n :: ns) = cacheAll (incr cc n) ns := rfl
    rw [this, ih, incr_apply, List.count_cons]
    by_cases h : m = n
    · subst h; simp; omega
    · have h' : (n == m) = false := by simp; exact fun e => h e.symm
      simp [h, h']

theorem uncacheAll_apply (ns : List NodeRef) (cc : NodeRef → Nat) (m : NodeRef) :
    uncacheAll cc ns m = cc m - ns.count m := by
  induction ns generalizing cc with
  | nil => simp [uncacheAll]
  | cons n ns ih =>
    have : uncacheAll cc (n :: ns) = uncacheAll (decr cc n) ns := rfl
    rw [this, ih, List.count_cons]
    by_cases h : m = n
    · subst h; simp [decr]; omega
    · have h' : (n == m) = false := by simp; exact fun e => h e.symm
      simp [decr, h, h']

theorem uncacheEntries_apply (es : List Entry) (cc : NodeRef → Nat) (m : NodeRef) :
    uncacheEntries cc es m = cc m - total es m := by
  induction es generalizing cc with
  | nil => simp [uncacheEntries, total]
  | cons e es ih =>
    have : uncacheEntries cc (e :: es) = uncacheEntries (uncacheAll cc e.nodes) es := rfl
    rw [this, ih, uncacheAll_apply]
    simp [total, Entry.mentions]; omega

theorem total_filter_split (p : Entry → Bool) (es : List Entry) (n : NodeRef) :
    total (es.filter p) n + total (es.filter (fun e => !p e)) n = total es n := by
  induction es with
  | nil => simp [total]
  | cons e es ih =>
    by_cases h : p e = true
    · simp [h, total]; omega
    · have h' : p e = false := by simpa using h
      simp [h', total]; omega

theorem mem_mentions_pos {e : Entry} {n : NodeRef} (h : n ∈ e.nodes) : 0 < e.mentions n := by
  unfold Entry.mentions; exact List.count_pos_iff.mpr h

theorem total_pos {es : List Entry} {e : Entry} {n : NodeRef}
    (he : e ∈ es) (hn : n ∈ e.nodes) : 0 < total es n := by
  induction es with
  | nil => cases he
  | cons x xs ih =>
    cases he with
    | head => have := mem_mentions_pos hn; simp [total]; omega
    | tail _ h => have := ih h; simp [total]; omega

theorem lookup_none_iff (t : Table) (et : Nat) (key : List Item) :
    t.lookup et key = none ↔ ∀ e, e ∈ t.entries → e.hasKey et key = false := by
  unfold Table.lookup
  rw [List.find?_eq_none]
  constructor
  · intro h e he; simpa using h e he
  · intro h e he; simpa using h e he

theorem lookup_some {t : Table} {et : Nat} {key : List Item} {e : Entry}
    (h : t.lookup et key = some e) : e ∈ t.entries ∧ e.hasKey et key = true := by
  unfold Table.lookup at h
  exact ⟨List.mem_of_find?_eq_some h, by simpa using List.find?_some h⟩

theorem hasKey_iff (e : Entry) (et : Nat) (key : List Item) :
    e.hasKey et key = true ↔ e.etype = et ∧ e.key = key := by
  simp [Entry.hasKey]

/-- entries of the table after one accepted step: old entries (possibly filtered), plus the
    added one -/
theorem step_entries {t t' : Table} {v : View} {op : Op} (h : step t v op = some t') :
    (∃ e, op = .add e ∧ t.lookup e.etype e.key = none ∧ t'.entries = e :: t.entries) ∨
    ((∀ e, op ≠ .add e) ∧ ∃ p : Entry → Bool, t'.entries = t.entries.filter p) := by
  cases op with
  | add e =>
    left
    simp only [step] at h
    split at h
    · rename_i hn
      refine ⟨e, rfl, ?_, ?_⟩
      · simpa using hn
      · cases h; rfl
    · cases h
  | find et key out =>
    right
    refine ⟨(by intro e h'; cases h'), ?_⟩
    cases out with
    | none => simp only [step] at h; cases h; exact ⟨_, rfl⟩
    | some r =>
      simp only [step] at h
      split at h
      · split at h
        · cases h; exact ⟨fun _ => true, (List.filter_eq_self.mpr (fun _ _ => rfl)).symm⟩
        · cases h
      · cases h
  | lose p => right; refine ⟨(by intro e h'; cases h'), ?_⟩; simp only [step] at h; cases h; exact ⟨_, rfl⟩
  | removeStales => right; refine ⟨(by intro e h'; cases h'), ?_⟩; simp only [step] at h; cases h; exact ⟨_, rfl⟩
  | removeAll => right; refine ⟨(by intro e h'; cases h'), ?_⟩; simp only [step] at h; cases h; exact ⟨_, rfl⟩

/-! ## The counter / distinct-key invariant (no liveness assumption needed) -/

def DistinctKeys (es : List Entry) : Prop :=
  es.Pairwise (fun a b => ¬ (a.etype = b.etype ∧ a.key = b.key))

structure Inv (t : Table) : Prop where
  cc_ok : ∀ n, t.cc n = total t.entries n
  distinct : DistinctKeys t.entries

theorem inv_empty : Inv Table.empty := ⟨fun _ => rfl, List.Pairwise.nil⟩

theorem inv_discardWhere {t : Table} (h : Inv t) (p : Entry → Bool) : Inv (t.discardWhere p) := by
  constructor
  · intro n
    show uncacheEntries t.cc (t.entries.filter p) n = total (t.entries.filter (fun e => !p e)) n
    rw [uncacheEntries_apply, h.cc_ok]
    have := total_filter_split p t.entries n
    omega
  · exact List.Pairwise.sublist List.filter_sublist h.distinct

theorem inv_add {t : Table} (h : Inv t) (e : Entry) (hn : t.lookup e.etype e.key = none) :
    Inv (t.add e) := by
  constructor
  · intro n
    show cacheAll t.cc e.nodes n = e.mentions n + total t.entries n
    rw [cacheAll_apply, h.cc_ok]; unfold Entry.mentions; omega
  · show DistinctKeys (e :: t.entries)
    refine List.Pairwise.cons ?_ h.distinct
    intro b hb hk
    have := (lookup_none_iff t e.etype e.key).mp hn b hb
    have hb' : b.hasKey e.etype e.key = true := (hasKey_iff _ _ _).mpr ⟨hk.1.symm, hk.2.symm⟩
    rw [hb'] at this; cases this

theorem inv_step {t t' : Table} {v : View} {op : Op} (hi : Inv t) (h : step t v op = some t') :
    Inv t' := by
  cases op with
  | add e =>
    simp only [step] at h
    split at h
    · rename_i hn; cases h; exact inv_add hi e (by simpa using hn)
    · cases h
  | find et key out =>
    cases out with
    | none => simp only [step] at h; cases h; exact inv_discardWhere hi _
    | some r =>
      simp only [step] at h
      split at h
      · split at h
        · cases h; exact hi
        · cases h
      · cases h
  | lose p => simp only [step] at h; cases h; exact inv_discardWhere hi _
  | removeStales => simp only [step] at h; cases h; exact inv_discardWhere hi _
  | removeAll => simp only [step] at h; cases h; exact inv_discardWhere hi _

theorem inv_exec : ∀ {hist : List Step} {t : Table}, exec hist = some t → Inv t
  | [], t, h => by simp [exec] at h; cases h; exact inv_empty
  | s :: rest, t, h => by
    simp only [exec] at h
    cases hr : exec rest with
    | none => rw [hr] at h; cases h
    | some t0 =>
      rw [hr] at h
      exact inv_step (inv_exec hr) h

/-- with distinct keys, membership determines lookup -/
theorem lookup_of_mem {es : List Entry} (hd : DistinctKeys es) {e : Entry} (he : e ∈ es) :
    es.find? (fun x => x.hasKey e.etype e.key) = some e := by
  induction es with
  | nil => cases he
  | cons x xs ih =>
    rw [List.find?_cons]
    cases he with
    | head => simp [Entry.hasKey]
    | tail _ h =>
      have hx := (List.pairwise_cons.mp hd).1 e h
      have : x.hasKey e.etype e.key = false := by
        cases hk : x.hasKey e.etype e.key with
        | false => rfl
        | true => exact absurd ((hasKey_iff _ _ _).mp hk) hx
      rw [this]
      exact ih (List.pairwise_cons.mp hd).2 h

/-! ## The NodeLife assumptions -/

/-- What the compute table relies on from the node manager between two consecutive steps
    (previous view `pv`, table `t` after the previous step, next view `v`):
    a dead node that is still counted by some cache entry stays dead (its handle cannot be
    recycled: `node_headers::recycleNodeHandle` requires cache count 0), and a dead entry
    type stays dead. -/
structure Sticky (t : Table) (pv v : View) : Prop where
  dead_sticky : ∀ n, 0 < t.cc n → pv.dead n = true → v.dead n = true
  type_sticky : ∀ et, pv.typeDead et = true → v.typeDead et = true

/-- The assumptions along a whole history (newest first): stickiness between consecutive
    views, and the client obligation that a searched key only mentions nodes the caller
    holds (hence not dead). -/
def NodeLifeOK : List Step → Prop
  | [] => True
  | s :: rest =>
    NodeLifeOK rest ∧
    (∀ t p rest', exec rest = some t → rest = p :: rest' → Sticky t p.view s.view) ∧
    (∀ et key out, s.op = .find et key out → ∀ n, n ∈ nodesOf key → s.view.dead n = false)

/-- handles are only recycled when no cache entry counts them -/
structure NodeLife (t : Table) (v : View) : Prop where
  free_uncached : ∀ n, v.free n = true → t.cc n = 0

/-! ## The history invariant -/

/-- every table entry is the most recent add for its key, and if any of its nodes was ever
    seen dead since, one is dead in the newest view -/
def HistInv (hist : List Step) (t : Table) : Prop :=
  ∀ e, e ∈ t.entries → ∃ d, specFind e.etype e.key hist = some (e, d) ∧
    (d = true → ∀ s rest, hist = s :: rest → deadish s.view e)

theorem deadish_of_flags {v : View} {e : Entry}
    (h : (e.nodes.any v.dead || v.typeDead e.etype) = true) : deadish v e := by
  simp only [Bool.or_eq_true, List.any_eq_true] at h
  cases h with
  | inl h => obtain ⟨n, hn, hd⟩ := h; exact Or.inr ⟨n, hn, hd⟩
  | inr h => exact Or.inl h

/-- carrying `deadish` from the previous newest view to the next one -/
theorem deadish_transport {t : Table} {pv v : View} {e : Entry} (hi : Inv t) (he : e ∈ t.entries)
    (hs : Sticky t pv v) (hd : deadish pv e) : deadish v e := by
  cases hd with
  | inl h => exact Or.inl (hs.type_sticky _ h)
  | inr h =>
    obtain ⟨n, hn, hdn⟩ := h
    refine Or.inr ⟨n, hn, hs.dead_sticky n ?_ hdn⟩
    rw [hi.cc_ok]; exact total_pos he hn

/-- the newest step is not an `add` for the key of `e` : `specFind` just ages -/
theorem specFind_age {s : Step} {rest : List Step} {e : Entry} {d : Bool}
    (hop : ∀ e0, s.op = .add e0 → e0.hasKey e.etype e.key = false)
    (h : specFind e.etype e.key rest = some (e, d)) :
    specFind e.etype e.key (s :: rest) =
      some (e, d || (e.nodes.any s.view.dead || s.view.typeDead e.etype)) := by
  simp only [specFind, h, Option.map]
  cases hs : s.op with
  | add e0 => simp [hop e0 hs]
  | find _ _ _ => rfl
  | lose _ => rfl
  | removeStales => rfl
  | removeAll => rfl

theorem histInv_step {s : Step} {rest : List Step} {t t' : Table}
    (hex : exec rest = some t) (hst : step t s.view s.op = some t')
    (hnl : NodeLifeOK (s :: rest)) (hh : HistInv rest t) : HistInv (s :: rest) t' := by
  have hi : Inv t := inv_exec hex
  -- an old entry that survives
  have old : ∀ e, e ∈ t.entries → (∀ e0, s.op = .add e0 → e0.hasKey e.etype e.key = false) →
      ∃ d, specFind e.etype e.key (s :: rest) = some (e, d) ∧
        (d = true → ∀ s' rest', s :: rest = s' :: rest' → deadish s'.view e) := by
    intro e he hop
    obtain ⟨d, hsf, hdd⟩ := hh e he
    refine ⟨_, specFind_age hop hsf, ?_⟩
    intro hd s' rest' heq
    cases heq
    cases d with
    | true =>
      cases rest with
      | nil => simp [exec] at hex; cases hex; cases he
      | cons p rest'' =>
        have hsticky := hnl.2.1 t p rest'' hex rfl
        exact deadish_transport hi he hsticky (hdd rfl p rest'' rfl)
    | false =>
      simp only [Bool.false_or] at hd
      exact deadish_of_flags hd
  intro e he
  cases step_entries hst with
  | inl h =>
    obtain ⟨e0, hop, hlk, hent⟩ := h
    rw [hent] at he
    cases he with
    | head =>
      refine ⟨false, ?_, by intro h; cases h⟩
      simp [specFind, hop, Entry.hasKey]
    | tail _ he' =>
      apply old e he'
      intro e1 h1
      rw [hop] at h1; cases h1
      have := (lookup_none_iff t e0.etype e0.key).mp hlk e he'
      cases hk : e0.hasKey e.etype e.key with
      | false => rfl
      | true =>
        have hk' := (hasKey_iff _ _ _).mp hk
        have : e.hasKey e0.etype e0.key = true := (hasKey_iff _ _ _).mpr ⟨hk'.1.symm, hk'.2.symm⟩
        simp_all
  | inr h =>
    obtain ⟨hna, p, hent⟩ := h
    rw [hent] at he
    exact old e (List.mem_filter.mp he).1 (fun e0 h0 => absurd h0 (hna e0))

theorem histInv_exec : ∀ {hist : List Step} {t : Table},
    exec hist = some t → NodeLifeOK hist → HistInv hist t
  | [], t, h, _ => by simp [exec] at h; cases h; intro e he; cases he
  | s :: rest, t, h, hnl => by
    simp only [exec] at h
    cases hr : exec rest with
    | none => rw [hr] at h; cases h
    | some t0 =>
      rw [hr] at h
      exact histInv_step hr h hnl (histInv_exec hr hnl.1)

theorem find_none {t : Table} {v : View} {et : Nat} {key : List Item}
    (h : t.lookup et key = none) : t.find v et key = (t, none) := by
  simp [Table.find, h]
theorem find_dead {t : Table} {v : View} {et : Nat} {key : List Item} {e : Entry}
    (h : t.lookup et key = some e) (hd : deadEntry v e = true) :
    t.find v et key = (t.discardWhere (fun x => x.hasKey et key), none) := by
  simp [Table.find, h, hd]
theorem find_live {t : Table} {v : View} {et : Nat} {key : List Item} {e : Entry}
    (h : t.lookup et key = some e) (hd : deadEntry v e = false) :
    t.find v et key = (t, some e.result) := by
  simp [Table.find, h, hd]

/-! ## Client of the table (for `lossy_ok`) -/

/-- one top-level request of a client: the view at that moment, what the table loses
    beforehand (eviction, garbage collection, explicit clears: ANY predicate), and the key -/
structure Call where
  view : View
  lose : Entry → Bool
  et : Nat
  key : List Item

/-- a client that uses the hit, or computes `f` on a miss and adds it -/
def client (f : Nat → List Item → List Item) : Table → List Call → List (List Item)
  | _, [] => []
  | t, c :: cs =>
    match (t.discardWhere c.lose).find c.view c.et c.key with
    | (t2, some r) => r :: client f t2 cs
    | (t2, none) =>
      let r := f c.et c.key
      r :: client f (t2.add ⟨c.et, c.key, r⟩) cs

/-- the same client without any table -/
def clientNoTable (f : Nat → List Item → List Item) (cs : List Call) : List (List Item) :=
  cs.map (fun c => f c.et c.key)

/-- every cached result is the value of `f` at its key -/
def Consistent (f : Nat → List Item → List Item) (t : Table) : Prop :=
  ∀ e, e ∈ t.entries → e.result = f e.etype e.key

theorem consistent_discard {f : Nat → List Item → List Item} {t : Table} (h : Consistent f t)
    (p : Entry → Bool) : Consistent f (t.discardWhere p) :=
  fun e he => h e (List.mem_filter.mp he).1

/-! ## Tracking a lossy table by a loss-free one (justifies the acceptor) -/

/-- the acceptor cannot see silent losses: it replays the same steps without them -/
def stepObs (u : Table) (v : View) : Op → Option Table
  | .lose _ => some u
  | op => step u v op

theorem sublist_filter_filter {es us : List Entry} (h : es.Sublist us) (p : Entry → Bool) :
    (es.filter p).Sublist (us.filter p) := h.filter p

theorem total_le_of_sublist {es us : List Entry} (h : es.Sublist us) (n : NodeRef) :
    total es n ≤ total us n := by
  induction h with
  | slnil => exact Nat.le_refl _
  | cons a _ ih => simp [total]; omega
  | cons_cons a _ ih => simp [total]; omega

/-! ## Property theorems -/

/-- **C07 / ct_trace_sound.**  For the C++ code: whenever `findCT` reports a hit, the returned
    result is the one stored by the MOST RECENT `addCT` for that entry type and key, and no
    node mentioned by that entry (key or result) and not its type was dead at any step in
    between or is dead now -- under every history of adds, finds, arbitrary losses, stale
    removals and clears, provided the node manager keeps counted dead handles dead
    (`NodeLifeOK`). -/
theorem ct_trace_sound (hist : List Step) (v : View) (et : Nat) (key r : List Item) (t' : Table)
    (hnl : NodeLifeOK (⟨v, .find et key (some r)⟩ :: hist))
    (hacc : exec (⟨v, .find et key (some r)⟩ :: hist) = some t') :
    ∃ e, specFind et key hist = some (e, false) ∧ e.etype = et ∧ e.key = key ∧ e.result = r ∧
      ¬ deadish v e := by
  simp only [exec] at hacc
  cases hr : exec hist with
  | none => rw [hr] at hacc; cases hacc
  | some t =>
    rw [hr] at hacc
    simp only [Option.bind, step] at hacc
    cases hl : t.lookup et key with
    | none => rw [hl] at hacc; cases hacc
    | some e =>
      rw [hl] at hacc
      simp only at hacc
      split at hacc
      · rename_i hc
        obtain ⟨hres, hnd⟩ := hc
        obtain ⟨hmem, hk⟩ := lookup_some hl
        obtain ⟨hty, hkey⟩ := (hasKey_iff _ _ _).mp hk
        have hi : Inv t := inv_exec hr
        -- not deadish now
        have hnow : ¬ deadish v e := by
          intro hd
          simp only [deadEntry, Bool.or_eq_false_iff, List.any_eq_false] at hnd
          cases hd with
          | inl h => rw [hnd.1] at h; cases h
          | inr h =>
            obtain ⟨n, hn, hdn⟩ := h
            simp only [Entry.nodes, List.mem_append] at hn
            cases hn with
            | inl hkn =>
              have := hnl.2.2 et key (some r) rfl n (hkey ▸ hkn)
              simp only at this
              rw [this] at hdn; cases hdn
            | inr hrn => exact absurd hdn (hnd.2 n hrn)
        obtain ⟨d, hsf, hdd⟩ := histInv_exec hr hnl.1 e hmem
        rw [hty, hkey] at hsf
        refine ⟨e, ?_, hty, hkey, hres, hnow⟩
        cases d with
        | false => exact hsf
        | true =>
          exfalso
          cases hist with
          | nil => simp [exec] at hr; cases hr; cases hmem
          | cons p rest =>
            have hsticky := hnl.2.1 t p rest hr rfl
            exact hnow (deadish_transport hi hmem hsticky (hdd rfl p rest rfl))
      · cases hacc

/-- non-vacuity: add (k ↦ r), lose nothing, hit r -- while an unrelated node is dead in every
    view; the history is accepted, satisfies `NodeLifeOK`, and `specFind` names the add -/
example :
    let n1 : NodeRef := ⟨1, 5, 0⟩
    let n2 : NodeRef := ⟨1, 7, 3⟩
    let n3 : NodeRef := ⟨1, 9, 1⟩
    let v : View := { View.allLive with dead := fun n => n == n3, stale := fun n => n == n3 }
    let e : Entry := ⟨2, [.node n1, .int 4], [.node n2]⟩
    let hist : List Step := [⟨v, .lose (fun _ => false)⟩, ⟨v, .add e⟩]
    let last : Step := ⟨v, .find 2 [.node n1, .int 4] (some [.node n2])⟩
    (exec (last :: hist)).isSome = true ∧
    specFind 2 [.node n1, .int 4] hist = some (e, false) ∧
    NodeLifeOK (last :: hist) := by
  refine ⟨by decide, by decide, ?_⟩
  have st : ∀ (t : Table) (v : View), Sticky t v v := fun _ _ => ⟨fun _ _ h => h, fun _ h => h⟩
  refine ⟨⟨⟨trivial, ?_, ?_⟩, ?_, ?_⟩, ?_, ?_⟩
  · intro t p r _ h; cases h
  · intro et key out h; cases h
  · intro t p r _ h; cases h; exact st _ _
  · intro et key out h; cases h
  · intro t p r _ h; cases h; exact st _ _
  · intro et key out h n hn
    cases h
    simp [nodesOf, Item.nodes] at hn
    subst hn; decide

/-- non-vacuity (negative side): once the result node is dead the same hit is NOT accepted,
    and the find must miss (discarding the entry and its counts) -/
example :
    let n1 : NodeRef := ⟨1, 5, 0⟩
    let n2 : NodeRef := ⟨1, 7, 3⟩
    let v : View := { View.allLive with dead := fun n => n == n2 }
    let e : Entry := ⟨2, [.node n1], [.node n2]⟩
    (exec [⟨v, .find 2 [.node n1] (some [.node n2])⟩, ⟨View.allLive, .add e⟩]).isSome = false ∧
    ((exec [⟨v, .find 2 [.node n1] none⟩, ⟨View.allLive, .add e⟩]).map
      (fun t => (t.entries.length, t.cc n1, t.cc n2))) = some (0, 0, 0) ∧
    ((Table.empty.add e).find v 2 [.node n1]).2 = none := by decide

/-- **C07 / cc_exact.**  For the C++ code: after any sequence of adds, discards during `find`,
    losses, `removeStales` and `removeAll`, the cache counter of every node equals the number
    of node items of live entries that are this node (an entry mentioning the node k times
    counts k times), i.e. `verifCacheCount(n) = countAllNodeEntries(n)`. -/
theorem cc_exact (hist : List Step) (t : Table) (h : exec hist = some t) (n : NodeRef) :
    t.cc n = total t.entries n := (inv_exec h).cc_ok n

/-- non-vacuity: a node mentioned twice in one entry and once in another has count 3;
    after the first entry is lost, 1 -/
example :
    let a : NodeRef := ⟨1, 5, 0⟩
    let e1 : Entry := ⟨0, [.node a, .node a], [.int 1]⟩
    let e2 : Entry := ⟨1, [.int 9], [.node a]⟩
    ((exec [⟨View.allLive, .add e2⟩, ⟨View.allLive, .add e1⟩]).map (fun t => t.cc a)) = some 3 ∧
    ((exec [⟨View.allLive, .lose (fun e => e.etype == 0)⟩, ⟨View.allLive, .add e2⟩,
            ⟨View.allLive, .add e1⟩]).map (fun t => (t.cc a, t.entries.length))) = some (1, 1) := by
  decide

/-- For the C++ code: live entries always have pairwise different (type, key), as long as the
    client follows the find-miss-add protocol (an `add` for a key still present is rejected
    by `step`). -/
theorem keys_distinct (hist : List Step) (t : Table) (h : exec hist = some t) :
    DistinctKeys t.entries := (inv_exec h).distinct

/-- non-vacuity: two adds with different keys are accepted (2 entries); re-adding a key that
    is still present is rejected -/
example :
    let e1 : Entry := ⟨0, [.int 1], [.int 10]⟩
    let e2 : Entry := ⟨0, [.int 2], [.int 20]⟩
    ((exec [⟨View.allLive, .add e2⟩, ⟨View.allLive, .add e1⟩]).map (fun t => t.entries.length)) = some 2 ∧
    (exec [⟨View.allLive, .add ⟨0, [.int 1], [.int 11]⟩⟩, ⟨View.allLive, .add e1⟩]).isSome = false := by
  decide

/-- **C07 / removeAll_empty.**  For the C++ code: after `removeAll()` the table holds no entry
    and every cache counter contributed by it is zero. -/
theorem removeAll_empty (hist : List Step) (v : View) (t : Table)
    (h : exec (⟨v, .removeAll⟩ :: hist) = some t) : t.entries = [] ∧ ∀ n, t.cc n = 0 := by
  have hcc := cc_exact _ _ h
  simp only [exec] at h
  cases hr : exec hist with
  | none => rw [hr] at h; cases h
  | some t0 =>
    rw [hr] at h
    simp only [Option.bind, step] at h
    cases h
    have he : (t0.discardWhere (fun _ => true)).entries = [] := by simp [Table.discardWhere]
    refine ⟨he, fun n => ?_⟩
    rw [hcc n, he]; rfl

example :
    let a : NodeRef := ⟨1, 5, 0⟩
    ((exec [⟨View.allLive, .removeAll⟩, ⟨View.allLive, .add ⟨0, [.node a], [.node a]⟩⟩]).map
      (fun t => (t.entries.length, t.cc a))) = some (0, 0) := by decide

/-- **C07 / removeStales_clean.**  For the C++ code: after `removeStales()` no remaining entry
    is stale with respect to the liveness view the removal ran under. -/
theorem removeStales_clean (hist : List Step) (v : View) (t : Table)
    (h : exec (⟨v, .removeStales⟩ :: hist) = some t) : ∀ e, e ∈ t.entries → staleEntry v e = false := by
  simp only [exec] at h
  cases hr : exec hist with
  | none => rw [hr] at h; cases h
  | some t0 =>
    rw [hr] at h
    simp only [Option.bind, step] at h
    cases h
    intro e he
    have := (List.mem_filter.mp he).2
    simpa using this

example :
    let a : NodeRef := ⟨1, 5, 0⟩
    let b : NodeRef := ⟨1, 6, 0⟩
    let v : View := { View.allLive with stale := fun n => n == a }
    ((exec [⟨v, .removeStales⟩, ⟨View.allLive, .add ⟨0, [.node b], [.int 2]⟩⟩,
            ⟨View.allLive, .add ⟨0, [.node a], [.int 1]⟩⟩]).map
      (fun t => (t.entries.map (fun e => e.key), t.cc a, t.cc b))) = some ([[.node b]], 0, 1) := by
  decide

/-- **C07 / no_reuse_while_cached.**  For the C++ code: a node handle mentioned by a live
    cache entry is never on the free list, so it cannot be handed out for a different node
    while the entry exists -- given the NodeLife fact that handles are recycled only at cache
    count zero (`node_headers::recycleNodeHandle`). -/
theorem no_reuse_while_cached (hist : List Step) (t : Table) (v : View)
    (h : exec hist = some t) (nl : NodeLife t v) (e : Entry) (he : e ∈ t.entries)
    (n : NodeRef) (hn : n ∈ e.nodes) : v.free n = false := by
  cases hf : v.free n with
  | false => rfl
  | true =>
    have h0 := nl.free_uncached n hf
    have hp := total_pos he hn
    rw [cc_exact hist t h n] at h0
    omega

/-- non-vacuity: a table with one entry, and a view whose free list is disjoint from it -/
example :
    let a : NodeRef := ⟨1, 5, 0⟩
    let t : Table := Table.empty.add ⟨0, [.node a], [.int 1]⟩
    let v : View := { View.allLive with free := fun n => n.handle == 6 }
    exec [⟨View.allLive, .add ⟨0, [.node a], [.int 1]⟩⟩] = some t ∧ NodeLife t v := by
  refine ⟨rfl, ⟨?_⟩⟩
  intro n hn
  have h6 : n.handle = 6 := by simpa using hn
  show cacheAll (fun _ => 0) [(⟨1, 5, 0⟩ : NodeRef)] n = 0
  rw [cacheAll_apply]
  have hne : n ≠ (⟨1, 5, 0⟩ : NodeRef) := by intro h; rw [h] at h6; cases h6
  have : List.count n [(⟨1, 5, 0⟩ : NodeRef)] = 0 :=
    List.count_eq_zero.mpr (by simp; exact hne)
  omega

/-- **C07 / lossy_ok (`apply_ct_indep`, abstract form).**  For the C++ code: a client that
    computes `f key` on a miss and adds it, and uses the cached value on a hit, returns the
    same results under EVERY loss schedule, every liveness view and every warm initial table
    (whose results agree with `f`) as the client that never consults a table -- i.e. the
    outcome of operations does not depend on table style, size, stale policy, purges or
    clears, because those only change which entries are lost and when. -/
theorem lossy_ok (f : Nat → List Item → List Item) (cs : List Call) :
    ∀ t : Table, Consistent f t → client f t cs = clientNoTable f cs := by
  induction cs with
  | nil => intro t _; rfl
  | cons c cs ih =>
    intro t ht
    have h1 : Consistent f (t.discardWhere c.lose) := consistent_discard ht _
    simp only [client, clientNoTable, List.map_cons]
    cases hl : (t.discardWhere c.lose).lookup c.et c.key with
    | none =>
      rw [find_none hl]
      simp only
      congr 1
      apply ih
      intro e he
      cases he with
      | head => rfl
      | tail _ he' => exact h1 e he'
    | some e =>
      obtain ⟨hmem, hk⟩ := lookup_some hl
      obtain ⟨hty, hkey⟩ := (hasKey_iff _ _ _).mp hk
      cases hd : deadEntry c.view e with
      | true =>
        -- dead: discarded, recomputed
        rw [find_dead hl hd]
        simp only
        congr 1
        apply ih
        intro e' he'
        cases he' with
        | head => rfl
        | tail _ he'' => exact consistent_discard h1 _ e' he''
      | false =>
        rw [find_live hl hd]
        simp only
        rw [h1 e hmem, hty, hkey]
        congr 1
        exact ih _ h1

/-- non-vacuity: three calls, the second a repeat (hit), the third after losing everything -/
example :
    let f : Nat → List Item → List Item := fun et k => .int et :: k
    let c1 : Call := ⟨View.allLive, fun _ => false, 1, [.int 5]⟩
    let c3 : Call := ⟨View.allLive, fun _ => true, 1, [.int 5]⟩
    client f Table.empty [c1, c1, c3] = [[.int 1, .int 5], [.int 1, .int 5], [.int 1, .int 5]] ∧
    Consistent f Table.empty := by
  refine ⟨by decide, ?_⟩
  intro e he; cases he

/-- **C07 / tracking_sound.**  For the acceptor: if the real table `r` (which also suffers
    invisible losses) is a sub-multiset (sublist) of the tracked loss-free table `u`, then every
    real step that is accepted is accepted on `u` as well -- as long as a tracked `add` finds
    its key absent -- and the inclusion is preserved; so hits never raise false alarms and the
    tracked count is an upper bound for every real cache counter. -/
theorem tracking_sound {r u r' : Table} {v : View} {op : Op}
    (hr : Inv r) (hu : Inv u) (hsub : r.entries.Sublist u.entries)
    (hstep : step r v op = some r')
    (hadd : ∀ e, op = .add e → u.lookup e.etype e.key = none) :
    ∃ u', stepObs u v op = some u' ∧ r'.entries.Sublist u'.entries ∧ Inv u' ∧
      ∀ n, r'.cc n ≤ u'.cc n := by
  have fin : ∀ u', stepObs u v op = some u' → r'.entries.Sublist u'.entries → Inv u' →
      ∃ u', stepObs u v op = some u' ∧ r'.entries.Sublist u'.entries ∧ Inv u' ∧
        ∀ n, r'.cc n ≤ u'.cc n := by
    intro u' h1 h2 h3
    refine ⟨u', h1, h2, h3, fun n => ?_⟩
    rw [(inv_step hr hstep).cc_ok, h3.cc_ok]
    exact total_le_of_sublist h2 n
  cases op with
  | add e =>
    have hu' := hadd e rfl
    simp only [step] at hstep
    split at hstep
    · cases hstep
      refine fin (u.add e) ?_ ?_ (inv_add hu e hu')
      · simp [stepObs, step, hu']
      · exact List.Sublist.cons_cons e hsub
    · cases hstep
  | find et key out =>
    cases out with
    | none =>
      simp only [step] at hstep; cases hstep
      exact fin (u.discardWhere _) rfl (hsub.filter _) (inv_discardWhere hu _)
    | some res =>
      simp only [step] at hstep
      split at hstep
      · rename_i e hl
        split at hstep
        · rename_i hc
          cases hstep
          obtain ⟨hmem, hk⟩ := lookup_some hl
          obtain ⟨hty, hkey⟩ := (hasKey_iff _ _ _).mp hk
          have hmu : e ∈ u.entries := hsub.subset hmem
          have hlu : u.lookup et key = some e := by
            have := lookup_of_mem hu.distinct hmu
            rw [hty, hkey] at this; exact this
          refine fin u ?_ hsub hu
          simp [stepObs, step, hlu, hc]
        · cases hstep
      · cases hstep
  | lose p =>
    simp only [step] at hstep; cases hstep
    refine fin u rfl ?_ hu
    exact List.Sublist.trans List.filter_sublist hsub
  | removeStales =>
    simp only [step] at hstep; cases hstep
    exact fin (u.discardWhere _) rfl (hsub.filter _) (inv_discardWhere hu _)
  | removeAll =>
    simp only [step] at hstep; cases hstep
    exact fin (u.discardWhere _) rfl (hsub.filter _) (inv_discardWhere hu _)

/-- non-vacuity: the real table silently lost an entry the tracked one still has; the next
    (accepted) hit on the other entry is accepted on the tracked table too -/
example :
    let e1 : Entry := ⟨0, [.int 1], [.int 10]⟩
    let e2 : Entry := ⟨0, [.int 2], [.int 20]⟩
    let u : Table := (Table.empty.add e1).add e2
    let r : Table := u.discardWhere (fun e => e == e2)
    (step r View.allLive (.find 0 [.int 1] (some [.int 10]))).isSome = true ∧
    (stepObs u View.allLive (.find 0 [.int 1] (some [.int 10]))).isSome = true ∧
    r.entries.Sublist u.entries := by
  refine ⟨by decide, by decide, ?_⟩
  exact List.Sublist.cons _ (List.Sublist.refl _)

/-- For the C++ code: what `find` does when nothing else is lost during the call (`Table.find`:
    newest equal entry; dead -> discard and miss, else hit) is an accepted behaviour of the
    specification automaton. -/
theorem find_accepted (t : Table) (v : View) (et : Nat) (key : List Item) :
    ∃ t', step t v (.find et key (t.find v et key).2) = some t' ∧
      t'.entries = (t.find v et key).1.entries := by
  unfold Table.find
  cases hl : t.lookup et key with
  | none =>
    refine ⟨_, rfl, ?_⟩
    simp only [Table.discardWhere]
    have := (lookup_none_iff t et key).mp hl
    apply List.filter_eq_self.mpr
    intro e he; simp [this e he]
  | some e =>
    simp only
    cases hd : deadEntry v e with
    | true => exact ⟨_, rfl, rfl⟩
    | false =>
      refine ⟨t, ?_, rfl⟩
      simp [step, hl, hd]

/-- non-vacuity: a live entry is hit, and the outcome is accepted by `step` -/
example :
    let e : Entry := ⟨0, [.int 1], [.int 10]⟩
    let t : Table := Table.empty.add e
    (t.find View.allLive 0 [.int 1]).2 = some [.int 10] ∧
    (step t View.allLive (.find 0 [.int 1] (t.find View.allLive 0 [.int 1]).2)).isSome = true := by
  decide

end Meddly.CT

/-
  `#print axioms` (Lean 4.33.0) of every property theorem:
    Meddly.CT.ct_trace_sound        : [propext, Classical.choice, Quot.sound]
    Meddly.CT.cc_exact              : [propext, Quot.sound]
    Meddly.CT.keys_distinct         : [propext, Quot.sound]
    Meddly.CT.removeAll_empty       : [propext, Classical.choice, Quot.sound]
    Meddly.CT.removeStales_clean    : [propext]
    Meddly.CT.no_reuse_while_cached : [propext, Quot.sound]
    Meddly.CT.lossy_ok              : [propext, Quot.sound]
    Meddly.CT.tracking_sound        : [propext, Classical.choice, Quot.sound]
    Meddly.CT.find_accepted         : [propext, Quot.sound]
  No sorry / admit / axiom / native_decide / unsafe / partial in this file.
-/
