/-
  Model of `MEDDLY::counter_array` (src/arrays.h, src/arrays.cc).

  The C++ class stores `size` unsigned counters in ONE of three arrays
  (`data8` / `data16` / `data32`; `bytes` ∈ {1,2,4} says which) and keeps two tallies
      counts_09bit = #entries needing at least 9 bits  (value ≥ 256)
      counts_17bit = #entries needing at least 17 bits (value ≥ 65536).
  * WIDENING happens inside `increment` / `isZeroBeforeIncrement`, exactly when the stored
    element wraps to 0 (`expand8to16`, `expand16to32`), the wrapped element is then set to
    256 / 65536 and the matching tally is SET to 1.
  * NARROWING happens only inside `expand(ns)` / `shrink(ns)` (and only when they really
    resize, i.e. ns > size resp. ns < size): 16→8 when counts_09bit = 0, 32→16 when
    counts_17bit = 0 ≠ counts_09bit, 32→8 when both are 0.
  * `shrink` does NOT look at the entries it drops, so the tallies are not decremented
    for dropped large entries (see `Op.shrink` and theorem `tally_exact`).

  The model keeps the element values as `Nat` and performs every truncation the C++ code
  performs (`% 256`, `% 65536`, `% 2^32`) explicitly, so the theorems below really say
  "no truncation ever bites".

  Out-of-contract calls: `shrink(0)` on a non-empty array calls `realloc(p, 0)` (or `malloc(0)` on
  the narrowing path), whose result is implementation defined; with glibc it returns NULL, which the
  class reports as INSUFFICIENT_MEMORY while keeping the already freed pointer (double free in the
  destructor).  `node_headers` never shrinks below 512 entries.  The model step returns `none`.
  An index ≥ size is undefined behaviour in the release build
  (`MEDDLY_CHECK_RANGE` is compiled out) → the model step returns `none`.
  Decrementing a zero counter wraps in the release build (`MEDDLY_DCASSERT` compiled out);
  the model wraps in the same way, but such runs are excluded from the theorems by
  the legality of the specification run.
-/
namespace Meddly.CounterArray

/-- Concrete state of a `counter_array`. `data` = contents of whichever of data8/16/32 is live. -/
structure CA where
  bytes : Nat
  data  : List Nat
  c09   : Nat
  c17   : Nat
  deriving Repr, DecidableEq

/-- state after the constructor: `bytes = sizeof(unsigned char)`, size 0, tallies 0 -/
def init : CA := { bytes := 1, data := [], c09 := 0, c17 := 0 }

/-- exclusive upper bound of a stored element -/
def lim (bytes : Nat) : Nat := 2 ^ (8 * bytes)

/-- `entry_bits()` -/
def CA.bits (c : CA) : Nat := 8 * c.bytes

/-- The public mutators / observers of the class (`show` is output only and omitted;
    `entry_bits` is modelled by `CA.bits`). -/
inductive Op where
  | expand (ns : Nat)
  | shrink (ns : Nat)
  | get (i : Nat)
  | swap (i j : Nat)
  | increment (i : Nat)
  | decrement (i : Nat)
  | isZeroBeforeIncrement (i : Nat)
  | isPositiveAfterDecrement (i : Nat)
  deriving Repr, DecidableEq

/-- The narrowing decision shared by `expand` and `shrink` (`switch (bytes)` in both):
    shrink16to8 / shrink32to16 / shrink32to8 copy with truncation. -/
def renarrow (c : CA) : CA :=
  if c.bytes = 1 then c
  else if c.bytes = 2 then
    (if c.c09 ≠ 0 then c else { c with bytes := 1, data := c.data.map (· % 256) })
  else
    (if c.c17 ≠ 0 then c
     else if c.c09 ≠ 0 then { c with bytes := 2, data := c.data.map (· % 65536) }
     else { c with bytes := 1, data := c.data.map (· % 256) })

/-- the `++` path of `increment` / `isZeroBeforeIncrement` on element `i` whose value is `v` -/
def bump (c : CA) (i v : Nat) : CA :=
  if c.bytes = 1 then
    let v' := (v + 1) % 256
    if v' = 0 then
      -- expand8to16(i): counts_09bit = 1; data16[i] = 256
      { bytes := 2, data := c.data.set i 256, c09 := 1, c17 := c.c17 }
    else { c with data := c.data.set i v' }
  else if c.bytes = 2 then
    let v' := (v + 1) % 65536
    let n09 := if v' = 256 then c.c09 + 1 else c.c09
    if v' = 0 then
      -- expand16to32(i): counts_17bit = 1; data32[i] = 65536
      { bytes := 4, data := c.data.set i 65536, c09 := n09, c17 := 1 }
    else { c with data := c.data.set i v', c09 := n09 }
  else
    let v' := (v + 1) % 4294967296
    { c with data := c.data.set i v',
             c09 := if v' = 256 then c.c09 + 1 else c.c09,
             c17 := if v' = 65536 then c.c17 + 1 else c.c17 }

/-- `decrement` / `isPositiveAfterDecrement` on element `i` whose value is `v` -/
def drop1 (c : CA) (i v : Nat) : CA :=
  if c.bytes = 1 then { c with data := c.data.set i ((v + 255) % 256) }
  else if c.bytes = 2 then
    { c with data := c.data.set i ((v + 65535) % 65536),
             c09 := if v = 256 then c.c09 - 1 else c.c09 }
  else
    { c with data := c.data.set i ((v + 4294967295) % 4294967296),
             c09 := if v = 256 then c.c09 - 1 else c.c09,
             c17 := if v = 65536 then c.c17 - 1 else c.c17 }

/-- One call.  Result: the new state and the returned value (`bool` as 0/1, `void` as 0).
    `none` = index out of range (undefined behaviour in C++). -/
def step (c : CA) : Op → Option (CA × Nat)
  | .expand ns =>
      if ns ≤ c.data.length then some (c, 0)
      else
        let c' := renarrow c
        some ({ c' with data := c'.data ++ List.replicate (ns - c.data.length) 0 }, 0)
  | .shrink ns =>
      if c.data.length ≤ ns then some (c, 0)
      else if ns = 0 then none   -- realloc(p, 0) / malloc(0): implementation defined, see below
      else
        let c' := renarrow c
        some ({ c' with data := c'.data.take ns }, 0)
  | .get i => if i < c.data.length then some (c, c.data.getD i 0) else none
  | .swap i j =>
      if i < c.data.length ∧ j < c.data.length then
        some ({ c with data := (c.data.set i (c.data.getD j 0)).set j (c.data.getD i 0) }, 0)
      else none
  | .increment i =>
      if i < c.data.length then some (bump c i (c.data.getD i 0), 0) else none
  | .decrement i =>
      if i < c.data.length then some (drop1 c i (c.data.getD i 0), 0) else none
  | .isZeroBeforeIncrement i =>
      if i < c.data.length then
        (if c.data.getD i 0 = 0 then some ({ c with data := c.data.set i 1 }, 1)
         else some (bump c i (c.data.getD i 0), 0))
      else none
  | .isPositiveAfterDecrement i =>
      if i < c.data.length then
        let c' := drop1 c i (c.data.getD i 0)
        some (c', if 0 < c'.data.getD i 0 then 1 else 0)
      else none

/-- run a call sequence, collecting the returned values -/
def run (c : CA) : List Op → Option (CA × List Nat)
  | [] => some (c, [])
  | op :: ops =>
    match step c op with
    | none => none
    | some (c', r) =>
      match run c' ops with
      | none => none
      | some (c'', rs) => some (c'', r :: rs)

/-! ### Specification: a plain array of naturals -/

/-- The same call on a plain `List Nat`.  `none` = the call is outside the contract
    (index out of range, decrement of a zero count, count reaching 2^32). -/
def specStep (a : List Nat) : Op → Option (List Nat × Nat)
  | .expand ns => some (a ++ List.replicate (ns - a.length) 0, 0)
  | .shrink ns => if a.length ≤ ns ∨ ns ≠ 0 then some (a.take ns, 0) else none
  | .get i => if i < a.length then some (a, a.getD i 0) else none
  | .swap i j =>
      if i < a.length ∧ j < a.length then
        some ((a.set i (a.getD j 0)).set j (a.getD i 0), 0)
      else none
  | .increment i =>
      if i < a.length ∧ a.getD i 0 + 1 < 4294967296 then some (a.set i (a.getD i 0 + 1), 0) else none
  | .decrement i =>
      if i < a.length ∧ 0 < a.getD i 0 then some (a.set i (a.getD i 0 - 1), 0) else none
  | .isZeroBeforeIncrement i =>
      if i < a.length ∧ a.getD i 0 + 1 < 4294967296 then
        some (a.set i (a.getD i 0 + 1), if a.getD i 0 = 0 then 1 else 0)
      else none
  | .isPositiveAfterDecrement i =>
      if i < a.length ∧ 0 < a.getD i 0 then
        some (a.set i (a.getD i 0 - 1), if 0 < a.getD i 0 - 1 then 1 else 0)
      else none

def specRun (a : List Nat) : List Op → Option (List Nat × List Nat)
  | [] => some (a, [])
  | op :: ops =>
    match specStep a op with
    | none => none
    | some (a', r) =>
      match specRun a' ops with
      | none => none
      | some (a'', rs) => some (a'', r :: rs)

/-- number of entries ≥ k -/
def big (k : Nat) (l : List Nat) : Nat := l.countP (fun x => decide (k ≤ x))

/-- a `shrink` drops only entries below 256 (this is how `node_headers` uses the class:
    the dropped handles are all free, their counts are 0) -/
def cleanOp (a : List Nat) : Op → Prop
  | .shrink ns => ∀ x ∈ a.drop ns, x < 256
  | _ => True

/-- every `shrink` of the run is clean -/
def cleanShrinks (a : List Nat) : List Op → Prop
  | [] => True
  | op :: ops =>
    cleanOp a op ∧
    (match specStep a op with
     | none => True
     | some (a', _) => cleanShrinks a' ops)

instance (a : List Nat) (op : Op) : Decidable (cleanOp a op) := by
  cases op <;> simp only [cleanOp] <;> infer_instance

instance decCleanShrinks : (a : List Nat) → (ops : List Op) → Decidable (cleanShrinks a ops)
  | _, [] => isTrue trivial
  | a, op :: ops =>
    match h : specStep a op with
    | none =>
      if hc : cleanOp a op then isTrue (by simp only [cleanShrinks, h]; exact ⟨hc, trivial⟩)
      else isFalse (by simp only [cleanShrinks, h]; exact fun x => hc x.1)
    | some (a', _) =>
      if hc : cleanOp a op then
        match decCleanShrinks a' ops with
        | isTrue ht => isTrue (by simp only [cleanShrinks, h]; exact ⟨hc, ht⟩)
        | isFalse hf => isFalse (by simp only [cleanShrinks, h]; exact fun x => hf x.2)
      else isFalse (by simp only [cleanShrinks, h]; exact fun x => hc x.1)

/-! ### Invariants -/

/-- width is sufficient, tallies are upper bounds of the true tallies and are consistent
    with the width -/
structure Inv (c : CA) : Prop where
  bytesOK : c.bytes = 1 ∨ c.bytes = 2 ∨ c.bytes = 4
  fits    : ∀ x ∈ c.data, x < lim c.bytes
  t09     : big 256 c.data ≤ c.c09
  t17     : big 65536 c.data ≤ c.c17
  w1      : c.bytes = 1 → c.c09 = 0 ∧ c.c17 = 0
  w2      : c.bytes = 2 → c.c17 = 0

/-- tallies are exact -/
def Exact (c : CA) : Prop := c.c09 = big 256 c.data ∧ c.c17 = big 65536 c.data

theorem lim1 : lim 1 = 256 := by decide
theorem lim2 : lim 2 = 65536 := by decide
theorem lim4 : lim 4 = 4294967296 := by decide

theorem big_set {k : Nat} {l : List Nat} {i v : Nat} (h : i < l.length) :
    big k (l.set i v) + (if k ≤ l.getD i 0 then 1 else 0) = big k l + (if k ≤ v then 1 else 0) := by
  unfold big
  rw [List.countP_set h]
  have hb := List.boole_getElem_le_countP (p := fun x => decide (k ≤ x)) (l := l) h
  have hg : l.getD i 0 = l[i] := by simp [List.getD_eq_getElem?_getD, List.getElem?_eq_getElem h]
  rw [hg]
  simp only [decide_eq_true_eq] at hb ⊢
  omega

theorem big_zero_of_lt {k : Nat} {l : List Nat} (h : ∀ x ∈ l, x < k) : big k l = 0 := by
  unfold big
  rw [List.countP_eq_zero]
  intro x hx
  have := h x hx
  simp; omega

theorem lt_of_big_zero {k : Nat} {l : List Nat} (h : big k l = 0) : ∀ x ∈ l, x < k := by
  unfold big at h
  rw [List.countP_eq_zero] at h
  intro x hx
  have := h x hx
  simp at this; omega

theorem big_append (k : Nat) (l m : List Nat) : big k (l ++ m) = big k l + big k m := by
  unfold big; simp

theorem big_replicate_zero {k n : Nat} (hk : 0 < k) : big k (List.replicate n 0) = 0 := by
  apply big_zero_of_lt
  intro x hx
  rw [List.mem_replicate] at hx
  omega

theorem big_take_drop (k n : Nat) (l : List Nat) : big k l = big k (l.take n) + big k (l.drop n) := by
  rw [← big_append, List.take_append_drop]

theorem map_mod_id {m : Nat} {l : List Nat} (h : ∀ x ∈ l, x < m) : l.map (· % m) = l := by
  induction l with
  | nil => rfl
  | cons x xs ih =>
    simp only [List.map_cons]
    rw [Nat.mod_eq_of_lt (h x (by simp)), ih (fun y hy => h y (by simp [hy]))]

theorem getD_mem {l : List Nat} {i : Nat} (h : i < l.length) : l.getD i 0 ∈ l := by
  have hg : l.getD i 0 = l[i] := by simp [List.getD_eq_getElem?_getD, List.getElem?_eq_getElem h]
  rw [hg]; exact List.getElem_mem h

theorem getD_set_self {l : List Nat} {i v : Nat} (h : i < l.length) : (l.set i v).getD i 0 = v := by
  simp [List.getD_eq_getElem?_getD, h]

theorem mem_set {l : List Nat} {i v x : Nat} (h : x ∈ l.set i v) : x ∈ l ∨ x = v :=
  List.mem_or_eq_of_mem_set h

theorem inv_init : Inv init := by
  refine ⟨Or.inl rfl, ?_, ?_, ?_, ?_, ?_⟩ <;> simp [init, big]

theorem exact_init : Exact init := by simp [Exact, init, big]

/-- `renarrow` never changes the contents and re-establishes the invariant -/
theorem renarrow_ok {c : CA} (h : Inv c) :
    (renarrow c).data = c.data ∧ Inv (renarrow c) ∧ (renarrow c).c09 = c.c09 ∧ (renarrow c).c17 = c.c17 := by
  obtain ⟨hb, hf, h9, h17, hw1, hw2⟩ := h
  obtain ⟨b, d, n9, n17⟩ := c
  simp only at hb hf h9 h17 hw1 hw2
  rcases hb with rfl | rfl | rfl
  · simp [renarrow]; exact ⟨Or.inl rfl, hf, h9, h17, hw1, hw2⟩
  · have z17 : n17 = 0 := hw2 rfl
    subst z17
    by_cases z : n9 = 0
    · subst z
      have hlt : ∀ x ∈ d, x < 256 := lt_of_big_zero (by omega)
      simp [renarrow, map_mod_id hlt]
      exact ⟨Or.inl rfl, by simpa [lim1] using hlt, h9, h17, fun _ => ⟨rfl, rfl⟩, fun hh => by simp at hh⟩
    · simp [renarrow, z]; exact ⟨Or.inr (Or.inl rfl), hf, h9, h17, hw1, hw2⟩
  · by_cases z17 : n17 = 0
    · subst z17
      have hlt17 : ∀ x ∈ d, x < 65536 := lt_of_big_zero (by omega)
      by_cases z : n9 = 0
      · subst z
        have hlt : ∀ x ∈ d, x < 256 := lt_of_big_zero (by omega)
        simp [renarrow, map_mod_id hlt]
        exact ⟨Or.inl rfl, by simpa [lim1] using hlt, h9, h17, fun _ => ⟨rfl, rfl⟩, fun hh => by simp at hh⟩
      · simp [renarrow, z, map_mod_id hlt17]
        exact ⟨Or.inr (Or.inl rfl), by simpa [lim2] using hlt17, h9, h17, fun hh => by simp at hh, fun _ => rfl⟩
    · simp [renarrow, z17]; exact ⟨Or.inr (Or.inr rfl), hf, h9, h17, hw1, hw2⟩

theorem fits_set {l : List Nat} {i v m : Nat} (hf : ∀ x ∈ l, x < m) (hv : v < m) :
    ∀ x ∈ l.set i v, x < m := by
  intro x hx
  rcases mem_set hx with h | h
  · exact hf x h
  · omega

/-- the increment path stores exactly `v+1`, keeps the invariant and keeps exact tallies exact -/
theorem bump_ok {c : CA} (h : Inv c) {i : Nat} (hi : i < c.data.length)
    (hv : c.data.getD i 0 + 1 < 4294967296) :
    (bump c i (c.data.getD i 0)).data = c.data.set i (c.data.getD i 0 + 1) ∧
    Inv (bump c i (c.data.getD i 0)) ∧ (Exact c → Exact (bump c i (c.data.getD i 0))) := by
  obtain ⟨hb, hf, h9, h17, hw1, hw2⟩ := h
  obtain ⟨b, d, n9, n17⟩ := c
  simp only at hb hf h9 h17 hw1 hw2 hi hv ⊢
  have hvm := hf _ (getD_mem hi)
  have s9 := big_set (k := 256) (v := d.getD i 0 + 1) hi
  have s17 := big_set (k := 65536) (v := d.getD i 0 + 1) hi
  generalize d.getD i 0 = v at *
  rcases hb with rfl | rfl | rfl
  · obtain ⟨rfl, rfl⟩ := hw1 rfl
    rw [lim1] at hvm
    by_cases e : v = 255
    · subst e
      simp [bump, Exact]
      refine ⟨⟨Or.inr (Or.inl rfl), ?_, ?_, ?_, ?_, ?_⟩, ?_⟩
      · exact fits_set (fun x hx => by have := hf x hx; rw [lim1] at this; rw [lim2]; omega) (by rw [lim2]; omega)
      · simp at s9; simp; omega
      · simp at s17; simp; omega
      · intro hh; simp at hh
      · intro _; rfl
      · intro _ _; simp at s9 s17; simp at h9 h17; omega
    · have e2 : (v + 1) % 256 = v + 1 := Nat.mod_eq_of_lt (by omega)
      have e3 : ¬ v + 1 = 0 := by omega
      simp [bump, Exact, e2]
      have b9 : big 256 (d.set i (v + 1)) = 0 :=
        big_zero_of_lt (fits_set (fun x hx => by have := hf x hx; rw [lim1] at this; omega) (by omega))
      have b17 : big 65536 (d.set i (v + 1)) = 0 :=
        big_zero_of_lt (fits_set (fun x hx => by have := hf x hx; rw [lim1] at this; omega) (by omega))
      refine ⟨⟨Or.inl rfl, ?_, ?_, ?_, ?_, ?_⟩, ?_⟩
      · exact fits_set hf (by rw [lim1]; omega)
      · simp; omega
      · simp; omega
      · intro _; exact ⟨rfl, rfl⟩
      · intro hh; simp at hh
      · intro _ _; omega
  · have z17 : n17 = 0 := hw2 rfl
    subst z17
    rw [lim2] at hvm
    by_cases e : v = 65535
    · subst e
      simp [bump, Exact]
      refine ⟨⟨Or.inr (Or.inr rfl), ?_, ?_, ?_, ?_, ?_⟩, ?_⟩
      · exact fits_set (fun x hx => by have := hf x hx; rw [lim2] at this; rw [lim4]; omega) (by rw [lim4]; omega)
      · simp at s9; simp; omega
      · simp at s17; simp; omega
      · intro hh; simp at hh
      · intro hh; simp at hh
      · intro e9 _; simp at s9 s17; simp at h9 h17; omega
    · have e2 : (v + 1) % 65536 = v + 1 := Nat.mod_eq_of_lt (by omega)
      have e3 : ¬ v + 1 = 0 := by omega
      simp [bump, Exact, e2]
      have b17 : big 65536 (d.set i (v + 1)) = 0 :=
        big_zero_of_lt (fits_set (fun x hx => by have := hf x hx; rw [lim2] at this; omega) (by omega))
      refine ⟨⟨Or.inr (Or.inl rfl), ?_, ?_, ?_, ?_, ?_⟩, ?_⟩
      · exact fits_set hf (by rw [lim2]; omega)
      · simp; split <;> split at s9 <;> split at s9 <;> omega
      · simp; omega
      · intro hh; simp at hh
      · intro _; rfl
      · intro e9 _; refine ⟨?_, by omega⟩
        split <;> split at s9 <;> split at s9 <;> omega
  · rw [lim4] at hvm
    have e2 : (v + 1) % 4294967296 = v + 1 := Nat.mod_eq_of_lt (by omega)
    simp [bump, Exact, e2]
    refine ⟨⟨Or.inr (Or.inr rfl), ?_, ?_, ?_, ?_, ?_⟩, ?_⟩
    · exact fits_set hf (by rw [lim4]; omega)
    · simp; split <;> split at s9 <;> split at s9 <;> omega
    · simp; split <;> split at s17 <;> split at s17 <;> omega
    · intro hh; simp at hh
    · intro hh; simp at hh
    · intro e9 e17; constructor
      · split <;> split at s9 <;> split at s9 <;> omega
      · split <;> split at s17 <;> split at s17 <;> omega

/-- the decrement path stores exactly `v-1`, keeps the invariant and keeps exact tallies exact -/
theorem drop1_ok {c : CA} (h : Inv c) {i : Nat} (hi : i < c.data.length)
    (hv : 0 < c.data.getD i 0) :
    (drop1 c i (c.data.getD i 0)).data = c.data.set i (c.data.getD i 0 - 1) ∧
    Inv (drop1 c i (c.data.getD i 0)) ∧ (Exact c → Exact (drop1 c i (c.data.getD i 0))) := by
  obtain ⟨hb, hf, h9, h17, hw1, hw2⟩ := h
  obtain ⟨b, d, n9, n17⟩ := c
  simp only at hb hf h9 h17 hw1 hw2 hi hv ⊢
  have hvm := hf _ (getD_mem hi)
  have s9 := big_set (k := 256) (v := d.getD i 0 - 1) hi
  have s17 := big_set (k := 65536) (v := d.getD i 0 - 1) hi
  generalize d.getD i 0 = v at *
  rcases hb with rfl | rfl | rfl
  · obtain ⟨rfl, rfl⟩ := hw1 rfl
    rw [lim1] at hvm
    have e2 : (v + 255) % 256 = v - 1 := by omega
    simp [drop1, Exact, e2]
    have b9 : big 256 (d.set i (v - 1)) = 0 :=
      big_zero_of_lt (fits_set (fun x hx => by have := hf x hx; rw [lim1] at this; omega) (by omega))
    have b17 : big 65536 (d.set i (v - 1)) = 0 :=
      big_zero_of_lt (fits_set (fun x hx => by have := hf x hx; rw [lim1] at this; omega) (by omega))
    refine ⟨⟨Or.inl rfl, ?_, ?_, ?_, ?_, ?_⟩, ?_⟩
    · exact fits_set hf (by rw [lim1]; omega)
    · simp; omega
    · simp; omega
    · intro _; exact ⟨rfl, rfl⟩
    · intro hh; simp at hh
    · intro _ _; omega
  · have z17 : n17 = 0 := hw2 rfl
    subst z17
    rw [lim2] at hvm
    have e2 : (v + 65535) % 65536 = v - 1 := by omega
    simp [drop1, Exact, e2]
    have b17 : big 65536 (d.set i (v - 1)) = 0 :=
      big_zero_of_lt (fits_set (fun x hx => by have := hf x hx; rw [lim2] at this; omega) (by omega))
    refine ⟨⟨Or.inr (Or.inl rfl), ?_, ?_, ?_, ?_, ?_⟩, ?_⟩
    · exact fits_set hf (by rw [lim2]; omega)
    · simp; split <;> split at s9 <;> split at s9 <;> omega
    · simp; omega
    · intro hh; simp at hh
    · intro _; rfl
    · intro e9 _; refine ⟨?_, by omega⟩
      split <;> split at s9 <;> split at s9 <;> omega
  · rw [lim4] at hvm
    have e2 : (v + 4294967295) % 4294967296 = v - 1 := by omega
    simp [drop1, Exact, e2]
    refine ⟨⟨Or.inr (Or.inr rfl), ?_, ?_, ?_, ?_, ?_⟩, ?_⟩
    · exact fits_set hf (by rw [lim4]; omega)
    · simp; split <;> split at s9 <;> split at s9 <;> omega
    · simp; split <;> split at s17 <;> split at s17 <;> omega
    · intro hh; simp at hh
    · intro hh; simp at hh
    · intro e9 e17; constructor
      · split <;> split at s9 <;> split at s9 <;> omega
      · split <;> split at s17 <;> split at s17 <;> omega

/-- writing a value below 256 over a value below 256 changes neither tally -/
theorem set_small_ok {c : CA} (h : Inv c) {i v : Nat} (hi : i < c.data.length)
    (h0 : c.data.getD i 0 < 256) (hv : v < 256) :
    Inv { c with data := c.data.set i v } ∧ (Exact c → Exact { c with data := c.data.set i v }) := by
  obtain ⟨hb, hf, h9, h17, hw1, hw2⟩ := h
  have s9 := big_set (k := 256) (v := v) hi
  have s17 := big_set (k := 65536) (v := v) hi
  have l1 : 256 ≤ lim c.bytes := by rcases hb with e | e | e <;> rw [e] <;> decide
  refine ⟨⟨hb, fits_set hf (show v < lim c.bytes by omega), ?_, ?_, hw1, hw2⟩, ?_⟩
  · simp only; split at s9 <;> split at s9 <;> omega
  · simp only; split at s17 <;> split at s17 <;> omega
  · intro ⟨e9, e17⟩; constructor
    · simp only; split at s9 <;> split at s9 <;> omega
    · simp only; split at s17 <;> split at s17 <;> omega

theorem swap_ok {c : CA} (h : Inv c) {i j : Nat} (hi : i < c.data.length) (hj : j < c.data.length) :
    Inv { c with data := (c.data.set i (c.data.getD j 0)).set j (c.data.getD i 0) } ∧
    (Exact c → Exact { c with data := (c.data.set i (c.data.getD j 0)).set j (c.data.getD i 0) }) := by
  obtain ⟨hb, hf, h9, h17, hw1, hw2⟩ := h
  have hj' : j < (c.data.set i (c.data.getD j 0)).length := by simpa using hj
  have key : ∀ k, big k ((c.data.set i (c.data.getD j 0)).set j (c.data.getD i 0)) = big k c.data := by
    intro k
    have a := big_set (k := k) (v := c.data.getD j 0) hi
    have b := big_set (k := k) (v := c.data.getD i 0) hj'
    by_cases e : i = j
    · subst e
      rw [getD_set_self hi] at b
      split at a <;> split at b <;> omega
    · have g : (c.data.set i (c.data.getD j 0)).getD j 0 = c.data.getD j 0 := by
        simp [List.getD_eq_getElem?_getD, e]
      rw [g] at b
      split at a <;> split at a <;> split at b <;> omega
  refine ⟨⟨hb, ?_, ?_, ?_, hw1, hw2⟩, ?_⟩
  · exact fits_set (fits_set hf (hf _ (getD_mem hj))) (hf _ (getD_mem hi))
  · simp only; rw [key]; exact h9
  · simp only; rw [key]; exact h17
  · intro ⟨e9, e17⟩; exact ⟨by simp only; rw [key]; exact e9, by simp only; rw [key]; exact e17⟩

/-- One call: the concrete array does what the plain array does (same result, same contents),
    and the invariants are preserved. -/
theorem step_sim {c : CA} (h : Inv c) {op : Op} {a' : List Nat} {r : Nat}
    (hs : specStep c.data op = some (a', r)) :
    ∃ c', step c op = some (c', r) ∧ c'.data = a' ∧ Inv c' ∧ (Exact c → cleanOp c.data op → Exact c') := by
  cases op with
  | expand ns =>
    simp only [specStep, Option.some.injEq, Prod.mk.injEq] at hs
    obtain ⟨rfl, rfl⟩ := hs
    by_cases hle : ns ≤ c.data.length
    · refine ⟨c, by simp [step, hle], ?_, h, fun e _ => e⟩
      have : ns - c.data.length = 0 := by omega
      simp [this]
    · obtain ⟨hd, hI, e9, e17⟩ := renarrow_ok h
      refine ⟨_, by simp only [step, hle, if_false]; rfl, by simp [hd], ?_, ?_⟩
      · obtain ⟨hb, hf, h9, h17, hw1, hw2⟩ := hI
        refine ⟨hb, ?_, ?_, ?_, hw1, hw2⟩
        · intro x hx
          simp only [List.mem_append, List.mem_replicate] at hx
          rcases hx with hx | ⟨_, rfl⟩
          · exact hf x hx
          · unfold lim; exact Nat.pow_pos (by decide)
        · simp only [big_append, big_replicate_zero (by decide : 0 < 256)]; simpa using h9
        · simp only [big_append, big_replicate_zero (by decide : 0 < 65536)]; simpa using h17
      · intro ⟨x9, x17⟩ _
        constructor
        · simp only [big_append, big_replicate_zero (by decide : 0 < 256), hd, e9]; simpa using x9
        · simp only [big_append, big_replicate_zero (by decide : 0 < 65536), hd, e17]; simpa using x17
  | shrink ns =>
    simp only [specStep] at hs
    split at hs
    · rename_i hok
      simp only [Option.some.injEq, Prod.mk.injEq] at hs
      obtain ⟨rfl, rfl⟩ := hs
      by_cases hle : c.data.length ≤ ns
      · exact ⟨c, by simp [step, hle], (List.take_of_length_le hle).symm, h, fun e _ => e⟩
      · have hn0 : ns ≠ 0 := by
          rcases hok with h1 | h1
          · exact absurd h1 hle
          · exact h1
        obtain ⟨hd, hI, e9, e17⟩ := renarrow_ok h
        refine ⟨_, by simp only [step, hle, hn0, if_false]; rfl, by simp [hd], ?_, ?_⟩
        · obtain ⟨hb, hf, h9, h17, hw1, hw2⟩ := hI
          have t9 := big_take_drop 256 ns (renarrow c).data
          have t17 := big_take_drop 65536 ns (renarrow c).data
          refine ⟨hb, fun x hx => hf x (List.mem_of_mem_take hx), ?_, ?_, hw1, hw2⟩
          · simp only; omega
          · simp only; omega
        · intro ⟨x9, x17⟩ hc
          simp only [cleanOp] at hc
          have t9 := big_take_drop 256 ns c.data
          have t17 := big_take_drop 65536 ns c.data
          have z9 : big 256 (c.data.drop ns) = 0 := big_zero_of_lt hc
          have z17 : big 65536 (c.data.drop ns) = 0 :=
            big_zero_of_lt (fun x hx => by have := hc x hx; omega)
          constructor
          · simp only [hd, e9]; omega
          · simp only [hd, e17]; omega
    · cases hs
  | get i =>
    simp only [specStep] at hs
    split at hs
    · rename_i hi
      simp only [Option.some.injEq, Prod.mk.injEq] at hs
      obtain ⟨rfl, rfl⟩ := hs
      exact ⟨c, by simp [step, hi], rfl, h, fun e _ => e⟩
    · cases hs
  | swap i j =>
    simp only [specStep] at hs
    split at hs
    · rename_i hij
      simp only [Option.some.injEq, Prod.mk.injEq] at hs
      obtain ⟨rfl, rfl⟩ := hs
      obtain ⟨hI, hE⟩ := swap_ok h hij.1 hij.2
      exact ⟨_, by simp only [step, hij, and_self, if_true], rfl, hI, fun e _ => hE e⟩
    · cases hs
  | increment i =>
    simp only [specStep] at hs
    split at hs
    · rename_i hi
      simp only [Option.some.injEq, Prod.mk.injEq] at hs
      obtain ⟨rfl, rfl⟩ := hs
      obtain ⟨hd, hI, hE⟩ := bump_ok h hi.1 hi.2
      exact ⟨_, by simp only [step, hi.1, if_true], hd, hI, fun e _ => hE e⟩
    · cases hs
  | decrement i =>
    simp only [specStep] at hs
    split at hs
    · rename_i hi
      simp only [Option.some.injEq, Prod.mk.injEq] at hs
      obtain ⟨rfl, rfl⟩ := hs
      obtain ⟨hd, hI, hE⟩ := drop1_ok h hi.1 hi.2
      exact ⟨_, by simp only [step, hi.1, if_true], hd, hI, fun e _ => hE e⟩
    · cases hs
  | isZeroBeforeIncrement i =>
    simp only [specStep] at hs
    split at hs
    · rename_i hi
      simp only [Option.some.injEq, Prod.mk.injEq] at hs
      obtain ⟨rfl, rfl⟩ := hs
      by_cases z : c.data.getD i 0 = 0
      · obtain ⟨hI, hE⟩ := set_small_ok (v := 1) h hi.1 (by omega) (by omega)
        exact ⟨_, by simp only [step, hi.1, if_true, z], by simp only [z], hI, fun e _ => hE e⟩
      · obtain ⟨hd, hI, hE⟩ := bump_ok h hi.1 hi.2
        exact ⟨_, by simp only [step, hi.1, if_true, z, if_false], hd, hI, fun e _ => hE e⟩
    · cases hs
  | isPositiveAfterDecrement i =>
    simp only [specStep] at hs
    split at hs
    · rename_i hi
      simp only [Option.some.injEq, Prod.mk.injEq] at hs
      obtain ⟨rfl, rfl⟩ := hs
      obtain ⟨hd, hI, hE⟩ := drop1_ok h hi.1 hi.2
      refine ⟨_, ?_, hd, hI, fun e _ => hE e⟩
      simp only [step, hi.1, if_true, hd, getD_set_self hi.1]
    · cases hs

/-- lifting `step_sim` to call sequences -/
theorem run_sim : ∀ (ops : List Op) {c : CA}, Inv c → ∀ {a rs}, specRun c.data ops = some (a, rs) →
    ∃ c', run c ops = some (c', rs) ∧ c'.data = a ∧ Inv c' ∧
      (Exact c → cleanShrinks c.data ops → Exact c')
  | [], c, h, a, rs, hs => by
    simp only [specRun, Option.some.injEq, Prod.mk.injEq] at hs
    obtain ⟨rfl, rfl⟩ := hs
    exact ⟨c, rfl, rfl, h, fun e _ => e⟩
  | op :: ops, c, h, a, rs, hs => by
    simp only [specRun] at hs
    cases h1 : specStep c.data op with
    | none => simp [h1] at hs
    | some p1 =>
      obtain ⟨a1, r1⟩ := p1
      simp only [h1] at hs
      cases h2 : specRun a1 ops with
      | none => simp [h2] at hs
      | some p2 =>
        obtain ⟨a2, rs2⟩ := p2
        simp only [h2, Option.some.injEq, Prod.mk.injEq] at hs
        obtain ⟨rfl, rfl⟩ := hs
        obtain ⟨c1, s1, d1, i1, e1⟩ := step_sim h h1
        subst d1
        obtain ⟨c2, s2, d2, i2, e2⟩ := run_sim ops i1 h2
        refine ⟨c2, by simp [run, s1, s2], d2, i2, ?_⟩
        intro ex cl
        simp only [cleanShrinks, h1] at cl
        exact e2 (e1 ex cl.1) cl.2

/-! ## Property theorems -/

/-- `counter_refines`: for every call sequence that stays inside the contract (indices in range,
    no decrement of a zero count, every count below 2^32) the real `counter_array` — with all its
    8→16→32-bit widening and its narrowing inside `expand`/`shrink` — returns exactly the values a
    plain array of naturals returns and holds exactly the same contents afterwards. -/
theorem counter_refines (ops : List Op) (a : List Nat) (rs : List Nat)
    (h : specRun [] ops = some (a, rs)) :
    ∃ c, run init ops = some (c, rs) ∧ c.data = a := by
  obtain ⟨c, hr, hd, _, _⟩ := run_sim ops inv_init (c := init) h
  exact ⟨c, hr, hd⟩

example :
    let ops := [Op.expand 3] ++ List.replicate 256 (Op.increment 1) ++
               [Op.get 1, Op.isPositiveAfterDecrement 1, Op.get 1, Op.shrink 2, Op.get 1, Op.isZeroBeforeIncrement 0]
    (specRun [] ops).map (·.1) = some [1, 255] ∧ ((run init ops).map (·.1.data)) = some [1, 255]
      ∧ ((run init ops).map (·.1.bytes)) = some 1 := by
  decide +kernel

/-- `width_inv`: in every state reachable by in-contract calls the element width (1, 2 or 4 bytes)
    is large enough for every stored count, `counts_09bit` / `counts_17bit` never under-count the
    entries ≥ 256 / ≥ 65536 (so narrowing never truncates), a 1-byte array has both tallies 0 and a
    2-byte array has `counts_17bit = 0`. -/
theorem width_inv (ops : List Op) (a : List Nat) (rs : List Nat)
    (h : specRun [] ops = some (a, rs)) :
    ∃ c, run init ops = some (c, rs) ∧
      (c.bytes = 1 ∨ c.bytes = 2 ∨ c.bytes = 4) ∧ (∀ x ∈ c.data, x < 2 ^ (8 * c.bytes)) ∧
      big 256 c.data ≤ c.c09 ∧ big 65536 c.data ≤ c.c17 ∧
      (c.bytes = 1 → c.c09 = 0 ∧ c.c17 = 0) ∧ (c.bytes = 2 → c.c17 = 0) := by
  obtain ⟨c, hr, _, hI, _⟩ := run_sim ops inv_init (c := init) h
  exact ⟨c, hr, hI.bytesOK, hI.fits, hI.t09, hI.t17, hI.w1, hI.w2⟩

example :
    let ops := [Op.expand 2] ++ List.replicate 256 (Op.increment 0)
    (specRun [] ops).isSome = true ∧ (run init ops).map (·.1) = some ⟨2, [256, 0], 1, 0⟩ := by
  decide +kernel

/-- `tally_exact`: if moreover every `shrink` drops only entries below 256 (true for the way
    `node_headers` uses the class: dropped handles are free and have count 0), the two tallies
    EQUAL the true numbers of entries ≥ 256 and ≥ 65536 in every reachable state.
    Without that hypothesis the equality is false for the code as written: `shrink` does not
    inspect the entries it drops (see the counterexample below), only `width_inv` holds. -/
theorem tally_exact (ops : List Op) (a : List Nat) (rs : List Nat)
    (h : specRun [] ops = some (a, rs)) (hc : cleanShrinks [] ops) :
    ∃ c, run init ops = some (c, rs) ∧ c.c09 = big 256 c.data ∧ c.c17 = big 65536 c.data := by
  obtain ⟨c, hr, _, _, hE⟩ := run_sim ops inv_init (c := init) h
  exact ⟨c, hr, hE exact_init hc⟩

example :
    let ops := [Op.expand 4] ++ List.replicate 300 (Op.increment 1) ++ [Op.shrink 2]
    (specRun [] ops).isSome = true ∧ cleanShrinks [] ops ∧
      (run init ops).map (·.1) = some ⟨2, [0, 300], 1, 0⟩ := by
  decide +kernel

/-- the stale tally: shrinking away a large entry leaves `counts_09bit = 1` although no entry ≥ 256
    remains, so the array stays 16 bits wide at the next resize (harmless, and not reachable through
    `node_headers`). -/
example :
    let ops := [Op.expand 4] ++ List.replicate 300 (Op.increment 3) ++ [Op.shrink 2, Op.expand 8]
    (run init ops).map (·.1) = some ⟨2, [0, 0, 0, 0, 0, 0, 0, 0], 1, 0⟩ := by
  decide +kernel

end Meddly.CounterArray

/-
`#print axioms` (Lean 4.33.0):
  counter_refines  [propext, Classical.choice, Quot.sound]
  width_inv        [propext, Classical.choice, Quot.sound]
  tally_exact      [propext, Classical.choice, Quot.sound]
-/
