/-
  Lifecycle model (property C17: "library, domain and forest lifecycles are
  safe in any order").

  What is modelled (file / function in /repo/src it mirrors):

  * `running`                 `initializer_list::isRunning`
  * `domains`                 the global `domain::domain_list`
  * `forests`, `nextFid`      `forest::all_forests` : slot `fid` is non-null iff the
                              forest is in `forests`; `nextFid = all_forests.size()`
                              (`registerForest`: `f->fid = all_forests.size()`), so
                              `MaxFID() = nextFid - 1`.  `freeStatics` / `initStatics`
                              reset the vector on cleanup / initialise.
  * `edges`                   every `dd_edge` object the client owns, with its
                              `parentFID` (`none` = 0 = "no forest")
  * `iters`                   `dd_edge::iterator` objects with the forest they were
                              built for (`none` = that forest is gone: the iterator may
                              only be destroyed)
  * `ops`                     operations built through `build(UNION|COPY, …)` /
                              `apply(UNION|COPY, …)` that the client has seen, with the
                              forests in their `FList` (the per-factory move-to-front
                              cache is keyed by exactly this forest tuple)
  * `ct`                      one element per *live* compute-table entry (entry whose
                              `ct_entry_type` is not marked for deletion): the set of
                              forests its entry type mentions

  `step` is deterministic and total.  `Out.illegal` marks calls whose C++
  counterpart has undefined behaviour (dangling pointer arguments, …) or that
  make no sense (unknown ids); the harness never performs them and the acceptor
  reports one if it ever sees it.
-/
namespace Meddly.Lifecycle

abbrev Fid := Nat
abbrev DomId := Nat
abbrev EdgeId := Nat
abbrev IterId := Nat
abbrev OpId := Nat

/-- the error codes of `MEDDLY::error` that lifecycle operations can raise -/
inductive Err
  | UNINITIALIZED | ALREADY_INITIALIZED | NOT_IMPLEMENTED
  | DOMAIN_MISMATCH | TYPE_MISMATCH | FOREST_MISMATCH
  deriving DecidableEq, Repr, Inhabited

def Err.name : Err → String
  | .UNINITIALIZED => "UNINITIALIZED"
  | .ALREADY_INITIALIZED => "ALREADY_INITIALIZED"
  | .NOT_IMPLEMENTED => "NOT_IMPLEMENTED"
  | .DOMAIN_MISMATCH => "DOMAIN_MISMATCH"
  | .TYPE_MISMATCH => "TYPE_MISMATCH"
  | .FOREST_MISMATCH => "FOREST_MISMATCH"

/-- the part of a forest's type that decides which operations can be built -/
structure Kind where
  /-- relation (MxD) forest? -/
  rel : Bool
  /-- multi-terminal (`true`) or EV+ (`false`) -/
  mt : Bool
  deriving DecidableEq, Repr, Inhabited

structure Forest where
  fid : Fid
  dom : DomId
  kind : Kind
  deriving DecidableEq, Repr, Inhabited

inductive OpKind
  | union | copy
  deriving DecidableEq, Repr, Inhabited

structure OpRec where
  id : OpId
  kind : OpKind
  fids : List Fid
  deriving DecidableEq, Repr, Inhabited

structure State where
  running : Bool
  domains : List DomId
  forests : List Forest
  nextFid : Nat
  edges : List (EdgeId × Option Fid)
  iters : List (IterId × Option Fid)
  ops : List OpRec
  ct : List (List Fid)
  deriving DecidableEq, Repr, Inhabited

/-- the state of a process that has not called `MEDDLY::initialize` yet -/
def State.initial : State := ⟨false, [], [], 1, [], [], [], []⟩

inductive Op
  | init | cleanup
  | mkDomain (d : DomId) | rmDomain (d : DomId)
  | mkForest (d : DomId) (k : Kind) | rmForest (f : Fid)
  | mkEdge (e : EdgeId) (a : Option Fid)
  | copyEdge (e e' : EdgeId)
  | assignEdge (dst src : EdgeId)
  | rmEdge (e : EdgeId)
  | attach (e : EdgeId) (f : Fid) | detach (e : EdgeId)
  | fill (e : EdgeId)
  | evaluate (e : EdgeId)
  | mkIter (i : IterId) (e : EdgeId) | advIter (i : IterId) | rmIter (i : IterId)
  | buildOp (o : OpId) (k : OpKind) (fs : List Fid)
  | apply (o : OpId) (k : OpKind) (es : List EdgeId)
  | ctAdd (fs : List Fid) | ctEvict (fs : List Fid) | ctClear (f : Fid)
  deriving DecidableEq, Repr, Inhabited

inductive Out
  | ok
  | err (c : Err)
  | fid (f : Fid)
  /-- an operation object: its id and whether it was built by this call -/
  | op (o : OpId) (fresh : Bool)
  | illegal
  deriving DecidableEq, Repr, Inhabited

/-! ## Helpers -/

/-- FIDs of the live forests (non-null slots of `all_forests`) -/
def fids (s : State) : List Fid := s.forests.map (·.fid)

/-- `forest::getForestWithID(f) != nullptr` -/
def liveF (s : State) (f : Fid) : Bool := decide (f ∈ fids s)

def findF (s : State) (f : Fid) : Option Forest := s.forests.find? (fun F => F.fid == f)

/-- `dd_edge::getForest()` seen through the registry: a FID whose slot is null reads as "no forest" -/
def liveAtt (s : State) : Option Fid → Option Fid
  | some f => if liveF s f then some f else none
  | none => none

/-- attachment of edge `e` (`none` = no such edge object) -/
def att (s : State) (e : EdgeId) : Option (Option Fid) :=
  (s.edges.find? (fun p => p.1 == e)).map (·.2)

def hasEdge (s : State) (e : EdgeId) : Bool := s.edges.any (fun p => p.1 == e)

def setAtt (s : State) (e : EdgeId) (a : Option Fid) : State :=
  { s with edges := s.edges.map (fun p => if p.1 == e then (p.1, a) else p) }

def iterOf (s : State) (i : IterId) : Option (Option Fid) :=
  (s.iters.find? (fun p => p.1 == i)).map (·.2)

/-- what `forest::unregisterDDEdges` does to one edge when the forests in `dead` die -/
def detachDead (dead : List Fid) : Option Fid → Option Fid
  | some f => if f ∈ dead then none else some f
  | none => none

/-- does the forest list `fs` mention a forest in `dead`? -/
def hits (dead fs : List Fid) : Bool := fs.any (fun f => decide (f ∈ dead))

/-- `~forest` for every forest in `dead`: zero the registered edges, drop the registry slot,
    `operation::destroyAllWithForest`, and (through the destroyed operations'
    `ct_entry_type::markForDestroy`) kill the cache entries. -/
def destroy (dead : List Fid) (s : State) : State :=
  { s with
    forests := s.forests.filter (fun F => !decide (F.fid ∈ dead))
    edges := s.edges.map (fun p => (p.1, detachDead dead p.2))
    iters := s.iters.map (fun p => (p.1, detachDead dead p.2))
    ops := s.ops.filter (fun o => !hits dead o.fids)
    ct := s.ct.filter (fun c => !hits dead c) }

/-- FIDs of the forests of domain `d` (`domain::forestReg`) -/
def fidsOfDom (s : State) (d : DomId) : List Fid :=
  (s.forests.filter (fun F => F.dom == d)).map (·.fid)

/-- Result of the constructor checks of `union_mt` / `COPY_factory::build_new`:
    `none` = undefined (unknown forest or wrong arity), `some none` = the operation can be
    built, `some (some c)` = the constructor throws `c`. -/
def checkOp (s : State) : OpKind → List Fid → Option (Option Err)
  | .union, [a, b, c] =>
    match findF s a, findF s b, findF s c with
    | some A, some B, some C =>
      some (
        if A.dom != C.dom || B.dom != C.dom then some .DOMAIN_MISMATCH
        else if A.kind.rel != C.kind.rel || B.kind.rel != C.kind.rel then some .TYPE_MISMATCH
        else if !(A.kind.mt && B.kind.mt && C.kind.mt) then some .TYPE_MISMATCH
        else none)
    | _, _, _ => none
  | .copy, [a, c] =>
    match findF s a, findF s c with
    | some A, some C =>
      some (
        if A.kind.rel != C.kind.rel then some .TYPE_MISMATCH
        else if a == c then none
        else if A.dom != C.dom then some .DOMAIN_MISMATCH
        else none)
    | _, _ => none
  | _, _ => none

/-- `binary_factory::build` / `unary_factory::build`: look in the factory's cache, else construct -/
def buildCore (s : State) (o : OpId) (k : OpKind) (fs : List Fid) : State × Out :=
  match s.ops.find? (fun r => r.kind == k && r.fids == fs) with
  | some r => (s, .op r.id false)
  | none =>
    match checkOp s k fs with
    | none => (s, .illegal)
    | some (some c) => (s, .err c)
    | some none =>
      if s.ops.any (fun r => r.id == o) then (s, .illegal)
      else ({ s with ops := ⟨o, k, fs⟩ :: s.ops }, .op o true)

def atts (s : State) : List EdgeId → Option (List (Option Fid))
  | [] => some []
  | e :: es =>
    match att s e, atts s es with
    | some a, some as => some (a :: as)
    | _, _ => none

def arityOk : OpKind → Nat → Bool
  | .union, 3 => true
  | .copy, 2 => true
  | _, _ => false

/-- domains of the listed forests (unknown forests are skipped) -/
def domsOf (s : State) (fs : List Fid) : List DomId :=
  fs.filterMap (fun f => (findF s f).map (·.dom))

def allEq : List Nat → Bool
  | [] => true
  | x :: xs => xs.all (· == x)

/-- forests destroyed by a step (used to state the frame properties) -/
def destroyedBy (s : State) : Op → List Fid
  | .cleanup => if s.running then fids s else []
  | .rmDomain d => if s.running && decide (d ∈ s.domains) then fidsOfDom s d else []
  | .rmForest f => if s.running && liveF s f then [f] else []
  | _ => []

/-- edges whose *function* a step may change (all other edges keep theirs) -/
def writes : Op → List EdgeId
  | .mkEdge e _ => [e]
  | .copyEdge _ e' => [e']
  | .assignEdge d _ => [d]
  | .rmEdge e => [e]
  | .attach e _ => [e]
  | .detach e => [e]
  | .fill e => [e]
  | .apply _ _ es => match es.getLast? with | some e => [e] | none => []
  | _ => []

/-! ## The transition function -/

def step (s : State) : Op → State × Out
  | .init =>
    -- initializer_list::initializeLibrary
    if s.running then (s, .err .ALREADY_INITIALIZED)
    else ({ s with running := true, domains := [], forests := [], nextFid := 1, ops := [], ct := [] }, .ok)
  | .cleanup =>
    -- initializer_list::cleanupLibrary: markDomList (zeroes every registered edge),
    -- destroyAllOps, deleteDomList (deletes every forest), forest::freeStatics
    if !s.running then (s, .err .UNINITIALIZED)
    else ({ destroy (fids s) s with
            running := false, domains := [], forests := [], nextFid := 1, ops := [], ct := [] }, .ok)
  | .mkDomain d =>
    if !s.running then (s, .err .UNINITIALIZED)
    else if d ∈ s.domains then (s, .illegal)
    else ({ s with domains := d :: s.domains }, .ok)
  | .rmDomain d =>
    -- domain::destroy: the running check comes before the pointer is used
    if !s.running then (s, .err .UNINITIALIZED)
    else if d ∉ s.domains then (s, .illegal)
    else ({ destroy (fidsOfDom s d) s with domains := s.domains.filter (· != d) }, .ok)
  | .mkForest d k =>
    if !s.running || decide (d ∉ s.domains) then (s, .illegal)
    else ({ s with forests := ⟨s.nextFid, d, k⟩ :: s.forests, nextFid := s.nextFid + 1 }, .fid s.nextFid)
  | .rmForest f =>
    -- forest::destroy: the running check comes before the pointer is used
    if !s.running then (s, .err .UNINITIALIZED)
    else if !liveF s f then (s, .illegal)
    else (destroy [f] s, .ok)
  | .mkEdge e a =>
    if hasEdge s e then (s, .illegal)
    else match a with
      | none => ({ s with edges := (e, none) :: s.edges }, .ok)
      | some f => if liveF s f then ({ s with edges := (e, some f) :: s.edges }, .ok) else (s, .illegal)
  | .copyEdge e e' =>
    match att s e with
    | none => (s, .illegal)
    | some a =>
      if hasEdge s e' then (s, .illegal)
      else ({ s with edges := (e', liveAtt s a) :: s.edges }, .ok)
  | .assignEdge dst src =>
    match att s dst, att s src with
    | some _, some a => (setAtt s dst (liveAtt s a), .ok)
    | _, _ => (s, .illegal)
  | .rmEdge e =>
    if hasEdge s e then ({ s with edges := s.edges.filter (fun p => p.1 != e) }, .ok)
    else (s, .illegal)
  | .attach e f =>
    if hasEdge s e && liveF s f then (setAtt s e (some f), .ok) else (s, .illegal)
  | .detach e =>
    if hasEdge s e then (setAtt s e none, .ok) else (s, .illegal)
  | .fill e =>
    match att s e with
    | some (some f) => if liveF s f then (s, .ok) else (s, .illegal)
    | _ => (s, .illegal)
  | .evaluate e =>
    -- dd_edge::evaluate: `if (!fp) throw FOREST_MISMATCH`
    match att s e with
    | none => (s, .illegal)
    | some a => match liveAtt s a with
      | none => (s, .err .FOREST_MISMATCH)
      | some _ => (s, .ok)
  | .mkIter i e =>
    -- building an iterator for an edge without forest dereferences a null pointer in the
    -- library (finding F-C17-1), so it is not a legal call
    match att s e with
    | some (some f) =>
      if liveF s f && !(s.iters.any (fun p => p.1 == i)) then
        ({ s with iters := (i, some f) :: s.iters }, .ok)
      else (s, .illegal)
    | _ => (s, .illegal)
  | .advIter i =>
    match iterOf s i with
    | some (some f) => if liveF s f then (s, .ok) else (s, .illegal)
    | _ => (s, .illegal)
  | .rmIter i =>
    if s.iters.any (fun p => p.1 == i) then ({ s with iters := s.iters.filter (fun p => p.1 != i) }, .ok)
    else (s, .illegal)
  | .buildOp o k fs => buildCore s o k fs
  | .apply o k es =>
    -- binary_factory::apply / unary_factory::apply:
    --   bop = build(a.getForest(), …); if (!bop) throw NOT_IMPLEMENTED; bop->compute(…)
    match atts s es with
    | none => (s, .illegal)
    | some as =>
      if !arityOk k es.length then (s, .illegal)
      else if as.any (fun a => (liveAtt s a).isNone) then (s, .err .NOT_IMPLEMENTED)
      else buildCore s o k (as.filterMap id)
  | .ctAdd fs =>
    if s.running && !fs.isEmpty && fs.all (liveF s) && allEq (domsOf s fs) then
      ({ s with ct := fs :: s.ct }, .ok)
    else (s, .illegal)
  | .ctEvict fs =>
    if fs ∈ s.ct then ({ s with ct := s.ct.erase fs }, .ok) else (s, .illegal)
  | .ctClear f =>
    -- forest::removeAllComputeTableEntries
    if liveF s f then ({ s with ct := s.ct.filter (fun c => !decide (f ∈ c)) }, .ok) else (s, .illegal)

def run (s : State) : List Op → State
  | [] => s
  | o :: os => run (step s o).1 os

/-- outputs produced along a run -/
def outs (s : State) : List Op → List Out
  | [] => []
  | o :: os => (step s o).2 :: outs (step s o).1 os

/-! ## Invariant -/

/-- Well-formedness: what holds in every reachable state. -/
structure WF (s : State) : Prop where
  next_pos : 1 ≤ s.nextFid
  fid_lt : ∀ f ∈ fids s, f < s.nextFid
  fid_nodup : (fids s).Nodup
  dom_live : ∀ F ∈ s.forests, F.dom ∈ s.domains
  edge_live : ∀ p ∈ s.edges, ∀ f, p.2 = some f → f ∈ fids s
  iter_live : ∀ p ∈ s.iters, ∀ f, p.2 = some f → f ∈ fids s
  op_live : ∀ o ∈ s.ops, ∀ f ∈ o.fids, f ∈ fids s
  ct_live : ∀ c ∈ s.ct, ∀ f ∈ c, f ∈ fids s
  stopped : s.running = false →
    s.domains = [] ∧ s.forests = [] ∧ s.ops = [] ∧ s.ct = [] ∧ s.nextFid = 1

theorem wf_initial : WF State.initial := by
  constructor <;> simp [State.initial, fids]

theorem mem_fids_destroy {dead : List Fid} {s : State} {f : Fid} :
    f ∈ fids (destroy dead s) ↔ f ∈ fids s ∧ f ∉ dead := by
  simp only [fids, destroy, List.mem_map, List.mem_filter]
  constructor
  · rintro ⟨F, ⟨hF, hd⟩, rfl⟩
    exact ⟨⟨F, hF, rfl⟩, by simpa using hd⟩
  · rintro ⟨⟨F, hF, rfl⟩, hd⟩
    exact ⟨F, ⟨hF, by simpa using hd⟩, rfl⟩

theorem fids_destroy_sublist (dead : List Fid) (s : State) :
    (fids (destroy dead s)).Sublist (fids s) := by
  simp only [fids, destroy]
  exact List.Sublist.map _ List.filter_sublist

theorem detachDead_some {dead : List Fid} {a : Option Fid} {f : Fid} :
    detachDead dead a = some f ↔ a = some f ∧ f ∉ dead := by
  cases a with
  | none => simp [detachDead]
  | some g =>
    by_cases h : g ∈ dead
    · simp [detachDead, h]; intro e; subst e; exact h
    · simp [detachDead, h]; intro e; subst e; exact h

theorem hits_false {dead fs : List Fid} : hits dead fs = false ↔ ∀ f ∈ fs, f ∉ dead := by
  simp [hits]

/-- `destroy` preserves well-formedness (the registries keep their sizes: `nextFid` is untouched) -/
theorem wf_destroy {s : State} (h : WF s) (dead : List Fid) (hr : s.running = true) :
    WF (destroy dead s) := by
  have hn : (destroy dead s).nextFid = s.nextFid := rfl
  constructor
  · exact h.next_pos
  · intro f hf; rw [hn]; exact h.fid_lt f (mem_fids_destroy.mp hf).1
  · exact List.Nodup.sublist (fids_destroy_sublist dead s) h.fid_nodup
  · intro F hF
    have : F ∈ s.forests := (List.mem_filter.mp hF).1
    exact h.dom_live F this
  · intro p hp f hpf
    simp only [destroy, List.mem_map] at hp
    obtain ⟨q, hq, rfl⟩ := hp
    have := detachDead_some.mp hpf
    exact mem_fids_destroy.mpr ⟨h.edge_live q hq f this.1, this.2⟩
  · intro p hp f hpf
    simp only [destroy, List.mem_map] at hp
    obtain ⟨q, hq, rfl⟩ := hp
    have := detachDead_some.mp hpf
    exact mem_fids_destroy.mpr ⟨h.iter_live q hq f this.1, this.2⟩
  · intro o ho f hf
    simp only [destroy, List.mem_filter] at ho
    have hh : hits dead o.fids = false := by simpa using ho.2
    exact mem_fids_destroy.mpr ⟨h.op_live o ho.1 f hf, hits_false.mp hh f hf⟩
  · intro c hc f hf
    simp only [destroy, List.mem_filter] at hc
    have hh : hits dead c = false := by simpa using hc.2
    exact mem_fids_destroy.mpr ⟨h.ct_live c hc.1 f hf, hits_false.mp hh f hf⟩
  · intro hs
    have : s.running = false := hs
    rw [hr] at this; cases this



theorem findF_some_mem {s : State} {f : Fid} {F : Forest} (h : findF s f = some F) :
    F ∈ s.forests ∧ F.fid = f := by
  unfold findF at h
  exact ⟨List.mem_of_find?_eq_some h, by simpa using List.find?_some h⟩

theorem findF_some_fids {s : State} {f : Fid} {F : Forest} (h : findF s f = some F) : f ∈ fids s := by
  obtain ⟨hm, rfl⟩ := findF_some_mem h
  exact List.mem_map.mpr ⟨F, hm, rfl⟩

theorem liveF_iff {s : State} {f : Fid} : liveF s f = true ↔ f ∈ fids s := by simp [liveF]

theorem liveAtt_some {s : State} {a : Option Fid} {f : Fid} :
    liveAtt s a = some f ↔ a = some f ∧ f ∈ fids s := by
  cases a with
  | none => simp [liveAtt]
  | some g =>
    by_cases h : g ∈ fids s
    · simp [liveAtt, liveF, h]; intro e; subst e; exact h
    · simp [liveAtt, liveF, h]; intro e; subst e; exact h

/-- replacing the edge list by one whose attachments are live keeps the invariant -/
theorem wf_edges {s : State} (h : WF s) (es : List (EdgeId × Option Fid))
    (he : ∀ p ∈ es, ∀ f, p.2 = some f → f ∈ fids s) : WF { s with edges := es } :=
  { h with edge_live := he }

theorem wf_iters {s : State} (h : WF s) (is : List (IterId × Option Fid))
    (he : ∀ p ∈ is, ∀ f, p.2 = some f → f ∈ fids s) : WF { s with iters := is } :=
  { h with iter_live := he }

theorem wf_ops {s : State} (h : WF s) (os : List OpRec) (hr : s.running = true)
    (he : ∀ o ∈ os, ∀ f ∈ o.fids, f ∈ fids s) : WF { s with ops := os } :=
  { h with op_live := he, stopped := by intro h'; simp [hr] at h' }

theorem wf_ct {s : State} (h : WF s) (cs : List (List Fid)) (hr : s.running = true)
    (he : ∀ c ∈ cs, ∀ f ∈ c, f ∈ fids s) : WF { s with ct := cs } :=
  { h with ct_live := he, stopped := by intro h'; simp [hr] at h' }

theorem wf_setAtt {s : State} (h : WF s) (e : EdgeId) (a : Option Fid)
    (ha : ∀ f, a = some f → f ∈ fids s) : WF (setAtt s e a) := by
  apply wf_edges h
  intro p hp f hpf
  obtain ⟨q, hq, rfl⟩ := List.mem_map.mp hp
  by_cases hqe : q.1 = e
  · simp [hqe] at hpf; exact ha f hpf
  · simp [hqe] at hpf; exact h.edge_live q hq f hpf

/-- in a stopped well-formed state nothing is attached -/
theorem stopped_fids {s : State} (h : WF s) (hr : s.running = false) : fids s = [] := by
  simp [fids, (h.stopped hr).2.1]

theorem running_of_live {s : State} (h : WF s) {f : Fid} (hf : f ∈ fids s) : s.running = true := by
  cases hr : s.running with
  | true => rfl
  | false => rw [stopped_fids h hr] at hf; cases hf

theorem checkOp_live {s : State} {k : OpKind} {fs : List Fid} {r : Option Err}
    (h : checkOp s k fs = some r) : ∀ f ∈ fs, f ∈ fids s := by
  unfold checkOp at h
  split at h
  · split at h
    · rename_i A B C hA hB hC
      intro f hf
      simp at hf
      rcases hf with rfl | rfl | rfl
      · exact findF_some_fids hA
      · exact findF_some_fids hB
      · exact findF_some_fids hC
    · cases h
  · split at h
    · rename_i A C hA hC
      intro f hf
      simp at hf
      rcases hf with rfl | rfl
      · exact findF_some_fids hA
      · exact findF_some_fids hC
    · cases h
  · cases h

theorem wf_buildCore {s : State} (h : WF s) (o : OpId) (k : OpKind) (fs : List Fid) :
    WF (buildCore s o k fs).1 := by
  unfold buildCore
  split
  · exact h
  · split
    · exact h
    · exact h
    · rename_i hc
      split
      · exact h
      · have hl := checkOp_live hc
        have hrun : s.running = true := by
          cases fs with
          | nil => cases k <;> simp [checkOp] at hc
          | cons f _ => exact running_of_live h (hl f (by simp))
        apply wf_ops h _ hrun
        intro o' ho' f hf
        rcases List.mem_cons.mp ho' with rfl | ho'
        · exact hl f hf
        · exact h.op_live o' ho' f hf

theorem wf_step {s : State} (h : WF s) (op : Op) : WF (step s op).1 := by
  cases op with
  | init =>
    simp only [step]
    split
    · exact h
    · rename_i hr
      have hr : s.running = false := by simpa using hr
      have hf := stopped_fids h hr
      constructor <;> simp [fids]
      · intro a b hp; have := h.edge_live _ hp; simp [hf] at this; exact this
      · intro a b hp; have := h.iter_live _ hp; simp [hf] at this; exact this
  | cleanup =>
    simp only [step]
    split
    · exact h
    · refine ⟨Nat.le_refl 1, ?_, ?_, ?_, ?_, ?_, ?_, ?_, ?_⟩
      · intro f hf; simp [fids] at hf
      · simp [fids]
      · intro F hF; cases hF
      · intro p hp f hpf
        obtain ⟨q, hq, rfl⟩ := List.mem_map.mp hp
        have := detachDead_some.mp hpf
        exact absurd (h.edge_live q hq f this.1) this.2
      · intro p hp f hpf
        obtain ⟨q, hq, rfl⟩ := List.mem_map.mp hp
        have := detachDead_some.mp hpf
        exact absurd (h.iter_live q hq f this.1) this.2
      · intro o ho; cases ho
      · intro c hc; cases hc
      · intro _; exact ⟨rfl, rfl, rfl, rfl, rfl⟩
  | mkDomain d =>
    simp only [step]
    split
    · exact h
    · split
      · exact h
      · rename_i hr _
        have hr : s.running = true := by simpa using hr
        exact { h with dom_live := fun F hF => List.mem_cons_of_mem _ (h.dom_live F hF),
                       stopped := by intro h'; simp [hr] at h' }
  | rmDomain d =>
    simp only [step]
    split
    · exact h
    · split
      · exact h
      · rename_i hr _
        have hr : s.running = true := by simpa using hr
        have hw := wf_destroy h (fidsOfDom s d) hr
        exact { hw with
          dom_live := by
            intro F hF
            have hF' : F ∈ (destroy (fidsOfDom s d) s).forests := hF
            simp only [destroy, List.mem_filter] at hF'
            have hFs := hF'.1
            have hnd : F.fid ∉ fidsOfDom s d := by simpa using hF'.2
            have hne : F.dom ≠ d := by
              intro e
              apply hnd
              simp only [fidsOfDom, List.mem_map, List.mem_filter]
              exact ⟨F, ⟨hFs, by simp [e]⟩, rfl⟩
            show F.dom ∈ s.domains.filter (· != d)
            simp [List.mem_filter, h.dom_live F hFs, hne]
          stopped := by intro h'; simp [destroy, hr] at h' }
  | mkForest d k =>
    simp only [step]
    split
    · exact h
    · rename_i hc
      simp at hc
      have hr : s.running = true := hc.1
      constructor
      · show 1 ≤ s.nextFid + 1; exact Nat.le_add_left 1 _
      · intro f hf
        simp [fids] at hf
        show f < s.nextFid + 1
        rcases hf with rfl | ⟨F, hF, rfl⟩
        · exact Nat.lt_succ_self _
        · exact Nat.lt_succ_of_lt (h.fid_lt F.fid (List.mem_map.mpr ⟨F, hF, rfl⟩))
      · show (s.nextFid :: fids s).Nodup
        refine List.nodup_cons.mpr ⟨?_, h.fid_nodup⟩
        intro hm; exact Nat.lt_irrefl _ (h.fid_lt _ hm)
      · intro F hF
        rcases List.mem_cons.mp hF with rfl | hF
        · exact hc.2
        · exact h.dom_live F hF
      · intro p hp f hpf; exact List.mem_cons_of_mem _ (h.edge_live p hp f hpf)
      · intro p hp f hpf; exact List.mem_cons_of_mem _ (h.iter_live p hp f hpf)
      · intro o ho f hf; exact List.mem_cons_of_mem _ (h.op_live o ho f hf)
      · intro c hc' f hf; exact List.mem_cons_of_mem _ (h.ct_live c hc' f hf)
      · intro h'; simp [hr] at h'
  | rmForest f =>
    simp only [step]
    split
    · exact h
    · split
      · exact h
      · rename_i hr _
        exact wf_destroy h [f] (by simpa using hr)
  | mkEdge e a =>
    simp only [step]
    split
    · exact h
    · cases a with
      | none =>
        apply wf_edges h
        intro p hp f hpf
        rcases List.mem_cons.mp hp with rfl | hp
        · cases hpf
        · exact h.edge_live p hp f hpf
      | some g =>
        simp only
        split
        · rename_i hl
          apply wf_edges h
          intro p hp f hpf
          rcases List.mem_cons.mp hp with rfl | hp
          · cases hpf; exact liveF_iff.mp hl
          · exact h.edge_live p hp f hpf
        · exact h
  | copyEdge e e' =>
    simp only [step]
    split
    · exact h
    · split
      · exact h
      · apply wf_edges h
        intro p hp f hpf
        rcases List.mem_cons.mp hp with rfl | hp
        · exact (liveAtt_some.mp hpf).2
        · exact h.edge_live p hp f hpf
  | assignEdge dst src =>
    simp only [step]
    split
    · exact wf_setAtt h _ _ (fun f hf => (liveAtt_some.mp hf).2)
    · exact h
  | rmEdge e =>
    simp only [step]
    split
    · apply wf_edges h
      intro p hp f hpf
      exact h.edge_live p (List.mem_filter.mp hp).1 f hpf
    · exact h
  | attach e f =>
    simp only [step]
    split
    · rename_i hc
      simp at hc
      exact wf_setAtt h _ _ (fun g hg => by cases hg; exact liveF_iff.mp hc.2)
    · exact h
  | detach e =>
    simp only [step]
    split
    · exact wf_setAtt h _ _ (fun g hg => by cases hg)
    · exact h
  | fill e =>
    simp only [step]
    split
    · split <;> exact h
    · exact h
  | evaluate e =>
    simp only [step]
    split
    · exact h
    · split <;> exact h
  | mkIter i e =>
    simp only [step]
    split
    · split
      · rename_i f _ hc
        simp at hc
        apply wf_iters h
        intro p hp g hpg
        rcases List.mem_cons.mp hp with rfl | hp
        · cases hpg; exact liveF_iff.mp hc.1
        · exact h.iter_live p hp g hpg
      · exact h
    · exact h
  | advIter i =>
    simp only [step]
    split
    · split <;> exact h
    · exact h
  | rmIter i =>
    simp only [step]
    split
    · apply wf_iters h
      intro p hp f hpf
      exact h.iter_live p (List.mem_filter.mp hp).1 f hpf
    · exact h
  | buildOp o k fs => exact wf_buildCore h o k fs
  | apply o k es =>
    simp only [step]
    split
    · exact h
    · split
      · exact h
      · split
        · exact h
        · exact wf_buildCore h o k _
  | ctAdd fs =>
    simp only [step]
    split
    · rename_i hc
      simp at hc
      apply wf_ct h _ hc.1.1.1
      intro c hc' f hf
      rcases List.mem_cons.mp hc' with rfl | hc'
      · exact liveF_iff.mp (hc.1.2 f hf)
      · exact h.ct_live c hc' f hf
    · exact h
  | ctEvict fs =>
    simp only [step]
    split
    · rename_i hm
      have hrun : s.running = true := by
        cases hr : s.running with
        | true => rfl
        | false => rw [(h.stopped hr).2.2.2.1] at hm; cases hm
      apply wf_ct h _ hrun
      intro c hc f hf
      exact h.ct_live c (List.mem_of_mem_erase hc) f hf
    · exact h
  | ctClear f =>
    simp only [step]
    split
    · rename_i hl
      apply wf_ct h _ (running_of_live h (liveF_iff.mp hl))
      intro c hc g hg
      exact h.ct_live c (List.mem_filter.mp hc).1 g hg
    · exact h

theorem wf_run {s : State} (h : WF s) (ops : List Op) : WF (run s ops) := by
  induction ops generalizing s with
  | nil => exact h
  | cons o os ih => exact ih (wf_step h o)

/-- every state reachable from the initial one is well-formed -/
theorem wf_reachable (ops : List Op) : WF (run State.initial ops) := wf_run wf_initial ops



/-! ## Auxiliary lemmas for the property theorems -/

theorem detachDead_nil (a : Option Fid) : detachDead [] a = a := by
  cases a <;> simp [detachDead]

theorem att_mapSnd (s : State) (g : Option Fid → Option Fid) (e : EdgeId) :
    att { s with edges := s.edges.map (fun p => (p.1, g p.2)) } e = (att s e).map g := by
  simp only [att, List.find?_map, Option.map_map]
  congr 1

theorem att_destroy (dead : List Fid) (s : State) (e : EdgeId) :
    att (destroy dead s) e = (att s e).map (detachDead dead) := by
  have := att_mapSnd s (detachDead dead) e
  simpa [att, destroy] using this

theorem find_setAtt_ne {β : Type} (l : List (Nat × β)) (e e' : Nat) (b : β) (h : e ≠ e') :
    (l.map (fun p => if p.1 == e' then (p.1, b) else p)).find? (fun p => p.1 == e)
      = l.find? (fun p => p.1 == e) := by
  induction l with
  | nil => rfl
  | cons p ps ih =>
    rw [List.map_cons, List.find?_cons, List.find?_cons, ih]
    by_cases hp : p.1 = e'
    · have h1 : (p.1 == e') = true := by simp [hp]
      have h2 : (p.1 == e) = false := by simp [hp]; exact fun h' => h h'.symm
      simp [h1, h2]
    · have h1 : (p.1 == e') = false := by simp [hp]
      simp [h1]

theorem find_filter_ne {β : Type} (l : List (Nat × β)) (e e' : Nat) (h : e ≠ e') :
    (l.filter (fun p => p.1 != e')).find? (fun p => p.1 == e) = l.find? (fun p => p.1 == e) := by
  induction l with
  | nil => rfl
  | cons p ps ih =>
    by_cases hp : p.1 = e'
    · have h1 : (p.1 != e') = false := by simp [hp]
      have h2 : (p.1 == e) = false := by simp [hp]; exact fun h' => h h'.symm
      rw [List.filter_cons, List.find?_cons]
      simp only [h1, h2]
      simpa using ih
    · have h1 : (p.1 != e') = true := by simp [hp]
      rw [List.filter_cons, List.find?_cons]
      simp only [h1, if_true]
      rw [List.find?_cons, ih]

theorem att_setAtt_ne (s : State) {e e' : EdgeId} (a : Option Fid) (h : e ≠ e') :
    att (setAtt s e' a) e = att s e := by
  simp only [att, setAtt]
  rw [find_setAtt_ne _ _ _ _ h]

theorem att_cons_ne (s : State) {e e' : EdgeId} (a : Option Fid) (h : e ≠ e') :
    att { s with edges := (e', a) :: s.edges } e = att s e := by
  have : (e' == e) = false := by simp; exact fun h' => h h'.symm
  simp only [att, List.find?_cons, this]

theorem att_filter_ne (s : State) {e e' : EdgeId} (h : e ≠ e') :
    att { s with edges := s.edges.filter (fun p => p.1 != e') } e = att s e := by
  simp only [att]
  rw [find_filter_ne _ _ _ h]

theorem buildCore_edges (s : State) (o : OpId) (k : OpKind) (fs : List Fid) :
    (buildCore s o k fs).1.edges = s.edges := by
  unfold buildCore
  split
  · rfl
  · split
    · rfl
    · rfl
    · split <;> rfl

theorem buildCore_nextFid (s : State) (o : OpId) (k : OpKind) (fs : List Fid) :
    (buildCore s o k fs).1.nextFid = s.nextFid := by
  unfold buildCore
  split
  · rfl
  · split
    · rfl
    · rfl
    · split <;> rfl

theorem buildCore_forests (s : State) (o : OpId) (k : OpKind) (fs : List Fid) :
    (buildCore s o k fs).1.forests = s.forests := by
  unfold buildCore
  split
  · rfl
  · split
    · rfl
    · rfl
    · split <;> rfl

theorem att_congr {s s' : State} (h : s'.edges = s.edges) (e : EdgeId) : att s' e = att s e := by
  simp [att, h]

/-- forests with the same FID in a well-formed state are the same forest -/
theorem forest_unique {l : List Forest} (hn : (l.map (·.fid)).Nodup) {F G : Forest}
    (hF : F ∈ l) (hG : G ∈ l) (h : F.fid = G.fid) : F = G := by
  induction l with
  | nil => cases hF
  | cons x xs ih =>
    simp only [List.map_cons, List.nodup_cons] at hn
    rcases List.mem_cons.mp hF with hFx | hFx
    · rcases List.mem_cons.mp hG with hGx | hGx
      · rw [hFx, hGx]
      · subst hFx
        exact absurd (List.mem_map.mpr ⟨G, hGx, h.symm⟩) hn.1
    · rcases List.mem_cons.mp hG with hGx | hGx
      · subst hGx
        exact absurd (List.mem_map.mpr ⟨F, hFx, h⟩) hn.1
      · exact ih hn.2 hFx hGx



/-- outside cleanup the FID counter never decreases in well-formed states -/
theorem nextFid_mono {s : State} (h : WF s) {op : Op} (hop : op ≠ .cleanup) :
    s.nextFid ≤ (step s op).1.nextFid := by
  cases op with
  | cleanup => exact absurd rfl hop
  | init =>
    simp only [step]
    split
    · exact Nat.le_refl _
    · rename_i hr
      have hr : s.running = false := by simpa using hr
      show s.nextFid ≤ 1
      rw [(h.stopped hr).2.2.2.2]; exact Nat.le_refl _
  | mkForest d k =>
    simp only [step]
    split
    · exact Nat.le_refl _
    · exact Nat.le_succ _
  | buildOp o k fs => simp only [step]; rw [buildCore_nextFid]; exact Nat.le_refl _
  | apply o k es =>
    simp only [step]
    split
    · exact Nat.le_refl _
    · split
      · exact Nat.le_refl _
      · split
        · exact Nat.le_refl _
        · rw [buildCore_nextFid]; exact Nat.le_refl _
  | mkDomain d => simp only [step]; (repeat' split) <;> exact Nat.le_refl _
  | rmDomain d => simp only [step]; (repeat' split) <;> exact Nat.le_refl _
  | rmForest f => simp only [step]; (repeat' split) <;> exact Nat.le_refl _
  | mkEdge e a => simp only [step]; (repeat' split) <;> exact Nat.le_refl _
  | copyEdge e e' => simp only [step]; (repeat' split) <;> exact Nat.le_refl _
  | assignEdge a b => simp only [step]; (repeat' split) <;> exact Nat.le_refl _
  | rmEdge e => simp only [step]; (repeat' split) <;> exact Nat.le_refl _
  | attach e f => simp only [step]; (repeat' split) <;> exact Nat.le_refl _
  | detach e => simp only [step]; (repeat' split) <;> exact Nat.le_refl _
  | fill e => simp only [step]; (repeat' split) <;> exact Nat.le_refl _
  | evaluate e => simp only [step]; (repeat' split) <;> exact Nat.le_refl _
  | mkIter i e => simp only [step]; (repeat' split) <;> exact Nat.le_refl _
  | advIter i => simp only [step]; (repeat' split) <;> exact Nat.le_refl _
  | rmIter i => simp only [step]; (repeat' split) <;> exact Nat.le_refl _
  | ctAdd fs => simp only [step]; (repeat' split) <;> exact Nat.le_refl _
  | ctEvict fs => simp only [step]; (repeat' split) <;> exact Nat.le_refl _
  | ctClear f => simp only [step]; (repeat' split) <;> exact Nat.le_refl _

theorem nextFid_mono_run {s : State} (h : WF s) (ops : List Op) (hops : ∀ o ∈ ops, o ≠ .cleanup) :
    s.nextFid ≤ (run s ops).nextFid := by
  induction ops generalizing s with
  | nil => exact Nat.le_refl _
  | cons o os ih =>
    have h1 := nextFid_mono h (hops o (by simp))
    have h2 := ih (wf_step h o) (fun o' ho' => hops o' (by simp [ho']))
    exact Nat.le_trans h1 h2

/-- what `mkForest` returns -/
theorem mkForest_out {s : State} {d : DomId} {k : Kind} {f : Fid}
    (h : (step s (.mkForest d k)).2 = .fid f) :
    f = s.nextFid ∧ (step s (.mkForest d k)).1.nextFid = f + 1 ∧
      (step s (.mkForest d k)).1.forests = ⟨f, d, k⟩ :: s.forests := by
  simp only [step] at h ⊢
  split at h
  · cases h
  · rename_i hc
    simp only [hc]
    cases h
    exact ⟨rfl, rfl, rfl⟩

/-- a step adds at most the forest numbered `nextFid` -/
theorem fids_step {s : State} (op : Op) {f : Fid} (hf : f ∈ fids (step s op).1) :
    f ∈ fids s ∨ (f = s.nextFid ∧ ∃ d k, op = .mkForest d k) := by
  cases op with
  | mkForest d k =>
    simp only [step] at hf
    split at hf
    · exact Or.inl hf
    · simp only [fids, List.map_cons, List.mem_cons] at hf
      rcases hf with rfl | hf
      · exact Or.inr ⟨rfl, d, k, rfl⟩
      · exact Or.inl hf
  | init =>
    simp only [step] at hf
    split at hf
    · exact Or.inl hf
    · simp [fids] at hf
  | cleanup =>
    simp only [step] at hf
    split at hf
    · exact Or.inl hf
    · simp [fids] at hf
  | rmDomain d =>
    simp only [step] at hf
    split at hf
    · exact Or.inl hf
    · split at hf
      · exact Or.inl hf
      · have hf' : f ∈ fids (destroy (fidsOfDom s d) s) := hf
        exact Or.inl (mem_fids_destroy.mp hf').1
  | rmForest g =>
    simp only [step] at hf
    split at hf
    · exact Or.inl hf
    · split at hf
      · exact Or.inl hf
      · exact Or.inl (mem_fids_destroy.mp hf).1
  | buildOp o k fs =>
    simp only [step, fids, buildCore_forests] at hf; exact Or.inl hf
  | apply o k es =>
    simp only [step] at hf
    split at hf
    · exact Or.inl hf
    · split at hf
      · exact Or.inl hf
      · split at hf
        · exact Or.inl hf
        · simp only [fids, buildCore_forests] at hf; exact Or.inl hf
  | mkDomain d => simp only [step] at hf; (repeat' split at hf) <;> exact Or.inl hf
  | mkEdge e a => simp only [step] at hf; (repeat' split at hf) <;> exact Or.inl hf
  | copyEdge e e' => simp only [step] at hf; (repeat' split at hf) <;> exact Or.inl hf
  | assignEdge a b => simp only [step] at hf; (repeat' split at hf) <;> exact Or.inl hf
  | rmEdge e => simp only [step] at hf; (repeat' split at hf) <;> exact Or.inl hf
  | attach e g => simp only [step] at hf; (repeat' split at hf) <;> exact Or.inl hf
  | detach e => simp only [step] at hf; (repeat' split at hf) <;> exact Or.inl hf
  | fill e => simp only [step] at hf; (repeat' split at hf) <;> exact Or.inl hf
  | evaluate e => simp only [step] at hf; (repeat' split at hf) <;> exact Or.inl hf
  | mkIter i e => simp only [step] at hf; (repeat' split at hf) <;> exact Or.inl hf
  | advIter i => simp only [step] at hf; (repeat' split at hf) <;> exact Or.inl hf
  | rmIter i => simp only [step] at hf; (repeat' split at hf) <;> exact Or.inl hf
  | ctAdd fs => simp only [step] at hf; (repeat' split at hf) <;> exact Or.inl hf
  | ctEvict fs => simp only [step] at hf; (repeat' split at hf) <;> exact Or.inl hf
  | ctClear g => simp only [step] at hf; (repeat' split at hf) <;> exact Or.inl hf



/-- `destroy` keeps everything that does not mention a destroyed forest, with multiplicity and order -/
theorem destroy_keeps (dead : List Fid) (s : State) :
    (destroy dead s).running = s.running ∧ (destroy dead s).domains = s.domains ∧
    (destroy dead s).nextFid = s.nextFid ∧
    (∀ F ∈ s.forests, F.fid ∉ dead → F ∈ (destroy dead s).forests) ∧
    (∀ e f, att s e = some (some f) → f ∉ dead → att (destroy dead s) e = some (some f)) ∧
    (∀ e, att s e = some none → att (destroy dead s) e = some none) ∧
    (∀ e, att s e = none → att (destroy dead s) e = none) ∧
    (∀ o ∈ s.ops, hits dead o.fids = false → o ∈ (destroy dead s).ops) ∧
    (∀ c, hits dead c = false → (destroy dead s).ct.count c = s.ct.count c) := by
  refine ⟨rfl, rfl, rfl, ?_, ?_, ?_, ?_, ?_, ?_⟩
  · intro F hF hd
    exact List.mem_filter.mpr ⟨hF, by simpa using hd⟩
  · intro e f h hd
    rw [att_destroy, h]; simp [detachDead, hd]
  · intro e h
    rw [att_destroy, h]; simp [detachDead]
  · intro e h
    rw [att_destroy, h]; rfl
  · intro o ho hh
    exact List.mem_filter.mpr ⟨ho, by simp [hh]⟩
  · intro c hh
    simp only [destroy]
    exact List.count_filter (by simp [hh])

theorem atts_mem {s : State} {es : List EdgeId} {as : List (Option Fid)} (h : atts s es = some as)
    {e : EdgeId} (he : e ∈ es) : ∃ a ∈ as, att s e = some a := by
  induction es generalizing as with
  | nil => cases he
  | cons x xs ih =>
    simp only [atts] at h
    split at h
    · rename_i a as' ha has
      cases h
      rcases List.mem_cons.mp he with rfl | he
      · exact ⟨a, by simp, ha⟩
      · obtain ⟨b, hb, hb'⟩ := ih has he
        exact ⟨b, List.mem_cons_of_mem _ hb, hb'⟩
    · cases h

/-! ## Property theorems -/

/-- **fid_fresh.**  Two forests created in the same initialisation (no `cleanup` between the two
    `forest::create` calls, anything else allowed, in particular destroying the first forest)
    get strictly increasing FIDs: `all_forests` only grows, so a FID is never handed out twice. -/
theorem fid_fresh (pre mid : List Op) (d₁ d₂ : DomId) (k₁ k₂ : Kind) (f g : Fid)
    (hmid : ∀ o ∈ mid, o ≠ .cleanup)
    (h1 : (step (run State.initial pre) (.mkForest d₁ k₁)).2 = .fid f)
    (h2 : (step (run (step (run State.initial pre) (.mkForest d₁ k₁)).1 mid) (.mkForest d₂ k₂)).2
            = .fid g) :
    f < g := by
  have hw := wf_reachable pre
  obtain ⟨_, hn, _⟩ := mkForest_out h1
  obtain ⟨hg, _, _⟩ := mkForest_out h2
  have hm := nextFid_mono_run (wf_step hw (.mkForest d₁ k₁)) mid hmid
  rw [hn] at hm
  rw [hg]
  exact hm

example : (step (run State.initial [.init, .mkDomain 1]) (.mkForest 1 ⟨false, true⟩)).2 = .fid 1 ∧
    (step (run (step (run State.initial [.init, .mkDomain 1]) (.mkForest 1 ⟨false, true⟩)).1
        [.rmForest 1]) (.mkForest 1 ⟨true, true⟩)).2 = .fid 2 := by decide

/-- **fid_fresh (state form).**  In a reachable state the FID given to a new forest is larger than
    the FID of every live forest and is mentioned by no edge, iterator, operation or cache entry. -/
theorem fid_fresh_unmentioned (pre : List Op) (d : DomId) (k : Kind) (f : Fid)
    (h : (step (run State.initial pre) (.mkForest d k)).2 = .fid f) :
    let s := run State.initial pre
    (∀ g ∈ fids s, g < f) ∧ (∀ p ∈ s.edges, p.2 ≠ some f) ∧ (∀ p ∈ s.iters, p.2 ≠ some f) ∧
      (∀ o ∈ s.ops, f ∉ o.fids) ∧ (∀ c ∈ s.ct, f ∉ c) := by
  intro s
  have hw : WF s := wf_reachable pre
  obtain ⟨hf, _, _⟩ := mkForest_out h
  have hnot : f ∉ fids s := fun hm => Nat.lt_irrefl _ (hf ▸ hw.fid_lt f hm)
  refine ⟨fun g hg => hf ▸ hw.fid_lt g hg, ?_, ?_, ?_, ?_⟩
  · intro p hp hpf; exact hnot (hw.edge_live p hp f hpf)
  · intro p hp hpf; exact hnot (hw.iter_live p hp f hpf)
  · intro o ho hfo; exact hnot (hw.op_live o ho f hfo)
  · intro c hc hfc; exact hnot (hw.ct_live c hc f hfc)

example : (step (run State.initial [.init, .mkDomain 1, .mkForest 1 ⟨false, true⟩, .mkEdge 1 (some 1),
    .buildOp 1 .copy [1, 1], .ctAdd [1]]) (.mkForest 1 ⟨true, false⟩)).2 = .fid 2 := by decide

/-- **fid_never_reused.**  Once a FID has been issued in this initialisation (`f < nextFid`) and its
    forest is gone, no later step of the same initialisation makes that FID live again. -/
theorem fid_never_reused (pre post : List Op) (f : Fid)
    (hissued : f < (run State.initial pre).nextFid) (hdead : f ∉ fids (run State.initial pre))
    (hpost : ∀ o ∈ post, o ≠ .cleanup) :
    f ∉ fids (run (run State.initial pre) post) := by
  have hw := wf_reachable pre
  generalize run State.initial pre = s at *
  induction post generalizing s with
  | nil => exact hdead
  | cons o os ih =>
    have hmono := nextFid_mono hw (hpost o (by simp))
    apply ih (fun o' ho' => hpost o' (by simp [ho'])) (step s o).1
        (Nat.lt_of_lt_of_le hissued hmono) _ (wf_step hw o)
    intro hm
    rcases fids_step o hm with h' | ⟨h', _⟩
    · exact hdead h'
    · exact Nat.lt_irrefl _ (h' ▸ hissued)

example : (1 : Fid) < (run State.initial [.init, .mkDomain 1, .mkForest 1 ⟨false, true⟩, .rmForest 1]).nextFid
    ∧ 1 ∉ fids (run State.initial [.init, .mkDomain 1, .mkForest 1 ⟨false, true⟩, .rmForest 1]) := by
  decide

/-- **fid_restart.**  `cleanup` empties `all_forests`, so after `cleanup; initialize` numbering
    restarts at 1 (and by `reinit_clean` below no edge still carries an old FID). -/
theorem fid_restart (s : State) (hr : s.running = true) (d : DomId) (k : Kind) :
    (step (run s [.cleanup, .init, .mkDomain d]) (.mkForest d k)).2 = .fid 1 := by
  simp [run, step, hr]

example : (step (run (run State.initial [.init, .mkDomain 1, .mkForest 1 ⟨false, true⟩, .mkForest 1 ⟨false, true⟩])
    [.cleanup, .init, .mkDomain 5]) (.mkForest 5 ⟨false, true⟩)).2 = .fid 1 := by decide

/-- **destroy_detaches (forest).**  `forest::destroy(f)`: exactly the edges attached to `f` become
    detached (`getForest() == nullptr`); every other edge keeps its attachment. -/
theorem destroy_detaches_forest (s : State) (f : Fid) (hr : s.running = true) (hl : liveF s f = true) :
    (step s (.rmForest f)).2 = .ok ∧
    (step s (.rmForest f)).1.edges
      = s.edges.map (fun p => (p.1, if p.2 = some f then none else p.2)) := by
  simp only [step, hr, hl, destroy]
  refine ⟨by simp, ?_⟩
  simp only [Bool.not_true, Bool.false_eq_true, if_false]
  apply List.map_congr_left
  intro p _
  cases h : p.2 with
  | none => simp [detachDead]
  | some g =>
    by_cases hg : g = f
    · simp [detachDead, hg]
    · simp [detachDead, hg]

example : (step (run State.initial [.init, .mkDomain 1, .mkForest 1 ⟨false, true⟩, .mkForest 1 ⟨false, true⟩,
      .mkEdge 1 (some 1), .mkEdge 2 (some 2), .mkEdge 3 none]) (.rmForest 1)).1.edges
    = [(3, none), (2, some 2), (1, none)] := by decide

/-- **destroy_detaches (domain).**  `domain::destroy(d)`: exactly the edges attached to a forest of
    `d` become detached; every other edge keeps its attachment. -/
theorem destroy_detaches_domain (s : State) (d : DomId) (hr : s.running = true) (hd : d ∈ s.domains) :
    (step s (.rmDomain d)).2 = .ok ∧
    (step s (.rmDomain d)).1.edges = s.edges.map (fun p => (p.1, detachDead (fidsOfDom s d) p.2)) := by
  simp [step, hr, hd, destroy]

example : (step (run State.initial [.init, .mkDomain 1, .mkDomain 2, .mkForest 1 ⟨false, true⟩,
      .mkForest 2 ⟨false, true⟩, .mkEdge 1 (some 1), .mkEdge 2 (some 2)]) (.rmDomain 1)).1.edges
    = [(2, some 2), (1, none)] := by decide

/-- what `destroy` leaves behind mentions no destroyed forest -/
theorem destroy_purges_core (dead : List Fid) (s : State) :
    (∀ f ∈ dead, f ∉ fids (destroy dead s)) ∧
    (∀ p ∈ (destroy dead s).edges, ∀ f ∈ dead, p.2 ≠ some f) ∧
    (∀ p ∈ (destroy dead s).iters, ∀ f ∈ dead, p.2 ≠ some f) ∧
    (∀ o ∈ (destroy dead s).ops, ∀ f ∈ dead, f ∉ o.fids) ∧
    (∀ c ∈ (destroy dead s).ct, ∀ f ∈ dead, f ∉ c) := by
  refine ⟨?_, ?_, ?_, ?_, ?_⟩
  · intro f hf hm; exact (mem_fids_destroy.mp hm).2 hf
  · intro p hp f hf hpf
    obtain ⟨q, _, rfl⟩ := List.mem_map.mp hp
    exact (detachDead_some.mp hpf).2 hf
  · intro p hp f hf hpf
    obtain ⟨q, _, rfl⟩ := List.mem_map.mp hp
    exact (detachDead_some.mp hpf).2 hf
  · intro o ho f hf hfo
    have ho' := (List.mem_filter.mp ho).2
    have hh : hits dead o.fids = false := by simpa using ho'
    exact hits_false.mp hh f hfo hf
  · intro c hc f hf hfc
    have hc' := (List.mem_filter.mp hc).2
    have hh : hits dead c = false := by simpa using hc'
    exact hits_false.mp hh f hfc hf

/-- **destroy_purges.**  After `forest::destroy(f)` (resp. `domain::destroy(d)`) no live forest,
    edge, iterator, built operation or live compute-table entry mentions `f` (resp. any forest of
    `d`). -/
theorem destroy_purges (s : State) (op : Op) (hop : (∃ f, op = .rmForest f) ∨ (∃ d, op = .rmDomain d))
    (hok : (step s op).2 = .ok) :
    let s' := (step s op).1
    let dead := destroyedBy s op
    (∀ f ∈ dead, f ∉ fids s') ∧ (∀ p ∈ s'.edges, ∀ f ∈ dead, p.2 ≠ some f) ∧
    (∀ p ∈ s'.iters, ∀ f ∈ dead, p.2 ≠ some f) ∧
    (∀ o ∈ s'.ops, ∀ f ∈ dead, f ∉ o.fids) ∧ (∀ c ∈ s'.ct, ∀ f ∈ dead, f ∉ c) := by
  rcases hop with ⟨f, rfl⟩ | ⟨d, rfl⟩
  · simp only [step, destroyedBy] at hok ⊢
    split at hok
    · cases hok
    · split at hok
      · cases hok
      · rename_i hr hl
        have hr : s.running = true := by simpa using hr
        have hl : liveF s f = true := by simpa using hl
        simp only [hr, hl, Bool.not_true, Bool.false_eq_true, if_false, Bool.and_self, if_true]
        exact destroy_purges_core [f] s
  · simp only [step, destroyedBy] at hok ⊢
    split at hok
    · cases hok
    · split at hok
      · cases hok
      · rename_i hr hd
        have hr : s.running = true := by simpa using hr
        have hd : d ∈ s.domains := by simpa using hd
        simp only [hr, hd, Bool.not_true, Bool.false_eq_true, if_false, not_true_eq_false,
          decide_true, Bool.and_self, if_true]
        exact destroy_purges_core (fidsOfDom s d) s

example : (run State.initial [.init, .mkDomain 1, .mkForest 1 ⟨false, true⟩, .mkForest 1 ⟨false, true⟩,
      .buildOp 1 .copy [1, 2], .buildOp 2 .copy [2, 2], .ctAdd [1, 2], .ctAdd [2], .rmForest 1]).ops
      = [⟨2, .copy, [2, 2]⟩] ∧
    (run State.initial [.init, .mkDomain 1, .mkForest 1 ⟨false, true⟩, .mkForest 1 ⟨false, true⟩,
      .buildOp 1 .copy [1, 2], .buildOp 2 .copy [2, 2], .ctAdd [1, 2], .ctAdd [2], .rmForest 1]).ct
      = [[2]] := by decide

/-- **no_dangling.**  In every reachable state everything that names a forest names a live one:
    attached edges, iterators not yet orphaned, built operations and live cache entries; and when the
    library is not running nothing at all is registered. -/
theorem no_dangling (ops : List Op) :
    let s := run State.initial ops
    (∀ p ∈ s.edges, ∀ f, p.2 = some f → liveF s f = true) ∧
    (∀ o ∈ s.ops, ∀ f ∈ o.fids, liveF s f = true) ∧
    (∀ c ∈ s.ct, ∀ f ∈ c, liveF s f = true) ∧
    (∀ F ∈ s.forests, F.dom ∈ s.domains ∧ F.fid < s.nextFid) ∧
    (s.running = false → s.domains = [] ∧ s.forests = [] ∧ s.ops = [] ∧ s.ct = [] ∧
        ∀ p ∈ s.edges, p.2 = none) := by
  intro s
  have hw : WF s := wf_reachable ops
  refine ⟨fun p hp f h => liveF_iff.mpr (hw.edge_live p hp f h),
    fun o ho f h => liveF_iff.mpr (hw.op_live o ho f h),
    fun c hc f h => liveF_iff.mpr (hw.ct_live c hc f h),
    fun F hF => ⟨hw.dom_live F hF, hw.fid_lt _ (List.mem_map.mpr ⟨F, hF, rfl⟩)⟩, ?_⟩
  intro hr
  obtain ⟨h1, h2, h3, h4, _⟩ := hw.stopped hr
  refine ⟨h1, h2, h3, h4, ?_⟩
  intro p hp
  cases hp2 : p.2 with
  | none => rfl
  | some f =>
    have := hw.edge_live p hp f hp2
    rw [stopped_fids hw hr] at this
    cases this



example : (run State.initial [.init, .mkDomain 1, .mkForest 1 ⟨false, true⟩, .mkForest 1 ⟨false, true⟩,
    .mkEdge 1 (some 1), .mkEdge 2 (some 2), .buildOp 1 .copy [1, 2], .ctAdd [1, 2], .rmForest 1]) =
  ⟨true, [1], [⟨2, 1, ⟨false, true⟩⟩], 3, [(2, some 2), (1, none)], [], [], []⟩ := by decide

/-- **others_untouched (forest).**  `forest::destroy(f)` changes nothing but `f` and what mentions `f`:
    the library keeps running, domains and the FID counter are unchanged, every other forest
    survives, edges of other forests keep their attachment, operations and cache entries that do not
    mention `f` survive (cache entries with their multiplicity). -/
theorem others_untouched_forest (s : State) (f : Fid) (hr : s.running = true) (hl : liveF s f = true) :
    let s' := (step s (.rmForest f)).1
    s'.running = true ∧ s'.domains = s.domains ∧ s'.nextFid = s.nextFid ∧
    (∀ F ∈ s.forests, F.fid ≠ f → F ∈ s'.forests) ∧
    (∀ e g, att s e = some (some g) → g ≠ f → att s' e = some (some g)) ∧
    (∀ e, att s e = some none → att s' e = some none) ∧
    (∀ o ∈ s.ops, f ∉ o.fids → o ∈ s'.ops) ∧
    (∀ c, f ∉ c → s'.ct.count c = s.ct.count c) := by
  intro s'
  have hs' : s' = destroy [f] s := by simp [s', step, hr, hl]
  obtain ⟨h1, h2, h3, h4, h5, h6, _, h8, h9⟩ := destroy_keeps [f] s
  rw [hs']
  refine ⟨h1.trans hr, h2, h3, ?_, ?_, h6, ?_, ?_⟩
  · intro F hF hne; exact h4 F hF (by simpa using hne)
  · intro e g hg hne; exact h5 e g hg (by simpa using hne)
  · intro o ho hn; exact h8 o ho (hits_false.mpr (fun g hg => by simp; intro e; exact hn (e ▸ hg)))
  · intro c hn; exact h9 c (hits_false.mpr (fun g hg => by simp; intro e; exact hn (e ▸ hg)))

example :
    let s := run State.initial [.init, .mkDomain 1, .mkForest 1 ⟨false, true⟩, .mkForest 1 ⟨false, true⟩,
      .mkForest 1 ⟨false, true⟩, .mkEdge 1 (some 1), .mkEdge 2 (some 2), .buildOp 1 .union [1, 2, 3],
      .buildOp 2 .copy [2, 3], .ctAdd [1, 2, 3], .ctAdd [2, 3], .ctAdd [2, 3]]
    let s' := (step s (.rmForest 1)).1
    s'.forests = [⟨3, 1, ⟨false, true⟩⟩, ⟨2, 1, ⟨false, true⟩⟩] ∧ att s' 2 = some (some 2) ∧
      s'.ops = [⟨2, .copy, [2, 3]⟩] ∧ s'.ct.count [2, 3] = 2 ∧ s'.ct.count [1, 2, 3] = 0 := by
  decide

/-- **others_untouched (domain).**  `domain::destroy(d)` in a reachable state never affects the
    forests of other domains: they survive, their edges keep their attachment, and operations and
    cache entries over them survive; the other domains stay registered. -/
theorem others_untouched_domain (pre : List Op) (d : DomId)
    (hr : (run State.initial pre).running = true) (hd : d ∈ (run State.initial pre).domains) :
    let s := run State.initial pre
    let s' := (step s (.rmDomain d)).1
    s'.running = true ∧ s'.nextFid = s.nextFid ∧
    (∀ d' ∈ s.domains, d' ≠ d → d' ∈ s'.domains) ∧
    (∀ F ∈ s.forests, F.dom ≠ d → F ∈ s'.forests) ∧
    (∀ e g G, att s e = some (some g) → findF s g = some G → G.dom ≠ d → att s' e = some (some g)) ∧
    (∀ e, att s e = some none → att s' e = some none) ∧
    (∀ o ∈ s.ops, (∀ g ∈ o.fids, ∀ G, findF s g = some G → G.dom ≠ d) → o ∈ s'.ops) ∧
    (∀ c, (∀ g ∈ c, ∀ G, findF s g = some G → G.dom ≠ d) → s'.ct.count c = s.ct.count c) := by
  intro s s'
  have hw : WF s := wf_reachable pre
  have hr' : s.running = true := hr
  have hd' : d ∈ s.domains := hd
  have hs' : s' = { destroy (fidsOfDom s d) s with domains := s.domains.filter (· != d) } := by
    simp [s', step, hr', hd']
  -- a forest of another domain is not in the destroyed list
  have hother : ∀ G ∈ s.forests, G.dom ≠ d → G.fid ∉ fidsOfDom s d := by
    intro G hG hne hm
    simp only [fidsOfDom, List.mem_map, List.mem_filter] at hm
    obtain ⟨H, ⟨hH, hHd⟩, hfid⟩ := hm
    have : H = G := forest_unique hw.fid_nodup hH hG hfid
    subst this
    exact hne (by simpa using hHd)
  -- a live fid has a forest record
  have hfind : ∀ g ∈ fids s, ∃ G, findF s g = some G := by
    intro g hg
    obtain ⟨G, hG, rfl⟩ := List.mem_map.mp hg
    cases hfd : findF s G.fid with
    | some G' => exact ⟨G', rfl⟩
    | none =>
      have := List.find?_eq_none.mp hfd G hG
      simp at this
  have hhits : ∀ c : List Fid, (∀ g ∈ c, g ∈ fids s) →
      (∀ g ∈ c, ∀ G, findF s g = some G → G.dom ≠ d) → hits (fidsOfDom s d) c = false := by
    intro c hlive hc
    apply hits_false.mpr
    intro g hg
    obtain ⟨G, hG⟩ := hfind g (hlive g hg)
    obtain ⟨hGm, hGf⟩ := findF_some_mem hG
    exact hGf ▸ hother G hGm (hc g hg G hG)
  obtain ⟨h1, _, h3, h4, h5, h6, _, h8, h9⟩ := destroy_keeps (fidsOfDom s d) s
  have hatt : ∀ e, att s' e = att (destroy (fidsOfDom s d) s) e := by
    intro e; rw [hs']; rfl
  refine ⟨?_, ?_, ?_, ?_, ?_, ?_, ?_, ?_⟩
  · rw [hs']; exact h1.trans hr
  · rw [hs']; exact h3
  · intro d' hd' hne; rw [hs']; exact List.mem_filter.mpr ⟨hd', by simpa using hne⟩
  · intro F hF hne; rw [hs']; exact h4 F hF (hother F hF hne)
  · intro e g G hg hG hne
    rw [hatt]
    obtain ⟨hGm, hGf⟩ := findF_some_mem hG
    exact h5 e g hg (hGf ▸ hother G hGm hne)
  · intro e he; rw [hatt]; exact h6 e he
  · intro o ho hc; rw [hs']
    exact h8 o ho (hhits o.fids (hw.op_live o ho) hc)
  · intro c hc
    rw [hs']
    by_cases hm : c ∈ s.ct
    · exact h9 c (hhits c (hw.ct_live c hm) hc)
    · show (destroy (fidsOfDom s d) s).ct.count c = s.ct.count c
      have h0 : s.ct.count c = 0 := List.count_eq_zero.mpr hm
      have h0' : (destroy (fidsOfDom s d) s).ct.count c = 0 :=
        List.count_eq_zero.mpr (fun hm' => hm (List.mem_filter.mp hm').1)
      rw [h0, h0']

example :
    let s := run State.initial [.init, .mkDomain 1, .mkDomain 2, .mkForest 1 ⟨false, true⟩,
      .mkForest 2 ⟨false, true⟩, .mkForest 2 ⟨false, true⟩, .mkEdge 1 (some 1), .mkEdge 2 (some 2),
      .buildOp 1 .copy [2, 3], .buildOp 2 .copy [1, 1], .ctAdd [2, 3], .ctAdd [1]]
    let s' := (step s (.rmDomain 1)).1
    s'.forests = [⟨3, 2, ⟨false, true⟩⟩, ⟨2, 2, ⟨false, true⟩⟩] ∧ att s' 2 = some (some 2) ∧
      att s' 1 = some none ∧ s'.ops = [⟨1, .copy, [2, 3]⟩] ∧ s'.ct = [[2, 3]] ∧ s'.domains = [2] := by
  decide

/-- **frame.**  A step changes the attachment of an edge it does not write only by detaching it when
    its forest is destroyed by that step; in particular steps that destroy nothing leave all other
    edges exactly as they were. -/
theorem att_frame (s : State) (op : Op) (e : EdgeId) (he : e ∉ writes op) :
    att (step s op).1 e = (att s e).map (detachDead (destroyedBy s op)) := by
  have hid : att s e = (att s e).map (detachDead []) := by
    cases att s e <;> simp [detachDead_nil]
  cases op with
  | init =>
    simp only [step, destroyedBy]
    split
    · exact hid
    · exact hid
  | cleanup =>
    simp only [step, destroyedBy]
    split
    · rename_i hr; simp at hr; simp only [hr]; exact hid
    · rename_i hr; simp at hr
      simp only [hr, if_true]
      exact att_destroy (fids s) s e
  | mkDomain d => simp only [step, destroyedBy]; (repeat' split) <;> exact hid
  | rmDomain d =>
    simp only [step, destroyedBy]
    split
    · rename_i hr; simp at hr; simp only [hr]; exact hid
    · rename_i hr; simp at hr
      split
      · rename_i hd; simp only [hr, hd]; simpa using hid
      · rename_i hd
        have hd : d ∈ s.domains := by simpa using hd
        simp only [hr, hd, decide_true, Bool.and_self, if_true]
        exact att_destroy (fidsOfDom s d) s e
  | mkForest d k => simp only [step, destroyedBy]; (repeat' split) <;> exact hid
  | rmForest f =>
    simp only [step, destroyedBy]
    split
    · rename_i hr; simp at hr; simp only [hr]; exact hid
    · rename_i hr; simp at hr
      split
      · rename_i hl; simp at hl; simp only [hr, hl]; simpa using hid
      · rename_i hl
        have hl : liveF s f = true := by simpa using hl
        simp only [hr, hl, Bool.and_self, if_true]
        exact att_destroy [f] s e
  | mkEdge e' a =>
    have hne : e ≠ e' := by simpa [writes] using he
    simp only [step, destroyedBy]
    split
    · exact hid
    · cases a with
      | none => simp only; rw [att_cons_ne s none hne]; exact hid
      | some g =>
        simp only
        split
        · rw [att_cons_ne s (some g) hne]; exact hid
        · exact hid
  | copyEdge e₁ e' =>
    have hne : e ≠ e' := by simpa [writes] using he
    simp only [step, destroyedBy]
    split
    · exact hid
    · split
      · exact hid
      · rw [att_cons_ne s _ hne]; exact hid
  | assignEdge dst src =>
    have hne : e ≠ dst := by simpa [writes] using he
    simp only [step, destroyedBy]
    split
    · rw [att_setAtt_ne s _ hne]; exact hid
    · exact hid
  | rmEdge e' =>
    have hne : e ≠ e' := by simpa [writes] using he
    simp only [step, destroyedBy]
    split
    · rw [att_filter_ne s hne]; exact hid
    · exact hid
  | attach e' f =>
    have hne : e ≠ e' := by simpa [writes] using he
    simp only [step, destroyedBy]
    split
    · rw [att_setAtt_ne s _ hne]; exact hid
    · exact hid
  | detach e' =>
    have hne : e ≠ e' := by simpa [writes] using he
    simp only [step, destroyedBy]
    split
    · rw [att_setAtt_ne s _ hne]; exact hid
    · exact hid
  | fill e' => simp only [step, destroyedBy]; (repeat' split) <;> exact hid
  | evaluate e' => simp only [step, destroyedBy]; (repeat' split) <;> exact hid
  | mkIter i e' => simp only [step, destroyedBy]; (repeat' split) <;> exact hid
  | advIter i => simp only [step, destroyedBy]; (repeat' split) <;> exact hid
  | rmIter i => simp only [step, destroyedBy]; (repeat' split) <;> exact hid
  | buildOp o k fs =>
    simp only [step, destroyedBy]
    rw [att_congr (buildCore_edges s o k fs)]; exact hid
  | apply o k es =>
    simp only [step, destroyedBy]
    split
    · exact hid
    · split
      · exact hid
      · split
        · exact hid
        · rw [att_congr (buildCore_edges s o k _)]; exact hid
  | ctAdd fs => simp only [step, destroyedBy]; (repeat' split) <;> exact hid
  | ctEvict fs => simp only [step, destroyedBy]; (repeat' split) <;> exact hid
  | ctClear f => simp only [step, destroyedBy]; (repeat' split) <;> exact hid



example : att (step (run State.initial [.init, .mkDomain 1, .mkForest 1 ⟨false, true⟩, .mkForest 1 ⟨false, true⟩,
      .mkEdge 1 (some 1), .mkEdge 2 (some 2)]) (.rmForest 1)).1 2 = some (some 2) ∧
    att (step (run State.initial [.init, .mkDomain 1, .mkForest 1 ⟨false, true⟩, .mkForest 1 ⟨false, true⟩,
      .mkEdge 1 (some 1), .mkEdge 2 (some 2)]) (.apply 1 .copy [1, 2])).1 1 = some (some 1) := by decide

/-- **detached_use_errors.**  `apply(UNION|COPY, …)` with an operand or result edge that has no forest
    (never attached, detached, or orphaned by the destruction of its forest or domain or by cleanup)
    never succeeds and changes nothing: the factory finds a null forest and throws NOT_IMPLEMENTED
    before any operation is looked up, built or run. -/
theorem detached_use_errors (s : State) (o : OpId) (k : OpKind) (es : List EdgeId) (e : EdgeId)
    (he : e ∈ es) (hdet : att s e = some none) :
    (step s (.apply o k es)).1 = s ∧
    ((step s (.apply o k es)).2 = .err .NOT_IMPLEMENTED ∨ (step s (.apply o k es)).2 = .illegal) := by
  simp only [step]
  split
  · exact ⟨rfl, Or.inr rfl⟩
  · rename_i as has
    split
    · exact ⟨rfl, Or.inr rfl⟩
    · obtain ⟨a, ha, ha'⟩ := atts_mem has he
      rw [hdet] at ha'
      cases ha'
      have : (as.any fun a => (liveAtt s a).isNone) = true :=
        List.any_eq_true.mpr ⟨none, ha, by simp [liveAtt]⟩
      rw [this]
      exact ⟨rfl, Or.inl rfl⟩

/-- with well-formed arguments the outcome is exactly NOT_IMPLEMENTED -/
theorem detached_use_errors_exact (s : State) (o : OpId) (k : OpKind) (es : List EdgeId)
    (as : List (Option Fid)) (has : atts s es = some as) (har : arityOk k es.length = true)
    (hdet : none ∈ as) :
    step s (.apply o k es) = (s, .err .NOT_IMPLEMENTED) := by
  have : (as.any fun a => (liveAtt s a).isNone) = true :=
    List.any_eq_true.mpr ⟨none, hdet, by simp [liveAtt]⟩
  simp [step, has, har, this]



example : step (run State.initial [.init, .mkDomain 1, .mkForest 1 ⟨false, true⟩, .mkEdge 1 (some 1),
      .mkEdge 2 (some 1), .mkEdge 3 (some 1), .buildOp 1 .union [1, 1, 1], .detach 2])
      (.apply 2 .union [1, 2, 3]) =
    (run State.initial [.init, .mkDomain 1, .mkForest 1 ⟨false, true⟩, .mkEdge 1 (some 1),
      .mkEdge 2 (some 1), .mkEdge 3 (some 1), .buildOp 1 .union [1, 1, 1], .detach 2],
      .err .NOT_IMPLEMENTED) := by decide

/-- an orphaned edge (its forest was destroyed) behaves the same, in every reachable state -/
example : (step (run State.initial [.init, .mkDomain 1, .mkForest 1 ⟨false, true⟩, .mkForest 1 ⟨false, true⟩,
      .mkEdge 1 (some 1), .mkEdge 2 (some 2), .rmForest 2]) (.apply 1 .copy [2, 1])).2
      = .err .NOT_IMPLEMENTED := by decide

/-- `dd_edge::evaluate` on an edge without forest throws FOREST_MISMATCH -/
theorem detached_evaluate_errors (s : State) (e : EdgeId) (hdet : att s e = some none) :
    step s (.evaluate e) = (s, .err .FOREST_MISMATCH) := by
  simp [step, hdet, liveAtt]

example : step (run State.initial [.init, .mkDomain 1, .mkForest 1 ⟨false, true⟩, .mkEdge 1 (some 1), .rmDomain 1])
    (.evaluate 1) = (run State.initial [.init, .mkDomain 1, .mkForest 1 ⟨false, true⟩, .mkEdge 1 (some 1), .rmDomain 1],
      .err .FOREST_MISMATCH) := by decide

/-- **reinit_clean.**  `MEDDLY::cleanup()` from any reachable running state succeeds and leaves exactly
    the state of a process that never initialised the library, except that the client's edge and
    iterator objects still exist — all of them without forest.  No counter survives: `all_forests`,
    the domain list, the operation registry and the entry-type registry are all emptied. -/
theorem reinit_clean (pre : List Op) (hr : (run State.initial pre).running = true) :
    step (run State.initial pre) .cleanup =
      ({ State.initial with
          edges := (run State.initial pre).edges.map (fun p => (p.1, none))
          iters := (run State.initial pre).iters.map (fun p => (p.1, none)) }, .ok) := by
  have hw := wf_reachable pre
  generalize run State.initial pre = s at *
  simp only [step, hr, Bool.not_true, Bool.false_eq_true, if_false, State.initial, destroy]
  congr 2
  · apply List.map_congr_left
    intro p hp
    cases h : p.2 with
    | none => simp [detachDead]
    | some f => simp [detachDead, hw.edge_live p hp f h]
  · apply List.map_congr_left
    intro p hp
    cases h : p.2 with
    | none => simp [detachDead]
    | some f => simp [detachDead, hw.iter_live p hp f h]

example : step (run State.initial [.init, .mkDomain 1, .mkForest 1 ⟨false, true⟩, .mkEdge 1 (some 1),
      .mkEdge 2 none, .buildOp 1 .copy [1, 1], .ctAdd [1]]) .cleanup =
    ({ State.initial with edges := [(2, none), (1, none)] }, .ok) := by decide

/-- **reinit.**  The library can be initialised and cleaned up any number of times: in a reachable
    state `initialize` succeeds iff the library is stopped, `cleanup` succeeds iff it is running, the
    failing call raises ALREADY_INITIALIZED resp. UNINITIALIZED and changes nothing. -/
theorem init_cleanup_outcomes (s : State) :
    (s.running = false → (step s .init).2 = .ok ∧ (step s .init).1.running = true ∧
        step s .cleanup = (s, .err .UNINITIALIZED)) ∧
    (s.running = true → (step s .cleanup).2 = .ok ∧ (step s .cleanup).1.running = false ∧
        step s .init = (s, .err .ALREADY_INITIALIZED)) := by
  constructor <;> intro hr <;> simp [step, hr]

example : (step State.initial .init).2 = .ok ∧ (step (step State.initial .init).1 .init).2 = .err .ALREADY_INITIALIZED ∧
    (step State.initial .cleanup).2 = .err .UNINITIALIZED := by decide

/-- **reinit (round trip).**  From a reachable stopped state, `initialize; cleanup` returns to exactly
    the same state, so any number of such cycles does. -/
theorem init_cleanup_roundtrip (pre : List Op) (hr : (run State.initial pre).running = false)
    (n : Nat) :
    run (run State.initial pre) ((List.replicate n [Op.init, Op.cleanup]).flatten)
      = run State.initial pre := by
  have hw := wf_reachable pre
  generalize run State.initial pre = s at *
  induction n with
  | zero => rfl
  | succ n ih =>
    simp only [List.replicate_succ, List.flatten_cons, List.cons_append, List.nil_append, run]
    have hone : (step (step s .init).1 .cleanup).1 = s := by
      obtain ⟨h1, h2, h3, h4, h5⟩ := hw.stopped hr
      simp only [step, hr, Bool.false_eq_true, if_false, Bool.not_true, destroy, fids, List.map_nil]
      cases s with
      | mk running domains forests nextFid edges iters ops ct =>
        simp only at hr h1 h2 h3 h4 h5
        subst hr h1 h2 h3 h4 h5
        simp only [State.mk.injEq, true_and, and_true]
        refine ⟨?_, ?_⟩
        · conv => rhs; rw [← List.map_id edges]
          apply List.map_congr_left
          intro p _
          simp [detachDead_nil]
        · conv => rhs; rw [← List.map_id iters]
          apply List.map_congr_left
          intro p _
          simp [detachDead_nil]
    rw [hone]
    exact ih

example : run State.initial ((List.replicate 3 [Op.init, Op.cleanup]).flatten) = State.initial := by
  decide

/-- uninitialised use: creating or destroying domains and forests while the library is not
    running raises UNINITIALIZED and changes nothing -/
theorem uninitialized_errors (s : State) (hr : s.running = false) (d : DomId) (f : Fid) :
    step s (.mkDomain d) = (s, .err .UNINITIALIZED) ∧
    step s (.rmDomain d) = (s, .err .UNINITIALIZED) ∧
    step s (.rmForest f) = (s, .err .UNINITIALIZED) := by
  simp [step, hr]


example : step (run State.initial [.init, .mkDomain 1, .mkForest 1 ⟨false, true⟩, .cleanup]) (.rmForest 1) =
    (run State.initial [.init, .mkDomain 1, .mkForest 1 ⟨false, true⟩, .cleanup], .err .UNINITIALIZED) := by decide

end Meddly.Lifecycle

/-
  `#print axioms` of the property theorems (Lean 4.33.0):

    wf_reachable               [propext, Classical.choice, Quot.sound]
    fid_fresh                  [propext, Classical.choice, Quot.sound]
    fid_fresh_unmentioned      [propext, Classical.choice, Quot.sound]
    fid_never_reused           [propext, Classical.choice, Quot.sound]
    fid_restart                [propext, Quot.sound]
    destroy_detaches_forest    [propext, Quot.sound]
    destroy_detaches_domain    [propext, Quot.sound]
    destroy_purges             [propext, Quot.sound]
    no_dangling                [propext, Classical.choice, Quot.sound]
    others_untouched_forest    [propext, Quot.sound]
    others_untouched_domain    [propext, Classical.choice, Quot.sound]
    att_frame                  [propext, Classical.choice, Quot.sound]
    detached_use_errors        [propext, Quot.sound]
    detached_use_errors_exact  [propext, Quot.sound]
    detached_evaluate_errors   [propext, Quot.sound]
    reinit_clean               [propext, Classical.choice, Quot.sound]
    init_cleanup_outcomes      [propext, Quot.sound]
    init_cleanup_roundtrip     [propext, Classical.choice, Quot.sound]
    uninitialized_errors       [propext, Quot.sound]
-/
