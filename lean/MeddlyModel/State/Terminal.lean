/-
  HAND-WRITTEN part of the C19 model (everything about terminal handles is GENERATED, see
  MeddlyModel/Gen/Terminal.lean): how `forest::getEdgeForValue` / `forest::getValueForEdge`
  (forest.cc) represent function values on the edges of edge-valued forests.

  It is tied to the C++ code only by the differential run of the harness family `terminal`
  (records `const evp|evpq|evt|evtq ...` and `cedge evp|evt ...`).
-/
import MeddlyModel.Gen.Terminal

namespace Meddly.TerminalEV
open Gen.Terminal

/-- the bit pattern is a NaN (exponent all ones, fraction non-zero) -/
def isNaNBits (b : BitVec 32) : Bool :=
  (b &&& 0x7f800000#32) == 0x7f800000#32 && (b &&& 0x007fffff#32) != 0#32

/-! ## Edge values: model of forest::getEdgeForValue / getValueForEdge

  EV+ (and index-set) forests store `long` edge values; the function value +infinity is the edge
  (value 0, node OMEGA_INFINITY = 0); a finite value v is the edge (value v, node OMEGA_NORMAL = −1).
  EV* forests store `float` edge values; the value 0.0 (and −0.0) is the edge (value, node
  OMEGA_ZERO = 0), everything else (value, node OMEGA_NORMAL = −1); decoding an OMEGA_ZERO edge
  yields +0.0.  Nothing is rounded: a `long` / a `float` is stored as it is. -/

/-- function values of an integer-range forest (`rangeval`) -/
inductive IVal where
  | fin (v : BitVec 64)
  | inf
  deriving DecidableEq, Repr

/-- an edge to a terminal of an EV forest: edge value and terminal ("omega") node -/
structure EvEdge (w : Nat) where
  value : BitVec w
  node : BitVec 32
  deriving DecidableEq, Repr

def omegaNormal : BitVec 32 := -(1#32)
def omegaInfinity : BitVec 32 := 0#32
def omegaZero : BitVec 32 := 0#32

/-- `getEdgeForValue` of an EV+ forest -/
def evpEncode : IVal → EvEdge 64
  | .inf => ⟨0#64, omegaInfinity⟩
  | .fin v => ⟨v, omegaNormal⟩

/-- `getValueForEdge` of an EV+ forest -/
def evpDecode (e : EvEdge 64) : IVal :=
  if e.node == omegaInfinity then .inf else .fin e.value

/-- `getEdgeForValue` of an EV* forest (float bit patterns) -/
def evtEncode (b : BitVec 32) : EvEdge 32 :=
  ⟨b, if floatNonzero b then omegaNormal else omegaZero⟩

/-- `getValueForEdge` of an EV* forest -/
def evtDecode (e : EvEdge 32) : BitVec 32 :=
  if e.node == omegaZero then 0#32 else e.value

end Meddly.TerminalEV
