/-
  Model of ONE `unique_table::subtable` (src/unique_table.h, src/unique_table.cc):
  the per-variable chained hash table in which a forest looks up a freshly
  reduced node before storing it (`forest::createReducedNode`:
  `un->computeHash(); node = unique->find(*un, var); if (node) return it;
  ... unique->add(un->hash(), node)`), and from which `forest::deleteNode`
  unlinks a dead node (`unique->remove(hashNode(p), p)`).

  What the C++ does (found by reading):

    * `init`:   `size = MIN_SIZE = 8; num_entries = 0; next_expand = 2*size; next_shrink = 0`.
    * `find(key)`: `h = key.hash() % size`; walk the chain `table[h], getNext(..)`;
      first `ptr` with `parent->areDuplicates(ptr, key)` is moved to the FRONT
      of its chain and returned; 0 if none.
    * `add(hash, item)`: `if (num_entries >= next_expand) expand(); num_entries++;
      h = hash % size;  setNext(item, table[h]); table[h] = item`  (no duplicate check).
    * `remove(hash, item)`: `h = hash % size`; walk the chain, unlink the node
      with `ptr == item`; `num_entries--; if (num_entries < next_shrink) shrink();`
      `FAIL("not found")` if it is not in that chain.
    * `expand`: `ptr = convertToList(); newSize = 2*size; next_shrink = size;
      size = newSize; next_expand = (size >= MAX_SIZE ? UINT_MAX : 2*size);
      buildFromList(ptr)`.
    * `shrink`: `ptr = convertToList(); newSize = size/2; next_expand = size;
      size = newSize; next_shrink = (size <= MIN_SIZE ? 0 : size/2); buildFromList(ptr)`.
    * `convertToList`: buckets 0..size-1 in order, each chain front to back,
      every node pushed on the HEAD of one list (so the list is the reverse of
      the concatenation of the chains); `num_entries = 0`.
    * `buildFromList`: for each node of that list, front to back:
      `h = parent->hashNode(node) % size; push front; num_entries++`
      -- the hash is RECOMPUTED FROM THE STORED NODE here.
    So the thresholds are: expand when `num_entries >= 2*size` (before the
    insertion), shrink when `num_entries < size/2` (after the removal) and
    `size > 8`  (`Shape`, proved invariant).

  Chains are threaded through the node headers in the C++ (`getNext/setNext`);
  here a chain is a `List` of handles and the bucket array a `List` of chains.
  All arithmetic is in `Nat` (the C++ `unsigned` cannot overflow below 2^30
  buckets / 2^31 handles).
-/
import MeddlyModel.Core.HashStream
import MeddlyModel.Core.Dump

namespace Meddly
namespace UniqueTable

/-! ## Bucket-array helpers -/

section Buckets
variable {α β : Type}

/-- apply `f` to the `i`-th element -/
def updAt (f : α → α) : Nat → List α → List α
  | _, [] => []
  | 0, b :: bs => f b :: bs
  | i+1, b :: bs => b :: updAt f i bs

theorem length_updAt (f : α → α) : ∀ (i : Nat) (l : List α), (updAt f i l).length = l.length
  | i, [] => by cases i <;> simp [updAt]
  | 0, _ :: _ => rfl
  | i+1, _ :: bs => by simp [updAt, length_updAt f i bs]

theorem getElem?_updAt (f : α → α) : ∀ (i : Nat) (l : List α) (j : Nat),
    (updAt f i l)[j]? = if j = i then (l[j]?).map f else l[j]?
  | i, [], j => by simp [updAt]
  | 0, b :: bs, 0 => by simp [updAt]
  | 0, b :: bs, j+1 => by simp [updAt]
  | i+1, b :: bs, 0 => by simp [updAt]
  | i+1, b :: bs, j+1 => by simp [updAt, getElem?_updAt f i bs j]

theorem flatten_updAt (f : List β → List β) : ∀ (i : Nat) (l : List (List β)) (b : List β),
    l[i]? = some b →
    (updAt f i l).flatten = (l.take i).flatten ++ f b ++ (l.drop (i+1)).flatten
  | _, [], _, h => by simp at h
  | 0, b0 :: bs, b, h => by
    have : b0 = b := by simpa using h
    subst this; simp [updAt]
  | i+1, b0 :: bs, b, h => by
    have h' : bs[i]? = some b := by simpa using h
    simp [updAt, flatten_updAt f i bs b h', List.append_assoc]

theorem flatten_split : ∀ (i : Nat) (l : List (List β)) (b : List β), l[i]? = some b →
    l.flatten = (l.take i).flatten ++ b ++ (l.drop (i+1)).flatten
  | _, [], _, h => by simp at h
  | 0, b0 :: bs, b, h => by
    have : b0 = b := by simpa using h
    subst this; simp
  | i+1, b0 :: bs, b, h => by
    have h' : bs[i]? = some b := by simpa using h
    have ih := flatten_split i bs b h'
    simp only [List.flatten_cons, List.take_succ_cons, List.drop_succ_cons, List.append_assoc]
    rw [ih]; simp [List.append_assoc]

theorem perm_pushFront {l : List (List β)} {i : Nat} {b : List β} (h : l[i]? = some b) (p : β) :
    (updAt (fun c => p :: c) i l).flatten.Perm (p :: l.flatten) := by
  rw [flatten_updAt _ i l b h, flatten_split i l b h]
  simp only [List.append_assoc, List.cons_append]
  exact List.perm_middle

theorem perm_mtf [DecidableEq β] {l : List (List β)} {i : Nat} {b : List β} (h : l[i]? = some b)
    {p : β} (hp : p ∈ b) :
    (updAt (fun c => p :: c.erase p) i l).flatten.Perm l.flatten := by
  rw [flatten_updAt _ i l b h, flatten_split i l b h]
  exact (((List.perm_cons_erase hp).symm).append_left _).append_right _

theorem perm_erase [DecidableEq β] {l : List (List β)} {i : Nat} {b : List β} (h : l[i]? = some b)
    {p : β} (hp : p ∈ b) :
    (p :: (updAt (fun c => c.erase p) i l).flatten).Perm l.flatten := by
  rw [flatten_updAt _ i l b h, flatten_split i l b h]
  simp only [List.append_assoc]
  refine List.perm_middle.symm.trans ?_
  exact (((List.perm_cons_erase hp).symm).append_right _).append_left _

theorem mem_flatten_iff_getElem? {l : List (List β)} {p : β} :
    p ∈ l.flatten ↔ ∃ (i : Nat) (b : List β), l[i]? = some b ∧ p ∈ b := by
  rw [List.mem_flatten]
  constructor
  · rintro ⟨b, hb, hp⟩
    obtain ⟨i, hi⟩ := List.mem_iff_getElem?.1 hb
    exact ⟨i, b, hi, hp⟩
  · rintro ⟨i, b, hi, hp⟩
    exact ⟨b, List.mem_iff_getElem?.2 ⟨i, hi⟩, hp⟩

theorem flatten_replicate_nil' (n : Nat) : (List.replicate n ([] : List β)).flatten = [] := by
  induction n with
  | zero => rfl
  | succ n ih => simp [List.replicate_succ, ih]

end Buckets

/-! ## The table -/

/-- what the table needs to know about nodes: the stored content of a handle
    (header + child vector, as compared by `areDuplicates`), the hash of a
    search key (`unpacked_node::hash()`, from `computeHash`) and the hash
    recomputed from a stored node (`forest::hashNode(p)`) -/
structure Ctx (H C : Type) where
  content : H → C
  hashOf : C → UInt32
  hashNode : H → UInt32

/-- `HashStream.hash_agree`: the stored-node hash is the key hash of its content -/
def Ctx.Agree {H C : Type} (ctx : Ctx H C) : Prop := ∀ p, ctx.hashNode p = ctx.hashOf (ctx.content p)

def MAX_SIZE : Nat := 1073741824
def MIN_SIZE : Nat := 8
def UINT_MAX : Nat := 4294967295

/-- `class unique_table::subtable` -/
structure SubTable (H : Type) where
  table : List (List H)     -- `node_handle* table` + the `next` links: bucket i = chain i, front first
  size : Nat
  numEntries : Nat
  nextExpand : Nat
  nextShrink : Nat
  deriving Repr, DecidableEq

set_option linter.unusedSectionVars false

variable {H C : Type} [DecidableEq H] [DecidableEq C]

/-- `subtable::init` -/
def SubTable.init : SubTable H :=
  { table := List.replicate MIN_SIZE [], size := MIN_SIZE, numEntries := 0,
    nextExpand := 2 * MIN_SIZE, nextShrink := 0 }

/-- abstract view: the handles in the table (what `getItems` returns) -/
def SubTable.items (t : SubTable H) : List H := t.table.flatten

/-- `hash % size` -/
def bucketOf (hash : UInt32) (size : Nat) : Nat := hash.toNat % size

/-- the chain hanging off `table[i]` -/
def chain (tb : List (List H)) (i : Nat) : List H := (tb[i]?).getD []

/-- `setNext(item, table[h]); table[h] = item` -/
def pushFront (tb : List (List H)) (i : Nat) (p : H) : List (List H) := updAt (fun c => p :: c) i tb

/-- `subtable::convertToList` -/
def convertToList (t : SubTable H) : List H := t.table.flatten.reverse

/-- `subtable::buildFromList` into the (emptied) bucket array `tb` of `size` buckets -/
def buildFromList (ctx : Ctx H C) (size : Nat) (l : List H) (tb : List (List H)) : List (List H) :=
  l.foldl (fun tb p => pushFront tb (bucketOf (ctx.hashNode p) size) p) tb

/-- `subtable::expand` -/
def expand (ctx : Ctx H C) (t : SubTable H) : SubTable H :=
  let l := convertToList t
  let newSize := t.size * 2
  { table := buildFromList ctx newSize l (List.replicate newSize []),
    size := newSize,
    numEntries := l.length,
    nextShrink := t.size,
    nextExpand := if newSize ≥ MAX_SIZE then UINT_MAX else newSize * 2 }

/-- `subtable::shrink` -/
def shrink (ctx : Ctx H C) (t : SubTable H) : SubTable H :=
  let l := convertToList t
  let newSize := t.size / 2
  { table := buildFromList ctx newSize l (List.replicate newSize []),
    size := newSize,
    numEntries := l.length,
    nextExpand := t.size,
    nextShrink := if newSize ≤ MIN_SIZE then 0 else newSize / 2 }

/-- the part of `add` after the expand test:
    `num_entries++; h = hash % size; setNext(item, table[h]); table[h] = item` -/
def addTail (t : SubTable H) (hash : UInt32) (item : H) : SubTable H :=
  { t with numEntries := t.numEntries + 1, table := pushFront t.table (bucketOf hash t.size) item }

/-- `subtable::add(hash, item)` -/
def add (ctx : Ctx H C) (t : SubTable H) (hash : UInt32) (item : H) : SubTable H :=
  addTail (if t.numEntries ≥ t.nextExpand then expand ctx t else t) hash item

/-- `subtable::remove(hash, item)`; `none` = `FAIL("not found")` -/
def remove (ctx : Ctx H C) (t : SubTable H) (hash : UInt32) (item : H) : SubTable H × Option H :=
  let h := bucketOf hash t.size
  if item ∈ chain t.table h then
    let t1 : SubTable H :=
      { t with table := updAt (fun c => c.erase item) h t.table, numEntries := t.numEntries - 1 }
    (if t1.numEntries < t1.nextShrink then shrink ctx t1 else t1, some item)
  else (t, none)

/-- `subtable::find(key)` with `key.hash() = hashOf k`, `areDuplicates(ptr,key) ↔ content ptr = k` -/
def find (ctx : Ctx H C) (t : SubTable H) (k : C) : SubTable H × Option H :=
  let h := bucketOf (ctx.hashOf k) t.size
  match (chain t.table h).find? (fun p => decide (ctx.content p = k)) with
  | some p => ({ t with table := updAt (fun c => p :: c.erase p) h t.table }, some p)
  | none => (t, none)

/-! ## Invariant -/

/-- every item sits in the bucket of its (key) hash -/
def Placed (ctx : Ctx H C) (n : Nat) (tb : List (List H)) : Prop :=
  ∀ i b, tb[i]? = some b → ∀ p ∈ b, bucketOf (ctx.hashOf (ctx.content p)) n = i

/-- no two listed handles have equal content -/
def InjOn (ctx : Ctx H C) (l : List H) : Prop :=
  ∀ p ∈ l, ∀ q ∈ l, ctx.content p = ctx.content q → p = q

/-- the size/threshold discipline: `size = 8·2^k`, shrink threshold `size/2`
    (0 at the minimum size), expand threshold `2·size` (below `MAX_SIZE`) -/
structure Shape (t : SubTable H) : Prop where
  pow : ∃ k, t.size = 8 * 2 ^ k ∧ t.nextShrink = (if k = 0 then 0 else t.size / 2)
  exp : t.size < MAX_SIZE → t.nextExpand = 2 * t.size

structure Inv (ctx : Ctx H C) (t : SubTable H) : Prop where
  shape : Shape t
  len : t.table.length = t.size
  placed : Placed ctx t.size t.table
  nodup : t.items.Nodup
  count : t.numEntries = t.items.length
  inj : InjOn ctx t.items

theorem Shape.size_ge {t : SubTable H} (s : Shape t) : 8 ≤ t.size := by
  obtain ⟨k, hk, _⟩ := s.pow
  have : 0 < 2 ^ k := Nat.two_pow_pos k
  omega

theorem Inv.size_pos {ctx : Ctx H C} {t : SubTable H} (h : Inv ctx t) : 0 < t.size := by
  have := h.shape.size_ge; omega

theorem bucket_exists {tb : List (List H)} {n : Nat} (hl : tb.length = n) (hn : 0 < n) (hash : UInt32) :
    ∃ b, tb[bucketOf hash n]? = some b ∧ chain tb (bucketOf hash n) = b := by
  have hlt : bucketOf hash n < tb.length := by rw [hl]; exact Nat.mod_lt _ hn
  exact ⟨tb[bucketOf hash n], List.getElem?_eq_getElem hlt, by simp [chain, List.getElem?_eq_getElem hlt]⟩

theorem placed_updAt {ctx : Ctx H C} {n : Nat} {tb : List (List H)} (hP : Placed ctx n tb)
    (f : List H → List H) (i : Nat)
    (hf : ∀ b, tb[i]? = some b → ∀ p ∈ f b, p ∈ b ∨ bucketOf (ctx.hashOf (ctx.content p)) n = i) :
    Placed ctx n (updAt f i tb) := by
  intro j b' hj p hp
  rw [getElem?_updAt] at hj
  split at hj
  · rename_i hji
    subst hji
    obtain ⟨b, hb, hfb⟩ := Option.map_eq_some_iff.1 hj
    subst hfb
    rcases hf b hb p hp with h | h
    · exact hP j b hb p h
    · exact h
  · exact hP j b' hj p hp

theorem InjOn.perm {ctx : Ctx H C} {l l' : List H} (h : InjOn ctx l) (hp : l'.Perm l) : InjOn ctx l' :=
  fun p hpm q hqm e => h p (hp.mem_iff.1 hpm) q (hp.mem_iff.1 hqm) e

theorem InjOn.cons {ctx : Ctx H C} {l : List H} (h : InjOn ctx l) {x : H}
    (hx : ∀ q ∈ l, ctx.content q ≠ ctx.content x) : InjOn ctx (x :: l) := by
  intro p hp q hq e
  rcases List.mem_cons.1 hp with hpx | hpl
  · rcases List.mem_cons.1 hq with hqx | hql
    · rw [hpx, hqx]
    · rw [hpx] at e; exact absurd e.symm (hx q hql)
  · rcases List.mem_cons.1 hq with hqx | hql
    · rw [hqx] at e; exact absurd e (hx p hpl)
    · exact h p hpl q hql e

theorem InjOn.of_cons {ctx : Ctx H C} {l : List H} {x : H} (h : InjOn ctx (x :: l)) : InjOn ctx l :=
  fun p hp q hq e => h p (List.mem_cons_of_mem _ hp) q (List.mem_cons_of_mem _ hq) e

/-- assemble the invariant for a table whose items are a permutation of a good list -/
theorem Inv.of_perm {ctx : Ctx H C} {t : SubTable H} {L : List H}
    (hs : Shape t) (hl : t.table.length = t.size) (hp : Placed ctx t.size t.table)
    (hperm : t.items.Perm L) (hnd : L.Nodup) (hinj : InjOn ctx L) (hc : t.numEntries = L.length) :
    Inv ctx t :=
  { shape := hs, len := hl, placed := hp,
    nodup := hperm.nodup_iff.2 hnd,
    count := by rw [hc, hperm.length_eq],
    inj := hinj.perm hperm }

/-! ## Rehash -/

theorem buildFromList_spec (ctx : Ctx H C) (hA : ctx.Agree) (n : Nat) (hn : 0 < n) :
    ∀ (l : List H) (tb : List (List H)), tb.length = n → Placed ctx n tb →
      (buildFromList ctx n l tb).length = n ∧ Placed ctx n (buildFromList ctx n l tb) ∧
      (buildFromList ctx n l tb).flatten.Perm (l ++ tb.flatten) := by
  intro l
  induction l with
  | nil => intro tb hl hP; exact ⟨hl, hP, List.Perm.refl _⟩
  | cons p l ih =>
    intro tb hl hP
    obtain ⟨b, hb, _⟩ := bucket_exists hl hn (ctx.hashNode p)
    have hl' : (pushFront tb (bucketOf (ctx.hashNode p) n) p).length = n := by
      rw [pushFront, length_updAt]; exact hl
    have hP' : Placed ctx n (pushFront tb (bucketOf (ctx.hashNode p) n) p) := by
      refine placed_updAt hP _ _ ?_
      intro c _ q hq
      rcases List.mem_cons.1 hq with rfl | hq
      · right; rw [hA]
      · left; exact hq
    obtain ⟨h1, h2, h3⟩ := ih _ hl' hP'
    refine ⟨h1, h2, ?_⟩
    show (buildFromList ctx n l (pushFront tb (bucketOf (ctx.hashNode p) n) p)).flatten.Perm _
    refine h3.trans ?_
    refine ((perm_pushFront hb p).append_left l).trans ?_
    simp only [List.cons_append]
    exact List.perm_middle

theorem rehash_spec (ctx : Ctx H C) (hA : ctx.Agree) (n : Nat) (hn : 0 < n) (l : List H) :
    (buildFromList ctx n l (List.replicate n [])).length = n ∧
    Placed ctx n (buildFromList ctx n l (List.replicate n [])) ∧
    (buildFromList ctx n l (List.replicate n [])).flatten.Perm l := by
  have hP : Placed ctx n (List.replicate n ([] : List H)) := by
    intro i b hb p hp
    rw [List.getElem?_replicate] at hb
    split at hb
    · cases hb; cases hp
    · cases hb
  obtain ⟨h1, h2, h3⟩ := buildFromList_spec ctx hA n hn l _ (List.length_replicate ..) hP
  refine ⟨h1, h2, ?_⟩
  simpa [flatten_replicate_nil'] using h3

theorem two_pow_ge_two {k : Nat} (hk : k ≠ 0) : 2 ≤ 2 ^ k := by
  cases k with
  | zero => exact absurd rfl hk
  | succ j =>
    have : 0 < 2 ^ j := Nat.two_pow_pos j
    rw [Nat.pow_succ]; omega

theorem expand_shape {ctx : Ctx H C} {t : SubTable H} (hs : Shape t) : Shape (expand ctx t) := by
  obtain ⟨k, hk, _⟩ := hs.pow
  constructor
  · refine ⟨k+1, ?_, ?_⟩
    · show t.size * 2 = 8 * 2 ^ (k+1)
      rw [Nat.pow_succ]; omega
    · show t.size = if k + 1 = 0 then 0 else t.size * 2 / 2
      simp
  · intro h
    show (if t.size * 2 ≥ MAX_SIZE then UINT_MAX else t.size * 2 * 2) = 2 * (t.size * 2)
    have h' : t.size * 2 < MAX_SIZE := h
    rw [if_neg (by omega)]; omega

theorem shrink_shape {ctx : Ctx H C} {t : SubTable H} (hs : Shape t) (hlt : t.numEntries < t.nextShrink) :
    Shape (shrink ctx t) ∧ 0 < t.size / 2 := by
  obtain ⟨k, hk, hsh⟩ := hs.pow
  have hk0 : k ≠ 0 := by
    intro h0; rw [if_pos h0] at hsh; omega
  obtain ⟨j, rfl⟩ : ∃ j, k = j + 1 := ⟨k - 1, by omega⟩
  have hpos : 0 < 2 ^ j := Nat.two_pow_pos j
  rw [Nat.pow_succ] at hk
  have hhalf : t.size / 2 = 8 * 2 ^ j := by omega
  refine ⟨⟨⟨j, hhalf, ?_⟩, ?_⟩, by omega⟩
  · show (if t.size / 2 ≤ MIN_SIZE then 0 else t.size / 2 / 2) = if j = 0 then 0 else t.size / 2 / 2
    by_cases hj : j = 0
    · subst hj; rw [if_pos rfl, if_pos (by rw [hhalf]; decide)]
    · have := two_pow_ge_two hj
      rw [if_neg hj, if_neg (by rw [hhalf]; unfold MIN_SIZE; omega)]
  · intro _
    show t.size = 2 * (t.size / 2)
    omega

theorem expand_inv {ctx : Ctx H C} (hA : ctx.Agree) {t : SubTable H} (h : Inv ctx t) :
    Inv ctx (expand ctx t) ∧ (expand ctx t).items.Perm t.items := by
  have hn : 0 < t.size * 2 := by have := h.size_pos; omega
  obtain ⟨h1, h2, h3⟩ := rehash_spec ctx hA (t.size * 2) hn (convertToList t)
  have hperm : (expand ctx t).items.Perm t.items := h3.trans (List.reverse_perm _)
  refine ⟨Inv.of_perm (expand_shape h.shape) h1 h2 hperm h.nodup h.inj ?_, hperm⟩
  show (convertToList t).length = t.items.length
  simp [convertToList, SubTable.items]

theorem shrink_inv {ctx : Ctx H C} (hA : ctx.Agree) {t : SubTable H} (h : Inv ctx t)
    (hlt : t.numEntries < t.nextShrink) :
    Inv ctx (shrink ctx t) ∧ (shrink ctx t).items.Perm t.items := by
  obtain ⟨hsh, hn⟩ := shrink_shape (ctx := ctx) h.shape hlt
  obtain ⟨h1, h2, h3⟩ := rehash_spec ctx hA (t.size / 2) hn (convertToList t)
  have hperm : (shrink ctx t).items.Perm t.items := h3.trans (List.reverse_perm _)
  refine ⟨Inv.of_perm hsh h1 h2 hperm h.nodup h.inj ?_, hperm⟩
  show (convertToList t).length = t.items.length
  simp [convertToList, SubTable.items]

/-! ## find -/

theorem find_fst_snd (ctx : Ctx H C) (t : SubTable H) (k : C) :
    (∃ p, (chain t.table (bucketOf (ctx.hashOf k) t.size)).find? (fun p => decide (ctx.content p = k)) = some p ∧
        find ctx t k = ({ t with table := updAt (fun c => p :: c.erase p) (bucketOf (ctx.hashOf k) t.size) t.table }, some p)) ∨
    ((chain t.table (bucketOf (ctx.hashOf k) t.size)).find? (fun p => decide (ctx.content p = k)) = none ∧
        find ctx t k = (t, none)) := by
  cases hf : (chain t.table (bucketOf (ctx.hashOf k) t.size)).find? (fun p => decide (ctx.content p = k)) with
  | none => right; refine ⟨rfl, ?_⟩; simp only [find, hf]
  | some p => left; refine ⟨p, rfl, ?_⟩; simp only [find, hf]

/-- an item of the table is in the chain that `find` walks for its content -/
theorem mem_chain_of_mem_items {ctx : Ctx H C} {t : SubTable H} (h : Inv ctx t) {p : H}
    (hp : p ∈ t.items) : p ∈ chain t.table (bucketOf (ctx.hashOf (ctx.content p)) t.size) := by
  obtain ⟨i, b, hb, hpb⟩ := mem_flatten_iff_getElem?.1 hp
  have := h.placed i b hb p hpb
  rw [this]; simp [chain, hb, hpb]

theorem mem_items_of_mem_chain {t : SubTable H} {i : Nat} {p : H} (hp : p ∈ chain t.table i) :
    p ∈ t.items := by
  unfold chain at hp
  cases hb : t.table[i]? with
  | none => simp [hb] at hp
  | some b =>
    rw [hb] at hp
    exact mem_flatten_iff_getElem?.2 ⟨i, b, hb, by simpa using hp⟩

/-- **find refines lookup-by-content** -/
theorem find_some_iff {ctx : Ctx H C} {t : SubTable H} (h : Inv ctx t) (k : C) (x : H) :
    (find ctx t k).2 = some x ↔ x ∈ t.items ∧ ctx.content x = k := by
  rcases find_fst_snd ctx t k with ⟨p, hf, he⟩ | ⟨hf, he⟩
  · rw [he]
    have hpm := List.mem_of_find?_eq_some hf
    have hpc : ctx.content p = k := by simpa using List.find?_some hf
    constructor
    · intro hx
      have : p = x := by simpa using hx
      subst this
      exact ⟨mem_items_of_mem_chain hpm, hpc⟩
    · rintro ⟨hx, hxc⟩
      have := h.inj p (mem_items_of_mem_chain hpm) x hx (hpc.trans hxc.symm)
      simp [this]
  · rw [he]
    constructor
    · intro hx; cases hx
    · rintro ⟨hx, hxc⟩
      have hm := mem_chain_of_mem_items h hx
      rw [hxc] at hm
      have := List.find?_eq_none.1 hf x hm
      simp [hxc] at this

theorem find_none_iff {ctx : Ctx H C} {t : SubTable H} (h : Inv ctx t) (k : C) :
    (find ctx t k).2 = none ↔ ∀ x ∈ t.items, ctx.content x ≠ k := by
  constructor
  · intro hn x hx hc
    have := (find_some_iff h k x).2 ⟨hx, hc⟩
    rw [hn] at this; cases this
  · intro hall
    cases hr : (find ctx t k).2 with
    | none => rfl
    | some x =>
      have := (find_some_iff h k x).1 hr
      exact absurd this.2 (hall x this.1)

/-- `find` only reorders one chain: invariant kept, same items -/
theorem find_inv {ctx : Ctx H C} {t : SubTable H} (h : Inv ctx t) (k : C) :
    Inv ctx (find ctx t k).1 ∧ (find ctx t k).1.items.Perm t.items := by
  rcases find_fst_snd ctx t k with ⟨p, hf, he⟩ | ⟨_, he⟩
  · rw [he]
    obtain ⟨b, hb, hch⟩ := bucket_exists h.len h.size_pos (ctx.hashOf k)
    rw [hch] at hf
    have hpb : p ∈ b := List.mem_of_find?_eq_some hf
    have hperm : (updAt (fun c => p :: c.erase p) (bucketOf (ctx.hashOf k) t.size) t.table).flatten.Perm
        t.table.flatten := perm_mtf hb hpb
    refine ⟨Inv.of_perm (L := t.items) ?_ ?_ ?_ hperm h.nodup h.inj h.count, hperm⟩
    · exact ⟨h.shape.pow, h.shape.exp⟩
    · show (updAt _ _ t.table).length = t.size
      rw [length_updAt]; exact h.len
    · refine placed_updAt h.placed _ _ ?_
      intro c hc q hq
      rw [hb] at hc; cases hc
      left
      rcases List.mem_cons.1 hq with rfl | hq
      · exact hpb
      · exact List.mem_of_mem_erase hq
  · rw [he]; exact ⟨h, List.Perm.refl _⟩

/-! ## add -/

theorem pushFront_inv {ctx : Ctx H C} {t : SubTable H} (h : Inv ctx t) (item : H)
    (hfresh : ∀ q ∈ t.items, ctx.content q ≠ ctx.content item) :
    Inv ctx (addTail t (ctx.hashOf (ctx.content item)) item) ∧
    (addTail t (ctx.hashOf (ctx.content item)) item).items.Perm (item :: t.items) := by
  obtain ⟨b, hb, _⟩ := bucket_exists h.len h.size_pos (ctx.hashOf (ctx.content item))
  have hperm : (addTail t (ctx.hashOf (ctx.content item)) item).items.Perm (item :: t.items) :=
    perm_pushFront hb item
  have hnot : item ∉ t.items := fun hm => hfresh item hm rfl
  refine ⟨Inv.of_perm (L := item :: t.items) ⟨h.shape.pow, h.shape.exp⟩ ?_ ?_ hperm
    (List.nodup_cons.2 ⟨hnot, h.nodup⟩) (h.inj.cons hfresh) ?_, hperm⟩
  · show (updAt _ _ t.table).length = t.size
    rw [length_updAt]; exact h.len
  · refine placed_updAt h.placed _ _ ?_
    intro c _ q hq
    rcases List.mem_cons.1 hq with rfl | hq
    · right; rfl
    · left; exact hq
  · show t.numEntries + 1 = (item :: t.items).length
    rw [h.count]; rfl

/-- `add` with the contract "hash is the key hash of the item's content, and no
    item with that content is in the table" -/
theorem add_inv {ctx : Ctx H C} (hA : ctx.Agree) {t : SubTable H} (h : Inv ctx t) (item : H)
    (hfresh : ∀ q ∈ t.items, ctx.content q ≠ ctx.content item) :
    Inv ctx (add ctx t (ctx.hashOf (ctx.content item)) item) ∧
    (add ctx t (ctx.hashOf (ctx.content item)) item).items.Perm (item :: t.items) := by
  unfold add
  by_cases hge : t.numEntries ≥ t.nextExpand
  · simp only [hge, ↓reduceIte]
    obtain ⟨hi, hp⟩ := expand_inv hA h
    have hfresh' : ∀ q ∈ (expand ctx t).items, ctx.content q ≠ ctx.content item :=
      fun q hq => hfresh q (hp.mem_iff.1 hq)
    obtain ⟨h1, h2⟩ := pushFront_inv hi item hfresh'
    exact ⟨h1, h2.trans (List.Perm.cons _ hp)⟩
  · simp only [hge, ↓reduceIte]
    exact pushFront_inv h item hfresh

/-! ## remove -/

theorem remove_inv {ctx : Ctx H C} (hA : ctx.Agree) {t : SubTable H} (h : Inv ctx t) (item : H)
    (hmem : item ∈ t.items) :
    (remove ctx t (ctx.hashNode item) item).2 = some item ∧
    Inv ctx (remove ctx t (ctx.hashNode item) item).1 ∧
    (item :: (remove ctx t (ctx.hashNode item) item).1.items).Perm t.items := by
  have hch : item ∈ chain t.table (bucketOf (ctx.hashNode item) t.size) := by
    rw [hA]; exact mem_chain_of_mem_items h hmem
  obtain ⟨b, hb, hcb⟩ := bucket_exists h.len h.size_pos (ctx.hashNode item)
  have hib : item ∈ b := hcb ▸ hch
  -- the table after unlinking, before the shrink test
  let t1 : SubTable H :=
    { t with table := updAt (fun c => c.erase item) (bucketOf (ctx.hashNode item) t.size) t.table,
             numEntries := t.numEntries - 1 }
  have hperm1 : (item :: t1.items).Perm t.items := perm_erase hb hib
  have hnd : (item :: t1.items).Nodup := hperm1.nodup_iff.2 h.nodup
  have hlen : t.items.length = t1.items.length + 1 := by rw [← hperm1.length_eq]; rfl
  have hinv1 : Inv ctx t1 :=
    { shape := ⟨h.shape.pow, h.shape.exp⟩
      len := by show (updAt _ _ t.table).length = t.size; rw [length_updAt]; exact h.len
      placed := by
        refine placed_updAt h.placed _ _ ?_
        intro c _ q hq
        left; exact List.mem_of_mem_erase hq
      nodup := (List.nodup_cons.1 hnd).2
      count := by show t.numEntries - 1 = t1.items.length; rw [h.count, hlen]; rfl
      inj := (h.inj.perm hperm1).of_cons }
  have hrem : remove ctx t (ctx.hashNode item) item =
      (if t1.numEntries < t1.nextShrink then shrink ctx t1 else t1, some item) := by
    unfold remove
    simp only [hch, ↓reduceIte]
    rfl
  rw [hrem]
  refine ⟨rfl, ?_⟩
  by_cases hlt : t1.numEntries < t1.nextShrink
  · simp only [hlt, ↓reduceIte]
    obtain ⟨hi, hp⟩ := shrink_inv hA hinv1 hlt
    exact ⟨hi, (List.Perm.cons _ hp).trans hperm1⟩
  · simp only [hlt, ↓reduceIte]
    exact ⟨hinv1, hperm1⟩

/-! ## init -/

theorem init_inv (ctx : Ctx H C) : Inv ctx (SubTable.init : SubTable H) :=
  { shape := ⟨⟨0, rfl, rfl⟩, fun _ => rfl⟩
    len := List.length_replicate ..
    placed := by
      intro i b hb p hp
      have hb' : (List.replicate MIN_SIZE ([] : List H))[i]? = some b := hb
      rw [List.getElem?_replicate] at hb'
      split at hb'
      · cases hb'; cases hp
      · cases hb'
    nodup := by simp [SubTable.items, SubTable.init]
    count := by simp [SubTable.items, SubTable.init]
    inj := by
      intro p hp
      simp [SubTable.items, SubTable.init] at hp }

theorem init_items : (SubTable.init : SubTable H).items = [] := by
  simp [SubTable.items, SubTable.init]

/-! ## Traces of operations under the caller's contract -/

/-- one call made by the forest -/
inductive Op (H C : Type) where
  | find (k : C)          -- `unique->find(key, var)`
  | add (item : H)        -- `unique->add(un->hash(), item)`   with `un` the unpacked form of `item`
  | remove (item : H)     -- `unique->remove(hashNode(item), item)`

/-- the effect of a call on the table, with the hashes the forest passes -/
def step (ctx : Ctx H C) (t : SubTable H) : Op H C → SubTable H
  | .find k => (find ctx t k).1
  | .add item => add ctx t (ctx.hashOf (ctx.content item)) item
  | .remove item => (remove ctx t (ctx.hashNode item) item).1

/-- the caller's contract: add only after an unsuccessful find for that
    content; remove only items that are in the table -/
def Legal (ctx : Ctx H C) (t : SubTable H) : Op H C → Prop
  | .find _ => True
  | .add item => (find ctx t (ctx.content item)).2 = none
  | .remove item => item ∈ t.items

def LegalTrace (ctx : Ctx H C) : SubTable H → List (Op H C) → Prop
  | _, [] => True
  | t, op :: ops => Legal ctx t op ∧ LegalTrace ctx (step ctx t op) ops

def run (ctx : Ctx H C) (t : SubTable H) (ops : List (Op H C)) : SubTable H := ops.foldl (step ctx) t

/-- abstract effect of a call on the SET of handles -/
def absStep (S : List H) : Op H C → List H
  | .find _ => S
  | .add item => item :: S
  | .remove item => S.erase item

theorem step_inv {ctx : Ctx H C} (hA : ctx.Agree) {t : SubTable H} (h : Inv ctx t) (op : Op H C)
    (hl : Legal ctx t op) :
    Inv ctx (step ctx t op) ∧ (step ctx t op).items.Perm (absStep t.items op) := by
  cases op with
  | find k => exact find_inv h k
  | add item => exact add_inv hA h item ((find_none_iff h _).1 hl)
  | remove item =>
    obtain ⟨_, hi, hp⟩ := remove_inv hA h item hl
    refine ⟨hi, ?_⟩
    show (remove ctx t (ctx.hashNode item) item).1.items.Perm (t.items.erase item)
    have h2 : (item :: (remove ctx t (ctx.hashNode item) item).1.items).Perm (item :: t.items.erase item) :=
      hp.trans (List.perm_cons_erase hl)
    exact (List.perm_cons _).1 h2

theorem run_inv {ctx : Ctx H C} (hA : ctx.Agree) : ∀ (ops : List (Op H C)) (t : SubTable H),
    Inv ctx t → LegalTrace ctx t ops → Inv ctx (run ctx t ops)
  | [], _, h, _ => h
  | op :: ops, t, h, hl => run_inv hA ops (step ctx t op) (step_inv hA h op hl.1).1 hl.2

/-! ## The forest's use: find, and add only on a miss -/

/-- `createReducedNode`'s tail: look the content of `fresh` up; on a hit return
    the stored handle (and the caller recycles `fresh`); on a miss add `fresh`. -/
def findOrAdd (ctx : Ctx H C) (t : SubTable H) (fresh : H) : SubTable H × H :=
  match find ctx t (ctx.content fresh) with
  | (t', some x) => (t', x)
  | (t', none) => (add ctx t' (ctx.hashOf (ctx.content fresh)) fresh, fresh)

theorem findOrAdd_inv {ctx : Ctx H C} (hA : ctx.Agree) {t : SubTable H} (h : Inv ctx t) (fresh : H) :
    Inv ctx (findOrAdd ctx t fresh).1 ∧
    ctx.content (findOrAdd ctx t fresh).2 = ctx.content fresh ∧
    (findOrAdd ctx t fresh).2 ∈ (findOrAdd ctx t fresh).1.items ∧
    (∀ x, x ∈ (findOrAdd ctx t fresh).1.items ↔ x ∈ t.items ∨
      (x = fresh ∧ ∀ q ∈ t.items, ctx.content q ≠ ctx.content fresh)) := by
  obtain ⟨hfi, hfp⟩ := find_inv h (ctx.content fresh)
  unfold findOrAdd
  cases hr : find ctx t (ctx.content fresh) with
  | mk t' r =>
    have ht' : (find ctx t (ctx.content fresh)).1 = t' := by rw [hr]
    have hr' : (find ctx t (ctx.content fresh)).2 = r := by rw [hr]
    rw [ht'] at hfi hfp
    cases r with
    | some x =>
      obtain ⟨hx, hxc⟩ := (find_some_iff h _ x).1 hr'
      refine ⟨hfi, hxc, hfp.mem_iff.2 hx, ?_⟩
      intro y
      show y ∈ t'.items ↔ _
      rw [hfp.mem_iff]
      constructor
      · exact Or.inl
      · rintro (hy | ⟨_, hall⟩)
        · exact hy
        · exact absurd hxc (hall x hx)
    | none =>
      have hall := (find_none_iff h _).1 hr'
      have hall' : ∀ q ∈ t'.items, ctx.content q ≠ ctx.content fresh :=
        fun q hq => hall q (hfp.mem_iff.1 hq)
      obtain ⟨hai, hap⟩ := add_inv hA hfi fresh hall'
      refine ⟨hai, rfl, hap.mem_iff.2 (List.mem_cons_self ..), ?_⟩
      intro y
      show y ∈ (add ctx t' _ fresh).items ↔ _
      rw [hap.mem_iff, List.mem_cons, hfp.mem_iff]
      constructor
      · rintro (rfl | hy)
        · exact Or.inr ⟨rfl, hall⟩
        · exact Or.inl hy
      · rintro (hy | ⟨rfl, _⟩)
        · exact Or.inr hy
        · exact Or.inl rfl

/-! ## Refinement of a finite set of handles -/

theorem absStep_perm {S S' : List H} (hp : S.Perm S') (op : Op H C) :
    (absStep S op).Perm (absStep S' op) := by
  cases op with
  | find k => exact hp
  | add item => exact List.Perm.cons _ hp
  | remove item => exact hp.erase _

theorem run_refines {ctx : Ctx H C} (hA : ctx.Agree) : ∀ (ops : List (Op H C)) (t : SubTable H)
    (S : List H), Inv ctx t → LegalTrace ctx t ops → t.items.Perm S →
    (run ctx t ops).items.Perm (ops.foldl absStep S)
  | [], _, _, _, _, hp => hp
  | op :: ops, t, S, h, hl, hp => by
    obtain ⟨hi, hs⟩ := step_inv hA h op hl.1
    exact run_refines hA ops (step ctx t op) (absStep S op) hi hl.2 (hs.trans (absStep_perm hp op))

/-! ## Forest-level traces: create (find, add on a miss) and delete -/

/-- what a forest does to one subtable -/
inductive FOp (H : Type) where
  | create (fresh : H)     -- `createReducedNode` reaching the unique-table lookup with a new handle in hand
  | delete (item : H)      -- `deleteNode(item)`

def fstep (ctx : Ctx H C) (t : SubTable H) : FOp H → SubTable H
  | .create fresh => (findOrAdd ctx t fresh).1
  | .delete item => (remove ctx t (ctx.hashNode item) item).1

/-- `deleteNode` is only called on active nodes, which are in the table -/
def FLegal (t : SubTable H) : FOp H → Prop
  | .create _ => True
  | .delete item => item ∈ t.items

def FLegalTrace (ctx : Ctx H C) : SubTable H → List (FOp H) → Prop
  | _, [] => True
  | t, op :: ops => FLegal t op ∧ FLegalTrace ctx (fstep ctx t op) ops

def frun (ctx : Ctx H C) (t : SubTable H) (ops : List (FOp H)) : SubTable H := ops.foldl (fstep ctx) t

theorem fstep_inv {ctx : Ctx H C} (hA : ctx.Agree) {t : SubTable H} (h : Inv ctx t) (op : FOp H)
    (hl : FLegal t op) : Inv ctx (fstep ctx t op) := by
  cases op with
  | create fresh => exact (findOrAdd_inv hA h fresh).1
  | delete item => exact (remove_inv hA h item hl).2.1

theorem frun_inv {ctx : Ctx H C} (hA : ctx.Agree) : ∀ (ops : List (FOp H)) (t : SubTable H),
    Inv ctx t → FLegalTrace ctx t ops → Inv ctx (frun ctx t ops)
  | [], _, h, _ => h
  | op :: ops, t, h, hl => frun_inv hA ops (fstep ctx t op) (fstep_inv hA h op hl.1) hl.2

/-! ## Link to `Dump.distinctOK` -/

section DumpLink
variable {α : Type} [DecidableEq α]

/-- the dump records of a list of handles whose content is `(pos, down)` -/
def dumpOf (ctx : Ctx Nat (Nat × List (Child α))) (l : List Nat) : Dump α :=
  l.map fun h => ⟨h, (ctx.content h).1, (ctx.content h).2⟩

theorem distinctOK_of_items (ctx : Ctx Nat (Nat × List (Child α))) : ∀ (l : List Nat),
    l.Nodup → InjOn ctx l → (dumpOf ctx l).distinctOK = true
  | [], _, _ => rfl
  | x :: l, hnd, hinj => by
    obtain ⟨hx, hnd'⟩ := List.nodup_cons.1 hnd
    have ih := distinctOK_of_items ctx l hnd' hinj.of_cons
    unfold dumpOf at ih ⊢
    simp only [List.map_cons, Dump.distinctOK, Bool.and_eq_true, List.all_eq_true]
    refine ⟨?_, ih⟩
    intro m hm
    obtain ⟨q, hq, rfl⟩ := List.mem_map.1 hm
    have hqx : q ≠ x := fun e => hx (e ▸ hq)
    have h2 : ((ctx.content q).1 == (ctx.content x).1 && (ctx.content q).2 == (ctx.content x).2) = false := by
      cases hh : ((ctx.content q).1 == (ctx.content x).1 && (ctx.content q).2 == (ctx.content x).2) with
      | false => rfl
      | true =>
        simp only [Bool.and_eq_true, beq_iff_eq] at hh
        exact absurd (hinj q (List.mem_cons_of_mem _ hq) x (List.mem_cons_self ..)
          (Prod.ext hh.1 hh.2)) hqx
    simp [hqx, h2]

end DumpLink

/-! ## Instantiation with the real node hash of `Core/HashStream.lean` -/

section RealHash
open HashStream

/-- a stored node: hashed-header words, logical child vector, storage kind chosen by `makeNode` -/
structure Stored where
  hdr : List UInt32
  ch : List Edge
  sparse : Bool

/-- what `simple_separated` keeps for it -/
def Stored.packed (P : Params) (n : Stored) : Packed :=
  if n.sparse then .sparse (sparseOf P n.ch) else .full n.ch

/-- The unique-table context of a real forest: the content compared by
    `areDuplicates` is (hashed header, non-transparent entries); the key hash is
    `unpacked_node::computeHash`; the stored-node hash is `simple_separated::hashNode`. -/
def nodeCtx {H : Type} (P : Params) (store : H → Stored) : Ctx H (List UInt32 × List Entry) :=
  { content := fun h => ((store h).hdr, sparseOf P (store h).ch)
    hashOf := fun k => computeHashSparse P k.1 k.2
    hashNode := fun h => hashNodePacked P (store h).hdr ((store h).packed P) }

/-- `hash_agree` IS the hypothesis `Ctx.Agree` of the table theorems. -/
theorem nodeCtx_agree {H : Type} (P : Params) (store : H → Stored)
    (hc : ∀ h, P.Canon (store h).ch) : (nodeCtx P store).Agree := by
  intro h
  show hashNodePacked P (store h).hdr ((store h).packed P) =
    computeHashSparse P (store h).hdr (sparseOf P (store h).ch)
  obtain ⟨_, _, h3, h4, _, h6⟩ := hash_agree P (store h).hdr (store h).ch (hc h) 0
  unfold Stored.packed
  cases (store h).sparse
  · simp only [Bool.false_eq_true, ↓reduceIte]; rw [h4, h3]
  · simp only [↓reduceIte]; rw [h6, h3]

/-- a search key may equally be a FULL unpacked node: same key hash -/
theorem nodeCtx_key_full {H : Type} (P : Params) (store : H → Stored) (hdr : List UInt32)
    (ch : List Edge) :
    computeHashFull P hdr ch = (nodeCtx P store).hashOf (hdr, sparseOf P ch) :=
  hash_agree_unpacked P hdr ch

end RealHash

/-! ## Property theorems -/

/-- **ut_inv.**  Starting from `subtable::init`, after ANY sequence of
    `find` / `add` / `remove` calls that respects the caller's contract (add only
    after an unsuccessful find for that content, with `hash = key hash of the
    content`; remove only items that are in the table, with `hash = hashNode(item)`),
    and provided the stored-node hash agrees with the key hash (`Ctx.Agree`,
    i.e. `HashStream.hash_agree`):

      * `size = 8·2^k`, `next_shrink = (k = 0 ? 0 : size/2)`, `next_expand = 2·size` (below MAX_SIZE);
      * the bucket array has `size` buckets and every item sits in bucket
        `hash(content item) % size`  (through every expand and shrink);
      * no handle occurs twice;  `num_entries` = total chain length;
      * NO TWO ITEMS HAVE EQUAL CONTENT. -/
theorem ut_inv {ctx : Ctx H C} (hA : ctx.Agree) (ops : List (Op H C))
    (hl : LegalTrace ctx SubTable.init ops) : Inv ctx (run ctx SubTable.init ops) :=
  run_inv hA ops _ (init_inv ctx) hl

/-- **ut_find_spec.**  In a table satisfying the invariant, `find k` returns
    `h` iff `h` is in the table and has content `k`; it returns 0 (`none`) iff no
    item has content `k`; and the answer is unique.  I.e. the chained,
    move-to-front, resizing table refines a finite map keyed by content:
    `unique->find(*un, var)` finds the duplicate of `un` whenever one is stored. -/
theorem ut_find_spec {ctx : Ctx H C} {t : SubTable H} (h : Inv ctx t) (k : C) :
    (∀ x, (find ctx t k).2 = some x ↔ x ∈ t.items ∧ ctx.content x = k) ∧
    ((find ctx t k).2 = none ↔ ∀ x ∈ t.items, ctx.content x ≠ k) ∧
    (∀ x y, x ∈ t.items → y ∈ t.items → ctx.content x = k → ctx.content y = k → x = y) ∧
    Inv ctx (find ctx t k).1 ∧ (∀ x, x ∈ (find ctx t k).1.items ↔ x ∈ t.items) :=
  ⟨find_some_iff h k, find_none_iff h k,
   fun x y hx hy ex ey => h.inj x hx y hy (ex.trans ey.symm),
   (find_inv h k).1, fun _ => (find_inv h k).2.mem_iff⟩

/-- `ut_find_spec` along any legal trace from `init` -/
theorem ut_find_spec_run {ctx : Ctx H C} (hA : ctx.Agree) (ops : List (Op H C))
    (hl : LegalTrace ctx SubTable.init ops) (k : C) (x : H) :
    (find ctx (run ctx SubTable.init ops) k).2 = some x ↔
      x ∈ (run ctx SubTable.init ops).items ∧ ctx.content x = k :=
  find_some_iff (ut_inv hA ops hl) k x

/-- **ut_refines_set.**  The abstract view of the table is the finite set of
    stored handles: `find` leaves it alone, a legal `add item` inserts `item`,
    a legal `remove item` deletes `item` (and reports `item`, never `FAIL`s);
    nothing else ever appears or disappears, in particular not during
    expand/shrink. -/
theorem ut_refines_set {ctx : Ctx H C} (hA : ctx.Agree) {t : SubTable H} (h : Inv ctx t) :
    (∀ k x, x ∈ (step ctx t (.find k)).items ↔ x ∈ t.items) ∧
    (∀ item, Legal ctx t (.add item) →
        ∀ x, x ∈ (step ctx t (.add item)).items ↔ x = item ∨ x ∈ t.items) ∧
    (∀ item, Legal ctx t (.remove item) →
        (remove ctx t (ctx.hashNode item) item).2 = some item ∧
        ∀ x, x ∈ (step ctx t (.remove item)).items ↔ x ∈ t.items ∧ x ≠ item) := by
  refine ⟨fun k x => (step_inv hA h (.find k) trivial).2.mem_iff, ?_, ?_⟩
  · intro item hl x
    rw [(step_inv hA h (.add item) hl).2.mem_iff]
    exact List.mem_cons
  · intro item hl
    refine ⟨(remove_inv hA h item hl).1, fun x => ?_⟩
    rw [(step_inv hA h (.remove item) hl).2.mem_iff]
    show x ∈ t.items.erase item ↔ _
    rw [h.nodup.mem_erase_iff]
    exact And.comm

/-- trace form: the items after a legal trace are (a permutation of) the result
    of running the obvious list-as-set operations -/
theorem ut_refines_set_run {ctx : Ctx H C} (hA : ctx.Agree) (ops : List (Op H C))
    (hl : LegalTrace ctx SubTable.init ops) :
    (run ctx SubTable.init ops).items.Perm (ops.foldl absStep ([] : List H)) :=
  run_refines hA ops _ _ (init_inv ctx) hl (by rw [init_items])

/-- **no_duplicate_contents** (the C01 corollary).  A forest that only ever
    does "find, and add only on a miss" (`createReducedNode`) and deletes only
    stored nodes (`deleteNode`) never has two nodes with equal content in a
    subtable.  Together with "one subtable per variable" (nodes of different
    levels have different `pos`) this is exactly the `distinctOK` half of
    `Dump.storeOK` ("no two distinct nodes with the same `(pos, down)`"), the
    hypothesis from which `Dump.unfold_inj` derives C01: two edges of one forest
    are equal iff they denote the same function. -/
theorem no_duplicate_contents {ctx : Ctx H C} (hA : ctx.Agree) (ops : List (FOp H))
    (hl : FLegalTrace ctx SubTable.init ops) :
    ∀ p ∈ (frun ctx SubTable.init ops).items, ∀ q ∈ (frun ctx SubTable.init ops).items,
      ctx.content p = ctx.content q → p = q :=
  (frun_inv hA ops _ (init_inv ctx) hl).inj

/-- `createReducedNode` returns a handle with the requested content that is in
    the table afterwards, and it enlarges the table only on a miss. -/
theorem create_spec {ctx : Ctx H C} (hA : ctx.Agree) {t : SubTable H} (h : Inv ctx t) (fresh : H) :
    Inv ctx (findOrAdd ctx t fresh).1 ∧
    ctx.content (findOrAdd ctx t fresh).2 = ctx.content fresh ∧
    (findOrAdd ctx t fresh).2 ∈ (findOrAdd ctx t fresh).1.items ∧
    (∀ x, x ∈ (findOrAdd ctx t fresh).1.items ↔ x ∈ t.items ∨
      (x = fresh ∧ ∀ q ∈ t.items, ctx.content q ≠ ctx.content fresh)) :=
  findOrAdd_inv hA h fresh

/-- The same statement in the vocabulary of `Core/Dump.lean`: dump the handles
    of a subtable as `DNode`s `(handle, pos, down)`; then `Dump.distinctOK` holds. -/
theorem dump_distinctOK {α : Type} [DecidableEq α] {ctx : Ctx Nat (Nat × List (Child α))}
    (hA : ctx.Agree) (ops : List (FOp Nat)) (hl : FLegalTrace ctx SubTable.init ops) :
    (dumpOf ctx (frun ctx SubTable.init ops).items).distinctOK = true :=
  let h := frun_inv hA ops _ (init_inv ctx) hl
  distinctOK_of_items ctx _ h.nodup h.inj

/-- `no_duplicate_contents` for the real hashes: with `computeHash` as key hash
    and `hashNode` as stored-node hash (both modelled word for word in
    `Core/HashStream.lean`), and nodes in canonical form (`Params.Canon`), a
    subtable driven by `createReducedNode`/`deleteNode` never holds two nodes with
    the same header and the same non-transparent entries -- whatever mix of full
    and sparse storage `makeNode` chose and however often the table was resized. -/
theorem no_duplicate_contents_real {H : Type} [DecidableEq H] (P : HashStream.Params)
    (store : H → Stored) (hc : ∀ h, P.Canon (store h).ch) (ops : List (FOp H))
    (hl : FLegalTrace (nodeCtx P store) SubTable.init ops) :
    ∀ p ∈ (frun (nodeCtx P store) SubTable.init ops).items,
    ∀ q ∈ (frun (nodeCtx P store) SubTable.init ops).items,
      ((store p).hdr, HashStream.sparseOf P (store p).ch) =
        ((store q).hdr, HashStream.sparseOf P (store q).ch) → p = q :=
  no_duplicate_contents (nodeCtx_agree P store hc) ops hl

/-- the thresholds the code uses, as invariants: minimum size 8, sizes are
    `8·2^k`, expansion doubles when `num_entries ≥ 2·size` at `add`, shrinking
    halves when `num_entries < size/2` after `remove` and `size > 8` -/
theorem ut_thresholds {ctx : Ctx H C} {t : SubTable H} (h : Inv ctx t) :
    8 ≤ t.size ∧ (∃ k, t.size = 8 * 2 ^ k) ∧
    (t.size = 8 → t.nextShrink = 0) ∧ (8 < t.size → t.nextShrink = t.size / 2) ∧
    (t.size < MAX_SIZE → t.nextExpand = 2 * t.size) := by
  obtain ⟨k, hk, hsh⟩ := h.shape.pow
  refine ⟨h.shape.size_ge, ⟨k, hk⟩, ?_, ?_, h.shape.exp⟩
  · intro h8
    by_cases hk0 : k = 0
    · rw [hsh, if_pos hk0]
    · have := two_pow_ge_two hk0; omega
  · intro h8
    by_cases hk0 : k = 0
    · subst hk0; simp at hk; omega
    · rw [hsh, if_neg hk0]

/-! ## Non-vacuity examples -/

section Examples

set_option maxRecDepth 16384   -- `decide` on 28-operation traces

instance decLegal (ctx : Ctx H C) (t : SubTable H) : (op : Op H C) → Decidable (Legal ctx t op)
  | .find _ => isTrue trivial
  | .add item => inferInstanceAs (Decidable ((find ctx t (ctx.content item)).2 = none))
  | .remove item => inferInstanceAs (Decidable (item ∈ t.items))

instance decLegalTrace (ctx : Ctx H C) : (t : SubTable H) → (ops : List (Op H C)) →
    Decidable (LegalTrace ctx t ops)
  | _, [] => isTrue trivial
  | t, op :: ops =>
    have := decLegalTrace ctx (step ctx t op) ops
    inferInstanceAs (Decidable (Legal ctx t op ∧ LegalTrace ctx (step ctx t op) ops))

/-- handles are numbers, the content of handle `h` is `h % 100` (so 5 and 105
    are duplicates), the key hash is the content itself, and the stored-node
    hash agrees with it -/
def goodCtx : Ctx Nat Nat :=
  { content := fun h => h % 100, hashOf := fun c => UInt32.ofNat c,
    hashNode := fun h => UInt32.ofNat (h % 100) }

theorem goodCtx_agree : goodCtx.Agree := fun _ => rfl

/-- 17 insertions (the 17th expands 8 → 16), a hit, a miss, then 10 removals
    (the 10th leaves 7 < 8 entries and shrinks 16 → 8) -/
def adds17 : List (Op Nat Nat) := (List.range 17).map (fun i => Op.add (i + 1))
def removes10 : List (Op Nat Nat) := (List.range 10).map (fun i => Op.remove (i + 1))

def T17 : SubTable Nat := run goodCtx SubTable.init adds17
def T7 : SubTable Nat := run goodCtx T17 (Op.find 12 :: removes10)

example : LegalTrace goodCtx SubTable.init (adds17 ++ Op.find 12 :: removes10) := by decide
example : (run goodCtx SubTable.init ((List.range 16).map (fun i => Op.add (i + 1)))).size = 8 := by decide
example : T17.size = 16 ∧ T17.numEntries = 17 ∧ T17.nextShrink = 8 ∧ T17.nextExpand = 32 := by decide
example : (find goodCtx T17 5).2 = some 5 ∧ (find goodCtx T17 55).2 = none := by decide
-- 1 and 17 share bucket 1 of 16; 17 was added last and is in front; finding 1 moves it to the front
example : chain T17.table 1 = [17, 1] ∧ chain (find goodCtx T17 1).1.table 1 = [1, 17] := by decide
-- a duplicate request (handle 105, content 5) is answered with the stored handle 5; nothing is added
example : (findOrAdd goodCtx T17 105).2 = 5 ∧ (findOrAdd goodCtx T17 105).1.numEntries = 17 := by decide
example : T7.size = 8 ∧ T7.numEntries = 7 ∧ T7.nextShrink = 0 ∧ T7.nextExpand = 16 := by decide
example : (find goodCtx T7 12).2 = some 12 ∧ (find goodCtx T7 3).2 = none := by decide
example : (remove goodCtx T7 (goodCtx.hashNode 3) 3).2 = none := by decide   -- contract violated: FAIL("not found")

/-- WRONG stored-node hash: `hashNode` (used at rehash and at `remove`) is not
    the key hash of the content -/
def badCtx : Ctx Nat Nat :=
  { content := fun h => h % 100, hashOf := fun c => UInt32.ofNat c, hashNode := fun _ => 7 }

def creates (ctx : Ctx Nat Nat) (t : SubTable Nat) (l : List Nat) : SubTable Nat :=
  l.foldl (fun t h => (findOrAdd ctx t h).1) t

/-- 17 `createReducedNode`s of pairwise different contents; the 17th expands
    the table and REHASHES nodes 1..16 with the wrong hash -/
def B17 : SubTable Nat := creates badCtx SubTable.init ((List.range 17).map (· + 1))

/-- **Why `hash_agree` matters.**  If the hash recomputed at rehash differs
    from the hash used at insertion/lookup:
      * node 5 is still in the table but `find` no longer sees it
        (it was rehashed into bucket `7 % 16` instead of `5 % 16`);
      * so the forest stores a DUPLICATE: creating content 5 again (handle 105)
        adds 105, and now two stored nodes have equal content -- canonicity
        (C01) is lost: two edges denoting the same function compare different;
      * and `deleteNode(17)` (added after the rehash, in bucket `17 % 16`)
        `FAIL`s with "not found" because `remove` looks in bucket `hashNode(17) % 16 = 7`. -/
theorem bad_rehash_breaks_table :
    5 ∈ B17.items ∧ (find badCtx B17 5).2 = none ∧
    (findOrAdd badCtx B17 105).2 = 105 ∧
    5 ∈ (findOrAdd badCtx B17 105).1.items ∧ 105 ∈ (findOrAdd badCtx B17 105).1.items ∧
    badCtx.content 5 = badCtx.content 105 ∧
    17 ∈ B17.items ∧ (remove badCtx B17 (badCtx.hashNode 17) 17).2 = none := by
  decide

/-- with the agreeing hash the very same calls keep the table canonical -/
example :
    let G17 := creates goodCtx SubTable.init ((List.range 17).map (· + 1))
    (find goodCtx G17 5).2 = some 5 ∧ (findOrAdd goodCtx G17 105).2 = 5 ∧
    (remove goodCtx G17 (goodCtx.hashNode 17) 17).2 = some 17 := by
  decide

/-- real hashes: handle 1 = node `[5, tv, 7]` stored full, handle 2 = the same
    logical node with a trailing transparent entry stored sparse, handle 3 =
    a different node -/
def realStore : Nat → Stored
  | 1 => ⟨[], HashStream.chMT, false⟩
  | 2 => ⟨[], HashStream.chMT ++ [⟨0, []⟩], true⟩
  | _ => ⟨[], [⟨7, []⟩, ⟨5, []⟩], false⟩

def realCtx : Ctx Nat (List UInt32 × List HashStream.Entry) := nodeCtx HashStream.Pmt realStore

/-- creating 1, then 2 (a duplicate in another storage form), then 3: the
    duplicate is answered with handle 1 and the table ends with {1, 3} -/
example :
    let t1 := (findOrAdd realCtx SubTable.init 1).1
    (findOrAdd realCtx t1 2).2 = 1 ∧
    (findOrAdd realCtx (findOrAdd realCtx t1 2).1 3).2 = 3 ∧
    (findOrAdd realCtx (findOrAdd realCtx t1 2).1 3).1.numEntries = 2 := by
  decide

end Examples

/-
Output of `#print axioms` (Lean 4.33.0):
  ut_inv, ut_find_spec, ut_find_spec_run, ut_refines_set, ut_refines_set_run,
  no_duplicate_contents, no_duplicate_contents_real, create_spec,
  dump_distinctOK, nodeCtx_agree        [propext, Classical.choice, Quot.sound]
  ut_thresholds                         [propext, Quot.sound]
  bad_rehash_breaks_table               [propext, Quot.sound]
-/

end UniqueTable
end Meddly
