/-
  Core model of MEDDLY's EV+ forests (edge-valued, "EV+MDD" / "EV+MxD").

  Every edge carries an integer; the value of the function on an assignment is
  the SUM of the edge values along the path, `+∞` (`none`) when the path
  reaches the transparent terminal.

  Terminals (`terminal.h`): `OMEGA_INFINITY = 0` (the transparent terminal,
  value +∞, `EDD.inf`) and `OMEGA_NORMAL = -1` (value 0, `EDD.omega`).

  Normal form of a stored node (`forest.cc`, `normalize_evplus` followed by
  `createReducedNode`):
    * entries whose child is the transparent terminal carry edge value 0;
    * the minimum of the other edge values is 0 (it has been pushed up to the
      incoming edge);
    * a node all of whose entries are ∞ is never stored (it is the transparent
      terminal);
    * `red` positions: no node with all children equal AND all edge values equal;
    * `ident` positions: no node with exactly one non-∞ entry at the incoming index;
    * `none` positions: nothing skipped except by the transparent terminal.
  A user edge is a pair (value, node); an edge to the transparent terminal has
  value 0.

  Positions, modes, shapes and assignments are those of `Core/DD.lean`.
-/
import MeddlyModel.Core.DD
import MeddlyModel.Core.Canon

namespace Meddly

set_option linter.unusedSectionVars false

inductive EDD where
  | inf : EDD                                   -- OMEGA_INFINITY: value +∞ (transparent)
  | omega : EDD                                 -- OMEGA_NORMAL: value 0
  | node (p : Nat) (cs : List (Int × EDD)) : EDD  -- stored node: (edge value, child) vector
  deriving Inhabited

namespace EDD

mutual
def decEqEDD : (a b : EDD) → Decidable (a = b)
  | .inf, .inf => isTrue rfl
  | .omega, .omega => isTrue rfl
  | .inf, .omega => isFalse (by intro e; cases e)
  | .inf, .node _ _ => isFalse (by intro e; cases e)
  | .omega, .inf => isFalse (by intro e; cases e)
  | .omega, .node _ _ => isFalse (by intro e; cases e)
  | .node _ _, .inf => isFalse (by intro e; cases e)
  | .node _ _, .omega => isFalse (by intro e; cases e)
  | .node p cs, .node q ds =>
    if hp : p = q then
      match decEqList cs ds with
      | isTrue h => isTrue (by rw [hp, h])
      | isFalse h => isFalse (by intro e; cases e; exact h rfl)
    else isFalse (by intro e; cases e; exact hp rfl)
def decEqList : (a b : List (Int × EDD)) → Decidable (a = b)
  | [], [] => isTrue rfl
  | [], _ :: _ => isFalse (by intro e; cases e)
  | _ :: _, [] => isFalse (by intro e; cases e)
  | c :: cs, d :: ds =>
    match decEqPair c d, decEqList cs ds with
    | isTrue h1, isTrue h2 => isTrue (by rw [h1, h2])
    | isFalse h1, _ => isFalse (by intro e; cases e; exact h1 rfl)
    | _, isFalse h2 => isFalse (by intro e; cases e; exact h2 rfl)
def decEqPair : (a b : Int × EDD) → Decidable (a = b)
  | (v, c), (w, d) =>
    if hv : v = w then
      match decEqEDD c d with
      | isTrue h => isTrue (by rw [hv, h])
      | isFalse h => isFalse (by intro e; cases e; exact h rfl)
    else isFalse (by intro e; cases e; exact hv rfl)
end
instance : DecidableEq EDD := decEqEDD

/-- an *edge*: (edge value, target) -/
abbrev Edge := Int × EDD

def isInf : EDD → Bool
  | .inf => true
  | _ => false

/-- the default entry of a child vector (never read inside the arity) -/
abbrev dflt : Int × EDD := (0, .inf)

def isNodeAt (p : Nat) : EDD → Bool
  | .node q _ => q == p
  | _ => false

/-- Denotation of `d`, read from position `k` downwards; `none` is `+∞`.
    Skipped positions are read exactly as in `DD.eval`. -/
def eval (S : Shape) : Nat → EDD → Assign → Option Int
  | 0, .omega, _ => some 0
  | 0, .inf, _ => none
  | 0, .node _ _, _ => none
  | k+1, d, a =>
    match d with
    | .node p cs =>
      if p = k+1 then
        (eval S k (cs.getD (a (k+1)) dflt).2 a).map (· + (cs.getD (a (k+1)) dflt).1)
      else if S.mode (k+1) = .ident ∧ a (k+1) ≠ a (k+2) then none
      else eval S k d a
    | .inf =>
      if S.mode (k+1) = .ident ∧ a (k+1) ≠ a (k+2) then none
      else eval S k d a
    | .omega =>
      if S.mode (k+1) = .ident ∧ a (k+1) ≠ a (k+2) then none
      else eval S k d a

/-- denotation of an edge: the edge value is added to the denotation of the target -/
def evalEdge (S : Shape) (k : Nat) (e : Int × EDD) (a : Assign) : Option Int :=
  (eval S k e.2 a).map (· + e.1)

end EDD

/-! ### Node-local conditions, generic in the type of children

The same executable tests are used on trees (`β = EDD`) and on dump records
(`β = EChild`, see `Core/EVDump.lean`). -/

section generic
variable {β : Type} [DecidableEq β]

/-- node-local normal form of a vector of edges:
    right arity; ∞-children carry value 0, the others a value ≥ 0; some non-∞
    child carries value 0 (so the node is not all-∞ and the minimum is 0);
    when `red`: not (all children equal and all values equal). -/
def evLocalOK (isInf : β → Bool) (d0 : Int × β) (sz : Nat) (red : Bool)
    (cs : List (Int × β)) : Bool :=
  cs.length == sz &&
  cs.all (fun e => if isInf e.2 then e.1 == 0 else decide (0 ≤ e.1)) &&
  cs.any (fun e => !isInf e.2 && e.1 == 0) &&
  (!red || !(cs.all (fun e => e == cs.headD d0)))

/-- exactly one non-∞ entry, at index `i` -/
def evSingleton (isInf : β → Bool) (d0 : Int × β) (i : Nat) (cs : List (Int × β)) : Bool :=
  decide (i < cs.length) &&
  (List.range cs.length).all (fun j => j == i || isInf (cs.getD j d0).2) &&
  !isInf (cs.getD i d0).2

def evAnySingleton (isInf : β → Bool) (d0 : Int × β) (cs : List (Int × β)) : Bool :=
  (List.range cs.length).any (fun i => evSingleton isInf d0 i cs)

end generic

namespace EDD

/-- `d` is the `i`-singleton at position `p` -/
def isSingleton (p i : Nat) : EDD → Bool
  | .node q cs => q == p && evSingleton isInf dflt i cs
  | _ => false

def isAnySingleton (p : Nat) : EDD → Bool
  | .node q cs => q == p && evAnySingleton isInf dflt cs
  | _ => false

/-- what may hang below an edge entering position `k`; exactly `DD.edgeOK` -/
def edgeOK (S : Shape) (k : Nat) (fromIdx : Option Nat) (d : EDD) : Bool :=
  match S.mode k with
  | .red => true
  | .none => d.isNodeAt k || d == .inf || k == 0
  | .ident =>
    match fromIdx with
    | some i => !(isSingleton k i d)
    | none => !(isAnySingleton k d)

/-- Reduced (canonical) form of a *target*, read from position `k` downwards,
    for an edge arriving from index `fromIdx`. -/
def Red (S : Shape) : Nat → Option Nat → EDD → Bool
  | 0, _, .node _ _ => false
  | 0, _, .inf => true
  | 0, _, .omega => true
  | k+1, fi, d =>
    edgeOK S (k+1) fi d &&
    match d with
    | .node p cs =>
      if p = k+1 then
        evLocalOK isInf dflt (S.size (k+1)) (S.mode (k+1) == .red) cs &&
        (List.range cs.length).all (fun i => Red S k (some i) (cs.getD i dflt).2)
      else if p < k+1 then Red S k none d
      else false
    | .inf => Red S k none d
    | .omega => Red S k none d

/-- Reduced edge: reduced target, and an edge to the transparent terminal has value 0. -/
def RedEdge (S : Shape) (k : Nat) (fi : Option Nat) (e : Int × EDD) : Bool :=
  Red S k fi e.2 && (!isInf e.2 || e.1 == 0)

end EDD
end Meddly
