/-
  `mkNodeEV`: the model of `forest::createReducedNode` for EV+ forests
  (`normalize_evplus`, then transparent / identity / redundant elimination, else
  store), with
    * `mkNodeEV_eval`: the returned edge denotes the same function as the
      un-normalised node;
    * `mkNodeEV_red` : if the children are reduced edges, the result is a
      reduced edge.
-/
import MeddlyModel.Core.EVCanon

namespace Meddly

set_option linter.unusedSectionVars false

namespace EDD

/-! ## The model -/

/-- `normalize_evplus`, first scan: the minimum of the edge values of the entries whose
    child is not the transparent terminal (`none` when there is no such entry, `nnz = 0`) -/
def evMin : List (Int × EDD) → Option Int
  | [] => none
  | e :: cs =>
    if isInf e.2 then evMin cs
    else match evMin cs with
      | none => some e.1
      | some m => some (min e.1 m)

/-- `normalize_evplus` on one entry: ∞-entries get value 0, the others are shifted by `m` -/
def normE (m : Int) (e : Int × EDD) : Int × EDD :=
  if isInf e.2 then dflt else (e.1 - m, e.2)

/-- `normalize_evplus`, second scan -/
def evNorm (m : Int) (cs : List (Int × EDD)) : List (Int × EDD) := cs.map (normE m)

/-- `forest::createReducedNode` for EV+ on trees.  Returns the edge (value, target). -/
def mkNodeEV (S : Shape) (k : Nat) (fi : Option Nat) (cs : List (Int × EDD)) : Int × EDD :=
  let m := (evMin cs).getD 0
  let cs' := evNorm m cs
  if cs.all (fun e => isInf e.2) then (0, .inf)
  else match S.mode k with
    | .red => if cs'.all (fun e => e == cs'.headD dflt) then (m, (cs'.headD dflt).2)
              else (m, .node k cs')
    | .none => (m, .node k cs')
    | .ident =>
      match fi with
      | some i => if evSingleton isInf dflt i cs' then (m, (cs'.getD i dflt).2)
                  else (m, .node k cs')
      | none => (m, .node k cs')

/-! ## Well-shaped targets -/

def pos : EDD → Nat
  | .node p _ => p
  | _ => 0

/-- the root of `d` is stored at position `≤ k` (terminals: position 0) -/
def Below (k : Nat) (d : EDD) : Prop := d.pos ≤ k

theorem Below_inf (k : Nat) : Below k .inf := Nat.zero_le k

theorem Below.mono {k k' : Nat} {d : EDD} (h : Below k d) (hk : k ≤ k') : Below k' d :=
  Nat.le_trans h hk

theorem Below.not_nodeAt {k : Nat} {d : EDD} (h : Below k d) : d.isNodeAt (k+1) = false := by
  cases d with
  | inf => rfl
  | omega => rfl
  | node p cs =>
    have hp : p ≤ k := h
    have : p ≠ k+1 := by omega
    simp [isNodeAt, this]

theorem Red_Below (S : Shape) :
    ∀ (k : Nat) (fi : Option Nat) (d : EDD), Red S k fi d = true → Below k d := by
  intro k
  induction k with
  | zero =>
    intro fi d h
    rcases (Red_zero_iff S fi d).mp h with rfl | rfl <;> exact Nat.le_refl 0
  | succ k ih =>
    intro fi d h
    rcases storedAt_cases (k+1) d with ⟨cs, rfl⟩ | hd
    · exact Nat.le_refl _
    · exact (ih none d (Red_succ_skip S k fi hd h).2).mono (Nat.le_succ k)

/-! ## `Red` helpers (as for `DD`) -/

theorem isSingleton_of_not_nodeAt (p i : Nat) {d : EDD} (hd : d.isNodeAt p = false) :
    isSingleton p i d = false := by
  cases d with
  | inf => rfl
  | omega => rfl
  | node q cs =>
    have hq : (q == p) = false := hd
    simp only [isSingleton, hq, Bool.false_and]

theorem isAnySingleton_of_not_nodeAt (p : Nat) {d : EDD} (hd : d.isNodeAt p = false) :
    isAnySingleton p d = false := by
  cases d with
  | inf => rfl
  | omega => rfl
  | node q cs =>
    have hq : (q == p) = false := hd
    simp only [isAnySingleton, hq, Bool.false_and]

/-- a target that skips a `red` or `ident` position may hang below any edge -/
theorem edgeOK_skip (S : Shape) (k : Nat) (fi : Option Nat) {d : EDD}
    (hd : d.isNodeAt k = false) (hm : S.mode k ≠ .none) : edgeOK S k fi d = true := by
  unfold edgeOK
  split
  · rfl
  · rename_i h; exact absurd h hm
  · cases fi with
    | none =>
      show (!isAnySingleton k d) = true
      rw [isAnySingleton_of_not_nodeAt k hd]; rfl
    | some i =>
      show (!isSingleton k i d) = true
      rw [isSingleton_of_not_nodeAt k i hd]; rfl

theorem Red_skip_intro (S : Shape) (k : Nat) (fi : Option Nat) {d : EDD}
    (hb : Below k d) (he : edgeOK S (k+1) fi d = true) (hr : Red S k none d = true) :
    Red S (k+1) fi d = true := by
  cases d with
  | inf => rw [Red, Bool.and_eq_true]; exact ⟨he, hr⟩
  | omega => rw [Red, Bool.and_eq_true]; exact ⟨he, hr⟩
  | node p cs =>
    have hp : p ≤ k := hb
    have h1 : p ≠ k+1 := by omega
    have h2 : p < k+1 := by omega
    rw [Red, Bool.and_eq_true]
    refine ⟨he, ?_⟩
    simp only [if_neg h1, if_pos h2]
    exact hr

/-- the arriving index only matters at `ident` positions -/
theorem Red_fi_irrel (S : Shape) (k : Nat) (fi fj : Option Nat) (d : EDD)
    (hm : S.mode k ≠ .ident) : Red S k fi d = Red S k fj d := by
  cases k with
  | zero => cases d <;> rfl
  | succ k =>
    cases d <;> simp only [Red, edgeOK_not_ident S (k+1) fi fj hm]

/-- A target that is reduced below *every* index of position `k+1` is reduced below a
    skipped position `k+1` (it is no singleton at all). -/
theorem Red_all_some_none (S : Shape) (hS : S.WF) (k : Nat) (d : EDD)
    (hpos : 0 < S.size (k+1))
    (h : ∀ i, i < S.size (k+1) → Red S k (some i) d = true) :
    Red S k none d = true := by
  have h0 := h 0 hpos
  by_cases hm : S.mode k = .ident
  · obtain ⟨hk1, _, _, hsz⟩ := hS.ident_below_red k hm
    obtain ⟨k', rfl⟩ : ∃ k', k = k'+1 := ⟨k-1, by omega⟩
    rcases storedAt_cases (k'+1) d with ⟨cs, rfl⟩ | hd
    · obtain ⟨_, hloc, hch⟩ := (Red_succ_node S k' (some 0) cs).mp h0
      have hlen := ((evLocalOK_iff _ _ _ _ _).mp hloc).1
      refine (Red_succ_node S k' none cs).mpr ⟨?_, hloc, hch⟩
      unfold edgeOK
      rw [hm]
      show (!isAnySingleton (k'+1) (.node (k'+1) cs)) = true
      rw [Bool.not_eq_true', ← Bool.not_eq_true]
      simp only [isAnySingleton, evAnySingleton, beq_self_eq_true, Bool.true_and,
        List.any_eq_true, List.mem_range]
      rintro ⟨i, hi, hs⟩
      have hi' : i < S.size (k'+1+1) := by rw [hsz, ← hlen]; exact hi
      have hE := ((Red_succ_node S k' (some i) cs).mp (h i hi')).1
      have := edgeOK_ident_some S (k'+1) i hm hE
      simp only [isSingleton, beq_self_eq_true, Bool.true_and] at this
      rw [this] at hs
      cases hs
    · obtain ⟨_, hr⟩ := Red_succ_skip S k' (some 0) hd h0
      have hb : Below k' d := Red_Below S k' none d hr
      exact Red_skip_intro S k' none hb
        (edgeOK_skip S (k'+1) none hd (by rw [hm]; intro h; cases h)) hr
  · rw [Red_fi_irrel S k none (some 0) d hm]; exact h0

/-! ## `normalize_evplus` -/

theorem evMin_none_iff (cs : List (Int × EDD)) :
    evMin cs = none ↔ ∀ e, e ∈ cs → isInf e.2 = true := by
  induction cs with
  | nil => simp [evMin]
  | cons e cs ih =>
    simp only [evMin, List.mem_cons, forall_eq_or_imp]
    cases hi : isInf e.2 with
    | true => simp only [if_true, ih, true_and]
    | false =>
      simp only [Bool.false_eq_true, if_false, false_and, iff_false]
      cases evMin cs <;> simp

/-- the minimum is attained by a non-∞ entry and is a lower bound of all of them -/
theorem evMin_some (cs : List (Int × EDD)) (m : Int) (h : evMin cs = some m) :
    (∃ e, e ∈ cs ∧ isInf e.2 = false ∧ e.1 = m) ∧
    (∀ e, e ∈ cs → isInf e.2 = false → m ≤ e.1) := by
  induction cs generalizing m with
  | nil => simp [evMin] at h
  | cons e cs ih =>
    simp only [evMin] at h
    cases hi : isInf e.2 with
    | true =>
      rw [hi] at h
      simp only [if_true] at h
      obtain ⟨⟨e', he', h1, h2⟩, hlb⟩ := ih m h
      refine ⟨⟨e', List.mem_cons_of_mem _ he', h1, h2⟩, ?_⟩
      intro x hx hxi
      rcases List.mem_cons.mp hx with rfl | hx'
      · rw [hi] at hxi; cases hxi
      · exact hlb x hx' hxi
    | false =>
      rw [hi] at h
      simp only [Bool.false_eq_true, if_false] at h
      cases hm : evMin cs with
      | none =>
        rw [hm] at h
        simp only [Option.some.injEq] at h
        have hall := (evMin_none_iff cs).mp hm
        refine ⟨⟨e, List.mem_cons_self .., hi, h⟩, ?_⟩
        intro x hx hxi
        rcases List.mem_cons.mp hx with rfl | hx'
        · omega
        · rw [hall x hx'] at hxi; cases hxi
      | some m' =>
        rw [hm] at h
        simp only [Option.some.injEq] at h
        obtain ⟨⟨e', he', h1, h2⟩, hlb⟩ := ih m' hm
        constructor
        · by_cases hle : e.1 ≤ m'
          · exact ⟨e, List.mem_cons_self .., hi, by omega⟩
          · exact ⟨e', List.mem_cons_of_mem _ he', h1, by omega⟩
        · intro x hx hxi
          rcases List.mem_cons.mp hx with rfl | hx'
          · omega
          · have := hlb x hx' hxi; omega

theorem normE_snd (m : Int) (e : Int × EDD) : (normE m e).2 = e.2 := by
  unfold normE
  cases hi : isInf e.2 with
  | true => simp only [if_true]; exact ((isInf_iff _).mp hi).symm
  | false => simp

theorem normE_dflt (m : Int) : normE m dflt = dflt := by
  simp [normE, isInf]

theorem length_evNorm (m : Int) (cs : List (Int × EDD)) : (evNorm m cs).length = cs.length := by
  simp [evNorm]

theorem getD_evNorm (m : Int) (cs : List (Int × EDD)) (j : Nat) :
    (evNorm m cs).getD j dflt = normE m (cs.getD j dflt) := by
  simp only [evNorm, List.getD_eq_getElem?_getD, List.getElem?_map]
  cases cs[j]? with
  | none => simp [normE_dflt]
  | some e => simp

theorem getD_evNorm_snd (m : Int) (cs : List (Int × EDD)) (j : Nat) :
    ((evNorm m cs).getD j dflt).2 = (cs.getD j dflt).2 := by
  rw [getD_evNorm, normE_snd]

/-- the normalised entry, with the subtracted value added again, denotes the same -/
theorem evalEdge_normE (S : Shape) (k : Nat) (m : Int) (e : Int × EDD) (a : Assign) :
    (evalEdge S k (normE m e) a).map (· + m) = evalEdge S k e a := by
  unfold normE
  cases hi : isInf e.2 with
  | true =>
    have : e.2 = .inf := (isInf_iff _).mp hi
    simp only [if_true, evalEdge_dflt, Option.map_none]
    unfold evalEdge
    rw [this, eval_inf]; rfl
  | false =>
    simp only [Bool.false_eq_true, if_false, evalEdge]
    cases eval S k e.2 a with
    | none => rfl
    | some n => simp only [Option.map_some, Option.some.injEq]; omega

theorem not_all_inf {cs : List (Int × EDD)} (h : cs.all (fun e => isInf e.2) = false) :
    ∃ m, evMin cs = some m := by
  cases hm : evMin cs with
  | some m => exact ⟨m, rfl⟩
  | none =>
    have hall := (evMin_none_iff cs).mp hm
    have : cs.all (fun e => isInf e.2) = true := List.all_eq_true.mpr hall
    rw [this] at h; cases h

/-- the node-local facts of a normalised vector -/
theorem evNorm_local (cs : List (Int × EDD)) (m : Int) (hm : evMin cs = some m) :
    (∀ e, e ∈ evNorm m cs → (isInf e.2 = true → e.1 = 0) ∧ (isInf e.2 = false → 0 ≤ e.1)) ∧
    (∃ e, e ∈ evNorm m cs ∧ isInf e.2 = false ∧ e.1 = 0) := by
  obtain ⟨⟨e0, he0, hi0, hv0⟩, hlb⟩ := evMin_some cs m hm
  constructor
  · intro e' he'
    obtain ⟨e, he, rfl⟩ := List.mem_map.mp he'
    unfold normE
    cases hi : isInf e.2 with
    | true => simp [isInf]
    | false =>
      simp only [Bool.false_eq_true, if_false, hi, false_implies, true_implies, true_and]
      have := hlb e he hi; omega
  · refine ⟨normE m e0, List.mem_map.mpr ⟨e0, he0, rfl⟩, ?_, ?_⟩
    · rw [normE_snd]; exact hi0
    · unfold normE; rw [hi0]; simp only [Bool.false_eq_true, if_false]; omega

/-! ## The four outcomes of `mkNodeEV` -/

theorem mkNodeEV_cases (S : Shape) (k : Nat) (fi : Option Nat) (cs : List (Int × EDD)) :
    (cs.all (fun e => isInf e.2) = true ∧ mkNodeEV S k fi cs = (0, .inf)) ∨
    (∃ m, evMin cs = some m ∧
      ((S.mode k = .red ∧
          (evNorm m cs).all (fun e => e == (evNorm m cs).headD dflt) = true ∧
          mkNodeEV S k fi cs = (m, ((evNorm m cs).headD dflt).2)) ∨
       (S.mode k = .ident ∧ ∃ i, fi = some i ∧ evSingleton isInf dflt i (evNorm m cs) = true ∧
          mkNodeEV S k fi cs = (m, ((evNorm m cs).getD i dflt).2)) ∨
       (mkNodeEV S k fi cs = (m, .node k (evNorm m cs)) ∧
          (S.mode k = .red →
            (evNorm m cs).all (fun e => e == (evNorm m cs).headD dflt) = false) ∧
          (S.mode k = .ident → ∀ i, fi = some i →
            evSingleton isInf dflt i (evNorm m cs) = false)))) := by
  by_cases hz : cs.all (fun e => isInf e.2) = true
  · left; exact ⟨hz, by unfold mkNodeEV; simp only [hz, if_true]⟩
  · right
    have hz' : cs.all (fun e => isInf e.2) = false := by simpa using hz
    obtain ⟨m, hm⟩ := not_all_inf hz'
    refine ⟨m, hm, ?_⟩
    unfold mkNodeEV
    simp only [hm, Option.getD_some, hz', Bool.false_eq_true, if_false]
    cases hmode : S.mode k with
    | red =>
      by_cases hh : (evNorm m cs).all (fun e => e == (evNorm m cs).headD dflt) = true
      · left; exact ⟨rfl, hh, by simp only [if_pos hh]⟩
      · right; right
        exact ⟨by simp only [if_neg hh], (fun _ => by simpa using hh), (fun h => by cases h)⟩
    | none =>
      right; right
      exact ⟨rfl, (fun h => by cases h), (fun h => by cases h)⟩
    | ident =>
      cases fi with
      | none =>
        right; right
        exact ⟨rfl, (fun h => by cases h), (fun _ i h => by cases h)⟩
      | some i =>
        by_cases hs : evSingleton isInf dflt i (evNorm m cs) = true
        · right; left
          exact ⟨rfl, i, rfl, hs, by simp only [if_pos hs]⟩
        · right; right
          refine ⟨by simp only [if_neg hs], (fun h => by cases h), ?_⟩
          intro _ j hj
          cases hj
          simpa using hs

/-! ## `mkNodeEV` preserves the denotation -/

theorem all_head_getD' (d0 : Int × EDD) (cs : List (Int × EDD))
    (h : cs.all (fun c => c == cs.headD d0) = true) (i : Nat) (hi : i < cs.length) :
    cs.getD i d0 = cs.headD d0 :=
  beq_iff_eq.mp (List.all_eq_true.mp h _ (getD_mem cs i d0 hi))

theorem headD_eq_getD' {β : Type} (l : List β) (d : β) : l.headD d = l.getD 0 d := by
  cases l <;> rfl

/-- the stored (normalised) node with the returned value denotes the un-normalised node -/
theorem evalEdge_evNorm_node (S : Shape) (k : Nat) (m : Int) (cs : List (Int × EDD))
    (x : Assign) :
    evalEdge S (k+1) (m, .node (k+1) (evNorm m cs)) x = eval S (k+1) (.node (k+1) cs) x := by
  show (eval S (k+1) (.node (k+1) (evNorm m cs)) x).map (· + m) = _
  rw [eval_succ_node, eval_succ_node, getD_evNorm, evalEdge_normE]

/-- `mkNodeEV` returns an edge that denotes the same function as the un-normalised node
    `node (k+1) cs` (entry `x (k+1)` of `cs`, read from `k`). -/
theorem mkNodeEV_eval (S : Shape) (k : Nat) (fi : Option Nat) (cs : List (Int × EDD))
    (x : Assign) (hlen : cs.length = S.size (k+1)) (hx : x (k+1) < S.size (k+1))
    (hb : ∀ e, e ∈ cs → Below k e.2)
    (hfi : S.mode (k+1) = .ident → fi = some (x (k+2))) :
    evalEdge S (k+1) (mkNodeEV S (k+1) fi cs) x = eval S (k+1) (.node (k+1) cs) x := by
  have hj : x (k+1) < cs.length := by rw [hlen]; exact hx
  rcases mkNodeEV_cases S (k+1) fi cs with ⟨hz, hr⟩ | ⟨m, hm, hcase⟩
  · rw [hr, evalEdge_inf, eval_succ_node]
    have hi := List.all_eq_true.mp hz _ (getD_mem cs (x (k+1)) dflt hj)
    unfold evalEdge
    rw [(isInf_iff _).mp hi, eval_inf]; rfl
  · obtain ⟨hloc, e0, he0, hi0, hv0⟩ := evNorm_local cs m hm
    have hlen' := length_evNorm m cs
    have hbn : ∀ j, Below k ((evNorm m cs).getD j dflt).2 := by
      intro j
      rw [getD_evNorm_snd]
      by_cases hjl : j < cs.length
      · exact hb _ (getD_mem cs j dflt hjl)
      · rw [List.getD_eq_getElem?_getD, List.getElem?_eq_none (by omega)]; exact Below_inf k
    rw [← evalEdge_evNorm_node S k m cs x]
    rcases hcase with ⟨hmode, hh, hr⟩ | ⟨hmode, i, hi, hs, hr⟩ | ⟨hr, _, _⟩
    · -- redundant
      rw [hr]
      show (eval S (k+1) ((evNorm m cs).headD dflt).2 x).map (· + m) =
        (eval S (k+1) (.node (k+1) (evNorm m cs)) x).map (· + m)
      rw [eval_succ_node, all_head_getD' dflt _ hh _ (by rw [hlen']; exact hj)]
      have hhead : (evNorm m cs).headD dflt = e0 :=
        (beq_iff_eq.mp (List.all_eq_true.mp hh e0 he0)).symm
      have hbh : Below k ((evNorm m cs).headD dflt).2 := by
        rw [headD_eq_getD']; exact hbn 0
      rw [eval_succ_skip S k x hbh.not_nodeAt]
      have : ¬ (S.mode (k+1) = .ident ∧ x (k+1) ≠ x (k+2)) := by
        intro h; rw [hmode] at h; cases h.1
      rw [if_neg this]
      unfold evalEdge
      rw [hhead, hv0]
      cases eval S k e0.2 x <;> simp
    · -- identity pattern
      have hi' : i = x (k+2) := by
        have := hfi hmode; rw [hi] at this; cases this; rfl
      subst hi'
      obtain ⟨hil, hoth, hne⟩ := (evSingleton_iff _ _ _ _).mp hs
      -- the only non-∞ entry carries the value 0
      have hval : ((evNorm m cs).getD (x (k+2)) dflt).1 = 0 := by
        obtain ⟨j, hjl, rfl⟩ := List.getElem_of_mem he0
        have hget : (evNorm m cs).getD j dflt = (evNorm m cs)[j] := by
          rw [List.getD_eq_getElem?_getD, List.getElem?_eq_getElem hjl]; rfl
        rcases hoth j hjl with rfl | h
        · rw [hget]; exact hv0
        · rw [hget, hi0] at h; cases h
      rw [hr]
      show (eval S (k+1) ((evNorm m cs).getD (x (k+2)) dflt).2 x).map (· + m) =
        (eval S (k+1) (.node (k+1) (evNorm m cs)) x).map (· + m)
      rw [eval_succ_node, eval_succ_skip S k x (hbn _).not_nodeAt]
      by_cases he : x (k+1) = x (k+2)
      · have : ¬ (S.mode (k+1) = .ident ∧ x (k+1) ≠ x (k+2)) := fun h => h.2 he
        rw [if_neg this, he]
        unfold evalEdge
        rw [hval]
        cases eval S k ((evNorm m cs).getD (x (k+2)) dflt).2 x <;> simp
      · rw [if_pos ⟨hmode, he⟩]
        rcases hoth (x (k+1)) (by rw [hlen']; exact hj) with h | h
        · exact absurd h he
        · unfold evalEdge
          rw [(isInf_iff _).mp h, eval_inf]; rfl
    · rw [hr]

/-- the same, with the un-normalised node spelled out as its entry -/
theorem mkNodeEV_eval_child (S : Shape) (k : Nat) (fi : Option Nat) (cs : List (Int × EDD))
    (x : Assign) (hk : k+1 ≤ S.top) (hlen : cs.length = S.size (k+1)) (hx : Assign.Valid S x)
    (hb : ∀ e, e ∈ cs → Below k e.2)
    (hfi : S.mode (k+1) = .ident → fi = some (x (k+2))) :
    evalEdge S (k+1) (mkNodeEV S (k+1) fi cs) x = evalEdge S k (cs.getD (x (k+1)) dflt) x := by
  rw [mkNodeEV_eval S k fi cs x hlen (hx (k+1) (by omega) hk) hb hfi, eval_succ_node]

/-! ## `mkNodeEV` of reduced children is reduced -/

theorem mkNodeEV_red (S : Shape) (hS : S.WF) (k : Nat) (fi : Option Nat)
    (cs : List (Int × EDD)) (hlen : cs.length = S.size (k+1))
    (hch : ∀ i, i < cs.length → RedEdge S k (some i) (cs.getD i dflt) = true)
    (hfi : fi = none → S.mode (k+1) ≠ .ident) :
    RedEdge S (k+1) fi (mkNodeEV S (k+1) fi cs) = true := by
  rcases mkNodeEV_cases S (k+1) fi cs with ⟨_, hr⟩ | ⟨m, hm, hcase⟩
  · rw [hr]
    exact (RedEdge_iff _ _ _ _).mpr ⟨Red_inf S (k+1) fi, fun _ => rfl⟩
  · obtain ⟨hloc, e0, he0, hi0, hv0⟩ := evNorm_local cs m hm
    have hlen' := length_evNorm m cs
    have hchn : ∀ i, i < (evNorm m cs).length →
        Red S k (some i) ((evNorm m cs).getD i dflt).2 = true := by
      intro i hi
      rw [getD_evNorm_snd]
      exact ((RedEdge_iff _ _ _ _).mp (hch i (by rw [← hlen']; exact hi))).1
    rcases hcase with ⟨hmode, hh, hr⟩ | ⟨hmode, i, hi, hs, hr⟩ | ⟨hr, hred, hid⟩
    · -- redundant node: replaced by its (common) child
      rw [hr]
      have hhead : (evNorm m cs).headD dflt = e0 :=
        (beq_iff_eq.mp (List.all_eq_true.mp hh e0 he0)).symm
      have hpos : 0 < (evNorm m cs).length := List.length_pos_of_mem he0
      have hall : ∀ i, i < S.size (k+1) →
          Red S k (some i) ((evNorm m cs).headD dflt).2 = true := by
        intro i hi
        have hi' : i < (evNorm m cs).length := by rw [hlen', hlen]; exact hi
        rw [← all_head_getD' dflt _ hh i hi']; exact hchn i hi'
      have hnone := Red_all_some_none S hS k _ (by rw [← hlen, ← hlen']; exact hpos) hall
      have hb := Red_Below S k none _ hnone
      refine (RedEdge_iff _ _ _ _).mpr ⟨?_, ?_⟩
      · exact Red_skip_intro S k fi hb
          (edgeOK_skip S (k+1) fi hb.not_nodeAt (by rw [hmode]; intro h; cases h)) hnone
      · intro hinf
        rw [hhead] at hinf
        exact absurd hinf ((isInf_false_iff _).mp hi0)
    · -- identity pattern: replaced by the only non-∞ child
      rw [hr]
      obtain ⟨hil, _, hne⟩ := (evSingleton_iff _ _ _ _).mp hs
      have hmk : S.mode k ≠ .ident := by
        intro hk
        have := (hS.ident_below_red k hk).2.2.1
        rw [hmode] at this; cases this
      have hnone : Red S k none ((evNorm m cs).getD i dflt).2 = true := by
        rw [Red_fi_irrel S k none (some i) _ hmk]; exact hchn i hil
      have hb := Red_Below S k none _ hnone
      refine (RedEdge_iff _ _ _ _).mpr ⟨?_, ?_⟩
      · exact Red_skip_intro S k fi hb
          (edgeOK_skip S (k+1) fi hb.not_nodeAt (by rw [hmode]; intro h; cases h)) hnone
      · intro hinf
        exact absurd hinf ((isInf_false_iff _).mp hne)
    · -- stored
      rw [hr]
      refine (RedEdge_iff _ _ _ _).mpr ⟨?_, fun h => by cases h⟩
      refine (Red_succ_node S k fi _).mpr ⟨?_, ?_, hchn⟩
      · unfold edgeOK
        cases hmode : S.mode (k+1) with
        | red => rfl
        | none => simp [isNodeAt]
        | ident =>
          cases fi with
          | none => exact absurd hmode (hfi rfl)
          | some i =>
            show (!isSingleton (k+1) i (.node (k+1) (evNorm m cs))) = true
            simp only [isSingleton, beq_self_eq_true, Bool.true_and, hid hmode i rfl]
            rfl
      · refine (evLocalOK_iff _ _ _ _ _).mpr ⟨by rw [hlen', hlen], hloc, ⟨e0, he0, hi0, hv0⟩, ?_⟩
        intro hm' hall
        have hmode : S.mode (k+1) = .red := by
          cases h : S.mode (k+1) <;> rw [h] at hm' <;> first | rfl | cases hm'
        have := hred hmode
        rw [← Bool.not_eq_true, List.all_eq_true] at this
        exact this (fun c hc => beq_iff_eq.mpr (hall c hc))

end EDD
end Meddly
