/-
  Core model of MEDDLY decision diagrams.

  A forest node is modelled as a *tree* (`DD α`); sharing is an implementation
  matter dealt with in `Core/Dump.lean` (a dump of the real node store is
  unfolded to trees and shown to be injective).

  Positions.  A set forest over K variables has positions K, …, 1 (position =
  level).  A relation forest over K variables has positions 2K, 2K-1, …, 1:
  position 2k is MEDDLY's unprimed level k, position 2k-1 its primed level -k
  (`MXD_levels::downLevel`: k, -k, k-1, -(k-1), …).  Position 0 = terminals.

  Modes.  What a *skipped* position means and which nodes may be stored there
  is given per position (`Mode`):
    * `red`   skipped = the function ignores the variable; redundant nodes are
              never stored           (fully reduced; unprimed levels of identity-reduced)
    * `ident` skipped = the value must equal the value at the position above
              (x'_k = x_k); singleton nodes that spell an identity are never
              stored                 (primed levels of identity-reduced)
    * `none`  nothing is skipped, except by the transparent terminal
                                     (quasi reduced)
-/
namespace Meddly

inductive DD (α : Type) where
  | leaf : α → DD α
  | node : Nat → List (DD α) → DD α
  deriving Repr, Inhabited

namespace DD
variable {α : Type}

section deceq
variable [DecidableEq α]
mutual
def decEqDD : (a b : DD α) → Decidable (a = b)
  | .leaf x, .leaf y => if h : x = y then isTrue (by rw [h]) else isFalse (by intro e; cases e; exact h rfl)
  | .leaf _, .node _ _ => isFalse (by intro e; cases e)
  | .node _ _, .leaf _ => isFalse (by intro e; cases e)
  | .node p cs, .node q ds =>
    if hp : p = q then
      match decEqList cs ds with
      | isTrue h => isTrue (by rw [hp, h])
      | isFalse h => isFalse (by intro e; cases e; exact h rfl)
    else isFalse (by intro e; cases e; exact hp rfl)
def decEqList : (a b : List (DD α)) → Decidable (a = b)
  | [], [] => isTrue rfl
  | [], _ :: _ => isFalse (by intro e; cases e)
  | _ :: _, [] => isFalse (by intro e; cases e)
  | c :: cs, d :: ds =>
    match decEqDD c d, decEqList cs ds with
    | isTrue h1, isTrue h2 => isTrue (by rw [h1, h2])
    | isFalse h1, _ => isFalse (by intro e; cases e; exact h1 rfl)
    | _, isFalse h2 => isFalse (by intro e; cases e; exact h2 rfl)
end
instance : DecidableEq (DD α) := decEqDD
end deceq

/-- position of the root: 0 for terminals -/
def pos : DD α → Nat
  | .leaf _ => 0
  | .node p _ => p

def isNodeAt (p : Nat) : DD α → Bool
  | .leaf _ => false
  | .node q _ => q == p

def children : DD α → List (DD α)
  | .leaf _ => []
  | .node _ cs => cs

end DD

inductive Mode where
  | red | ident | none
  deriving DecidableEq, Repr, Inhabited

/-- The shape of a forest: number of positions, size of the variable at each
    position, skipping mode of each position. -/
structure Shape where
  top  : Nat
  size : Nat → Nat
  mode : Nat → Mode

/-- An assignment gives a value to every position. -/
abbrev Assign := Nat → Nat

namespace DD
variable {α : Type} [DecidableEq α]

/-- Denotation of `d`, read from position `k` downwards.  `zero` is the
    transparent value (false / 0). -/
def eval (S : Shape) (zero : α) : Nat → DD α → Assign → α
  | 0, .leaf v, _ => v
  | 0, .node _ _, _ => zero
  | k+1, d, a =>
    match d with
    | .node p cs =>
      if p = k+1 then eval S zero k (cs.getD (a (k+1)) (.leaf zero)) a
      else if S.mode (k+1) = .ident ∧ a (k+1) ≠ a (k+2) then zero
      else eval S zero k d a
    | .leaf _ =>
      if S.mode (k+1) = .ident ∧ a (k+1) ≠ a (k+2) then zero
      else eval S zero k d a

/-- `d` is the `i`-singleton at position `p`: a node at `p` whose only
    non-transparent child is child `i`. -/
def isSingleton (zero : α) (p i : Nat) : DD α → Bool
  | .leaf _ => false
  | .node q cs => q == p && decide (i < cs.length) &&
      (List.range cs.length).all (fun j => j == i || cs.getD j (.leaf zero) == .leaf zero) &&
      cs.getD i (.leaf zero) != .leaf zero

def isAnySingleton (zero : α) (p : Nat) (d : DD α) : Bool :=
  match d with
  | .leaf _ => false
  | .node _ cs => (List.range cs.length).any (fun i => isSingleton zero p i d)

/-- What may hang below an edge that enters position `k` (coming from the
    node directly above, from a skipped position, or from a root edge).
    `fromIdx` is `some i` when the edge is child `i` of a node stored at
    position `k+1`, `none` when position `k+1` was skipped (or `k` is the top). -/
def edgeOK (S : Shape) (zero : α) (k : Nat) (fromIdx : Option Nat) (d : DD α) : Bool :=
  match S.mode k with
  | .red => true
  | .none => d.isNodeAt k || d == .leaf zero || k == 0
  | .ident =>
    match fromIdx with
    | some i => !(isSingleton zero k i d)
    | none => !(isAnySingleton zero k d)

/-- Reduced (canonical) form, read from position `k` downwards, for an edge
    that arrives from index `fromIdx` (see `edgeOK`). -/
def Red (S : Shape) (zero : α) : Nat → Option Nat → DD α → Bool
  | 0, _, .leaf _ => true
  | 0, _, .node _ _ => false
  | k+1, fi, d =>
    edgeOK S zero (k+1) fi d &&
    match d with
    | .leaf _ => Red S zero k none d
    | .node p cs =>
      if p = k+1 then
        cs.length == S.size (k+1) &&
        cs.any (fun c => c != .leaf zero) &&
        (S.mode (k+1) != .red || !(cs.all (fun c => c == cs.headD (.leaf zero)))) &&
        (List.range cs.length).all (fun i => Red S zero k (some i) (cs.getD i (.leaf zero)))
      else if p < k+1 then Red S zero k none d
      else false

end DD
end Meddly
