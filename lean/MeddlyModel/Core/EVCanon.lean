/-
  Canonicity of the EV+ normal form (`EDD.RedEdge`): two reduced edges that
  denote the same function (`EDD.evalEdge`) over all valid assignments are equal.

  Key facts: a reduced non-∞ target attains the value 0 on some valid
  assignment (`eval_attain`) and never goes below 0 (`eval_nonneg`); hence the
  value of a reduced edge is the minimum of its denotation.
-/
import MeddlyModel.Core.EV

namespace Meddly

set_option linter.unusedSectionVars false

/-! ### Generic lemmas on the node-local tests -/

section generic
variable {β : Type} [DecidableEq β]

theorem evLocalOK_iff (isInf : β → Bool) (d0 : Int × β) (sz : Nat) (red : Bool)
    (cs : List (Int × β)) :
    evLocalOK isInf d0 sz red cs = true ↔
      cs.length = sz ∧
      (∀ e, e ∈ cs → (isInf e.2 = true → e.1 = 0) ∧ (isInf e.2 = false → 0 ≤ e.1)) ∧
      (∃ e, e ∈ cs ∧ isInf e.2 = false ∧ e.1 = 0) ∧
      (red = true → ¬ ∀ e, e ∈ cs → e = cs.headD d0) := by
  unfold evLocalOK
  simp only [Bool.and_eq_true, beq_iff_eq, List.all_eq_true, List.any_eq_true,
    Bool.or_eq_true, Bool.not_eq_true']
  constructor
  · rintro ⟨⟨⟨h1, h2⟩, h3⟩, h4⟩
    refine ⟨h1, ?_, ?_, ?_⟩
    · intro e he
      have := h2 e he
      constructor
      · intro hi; rw [hi] at this; simpa using this
      · intro hi; rw [hi] at this; simpa using this
    · obtain ⟨e, he, h⟩ := h3
      exact ⟨e, he, h.1, h.2⟩
    · intro hr hall
      rcases h4 with h4 | h4
      · rw [hr] at h4; cases h4
      · rw [← Bool.not_eq_true, List.all_eq_true] at h4
        exact h4 (fun e he => beq_iff_eq.mpr (hall e he))
  · rintro ⟨h1, h2, h3, h4⟩
    refine ⟨⟨⟨h1, ?_⟩, ?_⟩, ?_⟩
    · intro e he
      cases hi : isInf e.2 with
      | true => simpa using (h2 e he).1 hi
      | false => simpa using (h2 e he).2 hi
    · obtain ⟨e, he, h, h'⟩ := h3
      exact ⟨e, he, h, h'⟩
    · cases red with
      | false => left; rfl
      | true =>
        right
        rw [← Bool.not_eq_true, List.all_eq_true]
        intro hall
        exact h4 rfl (fun e he => beq_iff_eq.mp (hall e he))

theorem evSingleton_iff (isInf : β → Bool) (d0 : Int × β) (i : Nat) (cs : List (Int × β)) :
    evSingleton isInf d0 i cs = true ↔
      i < cs.length ∧
      (∀ j, j < cs.length → j = i ∨ isInf (cs.getD j d0).2 = true) ∧
      isInf (cs.getD i d0).2 = false := by
  simp only [evSingleton, Bool.and_eq_true, decide_eq_true_eq, List.all_eq_true, List.mem_range,
    Bool.or_eq_true, beq_iff_eq, Bool.not_eq_true', and_assoc]

theorem evAnySingleton_of (isInf : β → Bool) (d0 : Int × β) (i : Nat) (cs : List (Int × β))
    (h : evSingleton isInf d0 i cs = true) : evAnySingleton isInf d0 cs = true := by
  have hi := ((evSingleton_iff isInf d0 i cs).mp h).1
  simp only [evAnySingleton, List.any_eq_true, List.mem_range]
  exact ⟨i, hi, h⟩

end generic

theorem getD_mem {β : Type} (l : List β) (i : Nat) (d : β) (hi : i < l.length) :
    l.getD i d ∈ l := by
  rw [List.getD_eq_getElem?_getD, List.getElem?_eq_getElem hi]
  exact List.getElem_mem hi

theorem opt_map_add_inj {x y : Option Int} {v : Int}
    (h : x.map (· + v) = y.map (· + v)) : x = y := by
  cases x <;> cases y <;> simp at h ⊢
  omega

namespace EDD

/-! ### Unfolding lemmas for `eval` -/

theorem eval_succ_node (S : Shape) (k : Nat) (cs : List (Int × EDD)) (a : Assign) :
    eval S (k+1) (.node (k+1) cs) a = evalEdge S k (cs.getD (a (k+1)) dflt) a := by
  rw [eval]; simp only [if_true]; rfl

theorem eval_succ_skip (S : Shape) (k : Nat) {d : EDD} (a : Assign)
    (h : d.isNodeAt (k+1) = false) :
    eval S (k+1) d a
      = if S.mode (k+1) = .ident ∧ a (k+1) ≠ a (k+2) then none else eval S k d a := by
  cases d with
  | inf => rw [eval]
  | omega => rw [eval]
  | node p cs =>
    have hp : p ≠ k+1 := by simpa [isNodeAt] using h
    rw [eval]; simp only [hp, if_false]

theorem storedAt_cases (p : Nat) (d : EDD) :
    (∃ cs, d = .node p cs) ∨ d.isNodeAt p = false := by
  cases d with
  | inf => right; rfl
  | omega => right; rfl
  | node q cs =>
    by_cases h : q = p
    · left; exact ⟨cs, by rw [h]⟩
    · right; simp [isNodeAt, h]

theorem eval_inf (S : Shape) (k : Nat) (a : Assign) : eval S k .inf a = none := by
  induction k with
  | zero => rfl
  | succ k ih =>
    rw [eval_succ_skip S k a rfl]
    split
    · rfl
    · exact ih

theorem evalEdge_inf (S : Shape) (k : Nat) (v : Int) (a : Assign) :
    evalEdge S k (v, .inf) a = none := by
  simp only [evalEdge, eval_inf, Option.map_none]

theorem evalEdge_dflt (S : Shape) (k : Nat) (a : Assign) : evalEdge S k dflt a = none :=
  evalEdge_inf S k 0 a

theorem evalEdge_zero (S : Shape) (k : Nat) (d : EDD) (a : Assign) :
    evalEdge S k (0, d) a = eval S k d a := by
  simp only [evalEdge, Int.add_zero]
  cases eval S k d a <;> rfl

theorem isInf_iff (d : EDD) : isInf d = true ↔ d = .inf := by
  cases d <;> simp [isInf]

theorem isInf_false_iff (d : EDD) : isInf d = false ↔ d ≠ .inf := by
  cases d <;> simp [isInf]

/-- `eval … k d a` only reads `a` at positions `≤ k`, and at position `k+1`
    when position `k` is an `ident` position. -/
theorem eval_congr (S : Shape) :
    ∀ (k : Nat) (d : EDD) (a a' : Assign),
      (∀ p, p ≤ k → a p = a' p) →
      (S.mode k = .ident → a (k+1) = a' (k+1)) →
      eval S k d a = eval S k d a' := by
  intro k
  induction k with
  | zero =>
    intro d a a' _ _
    cases d <;> rfl
  | succ k ih =>
    intro d a a' h1 h2
    have hk1 : a (k+1) = a' (k+1) := h1 (k+1) (Nat.le_refl _)
    have hlow : ∀ p, p ≤ k → a p = a' p := fun p hp => h1 p (Nat.le_succ_of_le hp)
    rcases storedAt_cases (k+1) d with ⟨cs, rfl⟩ | hd
    · rw [eval_succ_node, eval_succ_node, hk1]
      unfold evalEdge
      rw [ih _ a a' hlow (fun _ => hk1)]
    · rw [eval_succ_skip S k a hd, eval_succ_skip S k a' hd]
      by_cases hm : S.mode (k+1) = .ident
      · have hk2 : a (k+2) = a' (k+2) := h2 hm
        rw [hk1, hk2]
        split
        · rfl
        · exact ih d a a' hlow (fun _ => hk1)
      · have e1 : ¬ (S.mode (k+1) = .ident ∧ a (k+1) ≠ a (k+2)) := fun h => hm h.1
        have e2 : ¬ (S.mode (k+1) = .ident ∧ a' (k+1) ≠ a' (k+2)) := fun h => hm h.1
        rw [if_neg e1, if_neg e2]
        exact ih d a a' hlow (fun _ => hk1)

theorem evalEdge_congr (S : Shape) (k : Nat) (e : Int × EDD) (a a' : Assign)
    (h1 : ∀ p, p ≤ k → a p = a' p) (h2 : S.mode k = .ident → a (k+1) = a' (k+1)) :
    evalEdge S k e a = evalEdge S k e a' := by
  unfold evalEdge
  rw [eval_congr S k e.2 a a' h1 h2]

/-! ### Unfolding lemmas for `Red` -/

theorem Red_zero_iff (S : Shape) (fi : Option Nat) (d : EDD) :
    Red S 0 fi d = true ↔ d = .inf ∨ d = .omega := by
  cases d <;> simp [Red]

theorem Red_succ_skip (S : Shape) (k : Nat) (fi : Option Nat) {d : EDD}
    (h : d.isNodeAt (k+1) = false) (hr : Red S (k+1) fi d = true) :
    edgeOK S (k+1) fi d = true ∧ Red S k none d = true := by
  cases d with
  | inf => rw [Red] at hr; simpa using hr
  | omega => rw [Red] at hr; simpa using hr
  | node p cs =>
    have hp : p ≠ k+1 := by simpa [isNodeAt] using h
    rw [Red] at hr
    simp only [hp, if_false, Bool.and_eq_true] at hr
    refine ⟨hr.1, ?_⟩
    have h2 := hr.2
    split at h2
    · exact h2
    · exact absurd h2 (by simp)

theorem Red_succ_node (S : Shape) (k : Nat) (fi : Option Nat) (cs : List (Int × EDD)) :
    Red S (k+1) fi (.node (k+1) cs) = true ↔
      edgeOK S (k+1) fi (.node (k+1) cs) = true ∧
      evLocalOK isInf dflt (S.size (k+1)) (S.mode (k+1) == .red) cs = true ∧
      (∀ i, i < cs.length → Red S k (some i) (cs.getD i dflt).2 = true) := by
  rw [Red]
  simp only [if_true, Bool.and_eq_true, List.all_eq_true, List.mem_range]

/-- the node-local facts of a reduced stored node, in propositional form -/
theorem Red_node_local (S : Shape) (k : Nat) (fi : Option Nat) (cs : List (Int × EDD))
    (h : Red S (k+1) fi (.node (k+1) cs) = true) :
    cs.length = S.size (k+1) ∧
    (∀ e, e ∈ cs → (e.2 = .inf → e.1 = 0) ∧ (e.2 ≠ .inf → 0 ≤ e.1)) ∧
    (∃ e, e ∈ cs ∧ e.2 ≠ .inf ∧ e.1 = 0) ∧
    (S.mode (k+1) = .red → ¬ ∀ e, e ∈ cs → e = cs.headD dflt) := by
  obtain ⟨_, hl, _⟩ := (Red_succ_node S k fi cs).mp h
  obtain ⟨h1, h2, h3, h4⟩ := (evLocalOK_iff _ _ _ _ _).mp hl
  refine ⟨h1, ?_, ?_, ?_⟩
  · intro e he
    exact ⟨fun hi => (h2 e he).1 ((isInf_iff _).mpr hi),
      fun hi => (h2 e he).2 ((isInf_false_iff _).mpr hi)⟩
  · obtain ⟨e, he, hi, hv⟩ := h3
    exact ⟨e, he, (isInf_false_iff _).mp hi, hv⟩
  · intro hm; exact h4 (by rw [hm]; rfl)

/-! ### Singletons and `edgeOK` -/

theorem isSingleton_node_iff (p i : Nat) (cs : List (Int × EDD)) :
    isSingleton p i (.node p cs) = true ↔
      i < cs.length ∧
      (∀ j, j < cs.length → j = i ∨ (cs.getD j dflt).2 = .inf) ∧
      (cs.getD i dflt).2 ≠ .inf := by
  simp only [isSingleton, beq_self_eq_true, Bool.true_and, evSingleton_iff, isInf_iff,
    isInf_false_iff]

theorem isAnySingleton_of_isSingleton (p i : Nat) (d : EDD)
    (h : isSingleton p i d = true) : isAnySingleton p d = true := by
  cases d with
  | inf => simp [isSingleton] at h
  | omega => simp [isSingleton] at h
  | node q cs =>
    simp only [isSingleton, Bool.and_eq_true] at h
    simp only [isAnySingleton, Bool.and_eq_true]
    exact ⟨h.1, evAnySingleton_of _ _ i cs h.2⟩

theorem edgeOK_none_some (S : Shape) (k i : Nat) (d : EDD)
    (h : edgeOK S k none d = true) : edgeOK S k (some i) d = true := by
  unfold edgeOK at h ⊢
  split
  · rfl
  · rename_i hm; rw [hm] at h; exact h
  · rename_i hm; rw [hm] at h
    simp only [Bool.not_eq_eq_eq_not, Bool.not_true] at h ⊢
    cases hs : isSingleton k i d with
    | false => rfl
    | true => rw [isAnySingleton_of_isSingleton k i d hs] at h; exact absurd h (by simp)

theorem edgeOK_inf (S : Shape) (k : Nat) (fi : Option Nat) :
    edgeOK S k fi .inf = true := by
  unfold edgeOK
  split
  · rfl
  · simp
  · cases fi <;> simp [isSingleton, isAnySingleton]

theorem edgeOK_none_skip (S : Shape) (k : Nat) (fi : Option Nat) {d : EDD}
    (hm : S.mode (k+1) = .none) (hd : d.isNodeAt (k+1) = false)
    (h : edgeOK S (k+1) fi d = true) : d = .inf := by
  unfold edgeOK at h
  rw [hm] at h
  simpa [hd] using h

theorem edgeOK_ident_some (S : Shape) (k i : Nat) {d : EDD}
    (hm : S.mode k = .ident) (h : edgeOK S k (some i) d = true) :
    isSingleton k i d = false := by
  unfold edgeOK at h
  rw [hm] at h
  simpa using h

theorem edgeOK_not_ident (S : Shape) (k : Nat) (fi fj : Option Nat) {d : EDD}
    (hm : S.mode k ≠ .ident) : edgeOK S k fi d = edgeOK S k fj d := by
  unfold edgeOK
  split
  · rfl
  · rfl
  · rename_i h; exact absurd h hm

/-! ### `Red` and the arriving index -/

theorem Red_none_some (S : Shape) (k i : Nat) (d : EDD)
    (h : Red S k none d = true) : Red S k (some i) d = true := by
  cases k with
  | zero =>
    rcases (Red_zero_iff S none d).mp h with rfl | rfl <;> rfl
  | succ k =>
    cases d with
    | inf =>
      rw [Red, Bool.and_eq_true] at h ⊢
      exact ⟨edgeOK_none_some S (k+1) i _ h.1, h.2⟩
    | omega =>
      rw [Red, Bool.and_eq_true] at h ⊢
      exact ⟨edgeOK_none_some S (k+1) i _ h.1, h.2⟩
    | node p cs =>
      rw [Red, Bool.and_eq_true] at h ⊢
      exact ⟨edgeOK_none_some S (k+1) i _ h.1, h.2⟩

theorem Red_inf (S : Shape) (k : Nat) (fi : Option Nat) : Red S k fi .inf = true := by
  induction k generalizing fi with
  | zero => rfl
  | succ k ih =>
    rw [Red, Bool.and_eq_true]
    exact ⟨edgeOK_inf S (k+1) fi, ih none⟩

theorem RedEdge_iff (S : Shape) (k : Nat) (fi : Option Nat) (e : Int × EDD) :
    RedEdge S k fi e = true ↔ Red S k fi e.2 = true ∧ (e.2 = .inf → e.1 = 0) := by
  simp only [RedEdge, Bool.and_eq_true, Bool.or_eq_true, Bool.not_eq_true', beq_iff_eq]
  constructor
  · rintro ⟨h1, h2⟩
    refine ⟨h1, fun hi => ?_⟩
    rcases h2 with h2 | h2
    · rw [hi] at h2; cases h2
    · exact h2
  · rintro ⟨h1, h2⟩
    refine ⟨h1, ?_⟩
    cases hi : isInf e.2 with
    | false => left; rfl
    | true => right; exact h2 ((isInf_iff _).mp hi)

/-! ### The value 0 is attained, and nothing is below 0 -/

/-- a reduced target never denotes a negative value -/
theorem eval_nonneg (S : Shape) :
    ∀ (k : Nat) (fi : Option Nat) (d : EDD) (a : Assign) (n : Int),
      Red S k fi d = true → eval S k d a = some n → 0 ≤ n := by
  intro k
  induction k with
  | zero =>
    intro fi d a n hr he
    rcases (Red_zero_iff S fi d).mp hr with rfl | rfl
    · cases he
    · simp only [eval, Option.some.injEq] at he; omega
  | succ k ih =>
    intro fi d a n hr he
    rcases storedAt_cases (k+1) d with ⟨cs, rfl⟩ | hd
    · obtain ⟨_, hloc, _, _⟩ := Red_node_local S k fi cs hr
      obtain ⟨_, _, hch⟩ := (Red_succ_node S k fi cs).mp hr
      rw [eval_succ_node] at he
      by_cases hj : a (k+1) < cs.length
      · have hmem := getD_mem cs (a (k+1)) dflt hj
        unfold evalEdge at he
        cases hev : eval S k (cs.getD (a (k+1)) dflt).2 a with
        | none => rw [hev] at he; cases he
        | some m =>
          rw [hev] at he
          simp only [Option.map_some, Option.some.injEq] at he
          have hm : 0 ≤ m := ih (some (a (k+1))) _ a m (hch _ hj) hev
          have hne : (cs.getD (a (k+1)) dflt).2 ≠ .inf := by
            intro hi; rw [hi, eval_inf] at hev; cases hev
          have := (hloc _ hmem).2 hne
          omega
      · have : cs.getD (a (k+1)) dflt = dflt := by
          rw [List.getD_eq_getElem?_getD, List.getElem?_eq_none (by omega)]; rfl
        rw [this, evalEdge_dflt] at he
        cases he
    · rw [eval_succ_skip S k a hd] at he
      split at he
      · cases he
      · exact ih none d a n (Red_succ_skip S k fi hd hr).2 he

/-- a reduced non-∞ target attains the value 0: any valid assignment can be changed
    at positions `≤ k` so that the target, read from `k`, evaluates to 0 -/
theorem eval_attain (S : Shape) (hS : S.WF) :
    ∀ (k : Nat) (fi : Option Nat) (d : EDD) (a : Assign),
      Red S k fi d = true → d ≠ .inf → Assign.Valid S a →
      ∃ a', Assign.Valid S a' ∧ (∀ q, k < q → a' q = a q) ∧ eval S k d a' = some 0 := by
  intro k
  induction k with
  | zero =>
    intro fi d a hr hne ha
    rcases (Red_zero_iff S fi d).mp hr with rfl | rfl
    · exact absurd rfl hne
    · exact ⟨a, ha, fun _ _ => rfl, rfl⟩
  | succ k ih =>
    intro fi d a hr hne ha
    rcases storedAt_cases (k+1) d with ⟨cs, rfl⟩ | hd
    · obtain ⟨hlen, _, ⟨e, he, hei, hev⟩, _⟩ := Red_node_local S k fi cs hr
      obtain ⟨_, _, hch⟩ := (Red_succ_node S k fi cs).mp hr
      obtain ⟨j, hj, rfl⟩ := List.getElem_of_mem he
      have hget : cs.getD j dflt = cs[j] := by
        rw [List.getD_eq_getElem?_getD, List.getElem?_eq_getElem hj]; rfl
      have ha1 : Assign.Valid S (Assign.upd a (k+1) j) := ha.upd (by rw [← hlen]; exact hj)
      have hrj := hch j hj
      rw [hget] at hrj
      obtain ⟨a', ha', hsame, hz⟩ := ih (some j) _ (Assign.upd a (k+1) j) hrj hei ha1
      refine ⟨a', ha', ?_, ?_⟩
      · intro q hq
        rw [hsame q (by omega), Assign.upd_other a j (by omega)]
      · have hk1 : a' (k+1) = j := by
          rw [hsame (k+1) (by omega), Assign.upd_same]
        rw [eval_succ_node, hk1, hget]
        unfold evalEdge
        rw [hz, hev]; rfl
    · obtain ⟨_, hr'⟩ := Red_succ_skip S k fi hd hr
      by_cases hm : S.mode (k+1) = .ident
      · obtain ⟨_, htop, _, hsz⟩ := hS.ident_below_red (k+1) hm
        have hv : a (k+2) < S.size (k+1) := by
          rw [← hsz]; exact ha (k+2) (by omega) htop
        have ha1 : Assign.Valid S (Assign.upd a (k+1) (a (k+2))) := ha.upd hv
        obtain ⟨a', ha', hsame, hz⟩ := ih none d (Assign.upd a (k+1) (a (k+2))) hr' hne ha1
        refine ⟨a', ha', ?_, ?_⟩
        · intro q hq
          rw [hsame q (by omega), Assign.upd_other a _ (by omega)]
        · have hk1 : a' (k+1) = a (k+2) := by
            rw [hsame (k+1) (by omega), Assign.upd_same]
          have hk2 : a' (k+2) = a (k+2) := by
            rw [hsame (k+2) (by omega), Assign.upd_other a _ (by omega)]
          rw [eval_succ_skip S k a' hd]
          have : ¬ (S.mode (k+1) = .ident ∧ a' (k+1) ≠ a' (k+2)) := by
            intro h; apply h.2; rw [hk1, hk2]
          rw [if_neg this]; exact hz
      · obtain ⟨a', ha', hsame, hz⟩ := ih none d a hr' hne ha
        refine ⟨a', ha', fun q hq => hsame q (by omega), ?_⟩
        rw [eval_succ_skip S k a' hd]
        have : ¬ (S.mode (k+1) = .ident ∧ a' (k+1) ≠ a' (k+2)) := fun h => hm h.1
        rw [if_neg this]; exact hz

/-! ### Agreement of denotations -/

/-- `d1` and `d2`, read from position `k`, agree on all valid assignments that
    respect the arriving index. -/
def Agree (S : Shape) (k : Nat) (fi : Option Nat) (d1 d2 : EDD) : Prop :=
  ∀ a, Assign.Valid S a → (∀ i, fi = some i → a (k+1) = i) → eval S k d1 a = eval S k d2 a

/-- the same for edges -/
def AgreeE (S : Shape) (k : Nat) (fi : Option Nat) (e1 e2 : Int × EDD) : Prop :=
  ∀ a, Assign.Valid S a → (∀ i, fi = some i → a (k+1) = i) →
    evalEdge S k e1 a = evalEdge S k e2 a

theorem Agree.symm {S : Shape} {k : Nat} {fi : Option Nat} {d1 d2 : EDD}
    (h : Agree S k fi d1 d2) : Agree S k fi d2 d1 :=
  fun a ha hf => (h a ha hf).symm

theorem AgreeE.symm {S : Shape} {k : Nat} {fi : Option Nat} {e1 e2 : Int × EDD}
    (h : AgreeE S k fi e1 e2) : AgreeE S k fi e2 e1 :=
  fun a ha hf => (h a ha hf).symm

/-- Canonicity of targets at position `k` (the induction statement). -/
def CanonAt (S : Shape) (k : Nat) : Prop :=
  ∀ (fi : Option Nat) (d1 d2 : EDD), (∀ i, fi = some i → i < S.size (k+1)) →
    Red S k fi d1 = true → Red S k fi d2 = true → Agree S k fi d1 d2 → d1 = d2

/-- Canonicity of edges at position `k`. -/
def CanonEAt (S : Shape) (k : Nat) : Prop :=
  ∀ (fi : Option Nat) (e1 e2 : Int × EDD), (∀ i, fi = some i → i < S.size (k+1)) →
    RedEdge S k fi e1 = true → RedEdge S k fi e2 = true → AgreeE S k fi e1 e2 → e1 = e2

/-- a reduced non-∞ target attains 0 on a valid assignment that respects the arriving index -/
theorem exists_zero (S : Shape) (hS : S.WF) (k : Nat) (fi : Option Nat) (d : EDD)
    (hfi : ∀ i, fi = some i → i < S.size (k+1))
    (hr : Red S k fi d = true) (hne : d ≠ .inf) :
    ∃ a, Assign.Valid S a ∧ (∀ i, fi = some i → a (k+1) = i) ∧ eval S k d a = some 0 := by
  obtain ⟨a0, ha0, hf0, _⟩ := DD.exists_fix S (k+1) fi hfi (fun _ => 0) (Assign.valid_const_zero hS)
  obtain ⟨a', ha', hsame, hz⟩ := eval_attain S hS k fi d a0 hr hne ha0
  refine ⟨a', ha', ?_, hz⟩
  intro i hi
  rw [hsame (k+1) (by omega)]; exact hf0 i hi

/-- the value of a reduced edge with a non-∞ target is the minimum of its denotation -/
theorem edge_min (S : Shape) (hS : S.WF) (k : Nat) (fi : Option Nat) (e : Int × EDD)
    (hfi : ∀ i, fi = some i → i < S.size (k+1))
    (hr : Red S k fi e.2 = true) (hne : e.2 ≠ .inf) :
    (∃ a, Assign.Valid S a ∧ (∀ i, fi = some i → a (k+1) = i) ∧ evalEdge S k e a = some e.1) ∧
    (∀ a n, evalEdge S k e a = some n → e.1 ≤ n) := by
  constructor
  · obtain ⟨a, ha, hf, hz⟩ := exists_zero S hS k fi e.2 hfi hr hne
    refine ⟨a, ha, hf, ?_⟩
    unfold evalEdge
    rw [hz]; simp
  · intro a n he
    unfold evalEdge at he
    cases hev : eval S k e.2 a with
    | none => rw [hev] at he; cases he
    | some m =>
      rw [hev] at he
      simp only [Option.map_some, Option.some.injEq] at he
      have := eval_nonneg S k fi e.2 a m hr hev
      omega

/-- a reduced edge that denotes ∞ everywhere is the edge `(0, inf)` -/
theorem edge_inf_of_agree (S : Shape) (hS : S.WF) (k : Nat) (fi : Option Nat) (e : Int × EDD)
    (hfi : ∀ i, fi = some i → i < S.size (k+1))
    (hr : RedEdge S k fi e = true)
    (hz : ∀ a, Assign.Valid S a → (∀ i, fi = some i → a (k+1) = i) → evalEdge S k e a = none) :
    e = (0, .inf) := by
  obtain ⟨hr1, hr2⟩ := (RedEdge_iff S k fi e).mp hr
  by_cases hne : e.2 = .inf
  · have := hr2 hne
    cases e; simp only at hne this; rw [hne, this]
  · obtain ⟨⟨a, ha, hf, he⟩, _⟩ := edge_min S hS k fi e hfi hr1 hne
    rw [hz a ha hf] at he; cases he

/-- canonicity of targets gives canonicity of edges -/
theorem canonE_of_canon (S : Shape) (hS : S.WF) (k : Nat) (hC : CanonAt S k) : CanonEAt S k := by
  intro fi e1 e2 hfi h1 h2 hA
  obtain ⟨hr1, hv1⟩ := (RedEdge_iff S k fi e1).mp h1
  obtain ⟨hr2, hv2⟩ := (RedEdge_iff S k fi e2).mp h2
  by_cases hi1 : e1.2 = .inf
  · have e1eq : e1 = (0, .inf) := by
      have := hv1 hi1; cases e1; simp only at hi1 this; rw [hi1, this]
    have : e2 = (0, .inf) := by
      apply edge_inf_of_agree S hS k fi e2 hfi h2
      intro a ha hf
      rw [← hA a ha hf, e1eq, evalEdge_inf]
    rw [e1eq, this]
  · by_cases hi2 : e2.2 = .inf
    · have e2eq : e2 = (0, .inf) := by
        have := hv2 hi2; cases e2; simp only at hi2 this; rw [hi2, this]
      have : e1 = (0, .inf) := by
        apply edge_inf_of_agree S hS k fi e1 hfi h1
        intro a ha hf
        rw [hA a ha hf, e2eq, evalEdge_inf]
      rw [e2eq, this]
    · obtain ⟨⟨a1, ha1, hf1, he1⟩, hmin1⟩ := edge_min S hS k fi e1 hfi hr1 hi1
      obtain ⟨⟨a2, ha2, hf2, he2⟩, hmin2⟩ := edge_min S hS k fi e2 hfi hr2 hi2
      have hle1 : e2.1 ≤ e1.1 := hmin2 a1 e1.1 (by rw [← hA a1 ha1 hf1]; exact he1)
      have hle2 : e1.1 ≤ e2.1 := hmin1 a2 e2.1 (by rw [hA a2 ha2 hf2]; exact he2)
      have hv : e1.1 = e2.1 := by omega
      have hd : e1.2 = e2.2 := by
        apply hC fi e1.2 e2.2 hfi hr1 hr2
        intro a ha hf
        have := hA a ha hf
        unfold evalEdge at this
        rw [hv] at this
        exact opt_map_add_inj this
      cases e1; cases e2; simp only at hv hd; rw [hv, hd]

theorem inf_of_canon (S : Shape) (k : Nat) (hC : CanonAt S k)
    (fi : Option Nat) (d : EDD) (hfi : ∀ i, fi = some i → i < S.size (k+1))
    (hr : Red S k fi d = true)
    (hz : ∀ a, Assign.Valid S a → (∀ i, fi = some i → a (k+1) = i) → eval S k d a = none) :
    d = .inf := by
  apply hC fi d .inf hfi hr (Red_inf S k fi)
  intro a ha hf
  rw [hz a ha hf, eval_inf]

theorem canonAt_zero (S : Shape) (hS : S.WF) : CanonAt S 0 := by
  intro fi d1 d2 hfi h1 h2 hA
  obtain ⟨a, ha, hf, _⟩ := DD.exists_fix S 1 fi hfi (fun _ => 0) (Assign.valid_const_zero hS)
  have := hA a ha hf
  rcases (Red_zero_iff S fi d1).mp h1 with rfl | rfl <;>
    rcases (Red_zero_iff S fi d2).mp h2 with rfl | rfl
  · rfl
  · simp [eval] at this
  · simp [eval] at this
  · rfl

/-- The child edge `j` of a node stored at `k+1`, on an assignment with `a (k+1) = j`,
    is what the node denotes on a suitably fixed assignment. -/
theorem agree_child_of (S : Shape) (k : Nat) (fi : Option Nat)
    (hfi : ∀ i, fi = some i → i < S.size (k+2)) (cs : List (Int × EDD)) (d2 : EDD) (j : Nat)
    (hA : Agree S (k+1) fi (.node (k+1) cs) d2)
    (a : Assign) (ha : Assign.Valid S a) (hj : a (k+1) = j) :
    ∃ a', Assign.Valid S a' ∧ (∀ q, q ≠ k+2 → a' q = a q) ∧
      evalEdge S k (cs.getD j dflt) a = eval S (k+1) d2 a' := by
  obtain ⟨a', ha', hf', hsame⟩ := DD.exists_fix S (k+2) fi hfi a ha
  refine ⟨a', ha', hsame, ?_⟩
  have h := hA a' ha' hf'
  rw [eval_succ_node] at h
  have hk1 : a' (k+1) = a (k+1) := hsame (k+1) (by omega)
  rw [hk1, hj] at h
  rw [← h]
  apply evalEdge_congr
  · intro p hp; exact (hsame p (by omega)).symm
  · intro _; exact hk1.symm

theorem agree_children (S : Shape) (k : Nat) (fi : Option Nat)
    (hfi : ∀ i, fi = some i → i < S.size (k+2)) (cs1 cs2 : List (Int × EDD)) (j : Nat)
    (hA : Agree S (k+1) fi (.node (k+1) cs1) (.node (k+1) cs2)) :
    AgreeE S k (some j) (cs1.getD j dflt) (cs2.getD j dflt) := by
  intro a ha hf
  have hj : a (k+1) = j := hf j rfl
  obtain ⟨a', _, hsame, h⟩ := agree_child_of S k fi hfi cs1 _ j hA a ha hj
  rw [h, eval_succ_node]
  have hk1 : a' (k+1) = a (k+1) := hsame (k+1) (by omega)
  rw [hk1, hj]
  apply evalEdge_congr
  · intro p hp; exact hsame p (by omega)
  · intro _; exact hk1

/-- For targets not stored at `k+1`: reading from `k+1` on a suitably fixed
    assignment is reading from `k`. -/
theorem eval_skip_fix (S : Shape) (hS : S.WF) (k : Nat) (fi : Option Nat)
    (hfi : ∀ i, fi = some i → i < S.size (k+2)) (a : Assign) (ha : Assign.Valid S a) :
    ∃ a', Assign.Valid S a' ∧ (∀ i, fi = some i → a' (k+2) = i) ∧
      ∀ d : EDD, d.isNodeAt (k+1) = false → eval S (k+1) d a' = eval S k d a := by
  obtain ⟨a1, ha1, hf1, hsame1⟩ := DD.exists_fix S (k+2) fi hfi a ha
  by_cases hm : S.mode (k+1) = .ident
  · obtain ⟨_, htop, hred, hsz⟩ := hS.ident_below_red (k+1) hm
    have hmk : S.mode k ≠ .ident := by
      intro hk
      have := (hS.ident_below_red k hk).2.2.1
      rw [hm] at this; cases this
    have hv : a1 (k+2) < S.size (k+1) := by
      rw [← hsz]; exact ha1 (k+2) (by omega) htop
    refine ⟨Assign.upd a1 (k+1) (a1 (k+2)), ha1.upd hv, ?_, ?_⟩
    · intro i hi
      rw [Assign.upd_other a1 _ (by omega)]
      exact hf1 i hi
    · intro d hd
      rw [eval_succ_skip S k _ hd]
      have hne : ¬ (S.mode (k+1) = .ident ∧
          Assign.upd a1 (k+1) (a1 (k+2)) (k+1) ≠ Assign.upd a1 (k+1) (a1 (k+2)) (k+2)) := by
        intro h
        apply h.2
        rw [Assign.upd_same, Assign.upd_other a1 _ (by omega)]
      rw [if_neg hne]
      apply eval_congr
      · intro p hp
        rw [Assign.upd_other a1 _ (by omega)]
        exact hsame1 p (by omega)
      · intro h; exact absurd h hmk
  · refine ⟨a1, ha1, hf1, ?_⟩
    intro d hd
    rw [eval_succ_skip S k _ hd]
    have hne : ¬ (S.mode (k+1) = .ident ∧ a1 (k+1) ≠ a1 (k+2)) := fun h => hm h.1
    rw [if_neg hne]
    apply eval_congr
    · intro p hp; exact hsame1 p (by omega)
    · intro _; exact hsame1 (k+1) (by omega)

theorem agree_skip (S : Shape) (hS : S.WF) (k : Nat) (fi : Option Nat)
    (hfi : ∀ i, fi = some i → i < S.size (k+2)) (d1 d2 : EDD)
    (h1 : d1.isNodeAt (k+1) = false) (h2 : d2.isNodeAt (k+1) = false)
    (hA : Agree S (k+1) fi d1 d2) : Agree S k none d1 d2 := by
  intro a ha _
  obtain ⟨a', ha', hf', he⟩ := eval_skip_fix S hS k fi hfi a ha
  rw [← he d1 h1, ← he d2 h2]
  exact hA a' ha' hf'

/-! ### The induction step -/

theorem all_inf_contra (cs : List (Int × EDD))
    (hnz : ∃ e, e ∈ cs ∧ e.2 ≠ .inf ∧ e.1 = 0)
    (hall : ∀ j, j < cs.length → (cs.getD j dflt).2 = .inf) : False := by
  obtain ⟨e, he, hne, _⟩ := hnz
  obtain ⟨j, hj, rfl⟩ := List.getElem_of_mem he
  have := hall j hj
  rw [List.getD_eq_getElem?_getD, List.getElem?_eq_getElem hj] at this
  exact hne this

/-- A reduced node stored at `k+1` never denotes the same function as a reduced
    target that skips `k+1`. -/
theorem canon_mixed (S : Shape) (hS : S.WF) (k : Nat) (hC : CanonAt S k)
    (fi : Option Nat) (hfi : ∀ i, fi = some i → i < S.size (k+2))
    (cs : List (Int × EDD)) (d2 : EDD)
    (h1 : Red S (k+1) fi (.node (k+1) cs) = true)
    (hd2 : d2.isNodeAt (k+1) = false)
    (h2 : Red S (k+1) fi d2 = true)
    (hA : Agree S (k+1) fi (.node (k+1) cs) d2) : False := by
  have hCE := canonE_of_canon S hS k hC
  obtain ⟨hE, _, hch⟩ := (Red_succ_node S k fi cs).mp h1
  obtain ⟨hlen, hloc, hnz, hred⟩ := Red_node_local S k fi cs h1
  obtain ⟨hE2, hR2⟩ := Red_succ_skip S k fi hd2 h2
  have hsome : ∀ j, j < cs.length → ∀ i, some j = some i → i < S.size (k+1) := by
    intro j hj i h; cases h; rw [← hlen]; exact hj
  have hedge : ∀ j, j < cs.length → RedEdge S k (some j) (cs.getD j dflt) = true := by
    intro j hj
    exact (RedEdge_iff S k (some j) _).mpr ⟨hch j hj, (hloc _ (getD_mem cs j dflt hj)).1⟩
  -- a child edge that denotes ∞ wherever it is read has an ∞ target
  have hinf : ∀ j, j < cs.length →
      (∀ a, Assign.Valid S a → (∀ i, some j = some i → a (k+1) = i) →
        evalEdge S k (cs.getD j dflt) a = none) → (cs.getD j dflt).2 = .inf := by
    intro j hj hz
    have := edge_inf_of_agree S hS k (some j) _ (hsome j hj) (hedge j hj) hz
    rw [this]
  cases hm : S.mode (k+1) with
  | red =>
    have hall : ∀ j, j < cs.length → cs.getD j dflt = (0, d2) := by
      intro j hj
      apply hCE (some j) _ _ (hsome j hj) (hedge j hj)
      · exact (RedEdge_iff S k (some j) _).mpr ⟨Red_none_some S k j d2 hR2, fun _ => rfl⟩
      intro a ha hf
      obtain ⟨a', _, hsame, h⟩ := agree_child_of S k fi hfi cs d2 j hA a ha (hf j rfl)
      have hne : ¬ (S.mode (k+1) = .ident ∧ a' (k+1) ≠ a' (k+2)) := by
        intro h; rw [hm] at h; cases h.1
      rw [h, eval_succ_skip S k a' hd2, if_neg hne, evalEdge_zero]
      apply eval_congr
      · intro p hp; exact hsame p (by omega)
      · intro _; exact hsame (k+1) (by omega)
    apply hred hm
    intro c hc
    have hne : cs ≠ [] := List.ne_nil_of_mem hc
    rw [DD.list_headD_of_getD cs _ (0, d2) hall hne]
    exact DD.list_all_eq_of_getD cs _ (0, d2) hall c hc
  | none =>
    have hd2z : d2 = .inf := edgeOK_none_skip S k fi hm hd2 hE2
    subst hd2z
    apply all_inf_contra cs hnz
    intro j hj
    apply hinf j hj
    intro a ha hf
    obtain ⟨a', _, _, h⟩ := agree_child_of S k fi hfi cs _ j hA a ha (hf j rfl)
    rw [h, eval_inf]
  | ident =>
    obtain ⟨_, htop, _, hsz⟩ := hS.ident_below_red (k+1) hm
    have hzero : ∀ j v, j < cs.length → v < S.size (k+2) → v ≠ j →
        (∀ i, fi = some i → v = i) → (cs.getD j dflt).2 = .inf := by
      intro j v hj hv hvj hvf
      apply hinf j hj
      intro a ha hf
      have hj' : a (k+1) = j := hf j rfl
      have ha' : Assign.Valid S (Assign.upd a (k+2) v) := ha.upd hv
      have h := hA (Assign.upd a (k+2) v) ha'
        (by intro i hi; rw [Assign.upd_same]; exact hvf i hi)
      have e1 : Assign.upd a (k+2) v (k+1) = j := by
        rw [Assign.upd_other a v (by omega)]; exact hj'
      have e2 : Assign.upd a (k+2) v (k+2) = v := Assign.upd_same a (k+2) v
      have hpos : S.mode (k+1) = .ident ∧
          Assign.upd a (k+2) v (k+1) ≠ Assign.upd a (k+2) v (k+2) := by
        refine ⟨hm, ?_⟩
        rw [e1, e2]; exact fun h => hvj h.symm
      rw [eval_succ_node, eval_succ_skip S k _ hd2, if_pos hpos, e1] at h
      refine Eq.trans ?_ h
      apply evalEdge_congr
      · intro p hp; exact (Assign.upd_other a v (by omega)).symm
      · intro _; rw [e1]; exact hj'
    have hsz2 : 2 ≤ S.size (k+2) := hS.size_ge (k+2) (by omega) htop
    cases fi with
    | none =>
      apply all_inf_contra cs hnz
      intro j hj
      by_cases hj0 : j = 0
      · exact hzero j 1 hj (by omega) (by omega) (fun i h => nomatch h)
      · exact hzero j 0 hj (by omega) (by omega) (fun i h => nomatch h)
    | some i =>
      have hi : i < cs.length := by rw [hlen, ← hsz]; exact hfi i rfl
      have hothers : ∀ j, j < cs.length → j = i ∨ (cs.getD j dflt).2 = .inf := by
        intro j hj
        by_cases hji : j = i
        · left; exact hji
        · right
          exact hzero j i hj (hfi i rfl) (fun h => hji h.symm) (fun i' h => by cases h; rfl)
      have hsing : isSingleton (k+1) i (.node (k+1) cs) = true := by
        rw [isSingleton_node_iff]
        refine ⟨hi, hothers, ?_⟩
        intro hiz
        apply all_inf_contra cs hnz
        intro j hj
        rcases hothers j hj with rfl | h
        · exact hiz
        · exact h
      have := edgeOK_ident_some S (k+1) i hm hE
      rw [hsing] at this
      cases this

theorem canonAt_succ (S : Shape) (hS : S.WF) (k : Nat) (hC : CanonAt S k) :
    CanonAt S (k+1) := by
  intro fi d1 d2 hfi h1 h2 hA
  rcases storedAt_cases (k+1) d1 with ⟨cs1, rfl⟩ | hd1 <;>
    rcases storedAt_cases (k+1) d2 with ⟨cs2, rfl⟩ | hd2
  · have hCE := canonE_of_canon S hS k hC
    obtain ⟨_, _, hch1⟩ := (Red_succ_node S k fi cs1).mp h1
    obtain ⟨_, _, hch2⟩ := (Red_succ_node S k fi cs2).mp h2
    obtain ⟨hlen1, hloc1, _, _⟩ := Red_node_local S k fi cs1 h1
    obtain ⟨hlen2, hloc2, _, _⟩ := Red_node_local S k fi cs2 h2
    have hl : cs1.length = cs2.length := by rw [hlen1, hlen2]
    congr 1
    apply DD.list_ext_getD cs1 cs2 dflt hl
    intro j hj
    have hj2 : j < cs2.length := hl ▸ hj
    apply hCE (some j) _ _ _
      ((RedEdge_iff S k (some j) _).mpr ⟨hch1 j hj, (hloc1 _ (getD_mem cs1 j dflt hj)).1⟩)
      ((RedEdge_iff S k (some j) _).mpr ⟨hch2 j hj2, (hloc2 _ (getD_mem cs2 j dflt hj2)).1⟩)
    · exact agree_children S k fi hfi cs1 cs2 j hA
    · intro i h; cases h; rw [← hlen1]; exact hj
  · exact (canon_mixed S hS k hC fi hfi cs1 d2 h1 hd2 h2 hA).elim
  · exact (canon_mixed S hS k hC fi hfi cs2 d1 h2 hd1 h1 hA.symm).elim
  · apply hC none d1 d2 (fun i h => nomatch h)
      (Red_succ_skip S k fi hd1 h1).2 (Red_succ_skip S k fi hd2 h2).2
    exact agree_skip S hS k fi hfi d1 d2 hd1 hd2 hA

theorem canonAt (S : Shape) (hS : S.WF) : ∀ k, CanonAt S k
  | 0 => canonAt_zero S hS
  | k+1 => canonAt_succ S hS k (canonAt S hS k)

/-! ### Main theorems -/

/-- Canonicity of targets, general form. -/
theorem canon_tree_gen (S : Shape) (hS : S.WF) (k : Nat) (fi : Option Nat) (d1 d2 : EDD)
    (hfi : ∀ i, fi = some i → i < S.size (k+1))
    (h1 : Red S k fi d1 = true) (h2 : Red S k fi d2 = true)
    (hA : ∀ a, Assign.Valid S a → (∀ i, fi = some i → a (k+1) = i) →
      eval S k d1 a = eval S k d2 a) : d1 = d2 :=
  canonAt S hS k fi d1 d2 hfi h1 h2 hA

/-- Canonicity of edges, general form: two edges reduced for position `k` (arriving
    through index `fi`) with the same denotation are equal. -/
theorem canon_gen (S : Shape) (hS : S.WF) (k : Nat) (fi : Option Nat) (e1 e2 : Int × EDD)
    (hfi : ∀ i, fi = some i → i < S.size (k+1))
    (h1 : RedEdge S k fi e1 = true) (h2 : RedEdge S k fi e2 = true)
    (hA : ∀ a, Assign.Valid S a → (∀ i, fi = some i → a (k+1) = i) →
      evalEdge S k e1 a = evalEdge S k e2 a) : e1 = e2 :=
  canonE_of_canon S hS k (canonAt S hS k) fi e1 e2 hfi h1 h2 hA

/-- Canonicity of EV+ : reduced edges are equal iff they denote the same function. -/
theorem canon (S : Shape) (hS : S.WF) (e1 e2 : Int × EDD)
    (h1 : RedEdge S S.top none e1 = true) (h2 : RedEdge S S.top none e2 = true) :
    (∀ a, Assign.Valid S a → evalEdge S S.top e1 a = evalEdge S S.top e2 a) ↔ e1 = e2 := by
  constructor
  · intro h
    exact canon_gen S hS S.top none e1 e2 (fun i h => nomatch h) h1 h2 (fun a ha _ => h a ha)
  · intro h a _; rw [h]

/-- The value of a reduced edge is the minimum of the function it denotes
    (so it is determined by the denotation). -/
theorem edge_value_is_min (S : Shape) (hS : S.WF) (e : Int × EDD)
    (h : RedEdge S S.top none e = true) (hne : e.2 ≠ .inf) :
    (∃ a, Assign.Valid S a ∧ evalEdge S S.top e a = some e.1) ∧
    (∀ a n, evalEdge S S.top e a = some n → e.1 ≤ n) := by
  obtain ⟨⟨a, ha, _, he⟩, hmin⟩ := edge_min S hS S.top none e (fun i h => nomatch h)
    ((RedEdge_iff S S.top none e).mp h).1 hne
  exact ⟨⟨a, ha, he⟩, hmin⟩

/-- The only reduced edge denoting ∞ everywhere is `(0, inf)`. -/
theorem inf_unique (S : Shape) (hS : S.WF) (e : Int × EDD)
    (h : RedEdge S S.top none e = true)
    (hz : ∀ a, Assign.Valid S a → evalEdge S S.top e a = none) : e = (0, .inf) :=
  edge_inf_of_agree S hS S.top none e (fun _ h => nomatch h) h (fun a ha _ => hz a ha)

end EDD
end Meddly
