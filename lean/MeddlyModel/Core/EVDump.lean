/-
  Certificate checker for a dump of a real (shared, DAG-shaped) EV+ node store.

  A dump is a list of node records (`ENode`): handle, position, full vector of
  (edge value, child).  Children are pointers to stored nodes (`EChild.nd h`) or one
  of the two EV+ terminals (`EChild.inf` = OMEGA_INFINITY, `EChild.omega` =
  OMEGA_NORMAL).  `EDump.unfoldE` turns a child into the tree model `EDD`;
  `EDump.check` is an executable checker that works on the *shared* representation
  (never unfolding) and `EDump.check_sound` shows that it implies `EDD.RedEdge` of
  every unfolded root edge.
-/
import MeddlyModel.Core.EVNode

namespace Meddly

set_option linter.unusedSectionVars false

inductive EChild where
  | nd (h : Nat)     -- pointer to the stored node with handle h (h > 0)
  | inf              -- OMEGA_INFINITY (transparent)
  | omega            -- OMEGA_NORMAL
  deriving DecidableEq, Repr, Inhabited

structure ENode where
  handle : Nat
  pos    : Nat                       -- position (≥ 1)
  down   : List (Int × EChild)       -- FULL vector of (edge value, child)
  deriving DecidableEq, Repr, Inhabited

abbrev EDump := List ENode

namespace EDump

def find (D : EDump) (h : Nat) : Option ENode := List.find? (fun n => n.handle == h) D

def isInfC : EChild → Bool
  | .inf => true
  | _ => false

abbrev dfltC : Int × EChild := (0, .inf)

/-- unfold a child into a tree; `fuel` ≥ position of the child suffices -/
def unfoldE (D : EDump) : Nat → EChild → EDD
  | _, .inf => .inf
  | _, .omega => .omega
  | 0, .nd _ => .inf
  | f+1, .nd h =>
    match D.find h with
    | none => .inf
    | some n => .node n.pos (n.down.map (fun e => (e.1, unfoldE D f e.2)))

/-- unfold an edge -/
def unfoldEdge (D : EDump) (f : Nat) (r : Int × EChild) : Int × EDD := (r.1, unfoldE D f r.2)

/-- position of a child: 0 for terminals (and dangling pointers) -/
def cpos (D : EDump) : EChild → Nat
  | .nd h =>
    match D.find h with
    | some m => m.pos
    | none => 0
  | _ => 0

/-- a child is valid in `D`: a terminal, or a pointer that resolves to a node at position ≤ `bound` -/
def childOK (D : EDump) (bound : Nat) : EChild → Bool
  | .nd h =>
    match D.find h with
    | some m => decide (m.pos ≤ bound)
    | none => false
  | _ => true

/-- handles pairwise distinct and no two distinct nodes with the same `(pos, down)` -/
def distinctOK : EDump → Bool
  | [] => true
  | n :: rest =>
    rest.all (fun m => m.handle != n.handle && !(m.pos == n.pos && m.down == n.down)) &&
    distinctOK rest

def storeOK (D : EDump) : Bool :=
  D.all (fun n => decide (0 < n.handle) && decide (1 ≤ n.pos) &&
    n.down.all (fun e => D.childOK (n.pos - 1) e.2)) &&
  D.distinctOK

/-! ### dump-level mirrors of the tree predicates -/

def isNodeAtC (D : EDump) (p : Nat) : EChild → Bool
  | .nd h =>
    match D.find h with
    | some m => m.pos == p
    | none => false
  | _ => false

def isSingletonC (D : EDump) (p i : Nat) : EChild → Bool
  | .nd h =>
    match D.find h with
    | some m => m.pos == p && evSingleton isInfC dfltC i m.down
    | none => false
  | _ => false

def isAnySingletonC (D : EDump) (p : Nat) : EChild → Bool
  | .nd h =>
    match D.find h with
    | some m => m.pos == p && evAnySingleton isInfC dfltC m.down
    | none => false
  | _ => false

/-- mirror of `EDD.edgeOK` computed from the dump -/
def edgeOKC (S : Shape) (D : EDump) (k : Nat) (fromIdx : Option Nat) (c : EChild) : Bool :=
  match S.mode k with
  | .red => true
  | .none => isNodeAtC D k c || c == .inf || k == 0
  | .ident =>
    match fromIdx with
    | some i => !(isSingletonC D k i c)
    | none => !(isAnySingletonC D k c)

/-- the per-edge part of `Red`: all `edgeOK` conjuncts from position `k` down to the
    position of the child (or down to 1 for a terminal) -/
def edgeChk (S : Shape) (D : EDump) : Nat → Option Nat → EChild → Bool
  | 0, _, _ => true
  | k+1, fi, c =>
    edgeOKC S D (k+1) fi c &&
    (if D.cpos c = k+1 then true else edgeChk S D k none c)

/-- `edgeChk` for the entries `cs` of a node, numbered from `i` -/
def edgesChk (S : Shape) (D : EDump) (k : Nat) : Nat → List (Int × EChild) → Bool
  | _, [] => true
  | i, e :: cs => edgeChk S D k (some i) e.2 && edgesChk S D k (i+1) cs

/-- the node-local part of `Red` (arity, ∞-entries carry 0, minimum 0, not redundant) and
    the skipping conditions of the outgoing edges -/
def nodeOK (S : Shape) (D : EDump) (n : ENode) : Bool :=
  decide (n.pos ≤ S.top) &&
  evLocalOK isInfC dfltC (S.size n.pos) (S.mode n.pos == .red) n.down &&
  edgesChk S D (n.pos - 1) 0 n.down

/-- a root edge: valid target, skipping conditions, and value 0 on the transparent terminal -/
def rootOK (S : Shape) (D : EDump) (r : Int × EChild) : Bool :=
  childOK D S.top r.2 && edgeChk S D S.top none r.2 && (!isInfC r.2 || r.1 == 0)

def check (S : Shape) (D : EDump) (roots : List (Int × EChild)) : Bool :=
  storeOK D && D.all (nodeOK S D) && roots.all (rootOK S D)

/-- `EDD.eval` of the unfolding, computed by walking the dump -/
def evalFastAux (S : Shape) (D : EDump) : Nat → EChild → Assign → Option Int
  | 0, .omega, _ => some 0
  | 0, .inf, _ => none
  | 0, .nd _, _ => none
  | k+1, c, a =>
    match c with
    | .nd h =>
      match D.find h with
      | none =>
        if S.mode (k+1) = .ident ∧ a (k+1) ≠ a (k+2) then none
        else evalFastAux S D k .inf a
      | some m =>
        if m.pos = k+1 then
          (evalFastAux S D k (m.down.getD (a (k+1)) dfltC).2 a).map
            (· + (m.down.getD (a (k+1)) dfltC).1)
        else if S.mode (k+1) = .ident ∧ a (k+1) ≠ a (k+2) then none
        else evalFastAux S D k c a
    | .inf =>
      if S.mode (k+1) = .ident ∧ a (k+1) ≠ a (k+2) then none
      else evalFastAux S D k c a
    | .omega =>
      if S.mode (k+1) = .ident ∧ a (k+1) ≠ a (k+2) then none
      else evalFastAux S D k c a

/-- value of the root edge `r` on `a`, computed by walking the dump -/
def evalFast (S : Shape) (D : EDump) (r : Int × EChild) (a : Assign) : Option Int :=
  (evalFastAux S D S.top r.2 a).map (· + r.1)

/-! ## Basic facts -/

theorem find_some {D : EDump} {h : Nat} {m : ENode} (e : D.find h = some m) :
    m ∈ D ∧ m.handle = h := by
  unfold find at e
  refine ⟨List.mem_of_find?_eq_some e, ?_⟩
  have := List.find?_some e
  simpa using this

theorem childOK_nd {D : EDump} {b h : Nat} (e : D.childOK b (.nd h) = true) :
    ∃ m, D.find h = some m ∧ m.pos ≤ b := by
  cases hf : D.find h with
  | none => simp [childOK, hf] at e
  | some m => exact ⟨m, rfl, by simpa [childOK, hf] using e⟩

theorem childOK_mono {D : EDump} {b b' : Nat} {c : EChild} (e : D.childOK b c = true)
    (hb : b ≤ b') : D.childOK b' c = true := by
  cases c with
  | inf => rfl
  | omega => rfl
  | nd h =>
    obtain ⟨m, hm, hp⟩ := childOK_nd e
    simp only [childOK, hm, decide_eq_true_eq]
    omega

theorem storeOK_node {D : EDump} (hs : D.storeOK = true) {n : ENode} (hn : n ∈ D) :
    0 < n.handle ∧ 1 ≤ n.pos ∧ ∀ e ∈ n.down, D.childOK (n.pos - 1) e.2 = true := by
  simp only [storeOK, Bool.and_eq_true, List.all_eq_true, decide_eq_true_eq] at hs
  obtain ⟨⟨h1, h2⟩, h3⟩ := hs.1 n hn
  exact ⟨h1, h2, h3⟩

theorem storeOK_distinct {D : EDump} (hs : D.storeOK = true) : D.distinctOK = true := by
  simp only [storeOK, Bool.and_eq_true] at hs
  exact hs.2

theorem storeOK_find {D : EDump} (hs : D.storeOK = true) {h : Nat} {m : ENode}
    (e : D.find h = some m) :
    1 ≤ m.pos ∧ ∀ e ∈ m.down, D.childOK (m.pos - 1) e.2 = true :=
  (storeOK_node hs (find_some e).1).2

theorem distinctOK_unique : ∀ {D : EDump}, D.distinctOK = true → ∀ {a b : ENode},
    a ∈ D → b ∈ D → a.pos = b.pos → a.down = b.down → a = b
  | [], _, _, _, ha, _, _, _ => by cases ha
  | n :: rest, hd, a, b, ha, hb, hp, hdn => by
    simp only [distinctOK, Bool.and_eq_true, List.all_eq_true, Bool.not_eq_true',
      Bool.and_eq_false_iff, bne_iff_ne, ne_eq, beq_eq_false_iff_ne] at hd
    rcases List.mem_cons.1 ha with rfl | ha'
    · rcases List.mem_cons.1 hb with rfl | hb'
      · rfl
      · rcases (hd.1 b hb').2 with h | h
        · exact absurd hp.symm h
        · exact absurd hdn.symm h
    · rcases List.mem_cons.1 hb with rfl | hb'
      · rcases (hd.1 a ha').2 with h | h
        · exact absurd hp h
        · exact absurd hdn h
      · exact distinctOK_unique hd.2 ha' hb' hp hdn

theorem distinctOK_find : ∀ {D : EDump}, D.distinctOK = true → ∀ {n : ENode},
    n ∈ D → D.find n.handle = some n
  | [], _, _, hn => by cases hn
  | x :: rest, hd, n, hn => by
    simp only [distinctOK, Bool.and_eq_true, List.all_eq_true, bne_iff_ne, ne_eq] at hd
    rcases List.mem_cons.1 hn with rfl | hn'
    · simp [find]
    · have hne : x.handle ≠ n.handle := fun e => (hd.1 n hn').1 e.symm
      have ih := distinctOK_find hd.2 hn'
      unfold find at ih ⊢
      rw [List.find?_cons_of_neg (by simpa using hne)]
      exact ih

/-! ## Unfolding -/

@[simp] theorem unfoldE_inf (D : EDump) (f : Nat) : D.unfoldE f .inf = .inf := by
  cases f <;> rfl

@[simp] theorem unfoldE_omega (D : EDump) (f : Nat) : D.unfoldE f .omega = .omega := by
  cases f <;> rfl

theorem unfoldE_nd_succ {D : EDump} (f : Nat) {h : Nat} {m : ENode}
    (e : D.find h = some m) :
    D.unfoldE (f+1) (.nd h) = .node m.pos (m.down.map (fun e => (e.1, D.unfoldE f e.2))) := by
  simp only [unfoldE, e]

/-- a valid pointer unfolds to a node (never to a terminal) -/
theorem unfoldE_nd {D : EDump} (hs : D.storeOK = true) {f h : Nat}
    (v : D.childOK f (.nd h) = true) :
    ∃ m g, D.find h = some m ∧ f = g+1 ∧ m.pos ≤ g+1 ∧
      (∀ e ∈ m.down, D.childOK g e.2 = true) ∧
      D.unfoldE f (.nd h) = .node m.pos (m.down.map (fun e => (e.1, D.unfoldE g e.2))) := by
  obtain ⟨m, hm, hp⟩ := childOK_nd v
  obtain ⟨h1, hc⟩ := storeOK_find hs hm
  cases f with
  | zero => omega
  | succ g =>
    refine ⟨m, g, hm, rfl, hp, ?_, unfoldE_nd_succ g hm⟩
    intro e hem
    exact childOK_mono (hc e hem) (by omega)

/-- with enough fuel the unfolding does not depend on the fuel -/
theorem unfoldE_fuel {D : EDump} (hs : D.storeOK = true) :
    ∀ (f f' : Nat) (c : EChild), D.childOK f c = true → f ≤ f' →
      D.unfoldE f' c = D.unfoldE f c := by
  intro f
  induction f with
  | zero =>
    intro f' c v _
    cases c with
    | inf => simp
    | omega => simp
    | nd h =>
      obtain ⟨m, g, _, hf, _⟩ := unfoldE_nd hs v
      omega
  | succ g ih =>
    intro f' c v hle
    cases c with
    | inf => simp
    | omega => simp
    | nd h =>
      obtain ⟨m, g0, hm, hf, hp, hc, _⟩ := unfoldE_nd hs v
      have hg : g0 = g := by omega
      subst hg
      cases f' with
      | zero => omega
      | succ g' =>
        rw [unfoldE_nd_succ g' hm, unfoldE_nd_succ g0 hm]
        congr 1
        apply List.map_congr_left
        intro e hem
        rw [ih g' e.2 (hc e hem) (by omega)]

theorem isInf_unfoldE {D : EDump} (hs : D.storeOK = true) {f : Nat} {c : EChild}
    (v : D.childOK f c = true) : EDD.isInf (D.unfoldE f c) = isInfC c := by
  cases c with
  | inf => simp [EDD.isInf, isInfC]
  | omega => simp [EDD.isInf, isInfC]
  | nd h =>
    obtain ⟨m, g, _, _, _, _, hu⟩ := unfoldE_nd hs v
    rw [hu]; rfl

theorem unfoldE_eq_inf {D : EDump} (hs : D.storeOK = true) {f : Nat} {c : EChild}
    (v : D.childOK f c = true) : D.unfoldE f c = .inf ↔ c = .inf := by
  rw [← EDD.isInf_iff, isInf_unfoldE hs v]
  cases c <;> simp [isInfC]

theorem map_pair_inj_on {β γ : Type} (u : β → γ) : ∀ (l1 l2 : List (Int × β)),
    (∀ a ∈ l1, ∀ b ∈ l2, u a.2 = u b.2 → a.2 = b.2) →
    l1.map (fun e => (e.1, u e.2)) = l2.map (fun e => (e.1, u e.2)) → l1 = l2
  | [], [], _, _ => rfl
  | [], _ :: _, _, e => by cases e
  | _ :: _, [], _, e => by cases e
  | a :: l1, b :: l2, hinj, e => by
    simp only [List.map_cons, List.cons.injEq, Prod.mk.injEq] at e
    have hab2 : a.2 = b.2 := hinj a (List.mem_cons_self ..) b (List.mem_cons_self ..) e.1.2
    have hab : a = b := Prod.ext e.1.1 hab2
    have ht : l1 = l2 := map_pair_inj_on u l1 l2
      (fun x hx y hy => hinj x (List.mem_cons_of_mem _ hx) y (List.mem_cons_of_mem _ hy)) e.2
    rw [hab, ht]

/-- the unique-table invariant makes unfolding injective on valid children -/
theorem unfold_inj (D : EDump) (h : D.storeOK = true) (c1 c2 : EChild) (f : Nat)
    (v1 : D.childOK f c1 = true) (v2 : D.childOK f c2 = true) :
    D.unfoldE f c1 = D.unfoldE f c2 → c1 = c2 := by
  induction f generalizing c1 c2 with
  | zero =>
    cases c1 with
    | nd h1 => obtain ⟨_, _, _, hf, _⟩ := unfoldE_nd h v1; omega
    | inf =>
      cases c2 with
      | nd h2 => obtain ⟨_, _, _, hf, _⟩ := unfoldE_nd h v2; omega
      | inf => intro _; rfl
      | omega => intro e; simp at e
    | omega =>
      cases c2 with
      | nd h2 => obtain ⟨_, _, _, hf, _⟩ := unfoldE_nd h v2; omega
      | inf => intro e; simp at e
      | omega => intro _; rfl
  | succ g ih =>
    cases c1 with
    | inf =>
      cases c2 with
      | inf => intro _; rfl
      | omega => intro e; simp at e
      | nd h2 =>
        obtain ⟨_, _, _, _, _, _, hu⟩ := unfoldE_nd h v2
        rw [hu, unfoldE_inf]
        intro e; cases e
    | omega =>
      cases c2 with
      | inf => intro e; simp at e
      | omega => intro _; rfl
      | nd h2 =>
        obtain ⟨_, _, _, _, _, _, hu⟩ := unfoldE_nd h v2
        rw [hu, unfoldE_omega]
        intro e; cases e
    | nd h1 =>
      obtain ⟨m1, g1, hm1, hf1, _, hc1, hu1⟩ := unfoldE_nd h v1
      cases c2 with
      | inf => rw [hu1, unfoldE_inf]; intro e; cases e
      | omega => rw [hu1, unfoldE_omega]; intro e; cases e
      | nd h2 =>
        obtain ⟨m2, g2, hm2, hf2, _, hc2, hu2⟩ := unfoldE_nd h v2
        have e1 : g1 = g := by omega
        have e2 : g2 = g := by omega
        subst e1; subst e2
        rw [hu1, hu2]
        intro e
        simp only [EDD.node.injEq] at e
        have hdown : m1.down = m2.down :=
          map_pair_inj_on _ _ _ (fun a ha b hb => ih a.2 b.2 (hc1 a ha) (hc2 b hb)) e.2
        have hm : m1 = m2 :=
          distinctOK_unique (storeOK_distinct h) (find_some hm1).1 (find_some hm2).1 e.1 hdown
        have := (find_some hm1).2
        have := (find_some hm2).2
        subst hm
        congr 1
        omega

/-- unfolding is injective on valid root edges -/
theorem unfoldEdge_inj (D : EDump) (h : D.storeOK = true) (r1 r2 : Int × EChild) (f : Nat)
    (v1 : D.childOK f r1.2 = true) (v2 : D.childOK f r2.2 = true) :
    D.unfoldEdge f r1 = D.unfoldEdge f r2 → r1 = r2 := by
  intro e
  simp only [unfoldEdge, Prod.mk.injEq] at e
  exact Prod.ext e.1 (unfold_inj D h r1.2 r2.2 f v1 v2 e.2)

/-! ## The dump-level predicates coincide with the tree predicates on the unfolding -/

/-- the map applied to entries by `unfoldE` -/
abbrev U (D : EDump) (g : Nat) (e : Int × EChild) : Int × EDD := (e.1, D.unfoldE g e.2)

theorem U_dflt (D : EDump) (g : Nat) : U D g dfltC = EDD.dflt := by
  simp [U]

theorem getD_map_U (D : EDump) (g : Nat) (cs : List (Int × EChild)) (j : Nat) :
    (cs.map (U D g)).getD j EDD.dflt = U D g (cs.getD j dfltC) := by
  simp only [List.getD_eq_getElem?_getD, List.getElem?_map]
  cases cs[j]? with
  | none => simp
  | some e => simp

theorem childOK_getD {D : EDump} {g : Nat} {cs : List (Int × EChild)}
    (hc : ∀ e ∈ cs, D.childOK g e.2 = true) (j : Nat) :
    D.childOK g (cs.getD j dfltC).2 = true := by
  rw [List.getD_eq_getElem?_getD]
  cases e : cs[j]? with
  | none => rfl
  | some c => exact hc c (List.mem_of_getElem? e)

theorem all_congr_mem {β : Type} {p q : β → Bool} : ∀ (l : List β),
    (∀ x ∈ l, p x = q x) → l.all p = l.all q
  | [], _ => rfl
  | x :: l, h => by
    simp only [List.all_cons, h x (List.mem_cons_self ..),
      all_congr_mem l (fun y hy => h y (List.mem_cons_of_mem _ hy))]

theorem any_congr_mem {β : Type} {p q : β → Bool} : ∀ (l : List β),
    (∀ x ∈ l, p x = q x) → l.any p = l.any q
  | [], _ => rfl
  | x :: l, h => by
    simp only [List.any_cons, h x (List.mem_cons_self ..),
      any_congr_mem l (fun y hy => h y (List.mem_cons_of_mem _ hy))]

theorem U_beq_U {D : EDump} (hs : D.storeOK = true) {g : Nat} {e e' : Int × EChild}
    (v : D.childOK g e.2 = true) (v' : D.childOK g e'.2 = true) :
    (U D g e == U D g e') = (e == e') := by
  rw [Bool.eq_iff_iff, beq_iff_eq, beq_iff_eq]
  constructor
  · intro h
    simp only [U, Prod.mk.injEq] at h
    exact Prod.ext h.1 (unfold_inj D hs e.2 e'.2 g v v' h.2)
  · intro h; rw [h]

theorem evSingleton_map {D : EDump} (hs : D.storeOK = true) {g : Nat}
    {cs : List (Int × EChild)} (hc : ∀ e ∈ cs, D.childOK g e.2 = true) (i : Nat) :
    evSingleton EDD.isInf EDD.dflt i (cs.map (U D g)) = evSingleton isInfC dfltC i cs := by
  have hi : ∀ j, EDD.isInf ((cs.map (U D g)).getD j EDD.dflt).2 = isInfC (cs.getD j dfltC).2 := by
    intro j
    rw [getD_map_U]
    exact isInf_unfoldE hs (childOK_getD hc j)
  simp only [evSingleton, List.length_map, hi]

theorem evAnySingleton_map {D : EDump} (hs : D.storeOK = true) {g : Nat}
    {cs : List (Int × EChild)} (hc : ∀ e ∈ cs, D.childOK g e.2 = true) :
    evAnySingleton EDD.isInf EDD.dflt (cs.map (U D g)) = evAnySingleton isInfC dfltC cs := by
  simp only [evAnySingleton, List.length_map, evSingleton_map hs hc]

/-- the node-local test on the record coincides with the test on the unfolded entries -/
theorem evLocalOK_map {D : EDump} (hs : D.storeOK = true) {g : Nat}
    (cs : List (Int × EChild)) (hc : ∀ e ∈ cs, D.childOK g e.2 = true) (sz : Nat) (red : Bool) :
    evLocalOK EDD.isInf EDD.dflt sz red (cs.map (U D g)) = evLocalOK isInfC dfltC sz red cs := by
  have h1 : (cs.map (U D g)).all
        (fun e => if EDD.isInf e.2 then e.1 == 0 else decide (0 ≤ e.1)) =
      cs.all (fun e => if isInfC e.2 then e.1 == 0 else decide (0 ≤ e.1)) := by
    rw [List.all_map]
    apply all_congr_mem
    intro e he
    simp only [Function.comp, isInf_unfoldE hs (hc e he)]
  have h2 : (cs.map (U D g)).any (fun e => !EDD.isInf e.2 && e.1 == 0) =
      cs.any (fun e => !isInfC e.2 && e.1 == 0) := by
    rw [List.any_map]
    apply any_congr_mem
    intro e he
    simp only [Function.comp, isInf_unfoldE hs (hc e he)]
  have h3 : (cs.map (U D g)).all (fun e => e == (cs.map (U D g)).headD EDD.dflt) =
      cs.all (fun e => e == cs.headD dfltC) := by
    cases cs with
    | nil => rfl
    | cons e0 cs =>
      simp only [List.map_cons, List.headD_cons]
      rw [← List.map_cons, List.all_map]
      apply all_congr_mem
      intro e he
      exact U_beq_U hs (hc e he) (hc e0 (List.mem_cons_self ..))
  simp only [evLocalOK, List.length_map, h1, h2, h3]

theorem isNodeAt_unfoldE {D : EDump} (hs : D.storeOK = true) {f : Nat} {c : EChild}
    (v : D.childOK f c = true) (p : Nat) :
    EDD.isNodeAt p (D.unfoldE f c) = D.isNodeAtC p c := by
  cases c with
  | inf => simp [EDD.isNodeAt, isNodeAtC]
  | omega => simp [EDD.isNodeAt, isNodeAtC]
  | nd h =>
    obtain ⟨m, g, hm, _, _, _, hu⟩ := unfoldE_nd hs v
    simp only [hu, EDD.isNodeAt, isNodeAtC, hm]

theorem isSingleton_unfoldE {D : EDump} (hs : D.storeOK = true) {f : Nat}
    {c : EChild} (v : D.childOK f c = true) (p i : Nat) :
    EDD.isSingleton p i (D.unfoldE f c) = isSingletonC D p i c := by
  cases c with
  | inf => simp [EDD.isSingleton, isSingletonC]
  | omega => simp [EDD.isSingleton, isSingletonC]
  | nd h =>
    obtain ⟨m, g, hm, _, _, hc, hu⟩ := unfoldE_nd hs v
    rw [hu]
    simp only [EDD.isSingleton, isSingletonC, hm]
    rw [evSingleton_map hs hc]

theorem isAnySingleton_unfoldE {D : EDump} (hs : D.storeOK = true) {f : Nat}
    {c : EChild} (v : D.childOK f c = true) (p : Nat) :
    EDD.isAnySingleton p (D.unfoldE f c) = isAnySingletonC D p c := by
  cases c with
  | inf => simp [EDD.isAnySingleton, isAnySingletonC]
  | omega => simp [EDD.isAnySingleton, isAnySingletonC]
  | nd h =>
    obtain ⟨m, g, hm, _, _, hc, hu⟩ := unfoldE_nd hs v
    rw [hu]
    simp only [EDD.isAnySingleton, isAnySingletonC, hm]
    rw [evAnySingleton_map hs hc]

theorem unfoldE_beq_inf {D : EDump} (hs : D.storeOK = true) {f : Nat} {c : EChild}
    (v : D.childOK f c = true) : (D.unfoldE f c == .inf) = (c == .inf) := by
  rw [Bool.eq_iff_iff, beq_iff_eq, beq_iff_eq]
  exact unfoldE_eq_inf hs v

theorem edgeOK_unfoldE {D : EDump} (S : Shape) (hs : D.storeOK = true) {f : Nat}
    {c : EChild} (v : D.childOK f c = true) (k : Nat) (fi : Option Nat) :
    EDD.edgeOK S k fi (D.unfoldE f c) = edgeOKC S D k fi c := by
  unfold EDD.edgeOK edgeOKC
  cases S.mode k with
  | red => rfl
  | none =>
    simp only [isNodeAt_unfoldE hs v, unfoldE_beq_inf hs v]
  | ident =>
    cases fi with
    | none => simp only [isAnySingleton_unfoldE hs v]
    | some i => simp only [isSingleton_unfoldE hs v]

theorem getD_cons_succ' (c : Int × EChild) (cs : List (Int × EChild)) (j : Nat)
    (d : Int × EChild) : (c :: cs).getD (j+1) d = cs.getD j d := by
  simp [List.getD_eq_getElem?_getD]

theorem edgesChk_getD (S : Shape) (D : EDump) (k : Nat) :
    ∀ (cs : List (Int × EChild)) (i0 : Nat), edgesChk S D k i0 cs = true →
      ∀ j, j < cs.length → edgeChk S D k (some (i0 + j)) (cs.getD j dfltC).2 = true
  | [], _, _, j, hj => by cases hj
  | c :: cs, i0, h, j, hj => by
    simp only [edgesChk, Bool.and_eq_true] at h
    cases j with
    | zero => simpa using h.1
    | succ j =>
      rw [getD_cons_succ']
      have := edgesChk_getD S D k cs (i0+1) h.2 j (by simpa using hj)
      have e : i0 + (j+1) = i0 + 1 + j := by omega
      rw [e]; exact this

/-! ## Soundness -/

theorem allNodeOK_find {S : Shape} {D : EDump}
    (hn : D.all (nodeOK S D) = true) {h : Nat} {m : ENode} (e : D.find h = some m) :
    nodeOK S D m = true :=
  List.all_eq_true.1 hn m (find_some e).1

/-- main lemma: the edge check (plus the node checks of everything stored) gives `Red` of
    the unfolding, for every edge entering position `k` -/
theorem red_of_edgeChk (S : Shape) {D : EDump} (hs : D.storeOK = true)
    (hn : D.all (nodeOK S D) = true) :
    ∀ (k : Nat) (fi : Option Nat) (c : EChild) (f : Nat),
      D.childOK k c = true → k ≤ f → edgeChk S D k fi c = true →
      EDD.Red S k fi (D.unfoldE f c) = true := by
  intro k
  induction k with
  | zero =>
    intro fi c f v _ _
    cases c with
    | inf => simp [EDD.Red]
    | omega => simp [EDD.Red]
    | nd h => obtain ⟨_, _, _, hf, _⟩ := unfoldE_nd hs v; omega
  | succ k ih =>
    intro fi c f v hle hchk
    simp only [edgeChk, Bool.and_eq_true] at hchk
    obtain ⟨he, hrest⟩ := hchk
    have v' : D.childOK f c = true := childOK_mono v hle
    have heo : EDD.edgeOK S (k+1) fi (D.unfoldE f c) = true := by
      rw [edgeOK_unfoldE S hs v']; exact he
    cases c with
    | inf =>
      rw [unfoldE_inf] at heo ⊢
      simp only [EDD.Red, heo, Bool.true_and]
      have hr : edgeChk S D k none .inf = true := by simpa [cpos] using hrest
      have := ih none .inf f rfl (by omega) hr
      simpa using this
    | omega =>
      rw [unfoldE_omega] at heo ⊢
      simp only [EDD.Red, heo, Bool.true_and]
      have hr : edgeChk S D k none .omega = true := by simpa [cpos] using hrest
      have := ih none .omega f rfl (by omega) hr
      simpa using this
    | nd h =>
      obtain ⟨m, hm, hpk⟩ := childOK_nd v
      obtain ⟨m2, g, hm2, hf, _, hc, hu⟩ := unfoldE_nd hs v'
      rw [hm] at hm2
      cases hm2
      rw [hu] at heo
      have hcp : D.cpos (.nd h) = m.pos := by simp [cpos, hm]
      rw [hcp] at hrest
      by_cases hpe : m.pos = k+1
      · rw [hu]
        simp only [EDD.Red, heo, Bool.true_and, if_pos hpe]
        have hnm := allNodeOK_find hn hm
        simp only [nodeOK, Bool.and_eq_true] at hnm
        obtain ⟨⟨_, h2⟩, h5⟩ := hnm
        simp only [Bool.and_eq_true]
        refine ⟨?_, ?_⟩
        · have := evLocalOK_map hs m.down hc (S.size m.pos) (S.mode m.pos == .red)
          rw [hpe] at this
          rw [this, ← hpe]; exact h2
        · rw [List.all_eq_true]
          intro i hi
          rw [List.mem_range, List.length_map] at hi
          have hgd := getD_map_U D g m.down i
          simp only [U] at hgd
          rw [hgd]
          have hck : ∀ e ∈ m.down, D.childOK k e.2 = true := by
            intro e hem
            have := (storeOK_find hs hm).2 e hem
            rw [hpe] at this
            exact this
          apply ih (some i) _ g (childOK_getD hck i) (by omega)
          have := edgesChk_getD S D (m.pos - 1) m.down 0 h5 i hi
          rw [hpe, Nat.zero_add] at this
          exact this
      · have hlt : m.pos < k+1 := by omega
        have hr : edgeChk S D k none (.nd h) = true := by simpa [hpe] using hrest
        have hv : D.childOK k (.nd h) = true := by
          simp only [childOK, hm, decide_eq_true_eq]; omega
        have := ih none (.nd h) f hv (by omega) hr
        rw [hu] at this ⊢
        simp only [EDD.Red, heo, Bool.true_and, if_neg hpe, if_pos hlt]
        exact this

/-- soundness of the certificate checker: every root edge unfolds to a reduced edge -/
theorem check_sound (S : Shape) (D : EDump) (roots : List (Int × EChild))
    (h : EDump.check S D roots = true) :
    ∀ r ∈ roots, EDD.RedEdge S S.top none (D.unfoldEdge S.top r) = true := by
  simp only [check, Bool.and_eq_true] at h
  obtain ⟨⟨hs, hn⟩, hr⟩ := h
  intro r hrm
  have := List.all_eq_true.1 hr r hrm
  simp only [rootOK, Bool.and_eq_true] at this
  obtain ⟨⟨hv, hchk⟩, hval⟩ := this
  simp only [EDD.RedEdge, unfoldEdge, Bool.and_eq_true]
  refine ⟨red_of_edgeChk S hs hn S.top none r.2 S.top hv (Nat.le_refl _) hchk, ?_⟩
  rw [isInf_unfoldE hs hv]; exact hval

/-- every stored node of a checked dump unfolds to a reduced target when entered with `fi`
    at its own position, provided the arriving edge is legal -/
theorem check_sound_node (S : Shape) (D : EDump) (roots : List (Int × EChild))
    (h : EDump.check S D roots = true) (n : ENode) (hmem : n ∈ D) (fi : Option Nat)
    (he : edgeOKC S D n.pos fi (.nd n.handle) = true) :
    EDD.Red S n.pos fi (D.unfoldE n.pos (.nd n.handle)) = true := by
  simp only [check, Bool.and_eq_true] at h
  obtain ⟨⟨hs, hn⟩, _⟩ := h
  have hfind := distinctOK_find (storeOK_distinct hs) hmem
  have hp := (storeOK_node hs hmem).2.1
  have v : D.childOK n.pos (.nd n.handle) = true := by
    simp only [childOK, hfind, decide_eq_true_eq]; omega
  apply red_of_edgeChk S hs hn n.pos fi _ n.pos v (Nat.le_refl _)
  obtain ⟨k, hk⟩ : ∃ k, n.pos = k+1 := ⟨n.pos - 1, by omega⟩
  rw [hk] at he ⊢
  simp only [edgeChk, he, Bool.true_and]
  simp [cpos, hfind, hk]

/-- two checked root edges with the same denotation are the same edge of the dump:
    canonicity transported to the shared representation -/
theorem check_canon (S : Shape) (hS : S.WF) (D : EDump) (roots : List (Int × EChild))
    (h : EDump.check S D roots = true) (r1 r2 : Int × EChild)
    (h1 : r1 ∈ roots) (h2 : r2 ∈ roots)
    (heq : ∀ a, Assign.Valid S a →
      EDD.evalEdge S S.top (D.unfoldEdge S.top r1) a =
      EDD.evalEdge S S.top (D.unfoldEdge S.top r2) a) : r1 = r2 := by
  have hred := check_sound S D roots h
  have := (EDD.canon S hS _ _ (hred r1 h1) (hred r2 h2)).mp heq
  simp only [check, Bool.and_eq_true] at h
  obtain ⟨⟨hs, _⟩, hr⟩ := h
  have hv1 := List.all_eq_true.1 hr r1 h1
  have hv2 := List.all_eq_true.1 hr r2 h2
  simp only [rootOK, Bool.and_eq_true] at hv1 hv2
  exact unfoldEdge_inj D hs r1 r2 S.top hv1.1.1 hv2.1.1 this

/-! ## Fast evaluation -/

theorem evalFastAux_eq (S : Shape) (D : EDump) (a : Assign) :
    ∀ (k : Nat) (c : EChild) (f : Nat), k ≤ f →
      evalFastAux S D k c a = EDD.eval S k (D.unfoldE f c) a := by
  intro k
  induction k with
  | zero =>
    intro c f _
    cases c with
    | inf => simp [evalFastAux, EDD.eval]
    | omega => simp [evalFastAux, EDD.eval]
    | nd h =>
      cases f with
      | zero => simp [evalFastAux, unfoldE, EDD.eval]
      | succ g =>
        cases hm : D.find h with
        | none => simp [evalFastAux, unfoldE, hm, EDD.eval]
        | some m => simp [evalFastAux, unfoldE, hm, EDD.eval]
  | succ k ih =>
    intro c f hle
    cases c with
    | inf =>
      have := ih .inf f (by omega)
      rw [unfoldE_inf] at this ⊢
      simp only [evalFastAux, EDD.eval, this]
    | omega =>
      have := ih .omega f (by omega)
      rw [unfoldE_omega] at this ⊢
      simp only [evalFastAux, EDD.eval, this]
    | nd h =>
      obtain ⟨g, hg⟩ : ∃ g, f = g+1 := ⟨f - 1, by omega⟩
      subst hg
      cases hm : D.find h with
      | none =>
        have := ih .inf (g+1) (by omega)
        rw [unfoldE_inf] at this
        simp only [evalFastAux, unfoldE, hm, EDD.eval, this]
      | some m =>
        have h1 := ih (.nd h) (g+1) (by omega)
        have h2 := ih (m.down.getD (a (k+1)) dfltC).2 g (by omega)
        have hgd := getD_map_U D g m.down (a (k+1))
        simp only [U] at hgd
        rw [unfoldE_nd_succ g hm] at h1 ⊢
        simp only [evalFastAux, hm, EDD.eval, hgd, h1, h2]

/-- the dump walk computes the denotation of the unfolded root edge -/
theorem evalFast_eq (S : Shape) (D : EDump) (r : Int × EChild) (a : Assign) :
    evalFast S D r a = EDD.evalEdge S S.top (D.unfoldEdge S.top r) a := by
  unfold evalFast EDD.evalEdge unfoldEdge
  rw [evalFastAux_eq S D a S.top r.2 S.top (Nat.le_refl _)]

end EDump

/-! ## Non-vacuity: concrete trees, `mkNodeEV`, dumps -/

namespace EVExamples
open EDD EDump

/-- three positions, all fully reduced, sizes 2, 3, 2 (positions 1, 2, 3) -/
abbrev S1 : Shape := CanonExamples.SA
/-- identity-reduced relation over two variables: positions 4, 2 unprimed (`red`),
    positions 3, 1 primed (`ident`); all sizes 2 -/
abbrev S2 : Shape := CanonExamples.SB
/-- quasi-reduced, two positions of size 2 -/
abbrev S3 : Shape := CanonExamples.SC

/-! ### trees -/

def xT : EDD := .node 1 [(0, .omega), (2, .omega)]
def yT : EDD := .node 1 [(3, .omega), (0, .omega)]
def mT : EDD := .node 2 [(0, xT), (1, yT), (0, .inf)]
/-- child 1 skips position 2 -/
def tT : EDD := .node 3 [(0, mT), (5, xT)]

example : RedEdge S1 3 none (7, tT) = true := by decide
example : RedEdge S1 3 none (-4, tT) = true := by decide
example : RedEdge S1 3 none (0, .inf) = true := by decide
example : RedEdge S1 3 none (3, .inf) = false := by decide
-- x3 = 1 (value 5, skips position 2), x1 = 1 (value 2): 7 + 5 + 2
example : evalEdge S1 3 (7, tT) (fun _ => 1) = some 14 := by decide
-- x3 = 0, x2 = 2: the transparent terminal
example : evalEdge S1 3 (7, tT) (fun p => if p = 2 then 2 else 0) = none := by decide
-- the minimum 7 is attained at x3 = 0, x2 = 0, x1 = 0
example : evalEdge S1 3 (7, tT) (fun _ => 0) = some 7 := by decide
/-- by canonicity two different reduced edges denote different functions -/
example : ¬ ∀ a, Assign.Valid S1 a → evalEdge S1 3 (7, tT) a = evalEdge S1 3 (7, mT) a := by
  intro h
  have := (EDD.canon S1 CanonExamples.SA_WF (7, tT) (7, mT) (by decide) (by decide)).mp h
  exact absurd this (by decide)

/-! ### `mkNodeEV` -/

-- the minimum is pushed to the incoming edge
example : mkNodeEV S1 1 none [(5, .omega), (7, .omega)] = (5, xT) := by decide
-- ∞-entries get value 0 and do not take part in the minimum
example : mkNodeEV S1 1 none [(9, .inf), (7, .omega)] = (7, .node 1 [(0, .inf), (0, .omega)]) := by
  decide
-- redundant (all children equal and all values equal): eliminated
example : mkNodeEV S1 1 none [(5, .omega), (5, .omega)] = (5, .omega) := by decide
-- equal children but different values: stored
example : mkNodeEV S1 1 none [(5, .omega), (6, .omega)] =
    (5, .node 1 [(0, .omega), (1, .omega)]) := by decide
-- all ∞: the transparent terminal, value 0
example : mkNodeEV S1 1 none [(5, .inf), (6, .inf)] = (0, .inf) := by decide
-- identity pattern at a primed position, arriving through the matching index: eliminated
example : mkNodeEV S2 1 (some 1) [(4, .inf), (6, .omega)] = (6, .omega) := by decide
-- not the matching index: stored
example : mkNodeEV S2 1 (some 0) [(4, .inf), (6, .omega)] =
    (6, .node 1 [(0, .inf), (0, .omega)]) := by decide
-- quasi-reduced: redundant nodes are stored
example : mkNodeEV S3 1 none [(5, .omega), (5, .omega)] =
    (5, .node 1 [(0, .omega), (0, .omega)]) := by decide

/-! ### (a) a fully-reduced EV+ dump with sharing and non-zero edge values -/

/-- six nodes; node 1 has parents 3, 4 (twice, with different edge values) and 6, node 3 has
    parents 5 and 6; node 6 skips position 2 on its entry 0; node 3 has an ∞-entry -/
def D1 : EDump :=
  [ ⟨1, 1, [(0, .omega), (2, .omega)]⟩,
    ⟨2, 1, [(3, .omega), (0, .omega)]⟩,
    ⟨3, 2, [(0, .nd 1), (1, .nd 2), (0, .inf)]⟩,
    ⟨4, 2, [(0, .nd 1), (4, .nd 1), (0, .nd 2)]⟩,
    ⟨5, 3, [(0, .nd 3), (2, .nd 4)]⟩,
    ⟨6, 3, [(5, .nd 1), (0, .nd 3)]⟩ ]

def roots1 : List (Int × EChild) :=
  [(7, .nd 5), (-3, .nd 6), (1, .nd 1), (0, .nd 4), (4, .omega), (0, .inf)]

example : EDump.check S1 D1 roots1 = true := by decide

example : ∀ r ∈ roots1, RedEdge S1 S1.top none (D1.unfoldEdge S1.top r) = true :=
  EDump.check_sound S1 D1 _ (by decide)

example : D1.unfoldEdge 3 (-3, .nd 6) =
    (-3, .node 3 [(5, .node 1 [(0, .omega), (2, .omega)]),
                  (0, .node 2 [(0, .node 1 [(0, .omega), (2, .omega)]),
                               (1, .node 1 [(3, .omega), (0, .omega)]), (0, .inf)])]) := by
  decide

-- x3 = 1, x2 = 1, x1 = 0  ↦  -3 + 0 (node 6) + 1 (node 3) + 3 (node 2)
example : EDump.evalFast S1 D1 (-3, .nd 6) (fun p => if p = 1 then 0 else 1) = some 1 := by decide
example : evalEdge S1 3 (D1.unfoldEdge 3 (-3, .nd 6)) (fun p => if p = 1 then 0 else 1) = some 1 := by
  decide
-- x3 = 0 skips position 2: -3 + 5 + 2
example : EDump.evalFast S1 D1 (-3, .nd 6) (fun p => if p = 1 then 1 else 0) = some 4 := by decide
-- x3 = 1, x2 = 2: the ∞-entry of node 3
example : EDump.evalFast S1 D1 (-3, .nd 6) (fun p => if p = 2 then 2 else 1) = none := by decide

/-! ### (b) an identity-reduced relation with skipped `ident` positions -/

/-- node 1 is the 1-singleton at the `ident` position 1, legal because it is entered through
    index 0 of node 2; node 6 is the 1-singleton at the `ident` position 3, legal because it
    is entered through index 0 of node 7; entry 1 of node 2 (`omega`, value 3) and entry 0 of
    node 3 skip the `ident` position 1; entry 1 of nodes 5 and 7 skips the `ident` position 3.
    Node 2 has parents 4 and 6, node 3 has parents 4, 5 and 7. -/
def D2 : EDump :=
  [ ⟨1, 1, [(0, .inf), (0, .omega)]⟩,
    ⟨2, 2, [(0, .nd 1), (3, .omega)]⟩,
    ⟨3, 2, [(0, .omega), (0, .inf)]⟩,
    ⟨4, 3, [(1, .nd 2), (0, .nd 3)]⟩,
    ⟨6, 3, [(0, .inf), (0, .nd 2)]⟩,
    ⟨5, 4, [(0, .nd 4), (2, .nd 3)]⟩,
    ⟨7, 4, [(0, .nd 6), (1, .nd 3)]⟩ ]

def roots2 : List (Int × EChild) :=
  [(10, .nd 5), (0, .nd 7), (2, .nd 3), (5, .omega), (0, .inf)]

example : EDump.check S2 D2 roots2 = true := by decide

example : ∀ r ∈ roots2, RedEdge S2 S2.top none (D2.unfoldEdge S2.top r) = true :=
  EDump.check_sound S2 D2 _ (by decide)

-- the root `(5, omega)` is "5 on the identity relation, ∞ elsewhere": every position skipped
example : EDump.evalFast S2 D2 (5, .omega) (fun p => if p ≤ 2 then 1 else 0) = some 5 := by decide
example : EDump.evalFast S2 D2 (5, .omega) (fun p => if p = 3 then 1 else 0) = none := by decide
-- x2 = 1 (pos 4, value 2), x2' skipped (pos 3, must equal 1), x1 = 0 (pos 2), x1' skipped
example : EDump.evalFast S2 D2 (10, .nd 5) (fun p => if p ≥ 3 then 1 else 0) = some 12 := by decide
example : EDump.evalFast S2 D2 (10, .nd 5) (fun p => if p = 4 then 1 else 0) = none := by decide
-- x2 = 0, x2' = 0 (value 1), x1 = 1 (value 3), x1' skipped (must equal 1)
example : EDump.evalFast S2 D2 (10, .nd 5) (fun p => if p ≤ 2 then 1 else 0) = some 14 := by decide
example : EDump.evalFast S2 D2 (10, .nd 5) (fun p => if p = 2 then 1 else 0) = none := by decide

/-- two checked roots with the same denotation are the same root edge -/
example (r1 r2 : Int × EChild) (h1 : r1 ∈ roots2) (h2 : r2 ∈ roots2)
    (h : ∀ a, Assign.Valid S2 a →
      evalEdge S2 S2.top (D2.unfoldEdge S2.top r1) a = evalEdge S2 S2.top (D2.unfoldEdge S2.top r2) a) :
    r1 = r2 :=
  EDump.check_canon S2 CanonExamples.SB_WF D2 roots2 (by decide) r1 r2 h1 h2 h

/-! ### rejected dumps -/

/-- minimum edge value ≠ 0 -/
def Bmin : EDump := [ ⟨1, 1, [(1, .omega), (2, .omega)]⟩ ]
example : Bmin.storeOK = true := by decide
example : nodeOK S1 Bmin ⟨1, 1, [(1, .omega), (2, .omega)]⟩ = false := by decide
example : EDump.check S1 Bmin [(0, .nd 1)] = false := by decide

/-- a negative edge value (the minimum is not 0) -/
def Bneg : EDump := [ ⟨1, 1, [(-1, .omega), (0, .omega)]⟩ ]
example : EDump.check S1 Bneg [(0, .nd 1)] = false := by decide

/-- ∞-child with a non-zero edge value -/
def Binf : EDump := [ ⟨1, 1, [(3, .inf), (0, .omega)]⟩ ]
example : Binf.storeOK = true := by decide
example : EDump.check S1 Binf [(0, .nd 1)] = false := by decide
example : EDump.check S1 [ ⟨1, 1, [(0, .inf), (0, .omega)]⟩ ] [(0, .nd 1)] = true := by decide

/-- all-∞ node (it is the transparent terminal) -/
def Ball : EDump := [ ⟨1, 1, [(0, .inf), (0, .inf)]⟩ ]
example : EDump.check S1 Ball [(0, .nd 1)] = false := by decide

/-- redundant node stored at a `red` position -/
def Bred : EDump := [ ⟨1, 1, [(0, .omega), (0, .omega)]⟩, ⟨2, 2, [(0, .nd 1), (0, .inf), (1, .omega)]⟩ ]
example : Bred.storeOK = true := by decide
example : nodeOK S1 Bred ⟨1, 1, [(0, .omega), (0, .omega)]⟩ = false := by decide
example : EDump.check S1 Bred [(0, .nd 2)] = false := by decide
-- equal children with different values are NOT redundant
example : EDump.check S1 [ ⟨1, 1, [(0, .omega), (1, .omega)]⟩ ] [(0, .nd 1)] = true := by decide
-- redundancy of shared children is detected on handles, without unfolding
def Bred2 : EDump := [ ⟨1, 1, [(0, .omega), (1, .omega)]⟩, ⟨2, 2, [(0, .nd 1), (0, .nd 1), (0, .nd 1)]⟩ ]
example : Bred2.storeOK = true := by decide
example : EDump.check S1 Bred2 [(0, .nd 2)] = false := by decide

/-- duplicate content: nodes 1 and 2 have the same `(pos, down)` -/
def Bdup : EDump :=
  [ ⟨1, 1, [(0, .omega), (1, .omega)]⟩, ⟨2, 1, [(0, .omega), (1, .omega)]⟩,
    ⟨3, 2, [(0, .nd 1), (2, .nd 2), (0, .inf)]⟩ ]
example : Bdup.storeOK = false := by decide
example : Bdup.all (nodeOK S1 Bdup) = true := by decide
example : EDump.check S1 Bdup [(0, .nd 3)] = false := by decide

/-- duplicate handle -/
def Bhandle : EDump := [ ⟨1, 1, [(0, .omega), (1, .omega)]⟩, ⟨1, 1, [(1, .omega), (0, .omega)]⟩ ]
example : EDump.check S1 Bhandle [(0, .nd 1)] = false := by decide

/-- a child that does not point strictly downwards -/
def Bup : EDump := [ ⟨1, 1, [(0, .omega), (0, .nd 2)]⟩, ⟨2, 1, [(1, .omega), (0, .omega)]⟩ ]
example : EDump.check S1 Bup [(0, .nd 1)] = false := by decide

/-- a root edge to the transparent terminal must carry 0 -/
example : EDump.check S1 D1 [(3, .inf)] = false := by decide

/-- illegal singleton: node 1 is the 1-singleton at the `ident` position 1 and is entered
    through index 1 of node 2 -/
def Bsing : EDump := [ ⟨1, 1, [(0, .inf), (0, .omega)]⟩, ⟨2, 2, [(0, .inf), (0, .nd 1)]⟩ ]
example : Bsing.storeOK = true := by decide
example : nodeOK S2 Bsing ⟨1, 1, [(0, .inf), (0, .omega)]⟩ = true := by decide
example : nodeOK S2 Bsing ⟨2, 2, [(0, .inf), (0, .nd 1)]⟩ = false := by decide
example : EDump.check S2 Bsing [(0, .nd 2)] = false := by decide

/-- quasi-reduced: a legal dump (redundant nodes are stored), and an illegal skip -/
def D3 : EDump := [ ⟨1, 1, [(0, .omega), (0, .omega)]⟩, ⟨2, 2, [(0, .nd 1), (0, .inf)]⟩ ]
example : EDump.check S3 D3 [(4, .nd 2), (0, .inf)] = true := by decide
def Bquasi : EDump := [ ⟨1, 1, [(0, .omega), (0, .omega)]⟩, ⟨2, 2, [(0, .omega), (1, .nd 1)]⟩ ]
example : EDump.check S3 Bquasi [(0, .nd 2)] = false := by decide
example : EDump.check S3 D3 [(0, .nd 1)] = false := by decide

end EVExamples

#print axioms EDD.canon
#print axioms EDD.canon_gen
#print axioms EDD.edge_value_is_min
#print axioms EDD.mkNodeEV_eval
#print axioms EDD.mkNodeEV_red
#print axioms EDump.check_sound
#print axioms EDump.unfold_inj
#print axioms EDump.check_canon
#print axioms EDump.evalFast_eq
/- Output (Lean 4.33.0):
'Meddly.EDD.canon' depends on axioms: [propext, Classical.choice, Quot.sound]
'Meddly.EDD.canon_gen' depends on axioms: [propext, Classical.choice, Quot.sound]
'Meddly.EDD.edge_value_is_min' depends on axioms: [propext, Classical.choice, Quot.sound]
'Meddly.EDD.mkNodeEV_eval' depends on axioms: [propext, Classical.choice, Quot.sound]
'Meddly.EDD.mkNodeEV_red' depends on axioms: [propext, Classical.choice, Quot.sound]
'Meddly.EDump.check_sound' depends on axioms: [propext, Classical.choice, Quot.sound]
'Meddly.EDump.unfold_inj' depends on axioms: [propext, Classical.choice, Quot.sound]
'Meddly.EDump.check_canon' depends on axioms: [propext, Classical.choice, Quot.sound]
'Meddly.EDump.evalFast_eq' depends on axioms: [propext, Quot.sound]
-/

end Meddly
