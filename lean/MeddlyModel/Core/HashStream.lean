/-
  Exact model of `MEDDLY::hash_stream` (src/hash_stream.h) and of the three
  places that feed it with the contents of a decision-diagram node:

    * `unpacked_node::computeHash`      (src/unpacked_node.cc)   full and sparse unpacked nodes
    * `simple_separated::hashNode`      (src/storage/simple.cc)  full- and sparse-STORED nodes

  What the C++ hashes (found by reading the sources):

    * Both sites do `hash_stream s; s.start(0);`  -- the initial word is the
      constant 0.  NEITHER the level NOR the node size NOR the storage kind
      (full/sparse) is part of the stream (`hashNode(int level, addr)` ignores
      `level`).  Levels are separated one step later: `unique_table` has one
      `subtable` per variable.
    * Then the "extra hashed header" words (`extra_hashed` / the slots at
      `hashed_start`) are pushed one `unsigned` at a time with
      `push(const void*, bytes)`  (only extensible/marked forests have any).
    * Then, in ASCENDING index order, for every non-transparent entry `i`:
      `s.push(i, unsigned(down i))`  (the two-argument push), followed -- only
      if `forest::areEdgeValuesHashed()` -- by the raw storage words of the
      edge value pushed ONE AT A TIME (`edge_value::hash` does
      `h.push(&ev_int, sizeof(int))`, `h.push(&ev_long, sizeof(long))`, ...;
      `hashNode` does `s.push(edge + i*slots_per_edge, edge_bytes)`):
      one word for `int`/`float`, two words (low word first on the little-endian
      targets MEDDLY runs on) for `long`/`double`.
    * Transparency test: the UNPACKED full node skips `i` iff
      `isTransparentEdge(ev i, down i)` (= `down i == tv && ev i == te`) when
      edge values are hashed, `down i == tv` otherwise; the PACKED full node
      always skips iff `down[i] == tv`.  They agree iff no edge has
      `down = tv` with a non-transparent value (`Params.Canon`); see
      `hashNodeFull_disagrees_without_canon`.
    * `s.finish()` = `final_mix(); return z[0]`.

  The three-argument `push(a,b,c)` is not used by the current node hashing
  code (older versions pushed `(index, down, edgevalue)` with it); it is
  modelled and related to single pushes as well.
-/

namespace Meddly
namespace HashStream

/-! ## The stream state -/

/-- the `int slot` field; the C++ only ever holds 0..3 in it -/
inductive Slot where
  | s0 | s1 | s2 | s3
  deriving DecidableEq, Repr, Inhabited

/-- `unsigned z[3]; int slot;` -/
structure State where
  z0 : UInt32
  z1 : UInt32
  z2 : UInt32
  slot : Slot
  deriving DecidableEq, Repr, Inhabited

/-- `rot(x,k) = (x<<k) | (x>>(32-k))`, only used with 0 < k < 32 -/
def rot (x : UInt32) (k : UInt32) : UInt32 := (x <<< k) ||| (x >>> (32 - k))

/-- `static void mix(unsigned &a, unsigned &b, unsigned &c)` -/
def mix3 (a b c : UInt32) : UInt32 × UInt32 × UInt32 :=
  let a := a - c;  let a := a ^^^ rot c 4;   let c := c + b
  let b := b - a;  let b := b ^^^ rot a 6;   let a := a + c
  let c := c - b;  let c := c ^^^ rot b 8;   let b := b + a
  let a := a - c;  let a := a ^^^ rot c 16;  let c := c + b
  let b := b - a;  let b := b ^^^ rot a 19;  let a := a + c
  let c := c - b;  let c := c ^^^ rot b 4;   let b := b + a
  (a, b, c)

/-- `static void final_mix(unsigned &a, unsigned &b, unsigned &c)` -/
def finalMix3 (a b c : UInt32) : UInt32 × UInt32 × UInt32 :=
  let c := c ^^^ b;  let c := c - rot b 14
  let a := a ^^^ c;  let a := a - rot c 11
  let b := b ^^^ a;  let b := b - rot a 25
  let c := c ^^^ b;  let c := c - rot b 16
  let a := a ^^^ c;  let a := a - rot c 4
  let b := b ^^^ a;  let b := b - rot a 14
  let c := c ^^^ b;  let c := c - rot b 24
  (a, b, c)

/-- `void mix() { mix(z[2], z[1], z[0]); }` (slot untouched) -/
def State.mix (s : State) : State :=
  let r := mix3 s.z2 s.z1 s.z0
  { s with z2 := r.1, z1 := r.2.1, z0 := r.2.2 }

/-- `void final_mix() { final_mix(z[2], z[1], z[0]); }` -/
def State.finalMix (s : State) : State :=
  let r := finalMix3 s.z2 s.z1 s.z0
  { s with z2 := r.1, z1 := r.2.1, z0 := r.2.2 }

/-- `void start(unsigned init)` -/
def start (init : UInt32) : State := { z2 := init, z1 := 0, z0 := 0xdeadbeef, slot := .s2 }

/-- `void start()` (no argument; not used by any live caller in src/) -/
def start0 : State := { z2 := 0, z1 := 0, z0 := 0xdeadbeef, slot := .s3 }

/-- `unsigned finish()` -/
def finish (s : State) : UInt32 := s.finalMix.z0

/-- `unsigned long finish64()` : `(z[0] << 32) | z[1]` after `final_mix` -/
def finish64 (s : State) : UInt64 :=
  let m := s.finalMix
  (m.z0.toUInt64 <<< 32) ||| m.z1.toUInt64

/-- `void push(unsigned v)` -/
def push (s : State) (v : UInt32) : State :=
  match s.slot with
  | .s3 => { s with z2 := s.z2 + v, slot := .s2 }      -- slot--; z[slot] += v
  | .s2 => { s with z1 := s.z1 + v, slot := .s1 }
  | .s1 => { s with z0 := s.z0 + v, slot := .s0 }
  | .s0 => let m := s.mix; { m with z2 := m.z2 + v, slot := .s2 }

/-- `void push(unsigned v1, unsigned v2)` -/
def push2 (s : State) (v1 v2 : UInt32) : State :=
  match s.slot with
  | .s0 => let m := s.mix; { m with z2 := m.z2 + v1, z1 := m.z1 + v2, slot := .s1 }
  | .s1 => let t : State := { s with z0 := s.z0 + v1 }
           let m := t.mix; { m with z2 := m.z2 + v2, slot := .s2 }
  | .s2 => { s with z1 := s.z1 + v1, z0 := s.z0 + v2, slot := .s0 }
  | .s3 => { s with z2 := s.z2 + v1, z1 := s.z1 + v2, slot := .s1 }

/-- `void push(unsigned v1, unsigned v2, unsigned v3)`; NOTE none of the four
    cases assigns `slot` (correct for slots 0,1,2; not for slot 3). -/
def push3 (s : State) (v1 v2 v3 : UInt32) : State :=
  match s.slot with
  | .s0 => let m := s.mix; { m with z2 := m.z2 + v1, z1 := m.z1 + v2, z0 := m.z0 + v3 }
  | .s1 => let t : State := { s with z0 := s.z0 + v1 }
           let m := t.mix; { m with z2 := m.z2 + v2, z1 := m.z1 + v3 }
  | .s2 => let t : State := { s with z1 := s.z1 + v1, z0 := s.z0 + v2 }
           let m := t.mix; { m with z2 := m.z2 + v3 }
  | .s3 => { s with z2 := s.z2 + v1, z1 := s.z1 + v2, z0 := s.z0 + v3 }

/-- `void push(const void* data, size_t bytes)` for `bytes % sizeof(unsigned) = 0`:
    one `push` per word, in address order. -/
def pushWords (s : State) (ws : List UInt32) : State := ws.foldl push s

/-- The hash of a word sequence: `start(init)`, one `push` per word, `finish()`. -/
def hashSeq (init : UInt32) (ws : List UInt32) : UInt32 := finish (pushWords (start init) ws)

/-! ## Grouping lemmas -/

@[simp] theorem pushWords_nil (s : State) : pushWords s [] = s := rfl
@[simp] theorem pushWords_cons (s : State) (w : UInt32) (ws : List UInt32) :
    pushWords s (w :: ws) = pushWords (push s w) ws := rfl
theorem pushWords_append (s : State) (a b : List UInt32) :
    pushWords s (a ++ b) = pushWords (pushWords s a) b := by
  simp [pushWords, List.foldl_append]

/-- Two-argument push = two single pushes, in EVERY slot state (0,1,2,3). -/
theorem push2_eq (s : State) (a b : UInt32) : push2 s a b = push (push s a) b := by
  cases s with
  | mk z0 z1 z2 slot => cases slot <;> rfl

/-- Three-argument push = three single pushes, in every slot state that a
    stream opened with `start(init)` can reach (slot ≠ 3). -/
theorem push3_eq (s : State) (h : s.slot ≠ .s3) (a b c : UInt32) :
    push3 s a b c = push (push (push s a) b) c := by
  cases s with
  | mk z0 z1 z2 slot =>
    cases slot with
    | s3 => exact absurd rfl h
    | s0 => rfl
    | s1 => rfl
    | s2 => rfl

/-- In slot 3 (only after the argument-less `start()`), `push(a,b,c)` updates
    `z` like three single pushes but LEAVES `slot = 3` instead of `0`. -/
theorem push3_slot3 (s : State) (h : s.slot = .s3) (a b c : UInt32) :
    push3 s a b c = { push (push (push s a) b) c with slot := .s3 } := by
  cases s with
  | mk z0 z1 z2 slot => cases h; rfl

/-- ... so the hash finished right there still agrees ... -/
theorem push3_slot3_finish (s : State) (h : s.slot = .s3) (a b c : UInt32) :
    finish (push3 s a b c) = finish (push (push (push s a) b) c) := by
  rw [push3_slot3 s h]; rfl

theorem push_slot_ne_s3 (s : State) (v : UInt32) : (push s v).slot ≠ .s3 := by
  cases s with
  | mk z0 z1 z2 slot => cases slot <;> simp [push, State.mix]

theorem pushWords_slot_ne_s3 (ws : List UInt32) : ∀ (s : State), s.slot ≠ .s3 →
    (pushWords s ws).slot ≠ .s3 := by
  induction ws with
  | nil => intro s h; exact h
  | cons w ws ih => intro s _; exact ih _ (push_slot_ne_s3 s w)

theorem start_slot_ne_s3 (init : UInt32) : (start init).slot ≠ .s3 := by simp [start]

/-! ## Any grouping of the same word sequence gives `hashSeq` -/

/-- one call of the stream interface -/
inductive Call where
  | p1 (a : UInt32)
  | p2 (a b : UInt32)
  | p3 (a b c : UInt32)
  | pw (ws : List UInt32)      -- `push(const void*, 4*ws.length)`
  deriving Repr

def Call.words : Call → List UInt32
  | .p1 a => [a]
  | .p2 a b => [a, b]
  | .p3 a b c => [a, b, c]
  | .pw ws => ws

def Call.run (s : State) : Call → State
  | .p1 a => push s a
  | .p2 a b => push2 s a b
  | .p3 a b c => push3 s a b c
  | .pw ws => pushWords s ws

def Call.isP3 : Call → Bool
  | .p3 .. => true
  | _ => false

def runCalls (s : State) (cs : List Call) : State := cs.foldl Call.run s

theorem Call.run_eq (s : State) (c : Call) (h : s.slot ≠ .s3 ∨ c.isP3 = false) :
    c.run s = pushWords s c.words := by
  cases c with
  | p1 a => rfl
  | p2 a b => exact push2_eq s a b
  | pw ws => rfl
  | p3 a b c =>
    rcases h with h | h
    · exact push3_eq s h a b c
    · cases h

theorem Call.run_slot (s : State) (c : Call) (h : s.slot ≠ .s3) : (c.run s).slot ≠ .s3 := by
  rw [Call.run_eq s c (Or.inl h)]; exact pushWords_slot_ne_s3 _ _ h

theorem runCalls_eq (cs : List Call) : ∀ (s : State), s.slot ≠ .s3 →
    runCalls s cs = pushWords s (cs.flatMap Call.words) := by
  induction cs with
  | nil => intro s _; rfl
  | cons c cs ih =>
    intro s h
    show runCalls (c.run s) cs = _
    rw [ih _ (Call.run_slot s c h), Call.run_eq s c (Or.inl h), List.flatMap_cons, pushWords_append]

/-- After the argument-less `start()` the same holds for groupings that do not
    use the three-argument push. -/
theorem runCalls_eq_noP3 (cs : List Call) : ∀ (s : State), (∀ c ∈ cs, c.isP3 = false) →
    runCalls s cs = pushWords s (cs.flatMap Call.words) := by
  induction cs with
  | nil => intro s _; rfl
  | cons c cs ih =>
    intro s h
    show runCalls (c.run s) cs = _
    rw [ih _ (fun c' hc' => h c' (List.mem_cons_of_mem _ hc')),
      Call.run_eq s c (Or.inr (h c (List.mem_cons_self ..))), List.flatMap_cons, pushWords_append]

/-- **The hash is a function of (init, flattened word sequence) only.** -/
theorem hash_of_sequence (init : UInt32) (cs : List Call) :
    finish (runCalls (start init) cs) = hashSeq init (cs.flatMap Call.words) := by
  rw [runCalls_eq cs _ (start_slot_ne_s3 init)]; rfl

/-- two groupings of the same words hash alike -/
theorem hash_grouping_irrelevant (init : UInt32) (cs ds : List Call)
    (h : cs.flatMap Call.words = ds.flatMap Call.words) :
    finish (runCalls (start init) cs) = finish (runCalls (start init) ds) := by
  rw [hash_of_sequence, hash_of_sequence, h]

/-! ## Node hashing -/

/-- forest parameters that the hashing code consults -/
structure Params where
  tv : UInt32            -- `unsigned(forest::getTransparentNode())`
  te : List UInt32       -- storage words of `forest::getTransparentEdge()` ([] when there are no edge values)
  hashEV : Bool          -- `forest::areEdgeValuesHashed()`
  deriving Repr

/-- one slot of the child vector: down pointer and the storage words of the edge value
    (`[]` for MT forests, `[w]` for int/float, `[lo, hi]` for long/double) -/
structure Edge where
  down : UInt32
  ev : List UInt32
  deriving DecidableEq, Repr

/-- one entry of a sparse node -/
structure Entry where
  idx : UInt32
  down : UInt32
  ev : List UInt32
  deriving DecidableEq, Repr

/-- transparency test of `unpacked_node::computeHash` (full branch) and of
    `makeSparseNode`/`makeNode` when they count/pick the nonzeros -/
def Params.skipU (P : Params) (e : Edge) : Bool :=
  if P.hashEV then e.down == P.tv && e.ev == P.te else e.down == P.tv

/-- transparency test of `simple_separated::hashNode` (full branch): `down[i] == tv` -/
def Params.skipP (P : Params) (e : Edge) : Bool := e.down == P.tv

/-- canonical-form side condition: an edge to the transparent node carries the
    transparent value (EV+: edges to Ω carry 0; EV*: edges to 0 carry 0) -/
def Params.Canon (P : Params) (ch : List Edge) : Prop :=
  P.hashEV = true → ∀ e ∈ ch, e.down = P.tv → e.ev = P.te

/-- `s.push(i, down); [edge value words one at a time]` -/
def pushEntry (P : Params) (s : State) (i d : UInt32) (ev : List UInt32) : State :=
  let s := push2 s i d
  if P.hashEV then pushWords s ev else s

/-- the words one entry contributes -/
def entryWords (P : Params) (e : Entry) : List UInt32 :=
  [e.idx, e.down] ++ (if P.hashEV then e.ev else [])

/-- the non-transparent entries of a child vector, ascending, numbered from `n` -/
def sparseFrom (P : Params) : Nat → List Edge → List Entry
  | _, [] => []
  | n, e :: es =>
    if P.skipU e then sparseFrom P (n+1) es
    else ⟨UInt32.ofNat n, e.down, e.ev⟩ :: sparseFrom P (n+1) es

/-- the sparse form of a logical node (what `makeSparseNode` stores, what a sorted
    sparse `unpacked_node` holds) -/
def sparseOf (P : Params) (ch : List Edge) : List Entry := sparseFrom P 0 ch

/-- the flattened word sequence of a node -/
def nodeWords (P : Params) (hdr : List UInt32) (ch : List Edge) : List UInt32 :=
  hdr ++ (sparseOf P ch).flatMap (entryWords P)

/-- THE hash of a logical node: `hashSeq 0 (header words ++ entry words)` -/
def nodeHash (P : Params) (hdr : List UInt32) (ch : List Edge) : UInt32 :=
  hashSeq 0 (nodeWords P hdr ch)

/-- loop of `computeHash`, full unpacked node -/
def uFullLoop (P : Params) : Nat → List Edge → State → State
  | _, [], s => s
  | n, e :: es, s =>
    uFullLoop P (n+1) es (if P.skipU e then s else pushEntry P s (UInt32.ofNat n) e.down e.ev)

/-- loop of `hashNode`, full stored node -/
def pFullLoop (P : Params) : Nat → List Edge → State → State
  | _, [], s => s
  | n, e :: es, s =>
    pFullLoop P (n+1) es (if P.skipP e then s else pushEntry P s (UInt32.ofNat n) e.down e.ev)

/-- loop of `computeHash` (sparse unpacked) and of `hashNode` (sparse stored): identical code shape -/
def sparseLoop (P : Params) (es : List Entry) (s : State) : State :=
  es.foldl (fun s e => pushEntry P s e.idx e.down e.ev) s

/-- `unpacked_node::computeHash`, `isFull()` -/
def computeHashFull (P : Params) (hdr : List UInt32) (ch : List Edge) : UInt32 :=
  finish (uFullLoop P 0 ch (pushWords (start 0) hdr))

/-- `unpacked_node::computeHash`, `isSparse()` (entries already sorted by `un->sort()`) -/
def computeHashSparse (P : Params) (hdr : List UInt32) (es : List Entry) : UInt32 :=
  finish (sparseLoop P es (pushWords (start 0) hdr))

/-- `simple_separated::hashNode`, node stored (truncated) full -/
def hashNodeFull (P : Params) (hdr : List UInt32) (ch : List Edge) : UInt32 :=
  finish (pFullLoop P 0 ch (pushWords (start 0) hdr))

/-- `simple_separated::hashNode`, node stored sparse -/
def hashNodeSparse (P : Params) (hdr : List UInt32) (es : List Entry) : UInt32 :=
  finish (sparseLoop P es (pushWords (start 0) hdr))

/-- what `simple_separated::hashNode` computes, by storage kind -/
inductive Packed where
  | full (ch : List Edge)
  | sparse (es : List Entry)

def hashNodePacked (P : Params) (hdr : List UInt32) : Packed → UInt32
  | .full ch => hashNodeFull P hdr ch
  | .sparse es => hashNodeSparse P hdr es

theorem pushEntry_eq (P : Params) (s : State) (e : Entry) :
    pushEntry P s e.idx e.down e.ev = pushWords s (entryWords P e) := by
  unfold pushEntry entryWords
  rw [push2_eq]
  cases P.hashEV <;> simp [pushWords]

theorem sparseLoop_eq (P : Params) (es : List Entry) : ∀ s : State,
    sparseLoop P es s = pushWords s (es.flatMap (entryWords P)) := by
  induction es with
  | nil => intro s; rfl
  | cons e es ih =>
    intro s
    show sparseLoop P es (pushEntry P s e.idx e.down e.ev) = _
    rw [ih, pushEntry_eq, List.flatMap_cons, pushWords_append]

theorem uFullLoop_eq (P : Params) (ch : List Edge) : ∀ (n : Nat) (s : State),
    uFullLoop P n ch s = pushWords s ((sparseFrom P n ch).flatMap (entryWords P)) := by
  induction ch with
  | nil => intro n s; rfl
  | cons e es ih =>
    intro n s
    unfold uFullLoop sparseFrom
    cases hsk : P.skipU e
    · simp only [Bool.false_eq_true, ↓reduceIte]
      rw [ih, List.flatMap_cons, pushWords_append]
      exact congrArg (fun t => pushWords t _) (pushEntry_eq P s ⟨UInt32.ofNat n, e.down, e.ev⟩)
    · simp only [↓reduceIte]
      exact ih _ _

theorem skipP_eq_skipU (P : Params) (ch : List Edge) (hc : P.Canon ch) :
    ∀ e ∈ ch, P.skipP e = P.skipU e := by
  intro e he
  unfold Params.skipP Params.skipU
  cases hh : P.hashEV
  · simp
  · simp only [↓reduceIte]
    cases hd : (e.down == P.tv)
    · simp
    · have := hc hh e he (by simpa using hd)
      simp [this]

theorem pFullLoop_eq_uFullLoop (P : Params) (ch : List Edge) :
    (∀ e ∈ ch, P.skipP e = P.skipU e) → ∀ (n : Nat) (s : State),
    pFullLoop P n ch s = uFullLoop P n ch s := by
  induction ch with
  | nil => intro _ n s; rfl
  | cons e es ih =>
    intro h n s
    unfold pFullLoop uFullLoop
    rw [h e (List.mem_cons_self ..)]
    exact ih (fun e' he' => h e' (List.mem_cons_of_mem _ he')) _ _

theorem computeHashFull_eq (P : Params) (hdr : List UInt32) (ch : List Edge) :
    computeHashFull P hdr ch = nodeHash P hdr ch := by
  unfold computeHashFull nodeHash hashSeq nodeWords sparseOf
  rw [uFullLoop_eq, pushWords_append]

theorem computeHashSparse_eq (P : Params) (hdr : List UInt32) (ch : List Edge) :
    computeHashSparse P hdr (sparseOf P ch) = nodeHash P hdr ch := by
  unfold computeHashSparse nodeHash hashSeq nodeWords
  rw [sparseLoop_eq, pushWords_append]

theorem hashNodeSparse_eq (P : Params) (hdr : List UInt32) (ch : List Edge) :
    hashNodeSparse P hdr (sparseOf P ch) = nodeHash P hdr ch :=
  computeHashSparse_eq P hdr ch

theorem hashNodeFull_eq (P : Params) (hdr : List UInt32) (ch : List Edge) (hc : P.Canon ch) :
    hashNodeFull P hdr ch = nodeHash P hdr ch := by
  rw [← computeHashFull_eq]
  unfold hashNodeFull computeHashFull
  rw [pFullLoop_eq_uFullLoop P ch (skipP_eq_skipU P ch hc)]

/-! ### Truncated-full storage: trailing transparent entries are irrelevant -/

theorem sparseFrom_append (P : Params) (a b : List Edge) : ∀ n,
    sparseFrom P n (a ++ b) = sparseFrom P n a ++ sparseFrom P (n + a.length) b := by
  induction a with
  | nil => intro n; simp [sparseFrom]
  | cons e es ih =>
    intro n
    have : n + (es.length + 1) = n + 1 + es.length := by omega
    simp only [List.cons_append, sparseFrom, List.length_cons, ih, this]
    split <;> rfl

theorem sparseFrom_transparent (P : Params) (k : Nat) : ∀ n,
    sparseFrom P n (List.replicate k ⟨P.tv, P.te⟩) = [] := by
  induction k with
  | zero => intro n; rfl
  | succ k ih =>
    intro n
    have : P.skipU ⟨P.tv, P.te⟩ = true := by
      unfold Params.skipU; cases P.hashEV <;> simp
    simp [List.replicate_succ, sparseFrom, this, ih]

/-- `makeFullNode` stores only `truncsize` entries (everything after the last
    non-transparent one is dropped): the hash does not notice. -/
theorem nodeHash_truncate (P : Params) (hdr : List UInt32) (ch : List Edge) (k : Nat) :
    nodeHash P hdr (ch ++ List.replicate k ⟨P.tv, P.te⟩) = nodeHash P hdr ch := by
  unfold nodeHash nodeWords sparseOf
  rw [sparseFrom_append, sparseFrom_transparent, List.append_nil]

theorem canon_append_transparent (P : Params) (ch : List Edge) (k : Nat) (hc : P.Canon ch) :
    P.Canon (ch ++ List.replicate k ⟨P.tv, P.te⟩) := by
  intro hh e he hd
  rcases List.mem_append.1 he with he | he
  · exact hc hh e he hd
  · rw [(List.mem_replicate.1 he).2]

/-! ### Older grouping: `push(index, down, ev)` for one-word edge values -/

/-- the one-word-edge-value variant that uses the three-argument push -/
def sparseLoop3 (es : List (UInt32 × UInt32 × UInt32)) (s : State) : State :=
  es.foldl (fun s e => push3 s e.1 e.2.1 e.2.2) s

theorem sparseLoop3_eq (es : List (UInt32 × UInt32 × UInt32)) : ∀ (s : State), s.slot ≠ .s3 →
    sparseLoop3 es s = pushWords s (es.flatMap (fun e => [e.1, e.2.1, e.2.2])) := by
  induction es with
  | nil => intro s _; rfl
  | cons e es ih =>
    intro s h
    show sparseLoop3 es (push3 s e.1 e.2.1 e.2.2) = _
    have h3 := push3_eq s h e.1 e.2.1 e.2.2
    rw [h3, ih _ (push_slot_ne_s3 _ _), List.flatMap_cons, pushWords_append]
    rfl

/-! ## Property theorems -/

/-- **hash_agree.**  For one logical node (hashed-header words `hdr`, child
    vector `ch`), every hash the library ever computes for it is the same number
    `nodeHash P hdr ch = hashSeq 0 (hdr ++ flatten [(i, down i) ++ ev-words i | i non-transparent, ascending])`:

    * `computeHash` on the full unpacked node (any number of trailing transparent entries),
    * `computeHash` on the sorted sparse unpacked node,
    * `hashNode` on the node stored full (needs `Canon`: `down = tv → ev = te`,
      because the packed code tests only `down[i] != tv`),
    * `hashNode` on the node stored sparse.

    C++ meaning: the hash passed to `unique->add(un->hash(), node)`, the hash
    recomputed by `buildFromList` (`parent->hashNode(front)`) when a subtable is
    expanded/shrunk, the hash passed to `unique->remove(hashNode(p), p)` and the
    hash of a later search key `unique->find(*un, var)` all coincide, whatever
    the storage kind chosen by `makeNode` and whatever form (full/sparse) the
    key has.  This is hypothesis `Ctx.Agree` of `Core/UniqueTable.lean`. -/
theorem hash_agree (P : Params) (hdr : List UInt32) (ch : List Edge) (hc : P.Canon ch) (k : Nat) :
    computeHashFull P hdr ch = nodeHash P hdr ch ∧
    computeHashFull P hdr (ch ++ List.replicate k ⟨P.tv, P.te⟩) = nodeHash P hdr ch ∧
    computeHashSparse P hdr (sparseOf P ch) = nodeHash P hdr ch ∧
    hashNodePacked P hdr (.full ch) = nodeHash P hdr ch ∧
    hashNodePacked P hdr (.full (ch ++ List.replicate k ⟨P.tv, P.te⟩)) = nodeHash P hdr ch ∧
    hashNodePacked P hdr (.sparse (sparseOf P ch)) = nodeHash P hdr ch :=
  ⟨computeHashFull_eq P hdr ch,
   by rw [computeHashFull_eq, nodeHash_truncate],
   computeHashSparse_eq P hdr ch,
   hashNodeFull_eq P hdr ch hc,
   by show hashNodeFull P hdr _ = _
      rw [hashNodeFull_eq P hdr _ (canon_append_transparent P ch k hc), nodeHash_truncate],
   hashNodeSparse_eq P hdr ch⟩

/-- The unpacked-node part of `hash_agree` needs no side condition. -/
theorem hash_agree_unpacked (P : Params) (hdr : List UInt32) (ch : List Edge) :
    computeHashFull P hdr ch = computeHashSparse P hdr (sparseOf P ch) := by
  rw [computeHashFull_eq, computeHashSparse_eq]

/-! ## Non-vacuity examples (values cross-checked against the real header compiled with g++) -/

section Examples

/-- MT forest: transparent node 0, no edge values -/
def Pmt : Params := { tv := 0, te := [], hashEV := false }
/-- EV forest with hashed one-word (int) edge values, transparent edge ⟨0,0⟩ -/
def Pint : Params := { tv := 0, te := [0], hashEV := true }
/-- EV forest with hashed two-word (long) edge values -/
def Plong : Params := { tv := 0, te := [0, 0], hashEV := true }

/-- 3-entry node, middle entry transparent -/
def chMT : List Edge := [⟨5, []⟩, ⟨0, []⟩, ⟨7, []⟩]
def spMT : List Entry := [⟨0, 5, []⟩, ⟨2, 7, []⟩]

example : sparseOf Pmt chMT = spMT := by decide
example : nodeWords Pmt [] chMT = [0, 5, 2, 7] := by decide
-- real C++: start(0); push(0,5); push(2,7); finish() = 2777887130
example : computeHashFull Pmt [] chMT = 2777887130 := by decide
example : computeHashSparse Pmt [] spMT = 2777887130 := by decide
example : hashNodePacked Pmt [] (.full chMT) = 2777887130 := by decide
example : hashNodePacked Pmt [] (.sparse spMT) = 2777887130 := by decide
example : hashSeq 0 [0, 5, 2, 7] = 2777887130 := by decide

def chInt : List Edge := [⟨5, [3]⟩, ⟨0, [0]⟩, ⟨7, [9]⟩]
def spInt : List Entry := [⟨0, 5, [3]⟩, ⟨2, 7, [9]⟩]
example : sparseOf Pint chInt = spInt := by decide
-- real C++: start(0); push(0,5); push(3); push(2,7); push(9); finish() = 456344633
--   and     start(0); push(0,5,3); push(2,7,9); finish()             = 456344633
example : computeHashFull Pint [] chInt = 456344633 := by decide
example : hashNodePacked Pint [] (.sparse spInt) = 456344633 := by decide
example : hashNodePacked Pint [] (.full chInt) = 456344633 := by decide
example : finish (sparseLoop3 [(0, 5, 3), (2, 7, 9)] (start 0)) = 456344633 := by decide

def chLong : List Edge := [⟨5, [3, 0]⟩, ⟨0, [0, 0]⟩, ⟨7, [0xffffffff, 0xffffffff]⟩]
-- real C++: push(0,5); push(3); push(0); push(2,7); push(0xffffffff); push(0xffffffff) = 2745102189
example : computeHashFull Plong [] chLong = 2745102189 := by decide
example : hashNodePacked Plong [] (.full chLong) = 2745102189 := by decide
example : hashNodePacked Plong [] (.sparse (sparseOf Plong chLong)) = 2745102189 := by decide

-- more than one mix: start(7); push(i*i+1) for i<10; finish() = 2627151752
set_option maxRecDepth 8192 in
example : hashSeq 7 [1, 2, 5, 10, 17, 26, 37, 50, 65, 82] = 2627151752 := by decide

/-- `Canon` is needed: an edge `⟨down = tv, ev = 4 ≠ te⟩` is hashed by
    `computeHash` (unpacked full, tests `isTransparentEdge`) but skipped by
    `hashNode` (stored full, tests `down[i] != tv`). -/
theorem hashNodeFull_disagrees_without_canon :
    computeHashFull Pint [] [⟨5, [3]⟩, ⟨0, [4]⟩] ≠ hashNodeFull Pint [] [⟨5, [3]⟩, ⟨0, [4]⟩] := by
  decide

/-- The slot-3 defect of `push(a,b,c)`: after the argument-less `start()`,
    `push(1,2,3); push(4)` skips the `mix()` that `push(1);push(2);push(3);push(4)`
    performs.  Real C++ gives 999880263 vs 3602411371 (= `raw_hash({1,2,3,4})`).
    Latent only: no live caller uses `start()`; node hashing uses `start(0)`,
    which starts in slot 2 and never reaches slot 3 (`pushWords_slot_ne_s3`). -/
theorem push3_slot3_defect :
    finish (push (push3 start0 1 2 3) 4) = 999880263 ∧
    finish (pushWords start0 [1, 2, 3, 4]) = 3602411371 := by
  decide

end Examples

/-
Output of `#print axioms` (Lean 4.33.0):
  push2_eq                              [propext, Quot.sound]
  push3_eq                              [propext, Quot.sound]
  hash_of_sequence                      [propext, Quot.sound]
  hash_agree                            [propext, Classical.choice, Quot.sound]
  nodeHash_truncate                     [propext, Classical.choice, Quot.sound]
  hashNodeFull_disagrees_without_canon  [propext, Quot.sound]
  push3_slot3_defect                    [propext, Quot.sound]
-/

end HashStream
end Meddly
