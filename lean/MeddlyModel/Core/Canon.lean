/-
  Canonicity of the reduced form: two reduced trees (`DD.Red`) that denote the
  same function (`DD.eval`) over all valid assignments are equal.
-/
import MeddlyModel.Core.DD

namespace Meddly

set_option linter.unusedSectionVars false

/-- Well-formed shapes: every variable has at least two values, and an
    `ident` position sits directly below a `red` position of the same size
    (so the top position is never `ident`). -/
structure Shape.WF (S : Shape) : Prop where
  size_ge : ∀ p, 1 ≤ p → p ≤ S.top → 2 ≤ S.size p
  ident_below_red : ∀ p, S.mode p = .ident →
    1 ≤ p ∧ p + 1 ≤ S.top ∧ S.mode (p+1) = .red ∧ S.size (p+1) = S.size p

/-- An assignment is valid when every position `1..top` gets a value in range. -/
def Assign.Valid (S : Shape) (a : Assign) : Prop :=
  ∀ p, 1 ≤ p → p ≤ S.top → a p < S.size p

/-- Point update of an assignment. -/
def Assign.upd (a : Assign) (p v : Nat) : Assign := fun q => if q = p then v else a q

theorem Assign.upd_same (a : Assign) (p v : Nat) : Assign.upd a p v p = v := by
  simp [Assign.upd]

theorem Assign.upd_other (a : Assign) {p q : Nat} (v : Nat) (h : q ≠ p) :
    Assign.upd a p v q = a q := by
  simp [Assign.upd, h]

theorem Assign.Valid.upd {S : Shape} {a : Assign} (h : Assign.Valid S a) {p v : Nat}
    (hv : v < S.size p) : Assign.Valid S (Assign.upd a p v) := by
  intro q h1 h2
  by_cases hq : q = p
  · subst hq; rw [Assign.upd_same]; exact hv
  · rw [Assign.upd_other a v hq]; exact h q h1 h2

theorem Assign.valid_const_zero {S : Shape} (hS : S.WF) : Assign.Valid S (fun _ => 0) := by
  intro p h1 h2
  have := hS.size_ge p h1 h2
  show 0 < S.size p
  omega

namespace DD
variable {α : Type} [DecidableEq α]

/-! ### Unfolding lemmas for `eval` -/

theorem eval_zero_leaf (S : Shape) (zero v : α) (a : Assign) :
    eval S zero 0 (.leaf v) a = v := by
  simp only [eval]

theorem eval_succ_node (S : Shape) (zero : α) (k : Nat) (cs : List (DD α)) (a : Assign) :
    eval S zero (k+1) (.node (k+1) cs) a
      = eval S zero k (cs.getD (a (k+1)) (.leaf zero)) a := by
  rw [eval]; simp only [if_true]

theorem eval_succ_skip (S : Shape) (zero : α) (k : Nat) {d : DD α} (a : Assign)
    (h : d.isNodeAt (k+1) = false) :
    eval S zero (k+1) d a
      = if S.mode (k+1) = .ident ∧ a (k+1) ≠ a (k+2) then zero else eval S zero k d a := by
  cases d with
  | leaf v => rw [eval]
  | node p cs =>
    have hp : p ≠ k+1 := by simpa [isNodeAt] using h
    rw [eval]; simp only [hp, if_false]

theorem storedAt_cases (p : Nat) (d : DD α) :
    (∃ cs, d = .node p cs) ∨ d.isNodeAt p = false := by
  cases d with
  | leaf v => right; rfl
  | node q cs =>
    by_cases h : q = p
    · left; exact ⟨cs, by rw [h]⟩
    · right; simp [isNodeAt, h]

theorem eval_leaf_zero (S : Shape) (zero : α) (k : Nat) (a : Assign) :
    eval S zero k (.leaf zero) a = zero := by
  induction k with
  | zero => rfl
  | succ k ih =>
    rw [eval_succ_skip S zero k a rfl]
    split
    · rfl
    · exact ih

/-- `eval … k d a` only reads `a` at positions `≤ k`, and at position `k+1`
    when position `k` is an `ident` position. -/
theorem eval_congr (S : Shape) (zero : α) :
    ∀ (k : Nat) (d : DD α) (a a' : Assign),
      (∀ p, p ≤ k → a p = a' p) →
      (S.mode k = .ident → a (k+1) = a' (k+1)) →
      eval S zero k d a = eval S zero k d a' := by
  intro k
  induction k with
  | zero =>
    intro d a a' _ _
    cases d <;> rfl
  | succ k ih =>
    intro d a a' h1 h2
    have hk1 : a (k+1) = a' (k+1) := h1 (k+1) (Nat.le_refl _)
    have hlow : ∀ p, p ≤ k → a p = a' p := fun p hp => h1 p (Nat.le_succ_of_le hp)
    rcases storedAt_cases (k+1) d with ⟨cs, rfl⟩ | hd
    · rw [eval_succ_node, eval_succ_node, hk1]
      exact ih _ a a' hlow (fun _ => hk1)
    · rw [eval_succ_skip S zero k a hd, eval_succ_skip S zero k a' hd]
      by_cases hm : S.mode (k+1) = .ident
      · have hk2 : a (k+2) = a' (k+2) := h2 hm
        rw [hk1, hk2]
        split
        · rfl
        · exact ih d a a' hlow (fun _ => hk1)
      · have e1 : ¬ (S.mode (k+1) = .ident ∧ a (k+1) ≠ a (k+2)) := fun h => hm h.1
        have e2 : ¬ (S.mode (k+1) = .ident ∧ a' (k+1) ≠ a' (k+2)) := fun h => hm h.1
        rw [if_neg e1, if_neg e2]
        exact ih d a a' hlow (fun _ => hk1)

/-! ### Unfolding lemmas for `Red` -/

theorem Red_zero_iff (S : Shape) (zero : α) (fi : Option Nat) (d : DD α) :
    Red S zero 0 fi d = true ↔ ∃ v, d = .leaf v := by
  cases d with
  | leaf v => simp [Red]
  | node p cs => simp [Red]

theorem Red_succ_skip (S : Shape) (zero : α) (k : Nat) (fi : Option Nat) {d : DD α}
    (h : d.isNodeAt (k+1) = false) (hr : Red S zero (k+1) fi d = true) :
    edgeOK S zero (k+1) fi d = true ∧ Red S zero k none d = true := by
  cases d with
  | leaf v =>
    rw [Red] at hr
    simpa using hr
  | node p cs =>
    have hp : p ≠ k+1 := by simpa [isNodeAt] using h
    rw [Red] at hr
    simp only [hp, if_false, Bool.and_eq_true] at hr
    refine ⟨hr.1, ?_⟩
    have h2 := hr.2
    split at h2
    · exact h2
    · exact absurd h2 (by simp)

theorem Red_succ_node (S : Shape) (zero : α) (k : Nat) (fi : Option Nat) (cs : List (DD α)) :
    Red S zero (k+1) fi (.node (k+1) cs) = true ↔
      edgeOK S zero (k+1) fi (.node (k+1) cs) = true ∧
      cs.length = S.size (k+1) ∧
      (∃ c, c ∈ cs ∧ c ≠ .leaf zero) ∧
      (S.mode (k+1) = .red → ¬ ∀ c, c ∈ cs → c = cs.headD (.leaf zero)) ∧
      (∀ i, i < cs.length → Red S zero k (some i) (cs.getD i (.leaf zero)) = true) := by
  rw [Red]
  simp only [if_true, Bool.and_eq_true, beq_iff_eq, List.any_eq_true, bne_iff_ne, ne_eq,
    Bool.or_eq_true, Bool.not_eq_true', List.all_eq_true, List.mem_range]
  constructor
  · rintro ⟨h1, ⟨⟨⟨h2, h3⟩, h4⟩, h5⟩⟩
    refine ⟨h1, h2, h3, ?_, h5⟩
    intro hm hall
    rcases h4 with h4 | h4
    · exact h4 hm
    · rw [← Bool.not_eq_true, List.all_eq_true] at h4
      apply h4
      intro c hc
      exact beq_iff_eq.mpr (hall c hc)
  · rintro ⟨h1, h2, h3, h4, h5⟩
    refine ⟨h1, ⟨⟨⟨h2, h3⟩, ?_⟩, h5⟩⟩
    by_cases hm : S.mode (k+1) = .red
    · right
      rw [← Bool.not_eq_true, List.all_eq_true]
      intro hall
      exact h4 hm (fun c hc => beq_iff_eq.mp (hall c hc))
    · left; exact hm

/-! ### Singletons and `edgeOK` -/

theorem isSingleton_node_iff (zero : α) (p i : Nat) (cs : List (DD α)) :
    isSingleton zero p i (.node p cs) = true ↔
      i < cs.length ∧
      (∀ j, j < cs.length → j = i ∨ cs.getD j (.leaf zero) = .leaf zero) ∧
      cs.getD i (.leaf zero) ≠ .leaf zero := by
  simp only [isSingleton, Bool.and_eq_true, beq_self_eq_true, true_and, decide_eq_true_eq,
    List.all_eq_true, List.mem_range, Bool.or_eq_true, beq_iff_eq, bne_iff_ne, ne_eq, and_assoc]

theorem isAnySingleton_of_isSingleton (zero : α) (p i : Nat) (d : DD α)
    (h : isSingleton zero p i d = true) : isAnySingleton zero p d = true := by
  cases d with
  | leaf v => simp [isSingleton] at h
  | node q cs =>
    have hi : i < cs.length := by
      simp only [isSingleton, Bool.and_eq_true, decide_eq_true_eq] at h
      exact h.1.1.2
    simp only [isAnySingleton, List.any_eq_true, List.mem_range]
    exact ⟨i, hi, h⟩

theorem edgeOK_none_some (S : Shape) (zero : α) (k i : Nat) (d : DD α)
    (h : edgeOK S zero k none d = true) : edgeOK S zero k (some i) d = true := by
  unfold edgeOK at h ⊢
  split
  · rfl
  · rename_i hm; rw [hm] at h; exact h
  · rename_i hm; rw [hm] at h
    simp only [Bool.not_eq_eq_eq_not, Bool.not_true] at h ⊢
    cases hs : isSingleton zero k i d with
    | false => rfl
    | true => rw [isAnySingleton_of_isSingleton zero k i d hs] at h; exact absurd h (by simp)

theorem edgeOK_leaf_zero (S : Shape) (zero : α) (k : Nat) (fi : Option Nat) :
    edgeOK S zero k fi (.leaf zero) = true := by
  unfold edgeOK
  split
  · rfl
  · simp
  · cases fi <;> simp [isSingleton, isAnySingleton]

theorem edgeOK_none_skip (S : Shape) (zero : α) (k : Nat) (fi : Option Nat) {d : DD α}
    (hm : S.mode (k+1) = .none) (hd : d.isNodeAt (k+1) = false)
    (h : edgeOK S zero (k+1) fi d = true) : d = .leaf zero := by
  unfold edgeOK at h
  rw [hm] at h
  simpa [hd] using h

theorem edgeOK_ident_some (S : Shape) (zero : α) (k i : Nat) {d : DD α}
    (hm : S.mode k = .ident) (h : edgeOK S zero k (some i) d = true) :
    isSingleton zero k i d = false := by
  unfold edgeOK at h
  rw [hm] at h
  simpa using h

theorem edgeOK_not_ident (S : Shape) (zero : α) (k : Nat) (fi fj : Option Nat) {d : DD α}
    (hm : S.mode k ≠ .ident) : edgeOK S zero k fi d = edgeOK S zero k fj d := by
  unfold edgeOK
  split
  · rfl
  · rfl
  · rename_i h; exact absurd h hm

/-! ### `Red` and the arriving index -/

theorem Red_none_some (S : Shape) (zero : α) (k i : Nat) (d : DD α)
    (h : Red S zero k none d = true) : Red S zero k (some i) d = true := by
  cases k with
  | zero =>
    obtain ⟨v, rfl⟩ := (Red_zero_iff S zero none d).mp h
    rfl
  | succ k =>
    cases d with
    | leaf v =>
      rw [Red, Bool.and_eq_true] at h ⊢
      exact ⟨edgeOK_none_some S zero (k+1) i _ h.1, h.2⟩
    | node p cs =>
      rw [Red, Bool.and_eq_true] at h ⊢
      exact ⟨edgeOK_none_some S zero (k+1) i _ h.1, h.2⟩

theorem Red_leaf_zero (S : Shape) (zero : α) (k : Nat) (fi : Option Nat) :
    Red S zero k fi (.leaf zero) = true := by
  induction k generalizing fi with
  | zero => rfl
  | succ k ih =>
    rw [Red, Bool.and_eq_true]
    exact ⟨edgeOK_leaf_zero S zero (k+1) fi, ih none⟩

/-! ### List helpers -/

theorem list_all_eq_of_getD {β : Type} (l : List β) (dflt x : β)
    (h : ∀ j, j < l.length → l.getD j dflt = x) : ∀ c, c ∈ l → c = x := by
  intro c hc
  obtain ⟨j, hj, rfl⟩ := List.getElem_of_mem hc
  have := h j hj
  simpa [List.getD_eq_getElem?_getD, hj] using this

theorem list_headD_of_getD {β : Type} (l : List β) (dflt x : β)
    (h : ∀ j, j < l.length → l.getD j dflt = x) (hne : l ≠ []) : l.headD dflt = x := by
  cases l with
  | nil => exact absurd rfl hne
  | cons y ys =>
    have := h 0 (by simp)
    simpa using this

theorem list_ext_getD {β : Type} (l1 l2 : List β) (dflt : β) (hl : l1.length = l2.length)
    (h : ∀ j, j < l1.length → l1.getD j dflt = l2.getD j dflt) : l1 = l2 := by
  apply List.ext_getElem hl
  intro j h1 h2
  have := h j h1
  simpa [List.getD_eq_getElem?_getD, h1, h2] using this

/-! ### Agreement of denotations -/

/-- `d1` and `d2`, read from position `k`, agree on all valid assignments that
    respect the arriving index. -/
def Agree (S : Shape) (zero : α) (k : Nat) (fi : Option Nat) (d1 d2 : DD α) : Prop :=
  ∀ a, Assign.Valid S a → (∀ i, fi = some i → a (k+1) = i) →
    eval S zero k d1 a = eval S zero k d2 a

theorem Agree.symm {S : Shape} {zero : α} {k : Nat} {fi : Option Nat} {d1 d2 : DD α}
    (h : Agree S zero k fi d1 d2) : Agree S zero k fi d2 d1 :=
  fun a ha hf => (h a ha hf).symm

/-- Canonicity at position `k` (the induction statement). -/
def CanonAt (S : Shape) (zero : α) (k : Nat) : Prop :=
  ∀ (fi : Option Nat) (d1 d2 : DD α), (∀ i, fi = some i → i < S.size (k+1)) →
    Red S zero k fi d1 = true → Red S zero k fi d2 = true →
    Agree S zero k fi d1 d2 → d1 = d2

/-- Any valid assignment can be changed at position `p` only so as to respect
    the arriving index there. -/
theorem exists_fix (S : Shape) (p : Nat) (fi : Option Nat)
    (hfi : ∀ i, fi = some i → i < S.size p) (a : Assign) (ha : Assign.Valid S a) :
    ∃ a', Assign.Valid S a' ∧ (∀ i, fi = some i → a' p = i) ∧ ∀ q, q ≠ p → a' q = a q := by
  cases fi with
  | none =>
    refine ⟨a, ha, ?_, fun _ _ => rfl⟩
    intro i h; cases h
  | some i =>
    refine ⟨Assign.upd a p i, ha.upd (hfi i rfl), ?_, ?_⟩
    · intro i' h; cases h; exact Assign.upd_same a p i
    · intro q hq; exact Assign.upd_other a i hq

theorem zero_of_canon (S : Shape) (zero : α) (k : Nat) (hC : CanonAt S zero k)
    (fi : Option Nat) (d : DD α) (hfi : ∀ i, fi = some i → i < S.size (k+1))
    (hr : Red S zero k fi d = true)
    (hz : ∀ a, Assign.Valid S a → (∀ i, fi = some i → a (k+1) = i) → eval S zero k d a = zero) :
    d = .leaf zero := by
  apply hC fi d (.leaf zero) hfi hr (Red_leaf_zero S zero k fi)
  intro a ha hf
  rw [hz a ha hf, eval_leaf_zero]

theorem canonAt_zero (S : Shape) (zero : α) (hS : S.WF) : CanonAt S zero 0 := by
  intro fi d1 d2 hfi h1 h2 hA
  obtain ⟨v1, rfl⟩ := (Red_zero_iff S zero fi d1).mp h1
  obtain ⟨v2, rfl⟩ := (Red_zero_iff S zero fi d2).mp h2
  obtain ⟨a, ha, hf, _⟩ := exists_fix S 1 fi hfi (fun _ => 0) (Assign.valid_const_zero hS)
  have := hA a ha hf
  rw [eval_zero_leaf, eval_zero_leaf] at this
  rw [this]

/-- The child `j` of a node stored at `k+1`, on an assignment with `a (k+1) = j`,
    is what the node denotes on a suitably fixed assignment. -/
theorem agree_child_of (S : Shape) (zero : α) (k : Nat) (fi : Option Nat)
    (hfi : ∀ i, fi = some i → i < S.size (k+2)) (cs : List (DD α)) (d2 : DD α) (j : Nat)
    (hA : Agree S zero (k+1) fi (.node (k+1) cs) d2)
    (a : Assign) (ha : Assign.Valid S a) (hj : a (k+1) = j) :
    ∃ a', Assign.Valid S a' ∧ (∀ q, q ≠ k+2 → a' q = a q) ∧
      eval S zero k (cs.getD j (.leaf zero)) a = eval S zero (k+1) d2 a' := by
  obtain ⟨a', ha', hf', hsame⟩ := exists_fix S (k+2) fi hfi a ha
  refine ⟨a', ha', hsame, ?_⟩
  have h := hA a' ha' hf'
  rw [eval_succ_node] at h
  have hk1 : a' (k+1) = a (k+1) := hsame (k+1) (by omega)
  rw [hk1, hj] at h
  rw [← h]
  apply eval_congr
  · intro p hp; exact (hsame p (by omega)).symm
  · intro _; exact hk1.symm

theorem agree_children (S : Shape) (zero : α) (k : Nat) (fi : Option Nat)
    (hfi : ∀ i, fi = some i → i < S.size (k+2)) (cs1 cs2 : List (DD α)) (j : Nat)
    (hA : Agree S zero (k+1) fi (.node (k+1) cs1) (.node (k+1) cs2)) :
    Agree S zero k (some j) (cs1.getD j (.leaf zero)) (cs2.getD j (.leaf zero)) := by
  intro a ha hf
  have hj : a (k+1) = j := hf j rfl
  obtain ⟨a', _, hsame, h⟩ := agree_child_of S zero k fi hfi cs1 _ j hA a ha hj
  rw [h, eval_succ_node]
  have hk1 : a' (k+1) = a (k+1) := hsame (k+1) (by omega)
  rw [hk1, hj]
  apply eval_congr
  · intro p hp; exact hsame p (by omega)
  · intro _; exact hk1

/-- For trees not stored at `k+1`: reading from `k+1` on a suitably fixed
    assignment is reading from `k`. -/
theorem eval_skip_fix (S : Shape) (zero : α) (hS : S.WF) (k : Nat) (fi : Option Nat)
    (hfi : ∀ i, fi = some i → i < S.size (k+2)) (a : Assign) (ha : Assign.Valid S a) :
    ∃ a', Assign.Valid S a' ∧ (∀ i, fi = some i → a' (k+2) = i) ∧
      ∀ d : DD α, d.isNodeAt (k+1) = false → eval S zero (k+1) d a' = eval S zero k d a := by
  obtain ⟨a1, ha1, hf1, hsame1⟩ := exists_fix S (k+2) fi hfi a ha
  by_cases hm : S.mode (k+1) = .ident
  · obtain ⟨_, htop, hred, hsz⟩ := hS.ident_below_red (k+1) hm
    have hmk : S.mode k ≠ .ident := by
      intro hk
      have := (hS.ident_below_red k hk).2.2.1
      rw [hm] at this; cases this
    have hv : a1 (k+2) < S.size (k+1) := by
      rw [← hsz]; exact ha1 (k+2) (by omega) htop
    refine ⟨Assign.upd a1 (k+1) (a1 (k+2)), ha1.upd hv, ?_, ?_⟩
    · intro i hi
      rw [Assign.upd_other a1 _ (by omega)]
      exact hf1 i hi
    · intro d hd
      rw [eval_succ_skip S zero k _ hd]
      have hne : ¬ (S.mode (k+1) = .ident ∧
          Assign.upd a1 (k+1) (a1 (k+2)) (k+1) ≠ Assign.upd a1 (k+1) (a1 (k+2)) (k+2)) := by
        intro h
        apply h.2
        rw [Assign.upd_same, Assign.upd_other a1 _ (by omega)]
      rw [if_neg hne]
      apply eval_congr
      · intro p hp
        rw [Assign.upd_other a1 _ (by omega)]
        exact hsame1 p (by omega)
      · intro h; exact absurd h hmk
  · refine ⟨a1, ha1, hf1, ?_⟩
    intro d hd
    rw [eval_succ_skip S zero k _ hd]
    have hne : ¬ (S.mode (k+1) = .ident ∧ a1 (k+1) ≠ a1 (k+2)) := fun h => hm h.1
    rw [if_neg hne]
    apply eval_congr
    · intro p hp; exact hsame1 p (by omega)
    · intro _; exact hsame1 (k+1) (by omega)

theorem agree_skip (S : Shape) (zero : α) (hS : S.WF) (k : Nat) (fi : Option Nat)
    (hfi : ∀ i, fi = some i → i < S.size (k+2)) (d1 d2 : DD α)
    (h1 : d1.isNodeAt (k+1) = false) (h2 : d2.isNodeAt (k+1) = false)
    (hA : Agree S zero (k+1) fi d1 d2) : Agree S zero k none d1 d2 := by
  intro a ha _
  obtain ⟨a', ha', hf', he⟩ := eval_skip_fix S zero hS k fi hfi a ha
  rw [← he d1 h1, ← he d2 h2]
  exact hA a' ha' hf'

/-! ### The induction step -/

/-- A reduced node stored at `k+1` never denotes the same function as a reduced
    tree that skips `k+1`. -/
theorem canon_mixed (S : Shape) (zero : α) (hS : S.WF) (k : Nat) (hC : CanonAt S zero k)
    (fi : Option Nat) (hfi : ∀ i, fi = some i → i < S.size (k+2))
    (cs : List (DD α)) (d2 : DD α)
    (h1 : Red S zero (k+1) fi (.node (k+1) cs) = true)
    (hd2 : d2.isNodeAt (k+1) = false)
    (h2 : Red S zero (k+1) fi d2 = true)
    (hA : Agree S zero (k+1) fi (.node (k+1) cs) d2) : False := by
  obtain ⟨hE, hlen, hnz, hred, hch⟩ := (Red_succ_node S zero k fi cs).mp h1
  obtain ⟨hE2, hR2⟩ := Red_succ_skip S zero k fi hd2 h2
  have hsome : ∀ j, j < cs.length → ∀ i, some j = some i → i < S.size (k+1) := by
    intro j hj i h; cases h; rw [← hlen]; exact hj
  cases hm : S.mode (k+1) with
  | red =>
    have hall : ∀ j, j < cs.length → cs.getD j (.leaf zero) = d2 := by
      intro j hj
      apply hC (some j) _ _ (hsome j hj) (hch j hj) (Red_none_some S zero k j d2 hR2)
      intro a ha hf
      obtain ⟨a', _, hsame, h⟩ := agree_child_of S zero k fi hfi cs d2 j hA a ha (hf j rfl)
      have hne : ¬ (S.mode (k+1) = .ident ∧ a' (k+1) ≠ a' (k+2)) := by
        intro h; rw [hm] at h; cases h.1
      rw [h, eval_succ_skip S zero k a' hd2, if_neg hne]
      apply eval_congr
      · intro p hp; exact hsame p (by omega)
      · intro _; exact hsame (k+1) (by omega)
    apply hred hm
    intro c hc
    have hne : cs ≠ [] := List.ne_nil_of_mem hc
    rw [list_headD_of_getD cs _ d2 hall hne]
    exact list_all_eq_of_getD cs _ d2 hall c hc
  | none =>
    have hd2z : d2 = .leaf zero := edgeOK_none_skip S zero k fi hm hd2 hE2
    subst hd2z
    have hall : ∀ j, j < cs.length → cs.getD j (.leaf zero) = .leaf zero := by
      intro j hj
      apply zero_of_canon S zero k hC (some j) _ (hsome j hj) (hch j hj)
      intro a ha hf
      obtain ⟨a', _, _, h⟩ := agree_child_of S zero k fi hfi cs _ j hA a ha (hf j rfl)
      rw [h, eval_leaf_zero]
    obtain ⟨c, hc, hcne⟩ := hnz
    exact hcne (list_all_eq_of_getD cs _ _ hall c hc)
  | ident =>
    obtain ⟨_, htop, _, hsz⟩ := hS.ident_below_red (k+1) hm
    have hzero : ∀ j v, j < cs.length → v < S.size (k+2) → v ≠ j →
        (∀ i, fi = some i → v = i) → cs.getD j (.leaf zero) = .leaf zero := by
      intro j v hj hv hvj hvf
      apply zero_of_canon S zero k hC (some j) _ (hsome j hj) (hch j hj)
      intro a ha hf
      have hj' : a (k+1) = j := hf j rfl
      have ha' : Assign.Valid S (Assign.upd a (k+2) v) := ha.upd hv
      have h := hA (Assign.upd a (k+2) v) ha'
        (by intro i hi; rw [Assign.upd_same]; exact hvf i hi)
      have e1 : Assign.upd a (k+2) v (k+1) = j := by
        rw [Assign.upd_other a v (by omega)]; exact hj'
      have e2 : Assign.upd a (k+2) v (k+2) = v := Assign.upd_same a (k+2) v
      have hpos : S.mode (k+1) = .ident ∧
          Assign.upd a (k+2) v (k+1) ≠ Assign.upd a (k+2) v (k+2) := by
        refine ⟨hm, ?_⟩
        rw [e1, e2]; exact fun h => hvj h.symm
      rw [eval_succ_node, eval_succ_skip S zero k _ hd2, if_pos hpos, e1] at h
      refine Eq.trans ?_ h
      apply eval_congr
      · intro p hp; exact (Assign.upd_other a v (by omega)).symm
      · intro _; rw [e1]; exact hj'
    have hsz2 : 2 ≤ S.size (k+2) := hS.size_ge (k+2) (by omega) htop
    cases fi with
    | none =>
      have hall : ∀ j, j < cs.length → cs.getD j (.leaf zero) = .leaf zero := by
        intro j hj
        by_cases hj0 : j = 0
        · exact hzero j 1 hj (by omega) (by omega) (fun i h => nomatch h)
        · exact hzero j 0 hj (by omega) (by omega) (fun i h => nomatch h)
      obtain ⟨c, hc, hcne⟩ := hnz
      exact hcne (list_all_eq_of_getD cs _ _ hall c hc)
    | some i =>
      have hi : i < cs.length := by rw [hlen, ← hsz]; exact hfi i rfl
      have hothers : ∀ j, j < cs.length → j = i ∨ cs.getD j (.leaf zero) = .leaf zero := by
        intro j hj
        by_cases hji : j = i
        · left; exact hji
        · right
          exact hzero j i hj (hfi i rfl) (fun h => hji h.symm) (fun i' h => by cases h; rfl)
      have hsing : isSingleton zero (k+1) i (.node (k+1) cs) = true := by
        rw [isSingleton_node_iff]
        refine ⟨hi, hothers, ?_⟩
        intro hiz
        have hall : ∀ j, j < cs.length → cs.getD j (.leaf zero) = .leaf zero := by
          intro j hj
          rcases hothers j hj with rfl | h
          · exact hiz
          · exact h
        obtain ⟨c, hc, hcne⟩ := hnz
        exact hcne (list_all_eq_of_getD cs _ _ hall c hc)
      have := edgeOK_ident_some S zero (k+1) i hm hE
      rw [hsing] at this
      cases this

theorem canonAt_succ (S : Shape) (zero : α) (hS : S.WF) (k : Nat) (hC : CanonAt S zero k) :
    CanonAt S zero (k+1) := by
  intro fi d1 d2 hfi h1 h2 hA
  rcases storedAt_cases (k+1) d1 with ⟨cs1, rfl⟩ | hd1 <;>
    rcases storedAt_cases (k+1) d2 with ⟨cs2, rfl⟩ | hd2
  · obtain ⟨_, hlen1, _, _, hch1⟩ := (Red_succ_node S zero k fi cs1).mp h1
    obtain ⟨_, hlen2, _, _, hch2⟩ := (Red_succ_node S zero k fi cs2).mp h2
    have hl : cs1.length = cs2.length := by rw [hlen1, hlen2]
    congr 1
    apply list_ext_getD cs1 cs2 (.leaf zero) hl
    intro j hj
    apply hC (some j) _ _ _ (hch1 j hj) (hch2 j (hl ▸ hj))
    · exact agree_children S zero k fi hfi cs1 cs2 j hA
    · intro i h; cases h; rw [← hlen1]; exact hj
  · exact (canon_mixed S zero hS k hC fi hfi cs1 d2 h1 hd2 h2 hA).elim
  · exact (canon_mixed S zero hS k hC fi hfi cs2 d1 h2 hd1 h1 hA.symm).elim
  · apply hC none d1 d2 (fun i h => nomatch h)
      (Red_succ_skip S zero k fi hd1 h1).2 (Red_succ_skip S zero k fi hd2 h2).2
    exact agree_skip S zero hS k fi hfi d1 d2 hd1 hd2 hA

theorem canonAt (S : Shape) (zero : α) (hS : S.WF) : ∀ k, CanonAt S zero k
  | 0 => canonAt_zero S zero hS
  | k+1 => canonAt_succ S zero hS k (canonAt S zero hS k)

/-! ### Main theorems -/

/-- Canonicity, general form: two trees reduced for position `k` (arriving
    through index `fi`) with the same denotation are equal. -/
theorem canon_gen (S : Shape) (zero : α) (hS : S.WF) :
    ∀ (k : Nat), k ≤ S.top → ∀ (fi : Option Nat) (d1 d2 : DD α),
      (∀ i, fi = some i → i < S.size (k+1)) →
      Red S zero k fi d1 = true → Red S zero k fi d2 = true →
      (∀ a, Assign.Valid S a → (∀ i, fi = some i → a (k+1) = i) →
        eval S zero k d1 a = eval S zero k d2 a) →
      d1 = d2 :=
  fun k _ fi d1 d2 hfi h1 h2 hA => canonAt S zero hS k fi d1 d2 hfi h1 h2 hA

/-- Canonicity: reduced trees are equal iff they denote the same function. -/
theorem canon (S : Shape) (zero : α) (hS : S.WF) (d1 d2 : DD α)
    (h1 : Red S zero S.top none d1 = true) (h2 : Red S zero S.top none d2 = true) :
    (∀ a, Assign.Valid S a → eval S zero S.top d1 a = eval S zero S.top d2 a) ↔ d1 = d2 := by
  constructor
  · intro h
    exact canon_gen S zero hS S.top (Nat.le_refl _) none d1 d2 (fun i h => nomatch h) h1 h2
      (fun a ha _ => h a ha)
  · intro h a _; rw [h]

/-- The only reduced tree denoting the constant `zero` is the transparent leaf. -/
theorem zero_unique (S : Shape) (zero : α) (hS : S.WF) (k : Nat) (_hk : k ≤ S.top)
    (fi : Option Nat) (d : DD α) (hfi : ∀ i, fi = some i → i < S.size (k+1))
    (hr : Red S zero k fi d = true)
    (hz : ∀ a, Assign.Valid S a → (∀ i, fi = some i → a (k+1) = i) →
      eval S zero k d a = zero) :
    d = .leaf zero :=
  zero_of_canon S zero k (canonAt S zero hS k) fi d hfi hr hz

end DD

/-! ### Non-vacuity: concrete shapes and reduced trees -/

namespace CanonExamples
open DD

/-- (a) fully reduced, three positions, sizes 2 (pos 1), 3 (pos 2), 2 (pos 3). -/
def SA : Shape where
  top := 3
  size := fun p => if p = 2 then 3 else 2
  mode := fun _ => .red

theorem SA_WF : SA.WF where
  size_ge := by intro p _ _; show 2 ≤ (if p = 2 then 3 else 2); split <;> omega
  ident_below_red := by intro p h; cases h

def xA : DD Nat := .node 1 [.leaf 0, .leaf 1]
def yA : DD Nat := .node 1 [.leaf 1, .leaf 0]
def mA : DD Nat := .node 2 [xA, yA, .leaf 1]
def nA : DD Nat := .node 2 [xA, xA, yA]
/-- uses `xA`, `yA` several times (shared sub-trees) -/
def tA1 : DD Nat := .node 3 [mA, nA]
/-- child 0 skips position 2 -/
def tA2 : DD Nat := .node 3 [xA, mA]

example : Red SA 0 3 none tA1 = true := by decide
example : Red SA 0 3 none tA2 = true := by decide
/-- a redundant node is rejected -/
example : Red SA 0 3 none (.node 3 [mA, mA]) = false := by decide
/-- wrong number of children is rejected -/
example : Red SA 0 3 none (.node 3 [.node 2 [xA, yA], nA]) = false := by decide
example : tA1 ≠ tA2 := by decide
/-- by canonicity the two reduced trees denote different functions -/
example : ¬ ∀ a, Assign.Valid SA a → eval SA 0 3 tA1 a = eval SA 0 3 tA2 a := by
  intro h
  have := (canon SA 0 SA_WF tA1 tA2 (by decide) (by decide)).mp h
  exact absurd this (by decide)

/-- (b) identity-reduced relation over two variables: positions 4, 2 unprimed
    (`red`), positions 3, 1 primed (`ident`), all sizes 2. -/
def SB : Shape where
  top := 4
  size := fun _ => 2
  mode := fun p => if p = 3 ∨ p = 1 then .ident else .red

theorem SB_WF : SB.WF where
  size_ge := by intro p _ _; exact Nat.le_refl 2
  ident_below_red := by
    intro p h
    have hp : p = 3 ∨ p = 1 := by
      by_cases hp : p = 3 ∨ p = 1
      · exact hp
      · have h' : (if p = 3 ∨ p = 1 then Mode.ident else Mode.red) = Mode.ident := h
        rw [if_neg hp] at h'; cases h'
    rcases hp with rfl | rfl <;> decide

/-- stored node at the `ident` position 1 (a 0-singleton, reached through index 1) -/
def wB : DD Nat := .node 1 [.leaf 1, .leaf 0]
/-- child 0 (`leaf 1`) skips the `ident` position 1; child 1 is stored there -/
def uB : DD Nat := .node 2 [.leaf 1, wB]
/-- child 0 is a redundant node at the `ident` position 3; child 1 skips
    positions 3 and 2 and is stored at position 1 (no singleton) -/
def tB : DD Nat := .node 4 [.node 3 [uB, uB], .node 1 [.leaf 1, .leaf 2]]

example : Red SB 0 4 none tB = true := by decide
/-- the identity relation is the single terminal -/
example : Red SB 0 4 none (.leaf 1 : DD Nat) = true := by decide
/-- an `i`-singleton below index `i` is rejected (it spells an identity) -/
example : Red SB 0 4 none (.node 4 [.node 3 [.leaf 1, .leaf 0], .leaf 1] : DD Nat) = false := by
  decide
/-- any singleton at an `ident` position is rejected when the unprimed position was skipped -/
example : Red SB 0 4 none (.node 4 [.leaf 1, .node 1 [.leaf 0, .leaf 2]] : DD Nat) = false := by
  decide

/-- (c) quasi reduced, two positions of size 2. -/
def SC : Shape where
  top := 2
  size := fun _ => 2
  mode := fun _ => .none

theorem SC_WF : SC.WF where
  size_ge := by intro p _ _; exact Nat.le_refl 2
  ident_below_red := by intro p h; cases h

example : Red SC 0 2 none (.node 2 [.node 1 [.leaf 0, .leaf 1], .leaf 0] : DD Nat) = true := by
  decide
/-- redundant nodes are stored in quasi-reduced forests -/
example : Red SC 0 2 none
    (.node 2 [.node 1 [.leaf 1, .leaf 1], .node 1 [.leaf 0, .leaf 1]] : DD Nat) = true := by
  decide
/-- only the transparent terminal may skip a position -/
example : Red SC 0 2 none (.node 2 [.leaf 1, .leaf 0] : DD Nat) = false := by decide

end CanonExamples

#print axioms DD.canon
#print axioms DD.canon_gen
#print axioms DD.zero_unique
/- Output (Lean 4.33.0):
'Meddly.DD.canon' depends on axioms: [propext, Classical.choice, Quot.sound]
'Meddly.DD.canon_gen' depends on axioms: [propext, Classical.choice, Quot.sound]
'Meddly.DD.zero_unique' depends on axioms: [propext, Classical.choice, Quot.sound]
-/

end Meddly
