/-
  Node storage codec of MEDDLY's `simple_separated` node storage
  (`/repo/src/storage/simple.cc`), properties C12 / C02.

  A node is *logically* a full vector of (child handle, edge value) pairs, one
  per index of the variable.  It is *stored* either as a TRUNCATED FULL vector
  (entries after the last non-transparent one are dropped) or SPARSELY (only
  the non-transparent entries, with ascending indexes).  Which one is used is
  decided in `simple_separated::makeNode` from the forest's
  `node_storage_flags` (`FULL_ONLY` = 1, `SPARSE_ONLY` = 2,
  `FULL_OR_SPARSE` = 3) and, when both are allowed, from the slot counts

      slotsForNode(sz, sparse) =
          extra_slots (3: next, size, tail) + unhashed_slots + hashed_slots
          + (sparse ? (2 + slots_per_edge) * sz : (1 + slots_per_edge) * sz)

  with the rule `slotsForNode(nnzs, true) < slotsForNode(truncsize, false)`
  → sparse, otherwise (ties included) → full.

  Everything that reads a stored node (`fillUnpacked`, `areDuplicates`,
  `getDownPtr`, `isSingletonNode`, `hashNode`) has one code path per stored
  form (and per unpacked form); the theorems below say that all of them
  compute a function of the logical content only.
-/
namespace Meddly
namespace Codec

/-! ## Data -/

/-- node handle; `0` is the transparent node (`tv`) -/
abbrev Handle := Int
/-- raw edge value: the `slots_per_edge` 32-bit words stored for an edge.
    Multi-terminal forests have `slots_per_edge = 0`, so their edge value is `[]`. -/
abbrev EdgeVal := List UInt32
/-- one entry of a full node: child and edge value -/
abbrev Entry := Handle × EdgeVal
/-- one entry of a sparse node: index, child, edge value -/
abbrev SEntry := Nat × Handle × EdgeVal
/-- logical node content: FULL child vector of the variable's size -/
abbrev Content := List Entry

/-- `node_storage_flags` (policies.h) -/
inductive Flags where
  | fullOnly      -- FULL_ONLY      = 0x01
  | sparseOnly    -- SPARSE_ONLY    = 0x02
  | fullOrSparse  -- FULL_OR_SPARSE = 0x03
  deriving DecidableEq, Repr

/-- per-forest layout constants of `simple_separated` -/
structure Cfg where
  /-- `slots_per_edge`: 0 (VOID), 1 (INT, FLOAT), 2 (LONG, DOUBLE) -/
  spe : Nat
  /-- the transparent edge value (`forest::getTransparentEdge`) -/
  te : EdgeVal
  /-- `unhashed_slots` -/
  unhashed : Nat := 0
  /-- `hashed_slots` -/
  hashed : Nat := 0

/-- `nb.hasEdges()` / `slots_per_edge > 0` -/
def Cfg.hasEdges (cfg : Cfg) : Bool := cfg.spe != 0

/-- the transparent entry `(tv, transparent_edge)` -/
def Cfg.zero (cfg : Cfg) : Entry := (0, cfg.te)

/-- the test of `makeNode` / `makeSparseNode` for "this entry is not stored":
    EV: `isTransparentEdge(ev, down)` (`down == tv && ev == transparent_edge`),
    MT: `down == tv`. -/
def Cfg.transparent (cfg : Cfg) (e : Entry) : Bool :=
  if cfg.spe = 0 then e.1 == 0 else (e.1 == 0 && e.2 == cfg.te)

/-- well-formed content: every edge value has `slots_per_edge` words and a
    transparent child carries the transparent edge value -/
def WF (cfg : Cfg) (c : Content) : Prop :=
  ∀ e ∈ c, e.2.length = cfg.spe ∧ (e.1 = 0 → e.2 = cfg.te)

/-- well-formed sparse entries -/
def WFS (cfg : Cfg) (l : List SEntry) : Prop :=
  ∀ e ∈ l, e.2.2.length = cfg.spe ∧ e.2.1 ≠ 0

/-- The stored form (slots after the header; parallel arrays as in the chunk). -/
inductive Packed where
  /-- truncated full: raw size `n`, `down[0..n)`, `edge[0..n)` -/
  | full (n : Nat) (down : List Handle) (ev : List EdgeVal)
  /-- sparse: `index[0..nnz)`, `down[0..nnz)`, `edge[0..nnz)` -/
  | sparse (idx : List Nat) (down : List Handle) (ev : List EdgeVal)
  deriving DecidableEq, Repr

/-- An unpacked node (`unpacked_node`), full or sparse. -/
inductive View where
  | full (c : Content)
  | sparse (l : List SEntry)
  deriving DecidableEq, Repr

/-! ## Scanning a full unpacked node (`makeNode`) -/

/-- indexed filter: the entries `e` at index `i, i+1, …` with `keep e` -/
def idxFilter (keep : Entry → Bool) : Nat → Content → List SEntry
  | _, [] => []
  | i, e :: c => if keep e then (i, e.1, e.2) :: idxFilter keep (i+1) c
                 else idxFilter keep (i+1) c

/-- the non-transparent entries with their indexes, as `makeSparseNode` copies them -/
def nonTransparentEntries (cfg : Cfg) (c : Content) : List SEntry :=
  idxFilter (fun e => !cfg.transparent e) 0 c

/-- the entries with a non-zero child, as `fillUnpacked` (stored full → sparse)
    and `hashNode` select them (`if (down[i])`) -/
def nzFrom (i : Nat) (c : Content) : List SEntry := idxFilter (fun e => e.1 != 0) i c

/-- the scanning loop of `makeNode`:
    `for i: if (!transparent(nb[i])) { nnzs++; truncsize = i+1; }`;
    state = `(nnzs, truncsize)` -/
def scanLoop (cfg : Cfg) : Nat → Nat × Nat → Content → Nat × Nat
  | _, s, [] => s
  | i, s, e :: c =>
    scanLoop cfg (i+1) (if cfg.transparent e then s else (s.1 + 1, i + 1)) c

/-- `nnzs` of `makeNode` -/
def nnz (cfg : Cfg) (c : Content) : Nat := (scanLoop cfg 0 (0, 0) c).1
/-- `truncsize` of `makeNode` -/
def truncSize (cfg : Cfg) (c : Content) : Nat := (scanLoop cfg 0 (0, 0) c).2

/-- the content without its trailing transparent entries (specification of
    what a truncated-full node stores) -/
def trunc (cfg : Cfg) : Content → Content
  | [] => []
  | e :: c =>
    match trunc cfg c with
    | [] => if cfg.transparent e then [] else [e]
    | t :: ts => e :: t :: ts

/-! ## Slot counts and `pack` (`makeNode`, `makeFullNode`, `makeSparseNode`) -/

/-- `header_slots + tail_slots` -/
def extraSlots : Nat := 3

/-- `simple_separated::slotsForNode(sz, sparse)` -/
def slotsForNode (cfg : Cfg) (sz : Nat) (sparse : Bool) : Nat :=
  extraSlots + cfg.unhashed + cfg.hashed +
    (if sparse then (2 + cfg.spe) * sz else (1 + cfg.spe) * sz)

/-- `makeFullNode(p, size, nb)` for a full `nb`: copies `nb[0..size)` -/
def mkFull (size : Nat) (c : Content) : Packed :=
  .full size ((c.take size).map (·.1)) ((c.take size).map (·.2))

/-- `makeSparseNode(p, size, nb)` for a full `nb`: copies the non-transparent
    entries (`size` is only used for the allocation) -/
def mkSparse (cfg : Cfg) (c : Content) : Packed :=
  let l := nonTransparentEntries cfg c
  .sparse (l.map (·.1)) (l.map (·.2.1)) (l.map (·.2.2))

/-- `simple_separated::makeNode(p, nb, opt)` -/
def pack (cfg : Cfg) (opt : Flags) (c : Content) : Packed :=
  match opt with
  | .fullOnly => mkFull (truncSize cfg c) c
  | .sparseOnly => mkSparse cfg c
  | .fullOrSparse =>
    if slotsForNode cfg (nnz cfg c) true < slotsForNode cfg (truncSize cfg c) false
    then mkSparse cfg c     -- "Sparse is smaller"
    else mkFull (truncSize cfg c) c   -- "Full is not larger"

/-- slots occupied by a stored node (from its raw size word) -/
def Packed.slots (cfg : Cfg) : Packed → Nat
  | .full n _ _ => slotsForNode cfg n false
  | .sparse idx _ _ => slotsForNode cfg idx.length true

def Packed.isSparse : Packed → Bool
  | .full .. => false
  | .sparse .. => true

/-! ## Reading a stored node -/

/-- the stored entries of a truncated-full node, zipped -/
def fullEntries (n : Nat) (down : List Handle) (ev : List EdgeVal) : Content :=
  (down.zip ev).take n

/-- the stored entries of a sparse node, zipped -/
def sparseEntries (idx : List Nat) (down : List Handle) (ev : List EdgeVal) : List SEntry :=
  idx.zip (down.zip ev)

/-- `nr.clear(0, size)` followed by `nr.setFull(index[z], edge[z], down[z])` for all z -/
def expand (cfg : Cfg) (size : Nat) (l : List SEntry) : Content :=
  l.foldl (fun acc e => acc.set e.1 (e.2.1, e.2.2)) (List.replicate size cfg.zero)

/-- `fillUnpacked` into a FULL unpacked node of `size` entries
    (stored full → full: copy then pad with the transparent edge;
     stored sparse → full: clear then scatter) -/
def unpackFull (cfg : Cfg) (size : Nat) : Packed → Content
  | .full n down ev =>
    let t := fullEntries n down ev
    t ++ List.replicate (size - t.length) cfg.zero
  | .sparse idx down ev => expand cfg size (sparseEntries idx down ev)

/-- `fillUnpacked` into a SPARSE unpacked node
    (stored full → sparse: keep `down[i] != 0`; stored sparse → sparse: copy) -/
def unpackSparse : Packed → List SEntry
  | .full n down ev => nzFrom 0 (fullEntries n down ev)
  | .sparse idx down ev => sparseEntries idx down ev

/-- `fillUnpacked(nr, addr, st2)` for a level of `size` indexes.  With
    `FULL_OR_SPARSE` the unpacked node takes the stored form, and a stored
    full node is NOT padded (`nr.shrink(size)`). -/
def fillUnpacked (cfg : Cfg) (st2 : Flags) (size : Nat) (p : Packed) : View :=
  match st2 with
  | .fullOnly => .full (unpackFull cfg size p)
  | .sparseOnly => .sparse (unpackSparse p)
  | .fullOrSparse =>
    match p with
    | .full n down ev => .full (fullEntries n down ev)
    | .sparse .. => .sparse (unpackSparse p)

/-- the full content a view stands for, at a level of `size` indexes -/
def View.toFull (cfg : Cfg) (size : Nat) : View → Content
  | .full c => c ++ List.replicate (size - c.length) cfg.zero
  | .sparse l => expand cfg size l

/-- the two unpacked views of a logical content -/
def fullView (c : Content) : View := .full c
def sparseView (cfg : Cfg) (c : Content) : View := .sparse (nonTransparentEntries cfg c)

/-! ## Basic lemmas -/

/-- entry-level well-formedness -/
def WFe (cfg : Cfg) (e : Entry) : Prop := e.2.length = cfg.spe ∧ (e.1 = 0 → e.2 = cfg.te)

theorem WF_nil (cfg : Cfg) : WF cfg [] := by intro e he; cases he

theorem WF_cons {cfg : Cfg} {e : Entry} {c : Content} :
    WF cfg (e :: c) ↔ WFe cfg e ∧ WF cfg c := by
  constructor
  · intro h
    exact ⟨h e (by simp), fun x hx => h x (by simp [hx])⟩
  · rintro ⟨h1, h2⟩ x hx
    rcases List.mem_cons.1 hx with rfl | hx
    · exact h1
    · exact h2 x hx

theorem transparent_eq {cfg : Cfg} {e : Entry} (h : WFe cfg e) :
    cfg.transparent e = (e.1 == 0) := by
  unfold Cfg.transparent
  by_cases hs : cfg.spe = 0
  · simp [hs]
  · by_cases h0 : e.1 = 0
    · simp [hs, h0, h.2 h0]
    · simp [hs, h0]

theorem eq_zero_of_down {cfg : Cfg} {e : Entry} (h : WFe cfg e) (h0 : e.1 = 0) :
    e = cfg.zero := by
  obtain ⟨a, b⟩ := e
  simp only at h0
  have := h.2 h0
  simp only at this
  simp [Cfg.zero, h0, this]

theorem idxFilter_congr {p q : Entry → Bool} :
    ∀ (c : Content) (i : Nat), (∀ e ∈ c, p e = q e) → idxFilter p i c = idxFilter q i c
  | [], _, _ => rfl
  | e :: c, i, h => by
    have he : p e = q e := h e (by simp)
    have hc := idxFilter_congr c (i+1) (fun x hx => h x (by simp [hx]))
    simp [idxFilter, he, hc]

theorem nte_eq_nz {cfg : Cfg} {c : Content} (h : WF cfg c) :
    nonTransparentEntries cfg c = nzFrom 0 c := by
  unfold nonTransparentEntries nzFrom
  apply idxFilter_congr
  intro e he
  rw [transparent_eq (h e he)]
  cases hz : (e.1 == 0) <;> simp_all

theorem idxFilter_append (p : Entry → Bool) :
    ∀ (a b : Content) (i : Nat),
      idxFilter p i (a ++ b) = idxFilter p i a ++ idxFilter p (i + a.length) b
  | [], b, i => by simp [idxFilter]
  | e :: a, b, i => by
    have := idxFilter_append p a b (i+1)
    have hi : i + 1 + a.length = i + (a.length + 1) := by omega
    by_cases hp : p e <;> simp [idxFilter, hp, this, hi]

theorem idxFilter_ge (p : Entry → Bool) :
    ∀ (c : Content) (i : Nat), ∀ x ∈ idxFilter p i c, i ≤ x.1 ∧ x.1 < i + c.length
  | [], _, x, hx => by simp [idxFilter] at hx
  | e :: c, i, x, hx => by
    have ih := idxFilter_ge p c (i+1) x
    simp only [List.length_cons]
    by_cases hp : p e
    · simp only [idxFilter, hp, if_true, List.mem_cons] at hx
      rcases hx with rfl | hx
      · simp
      · have := ih hx; omega
    · simp only [idxFilter, hp] at hx
      have := ih hx; omega

theorem idxFilter_eq_nil {p : Entry → Bool} :
    ∀ (c : Content) (i : Nat), idxFilter p i c = [] ↔ ∀ e ∈ c, p e = false
  | [], _ => by simp [idxFilter]
  | e :: c, i => by
    have ih := idxFilter_eq_nil (p := p) c (i+1)
    by_cases hp : p e <;> simp [idxFilter, hp, ih]

/-! ## `trunc`, `truncSize`, `nnz` -/

theorem trunc_cons (cfg : Cfg) (e : Entry) (c : Content) :
    trunc cfg (e :: c) =
      if trunc cfg c = [] then (if cfg.transparent e then [] else [e]) else e :: trunc cfg c := by
  simp only [trunc]
  cases h : trunc cfg c <;> simp

/-- `trunc c` is a prefix of `c` -/
theorem take_trunc (cfg : Cfg) : ∀ c : Content, c.take (trunc cfg c).length = trunc cfg c
  | [] => by simp [trunc]
  | e :: c => by
    have ih := take_trunc cfg c
    rw [trunc_cons]
    by_cases h : trunc cfg c = []
    · by_cases ht : cfg.transparent e <;> simp [h, ht]
    · simp [h, ih]

theorem trunc_length_le (cfg : Cfg) (c : Content) : (trunc cfg c).length ≤ c.length := by
  have := congrArg List.length (take_trunc cfg c)
  simp at this
  omega

/-- the dropped suffix is all-transparent -/
theorem trunc_eq_nil {cfg : Cfg} : ∀ c : Content,
    trunc cfg c = [] ↔ ∀ e ∈ c, cfg.transparent e = true
  | [] => by simp [trunc]
  | e :: c => by
    have ih := trunc_eq_nil (cfg := cfg) c
    rw [trunc_cons]
    by_cases h : trunc cfg c = []
    · by_cases ht : cfg.transparent e
      · simp only [h, ht, if_true, true_iff]
        intro x hx
        rcases List.mem_cons.1 hx with rfl | hx
        · exact ht
        · exact ih.1 h x hx
      · simp [h, ht]
    · simp only [h, if_false, List.cons_ne_nil, false_iff]
      intro hall
      exact h (ih.2 (fun x hx => hall x (by simp [hx])))

theorem trunc_append_replicate {cfg : Cfg} : ∀ {c : Content}, WF cfg c →
    trunc cfg c ++ List.replicate (c.length - (trunc cfg c).length) cfg.zero = c
  | [], _ => by simp [trunc]
  | e :: c, h => by
    obtain ⟨he, hc⟩ := WF_cons.1 h
    have ih := trunc_append_replicate hc
    rw [trunc_cons]
    by_cases hn : trunc cfg c = []
    · rw [hn] at ih
      simp only [List.length_nil, Nat.sub_zero, List.nil_append] at ih
      by_cases ht : cfg.transparent e
      · have h0 : e.1 = 0 := by rw [transparent_eq he] at ht; simpa using ht
        have := eq_zero_of_down he h0
        simp only [hn, ht, if_true, List.length_nil, Nat.sub_zero, List.nil_append,
          List.length_cons, List.replicate_succ]
        rw [ih, this]
      · simp only [hn, ht, if_true, List.length_cons]
        simp [ih]
    · simp only [hn, if_false, List.length_cons, List.cons_append]
      have : c.length + 1 - ((trunc cfg c).length + 1) = c.length - (trunc cfg c).length := by omega
      rw [this, ih]

theorem scanLoop_eq (cfg : Cfg) : ∀ (c : Content) (i : Nat) (s : Nat × Nat),
    scanLoop cfg i s c =
      (s.1 + (idxFilter (fun e => !cfg.transparent e) i c).length,
       if trunc cfg c = [] then s.2 else i + (trunc cfg c).length)
  | [], i, s => by simp [scanLoop, idxFilter, trunc]
  | e :: c, i, s => by
    rw [scanLoop, scanLoop_eq cfg c, trunc_cons]
    by_cases ht : cfg.transparent e <;> by_cases hn : trunc cfg c = [] <;>
      simp [idxFilter, ht, hn] <;> omega

theorem nnz_eq (cfg : Cfg) (c : Content) : nnz cfg c = (nonTransparentEntries cfg c).length := by
  simp [nnz, nonTransparentEntries, scanLoop_eq]

theorem truncSize_eq (cfg : Cfg) (c : Content) : truncSize cfg c = (trunc cfg c).length := by
  simp only [truncSize, scanLoop_eq]
  by_cases hn : trunc cfg c = [] <;> simp [hn]

theorem idxFilter_trunc (cfg : Cfg) : ∀ (c : Content) (i : Nat),
    idxFilter (fun e => !cfg.transparent e) i (trunc cfg c)
      = idxFilter (fun e => !cfg.transparent e) i c
  | [], _ => by simp [trunc]
  | e :: c, i => by
    have ih := idxFilter_trunc cfg c (i+1)
    rw [trunc_cons]
    by_cases hn : trunc cfg c = []
    · rw [hn] at ih
      by_cases ht : cfg.transparent e <;> simp [hn, ht, idxFilter] at ih ⊢ <;> exact ih
    · simp [hn, idxFilter, ih]

theorem WF_trunc {cfg : Cfg} {c : Content} (h : WF cfg c) : WF cfg (trunc cfg c) := by
  intro e he
  apply h
  rw [← take_trunc] at he
  exact List.mem_of_mem_take he

/-! ## Decoding what `pack` stored -/

theorem zip_map_fst_snd {α β : Type} : ∀ l : List (α × β), (l.map (·.1)).zip (l.map (·.2)) = l
  | [] => rfl
  | (a, b) :: l => by simp [zip_map_fst_snd l]

theorem zip3_map {α β γ : Type} : ∀ l : List (α × β × γ),
    (l.map (·.1)).zip ((l.map (·.2.1)).zip (l.map (·.2.2))) = l
  | [] => rfl
  | (a, b, c) :: l => by simp [zip3_map l]

theorem fullEntries_mkFull (n : Nat) (c : Content) :
    fullEntries n ((c.take n).map (·.1)) ((c.take n).map (·.2)) = c.take n := by
  rw [fullEntries, zip_map_fst_snd, List.take_take]; simp

theorem sparseEntries_map (l : List SEntry) :
    sparseEntries (l.map (·.1)) (l.map (·.2.1)) (l.map (·.2.2)) = l := zip3_map l

/-- stored entries of `pack` in the full case -/
theorem fullEntries_pack_full (cfg : Cfg) (c : Content) :
    fullEntries (truncSize cfg c) ((c.take (truncSize cfg c)).map (·.1))
      ((c.take (truncSize cfg c)).map (·.2)) = trunc cfg c := by
  rw [fullEntries_mkFull, truncSize_eq, take_trunc]

/-- `pack` yields one of exactly two stored forms -/
theorem pack_cases (cfg : Cfg) (opt : Flags) (c : Content) :
    pack cfg opt c = mkFull (truncSize cfg c) c ∨ pack cfg opt c = mkSparse cfg c := by
  cases opt
  · exact .inl rfl
  · exact .inr rfl
  · unfold pack
    simp only
    split
    · exact .inr rfl
    · exact .inl rfl

theorem expand_aux (cfg : Cfg) : ∀ (c pre : Content), WF cfg c →
    (idxFilter (fun e => !cfg.transparent e) pre.length c).foldl
        (fun acc e => acc.set e.1 (e.2.1, e.2.2)) (pre ++ List.replicate c.length cfg.zero)
      = pre ++ c
  | [], pre, _ => by simp [idxFilter]
  | e :: c, pre, h => by
    obtain ⟨he, hc⟩ := WF_cons.1 h
    have ih := expand_aux cfg c (pre ++ [e]) hc
    simp only [List.length_append, List.length_cons, List.length_nil, Nat.zero_add,
      List.append_assoc, List.cons_append, List.nil_append] at ih
    simp only [idxFilter, List.length_cons, List.replicate_succ]
    by_cases ht : cfg.transparent e
    · have h0 : e.1 = 0 := by rw [transparent_eq he] at ht; simpa using ht
      have hz := eq_zero_of_down he h0
      simp only [ht, Bool.not_true, Bool.false_eq_true, if_false]
      rw [hz] at ih ⊢; exact ih
    · simp only [ht, Bool.not_false, if_true, List.foldl_cons]
      have : (pre ++ cfg.zero :: List.replicate c.length cfg.zero).set pre.length (e.1, e.2)
          = pre ++ e :: List.replicate c.length cfg.zero := by
        rw [List.set_append_right _ _ (Nat.le_refl _)]
        simp
      rw [this]; exact ih

theorem expand_nte {cfg : Cfg} {c : Content} (h : WF cfg c) :
    expand cfg c.length (nonTransparentEntries cfg c) = c := by
  have := expand_aux cfg c [] h
  simpa [expand, nonTransparentEntries] using this

theorem unpack_pack_full {cfg : Cfg} (opt : Flags) {c : Content} (h : WF cfg c) :
    unpackFull cfg c.length (pack cfg opt c) = c := by
  rcases pack_cases cfg opt c with hp | hp <;> rw [hp]
  · simp only [mkFull, unpackFull]
    rw [fullEntries_pack_full]
    exact trunc_append_replicate h
  · simp only [mkSparse, unpackFull]
    rw [sparseEntries_map]
    exact expand_nte h

theorem nzFrom_trunc {cfg : Cfg} {c : Content} (h : WF cfg c) :
    nzFrom 0 (trunc cfg c) = nonTransparentEntries cfg c := by
  rw [← nte_eq_nz (WF_trunc h)]
  exact idxFilter_trunc cfg c 0

theorem unpack_pack_sparse {cfg : Cfg} (opt : Flags) {c : Content} (h : WF cfg c) :
    unpackSparse (pack cfg opt c) = nonTransparentEntries cfg c := by
  rcases pack_cases cfg opt c with hp | hp <;> rw [hp]
  · simp only [mkFull, unpackSparse]
    rw [fullEntries_pack_full]
    exact nzFrom_trunc h
  · simp only [mkSparse, unpackSparse]
    exact sparseEntries_map _

/-! ## Views agree; independence of the storage flag -/

theorem views_agree {cfg : Cfg} (opt : Flags) {c : Content} (h : WF cfg c) :
    expand cfg c.length (unpackSparse (pack cfg opt c)) = unpackFull cfg c.length (pack cfg opt c) := by
  rw [unpack_pack_sparse opt h, unpack_pack_full opt h, expand_nte h]

/-- whatever unpacked form `fillUnpacked` is asked for (`st2`), and whatever the
    stored form, the unpacked node stands for the logical content -/
theorem fillUnpacked_toFull {cfg : Cfg} (opt st2 : Flags) {c : Content} (h : WF cfg c) :
    (fillUnpacked cfg st2 c.length (pack cfg opt c)).toFull cfg c.length = c := by
  cases st2
  · simp only [fillUnpacked, View.toFull]
    rw [unpack_pack_full opt h]; simp
  · simp only [fillUnpacked, View.toFull]
    rw [unpack_pack_sparse opt h, expand_nte h]
  · rcases pack_cases cfg opt c with hp | hp <;> rw [hp]
    · simp only [mkFull, fillUnpacked, View.toFull]
      rw [fullEntries_pack_full]
      exact trunc_append_replicate h
    · simp only [mkSparse, fillUnpacked, View.toFull, unpackSparse]
      rw [sparseEntries_map]
      exact expand_nte h

/-- the exact unpacked node for each requested form -/
theorem fillUnpacked_fullOnly {cfg : Cfg} (opt : Flags) {c : Content} (h : WF cfg c) :
    fillUnpacked cfg .fullOnly c.length (pack cfg opt c) = fullView c := by
  simp only [fillUnpacked, fullView]; rw [unpack_pack_full opt h]

theorem fillUnpacked_sparseOnly {cfg : Cfg} (opt : Flags) {c : Content} (h : WF cfg c) :
    fillUnpacked cfg .sparseOnly c.length (pack cfg opt c) = sparseView cfg c := by
  simp only [fillUnpacked, sparseView]; rw [unpack_pack_sparse opt h]

theorem fillUnpacked_fullOrSparse (cfg : Cfg) (opt : Flags) (c : Content) :
    fillUnpacked cfg .fullOrSparse c.length (pack cfg opt c) =
      if (pack cfg opt c).isSparse then sparseView cfg c else .full (trunc cfg c) := by
  rcases pack_cases cfg opt c with hp | hp <;> rw [hp]
  · simp only [mkFull, fillUnpacked, Packed.isSparse]
    rw [fullEntries_pack_full]; simp
  · simp only [mkSparse, fillUnpacked, Packed.isSparse, unpackSparse, sparseView]
    rw [sparseEntries_map]; simp

theorem pack_flag_indep {cfg : Cfg} (f1 f2 : Flags) {c : Content} (h : WF cfg c) :
    unpackFull cfg c.length (pack cfg f1 c) = unpackFull cfg c.length (pack cfg f2 c) := by
  rw [unpack_pack_full f1 h, unpack_pack_full f2 h]

theorem pack_flag_indep_sparse {cfg : Cfg} (f1 f2 : Flags) {c : Content} (h : WF cfg c) :
    unpackSparse (pack cfg f1 c) = unpackSparse (pack cfg f2 c) := by
  rw [unpack_pack_sparse f1 h, unpack_pack_sparse f2 h]

theorem transparent_zero (cfg : Cfg) : cfg.transparent cfg.zero = true := by
  unfold Cfg.transparent Cfg.zero
  by_cases hs : cfg.spe = 0 <;> simp [hs]

theorem WFe_zero {cfg : Cfg} (hte : cfg.te.length = cfg.spe) : WFe cfg cfg.zero :=
  ⟨hte, fun _ => rfl⟩

/-- decoding into a full node of ANY size `n ≥ truncsize` (e.g. an extensible
    level) gives `trunc c` padded with transparent entries, under every flag -/
theorem unpackFull_pack_ge {cfg : Cfg} (hte : cfg.te.length = cfg.spe) (opt : Flags)
    {c : Content} (h : WF cfg c) {n : Nat} (hn : truncSize cfg c ≤ n) :
    unpackFull cfg n (pack cfg opt c)
      = trunc cfg c ++ List.replicate (n - (trunc cfg c).length) cfg.zero := by
  rcases pack_cases cfg opt c with hp | hp <;> rw [hp]
  · simp only [mkFull, unpackFull]
    rw [fullEntries_pack_full]
  · simp only [mkSparse, unpackFull]
    rw [sparseEntries_map]
    rw [truncSize_eq] at hn
    let c' := trunc cfg c ++ List.replicate (n - (trunc cfg c).length) cfg.zero
    have hwf : WF cfg c' := by
      intro e he
      rcases List.mem_append.1 he with he | he
      · exact WF_trunc h e he
      · rw [List.eq_of_mem_replicate he]; exact WFe_zero hte
    have hlen : c'.length = n := by simp [c']; omega
    have hnte : nonTransparentEntries cfg c' = nonTransparentEntries cfg c := by
      simp only [nonTransparentEntries, c', idxFilter_append, idxFilter_trunc]
      have : idxFilter (fun e => !cfg.transparent e) (0 + (trunc cfg c).length)
          (List.replicate (n - (trunc cfg c).length) cfg.zero) = [] := by
        rw [idxFilter_eq_nil]
        intro e he
        rw [List.eq_of_mem_replicate he, transparent_zero]; rfl
      rw [this, List.append_nil]
    have := expand_nte hwf
    rw [hlen, hnte] at this
    exact this

theorem pack_flag_indep_ge {cfg : Cfg} (hte : cfg.te.length = cfg.spe) (f1 f2 : Flags)
    {c : Content} (h : WF cfg c) {n : Nat} (hn : truncSize cfg c ≤ n) :
    unpackFull cfg n (pack cfg f1 c) = unpackFull cfg n (pack cfg f2 c) := by
  rw [unpackFull_pack_ge hte f1 h hn, unpackFull_pack_ge hte f2 h hn]

/-! ## Slot counts -/

theorem slots_mkFull (cfg : Cfg) (n : Nat) (c : Content) :
    (mkFull n c).slots cfg = slotsForNode cfg n false := rfl

theorem slots_mkSparse (cfg : Cfg) (c : Content) :
    (mkSparse cfg c).slots cfg = slotsForNode cfg (nnz cfg c) true := by
  simp [mkSparse, Packed.slots, nnz_eq]

/-- the layout rule of `makeNode`, in terms of the per-entry costs:
    sparse costs `2 + slots_per_edge` per stored entry, truncated-full costs
    `1 + slots_per_edge`; sparse is chosen iff STRICTLY smaller -/
theorem pack_fullOrSparse_isSparse (cfg : Cfg) (c : Content) :
    (pack cfg .fullOrSparse c).isSparse = true ↔
      (2 + cfg.spe) * nnz cfg c < (1 + cfg.spe) * truncSize cfg c := by
  unfold pack
  simp only [slotsForNode, if_true, Bool.false_eq_true, if_false]
  split
  · rename_i hlt
    simp only [mkSparse, Packed.isSparse, true_iff]; omega
  · rename_i hlt
    simp only [mkFull, Packed.isSparse, Bool.false_eq_true, false_iff]; omega

theorem pack_fullOnly_isSparse (cfg : Cfg) (c : Content) :
    (pack cfg .fullOnly c).isSparse = false := rfl

theorem pack_sparseOnly_isSparse (cfg : Cfg) (c : Content) :
    (pack cfg .sparseOnly c).isSparse = true := rfl

/-- with `FULL_OR_SPARSE` the stored node is never larger than the full layout … -/
theorem slots_fullOrSparse_le_full (cfg : Cfg) (c : Content) :
    (pack cfg .fullOrSparse c).slots cfg ≤ (pack cfg .fullOnly c).slots cfg := by
  unfold pack
  simp only
  split
  · rename_i hlt
    rw [slots_mkSparse, slots_mkFull]; omega
  · exact Nat.le_refl _

/-- … and never larger than the sparse layout -/
theorem slots_fullOrSparse_le_sparse (cfg : Cfg) (c : Content) :
    (pack cfg .fullOrSparse c).slots cfg ≤ (pack cfg .sparseOnly c).slots cfg := by
  unfold pack
  simp only
  split
  · exact Nat.le_refl _
  · rename_i hlt
    rw [slots_mkSparse, slots_mkFull]; omega

/-- tie-break: equal slot counts → truncated full -/
theorem pack_tie_full (cfg : Cfg) (c : Content)
    (h : slotsForNode cfg (nnz cfg c) true = slotsForNode cfg (truncSize cfg c) false) :
    pack cfg .fullOrSparse c = pack cfg .fullOnly c := by
  unfold pack
  simp only [h, Nat.lt_irrefl, if_false]

/-- `nnzs ≤ truncsize`, so for the full layout to lose, more than half of
    (MT) / more than a third of (EV, 1 slot) … of the truncated entries must be transparent -/
theorem nnz_le_truncSize (cfg : Cfg) (c : Content) : nnz cfg c ≤ truncSize cfg c := by
  rw [nnz_eq, truncSize_eq, nonTransparentEntries, ← idxFilter_trunc]
  generalize trunc cfg c = t
  generalize (0 : Nat) = i
  induction t generalizing i with
  | nil => simp [idxFilter]
  | cons e t ih =>
    have := ih (i+1)
    simp only [idxFilter]
    split <;> simp <;> omega

/-! ## `getDownPtr` (binary search in sparse nodes) -/

/-- `simple_separated::findSparseIndex(i, index, N)`: binary search, with
    explicit fuel (`N + 1` steps always suffice); `none` is the code's `-1` -/
def findSparseIndex (i : Nat) (index : List Nat) : Nat → Nat → Nat → Option Nat
  | 0, _, _ => none
  | fuel+1, low, high =>
    if low < high then
      if index.getD ((low + high) / 2) 0 = i then some ((low + high) / 2)
      else if index.getD ((low + high) / 2) 0 < i then
        findSparseIndex i index fuel ((low + high) / 2 + 1) high
      else findSparseIndex i index fuel low ((low + high) / 2)
    else none

/-- `getDownPtr(addr, i)` -/
def getDownPtr (p : Packed) (i : Nat) : Handle :=
  match p with
  | .full n down _ => if i < n then down.getD i 0 else 0
  | .sparse idx down _ =>
    match findSparseIndex i idx (idx.length + 1) 0 idx.length with
    | some z => down.getD z 0
    | none => 0

/-- `getDownPtr(addr, i, ev, dn)`; `none` = `ev` is left untouched -/
def getDownEdge (p : Packed) (i : Nat) : Handle × Option EdgeVal :=
  match p with
  | .full n down ev => if i < n then (down.getD i 0, some (ev.getD i [])) else (0, none)
  | .sparse idx down ev =>
    match findSparseIndex i idx (idx.length + 1) 0 idx.length with
    | some z => (down.getD z 0, some (ev.getD z []))
    | none => (0, none)

theorem findSparseIndex_some {i : Nat} {index : List Nat} :
    ∀ (fuel low high z : Nat), findSparseIndex i index fuel low high = some z →
      low ≤ z ∧ z < high ∧ index.getD z 0 = i
  | 0, _, _, _, h => by simp [findSparseIndex] at h
  | fuel+1, low, high, z, h => by
    unfold findSparseIndex at h
    split at h
    · rename_i hlt
      split at h
      · rename_i heq
        cases h
        refine ⟨?_, ?_, heq⟩ <;> omega
      · split at h
        · have := findSparseIndex_some fuel _ _ _ h
          omega
        · have := findSparseIndex_some fuel _ _ _ h
          omega
    · cases h

theorem findSparseIndex_none {i : Nat} {index : List Nat}
    (hs : ∀ a b, a < b → b < index.length → index.getD a 0 < index.getD b 0) :
    ∀ (fuel low high : Nat), high ≤ index.length → high - low < fuel →
      findSparseIndex i index fuel low high = none →
      ∀ z, low ≤ z → z < high → index.getD z 0 ≠ i
  | 0, _, _, _, hf, _, _, _, _ => by omega
  | fuel+1, low, high, hh, hf, h, z, hz1, hz2 => by
    unfold findSparseIndex at h
    split at h
    · rename_i hlt
      split at h
      · cases h
      · rename_i hne
        split at h
        · rename_i hlt2
          by_cases hz : z ≤ (low + high) / 2
          · by_cases hz' : z = (low + high) / 2
            · rw [hz']; exact hne
            · have := hs z ((low + high) / 2) (by omega) (by omega)
              omega
          · exact findSparseIndex_none hs fuel _ _ hh (by omega) h z (by omega) hz2
        · rename_i hnlt
          by_cases hz : z < (low + high) / 2
          · exact findSparseIndex_none hs fuel _ _ (by omega) (by omega) h z hz1 hz
          · by_cases hz' : z = (low + high) / 2
            · rw [hz']; exact hne
            · have := hs ((low + high) / 2) z (by omega) (by omega)
              omega
    · omega

theorem idxFilter_cons_pos {p : Entry → Bool} {e : Entry} (c : Content) (i : Nat)
    (hp : p e = true) : idxFilter p i (e :: c) = (i, e.1, e.2) :: idxFilter p (i+1) c := by
  simp [idxFilter, hp]

theorem idxFilter_cons_neg {p : Entry → Bool} {e : Entry} (c : Content) (i : Nat)
    (hp : p e = false) : idxFilter p i (e :: c) = idxFilter p (i+1) c := by
  simp [idxFilter, hp]

/-- membership in an indexed filter -/
theorem mem_idxFilter {p : Entry → Bool} : ∀ (c : Content) (i : Nat) (x : SEntry),
    x ∈ idxFilter p i c ↔ i ≤ x.1 ∧ c[x.1 - i]? = some x.2 ∧ p x.2 = true
  | [], _, x => by simp [idxFilter]
  | (a, b) :: c, i, (j, h, v) => by
    have ih := mem_idxFilter (p := p) c (i+1) (j, h, v)
    simp only at ih ⊢
    by_cases hij : i ≤ j
    · by_cases hj : j = i
      · subst hj
        have hnot : (j, h, v) ∉ idxFilter p (j+1) c := by
          intro hm; have := (idxFilter_ge p c (j+1) _ hm).1; simp at this; omega
        simp only [Nat.le_refl, Nat.sub_self, List.getElem?_cons_zero, Option.some.injEq, true_and]
        cases hp : p (a, b)
        · rw [idxFilter_cons_neg _ _ hp]
          constructor
          · intro hm; exact absurd hm hnot
          · rintro ⟨heq, hp'⟩; rw [heq, hp'] at hp; cases hp
        · rw [idxFilter_cons_pos _ _ hp]
          simp only [List.mem_cons, hnot, or_false, Prod.mk.injEq, true_and]
          constructor
          · rintro ⟨rfl, rfl⟩; exact ⟨⟨rfl, rfl⟩, hp⟩
          · rintro ⟨⟨rfl, rfl⟩, _⟩; exact ⟨rfl, rfl⟩
      · have hsub : j - i = (j - (i+1)) + 1 := by omega
        rw [hsub, List.getElem?_cons_succ]
        have hiff : (i ≤ j ∧ c[j - (i+1)]? = some (h, v) ∧ p (h, v) = true) ↔
            (i + 1 ≤ j ∧ c[j - (i+1)]? = some (h, v) ∧ p (h, v) = true) := by
          constructor
          · rintro ⟨_, h2⟩; exact ⟨by omega, h2⟩
          · rintro ⟨_, h2⟩; exact ⟨by omega, h2⟩
        rw [hiff, ← ih]
        cases hp : p (a, b)
        · rw [idxFilter_cons_neg _ _ hp]
        · rw [idxFilter_cons_pos _ _ hp]
          simp only [List.mem_cons, Prod.mk.injEq]
          constructor
          · rintro (⟨h1, _⟩ | hm)
            · exact absurd h1 hj
            · exact hm
          · intro hm; exact .inr hm
    · constructor
      · intro hm; have := (idxFilter_ge p _ i _ hm).1; simp at this; omega
      · rintro ⟨h1, _⟩; omega

theorem idxFilter_pairwise (p : Entry → Bool) : ∀ (c : Content) (i : Nat),
    (idxFilter p i c).Pairwise (fun a b => a.1 < b.1)
  | [], _ => by simp [idxFilter]
  | e :: c, i => by
    have ih := idxFilter_pairwise p c (i+1)
    by_cases hp : p e
    · simp only [idxFilter, hp, if_true, List.pairwise_cons]
      refine ⟨?_, ih⟩
      intro x hx
      have := (idxFilter_ge p c (i+1) x hx).1
      omega
    · simpa [idxFilter, hp] using ih

/-- the index array of a packed sparse node is strictly ascending -/
theorem idx_sorted (p : Entry → Bool) (c : Content) (i : Nat) :
    let index := (idxFilter p i c).map (·.1)
    ∀ a b, a < b → b < index.length → index.getD a 0 < index.getD b 0 := by
  intro index a b hab hb
  have hpw : index.Pairwise (· < ·) := by
    simp only [index, List.pairwise_map]; exact idxFilter_pairwise p c i
  have := List.pairwise_iff_getElem.1 hpw a b (by omega) hb hab
  simpa [List.getD_eq_getElem?_getD, List.getElem?_eq_getElem, hb, Nat.lt_trans hab hb] using this

/-- the logical child at index `i` (transparent outside the node) -/
def downAt (c : Content) (i : Nat) : Handle := (c[i]?.map (·.1)).getD 0

theorem downAt_trunc {cfg : Cfg} : ∀ {c : Content}, WF cfg c → ∀ i,
    downAt (trunc cfg c) i = downAt c i
  | [], _, i => by simp [trunc]
  | e :: c, h, i => by
    obtain ⟨he, hc⟩ := WF_cons.1 h
    have ih := downAt_trunc hc
    rw [trunc_cons]
    by_cases hn : trunc cfg c = []
    · have ih' : ∀ i, downAt c i = 0 := by
        intro i; rw [← ih i, hn]; simp [downAt]
      by_cases ht : cfg.transparent e
      · have h0 : e.1 = 0 := by rw [transparent_eq he] at ht; simpa using ht
        simp only [hn, ht, if_true]
        cases i with
        | zero => simp [downAt, h0]
        | succ i => have := ih' i; simp [downAt] at this ⊢; exact this.symm
      · simp only [hn, ht, if_true]
        cases i with
        | zero => simp [downAt]
        | succ i => have := ih' i; simp [downAt] at this ⊢; exact this.symm
    · simp only [hn, if_false]
      cases i with
      | zero => simp [downAt]
      | succ i => have := ih i; simp [downAt] at this ⊢; exact this

theorem getDownEdge_fst (p : Packed) (i : Nat) : (getDownEdge p i).1 = getDownPtr p i := by
  cases p with
  | full n down ev => simp only [getDownEdge, getDownPtr]; split <;> rfl
  | sparse idx down ev => simp only [getDownEdge, getDownPtr]; split <;> rfl

theorem getDownEdge_spec {cfg : Cfg} (opt : Flags) {c : Content} (h : WF cfg c) (i : Nat) :
    ∃ r, getDownEdge (pack cfg opt c) i = (downAt c i, r) ∧
      (∀ v, r = some v → c[i]? = some (downAt c i, v)) ∧ (downAt c i ≠ 0 → r ≠ none) := by
  rcases pack_cases cfg opt c with hp | hp <;> rw [hp]
  · -- stored truncated full
    simp only [mkFull, getDownEdge]
    rw [truncSize_eq, take_trunc]
    by_cases hi : i < (trunc cfg c).length
    · have hci : c[i]? = (trunc cfg c)[i]? := by
        rw [← take_trunc cfg c, List.getElem?_take_of_lt hi]
      have he : (trunc cfg c)[i]? = some (trunc cfg c)[i] := List.getElem?_eq_getElem hi
      refine ⟨some ((trunc cfg c)[i]).2, ?_, ?_, by simp⟩
      · simp [hi, downAt, hci, List.getD_eq_getElem?_getD]
      · intro v hv; cases hv; simp [downAt, hci, he]
    · have h0 : downAt c i = 0 := by
        rw [← downAt_trunc h i]
        simp [downAt, List.getElem?_eq_none (Nat.le_of_not_lt hi)]
      exact ⟨none, by simp [hi, h0], by simp, fun hne => absurd h0 hne⟩
  · -- stored sparse
    simp only [mkSparse, getDownEdge]
    generalize hl : nonTransparentEntries cfg c = l
    have hsorted := idx_sorted (fun e => !cfg.transparent e) c 0
    simp only at hsorted
    rw [show idxFilter (fun e => !cfg.transparent e) 0 c = l from hl] at hsorted
    cases hf : findSparseIndex i (l.map (·.1)) ((l.map (·.1)).length + 1) 0 (l.map (·.1)).length with
    | some z =>
      obtain ⟨_, hz, hzi⟩ := findSparseIndex_some _ _ _ _ hf
      simp only [List.length_map] at hz
      have hmem : l[z] ∈ nonTransparentEntries cfg c := by rw [hl]; exact List.getElem_mem hz
      have hm := (mem_idxFilter c 0 _).1 hmem
      have hz1 : (l[z]).1 = i := by
        simpa [List.getD_eq_getElem?_getD, List.getElem?_eq_getElem, hz] using hzi
      rw [hz1] at hm
      simp only [Nat.sub_zero] at hm
      refine ⟨some (l[z]).2.2, ?_, ?_, by simp⟩
      · simp [downAt, hm.2.1, List.getD_eq_getElem?_getD, hz]
      · intro v hv; cases hv; simp [downAt, hm.2.1]
    | none =>
      have hnone := findSparseIndex_none hsorted _ _ _ (Nat.le_refl _) (by omega) hf
      have h0 : downAt c i = 0 := by
        cases hc : c[i]? with
        | none => simp [downAt, hc]
        | some e =>
          by_cases he0 : e.1 = 0
          · simp [downAt, hc, he0]
          · exfalso
            have hwe : WFe cfg e := h e (List.mem_of_getElem? hc)
            have hnt : (!cfg.transparent e) = true := by
              rw [transparent_eq hwe]; simp [he0]
            have hmem : (i, e.1, e.2) ∈ l := by
              rw [← hl]
              exact (mem_idxFilter c 0 (i, e.1, e.2)).2 ⟨Nat.zero_le _, by simpa using hc, hnt⟩
            obtain ⟨z, hz, hzl⟩ := List.getElem_of_mem hmem
            have := hnone z (Nat.zero_le _) (by simpa using hz)
            apply this
            simp [List.getD_eq_getElem?_getD, hz, hzl]
      exact ⟨none, by simp [h0], by simp, fun hne => absurd h0 hne⟩

theorem getDownPtr_spec {cfg : Cfg} (opt : Flags) {c : Content} (h : WF cfg c) (i : Nat) :
    getDownPtr (pack cfg opt c) i = downAt c i := by
  obtain ⟨r, hr, _⟩ := getDownEdge_spec opt h i
  rw [← getDownEdge_fst, hr]

/-! ## `isSingletonNode` -/

/-- `isSingletonNode(addr, ind, down)`.
    Sparse: exactly one stored entry.
    Truncated full (`size ≥ 1` asserted by the code): the last stored entry is
    non-transparent by construction, so the node is a singleton iff ALL the
    stored entries before the last one (`size-2 … 0`) are transparent. -/
def isSingleton : Packed → Option (Nat × Handle)
  | .sparse idx down _ =>
    if idx.length = 1 then some (idx.getD 0 0, down.getD 0 0) else none
  | .full n down _ =>
    if n = 0 then none
    else if (down.take (n - 1)).all (· == 0) then some (n - 1, down.getD (n - 1) 0)
    else none

/-- the truth about singletons, from the logical content: exactly one
    non-transparent entry, at index `i` with child `h` -/
def singletonSpec (cfg : Cfg) (c : Content) : Option (Nat × Handle) :=
  match nonTransparentEntries cfg c with
  | [(i, h, _)] => some (i, h)
  | _ => none

theorem trunc_last {cfg : Cfg} : ∀ (c init : Content) (last : Entry),
    trunc cfg c = init ++ [last] → cfg.transparent last = false
  | [], init, last, h => by simp [trunc] at h
  | e :: c, init, last, h => by
    rw [trunc_cons] at h
    by_cases hn : trunc cfg c = []
    · by_cases ht : cfg.transparent e
      · simp [hn, ht] at h
      · simp only [hn, ht, if_true] at h
        cases init with
        | nil => simp at h; rw [← h]; simpa using ht
        | cons a init => simp at h
    · simp only [hn, if_false] at h
      cases init with
      | nil => simp at h; exact absurd h.2 hn
      | cons a init =>
        simp only [List.cons_append, List.cons.injEq] at h
        exact trunc_last c init last h.2

theorem isSingleton_spec {cfg : Cfg} (opt : Flags) {c : Content} (h : WF cfg c) :
    isSingleton (pack cfg opt c) = singletonSpec cfg c := by
  rcases pack_cases cfg opt c with hp | hp <;> rw [hp]
  · -- stored truncated full
    simp only [mkFull, isSingleton, singletonSpec]
    rw [truncSize_eq, take_trunc, nonTransparentEntries, ← idxFilter_trunc]
    have hwt := WF_trunc h
    rcases List.eq_nil_or_concat (trunc cfg c) with hn | ⟨init, last, hc⟩
    · simp [hn, idxFilter]
    · rw [List.concat_eq_append] at hc
      have hlast := trunc_last c init last hc
      rw [hc] at hwt ⊢
      have hwi : WF cfg init := fun e he => hwt e (by simp [he])
      have hall : (init.map (·.1)).all (· == 0) = true ↔
          idxFilter (fun e => !cfg.transparent e) 0 init = [] := by
        rw [idxFilter_eq_nil]
        simp only [List.all_map, List.all_eq_true, Function.comp]
        constructor
        · intro ha e he; rw [transparent_eq (hwi e he)]; simpa using ha e he
        · intro ha e he; have := ha e he; rw [transparent_eq (hwi e he)] at this; simpa using this
      have htake : (List.map (fun x => x.1) (init ++ [last])).take (init.length + 1 - 1)
          = init.map (·.1) := by simp
      have hget : (List.map (fun x => x.1) (init ++ [last])).getD (init.length + 1 - 1) 0
          = last.1 := by simp [List.getD_eq_getElem?_getD]
      simp only [List.length_append, List.length_cons, List.length_nil, Nat.zero_add]
      rw [htake, hget, idxFilter_append]
      simp only [idxFilter, hlast, Bool.not_false, if_true, Nat.zero_add]
      have hne : init.length + 1 ≠ 0 := by omega
      simp only [hne, if_false]
      cases hf : idxFilter (fun e => !cfg.transparent e) 0 init with
      | nil => simp [hall.2 hf]
      | cons x r =>
        have : ¬ ((init.map (·.1)).all (· == 0) = true) := by
          intro ha; rw [hall.1 ha] at hf; cases hf
        simp only [this]
        cases r <;> simp
  · -- stored sparse
    simp only [mkSparse, isSingleton, singletonSpec]
    cases hl : nonTransparentEntries cfg c with
    | nil => simp
    | cons x r =>
      cases r with
      | nil => obtain ⟨i, hh, v⟩ := x; simp
      | cons y r => simp

/-! ## Hashing (`hashNode` on the stored form, `computeHash` on the unpacked forms)

  Both push, for every non-transparent entry in ascending index order, the pair
  (index, down) and, if the forest hashes edge values, the edge words.  The
  model is the list of pushed items; the hash is a function of that list. -/

abbrev HashItem := Nat × Handle × EdgeVal

def hashItem (hashEV : Bool) (x : SEntry) : HashItem :=
  (x.1, x.2.1, if hashEV then x.2.2 else [])

/-- `forest::isTransparentEdge` -/
def Cfg.isTransparentEdge (cfg : Cfg) (e : Entry) : Bool := e.1 == 0 && e.2 == cfg.te

/-- `simple_separated::hashNode`: sparse → all stored entries;
    truncated full → the entries with `down[i] != tv` -/
def hashNode (hashEV : Bool) : Packed → List HashItem
  | .sparse idx down ev => (sparseEntries idx down ev).map (hashItem hashEV)
  | .full n down ev => (nzFrom 0 (fullEntries n down ev)).map (hashItem hashEV)

/-- `unpacked_node::computeHash`: sparse → all entries; full → the entries
    with `!isTransparentEdge(ev, down)` (edge values hashed) resp. `down != tv` -/
def View.hash (cfg : Cfg) (hashEV : Bool) : View → List HashItem
  | .sparse l => l.map (hashItem hashEV)
  | .full c =>
    (idxFilter (fun e => if hashEV then !cfg.isTransparentEdge e else e.1 != 0) 0 c).map
      (hashItem hashEV)

theorem isTransparentEdge_eq {cfg : Cfg} {e : Entry} (h : WFe cfg e) :
    cfg.isTransparentEdge e = (e.1 == 0) := by
  unfold Cfg.isTransparentEdge
  by_cases h0 : e.1 = 0
  · simp [h0, h.2 h0]
  · simp [h0]

theorem hash_fullView {cfg : Cfg} (hashEV : Bool) {c : Content} (h : WF cfg c) :
    (View.full c).hash cfg hashEV = (nonTransparentEntries cfg c).map (hashItem hashEV) := by
  simp only [View.hash, nonTransparentEntries]
  congr 1
  apply idxFilter_congr
  intro e he
  rw [transparent_eq (h e he), isTransparentEdge_eq (h e he)]
  cases hashEV <;> simp [bne]

theorem hashNode_pack {cfg : Cfg} (hashEV : Bool) (opt : Flags) {c : Content} (h : WF cfg c) :
    hashNode hashEV (pack cfg opt c) = (nonTransparentEntries cfg c).map (hashItem hashEV) := by
  rcases pack_cases cfg opt c with hp | hp <;> rw [hp]
  · simp only [mkFull, hashNode]
    rw [fullEntries_pack_full, nzFrom_trunc h]
  · simp only [mkSparse, hashNode]
    rw [sparseEntries_map]

theorem nte_trunc (cfg : Cfg) (c : Content) :
    nonTransparentEntries cfg (trunc cfg c) = nonTransparentEntries cfg c :=
  idxFilter_trunc cfg c 0

/-- C02: the stored node and every unpacked form of it hash identically, under
    every storage flag and for both settings of "edge values are hashed" -/
theorem hash_agree {cfg : Cfg} (hashEV : Bool) (opt st2 : Flags) {c : Content} (h : WF cfg c) :
    (fillUnpacked cfg st2 c.length (pack cfg opt c)).hash cfg hashEV
      = hashNode hashEV (pack cfg opt c) := by
  rw [hashNode_pack hashEV opt h]
  cases st2
  · rw [fillUnpacked_fullOnly opt h]; exact hash_fullView hashEV h
  · rw [fillUnpacked_sparseOnly opt h]; rfl
  · rw [fillUnpacked_fullOrSparse]
    split
    · rfl
    · rw [hash_fullView hashEV (WF_trunc h), nte_trunc]

/-- the hash stream does not depend on the storage flag -/
theorem hashNode_flag_indep {cfg : Cfg} (hashEV : Bool) (f1 f2 : Flags) {c : Content}
    (h : WF cfg c) : hashNode hashEV (pack cfg f1 c) = hashNode hashEV (pack cfg f2 c) := by
  rw [hashNode_pack hashEV f1 h, hashNode_pack hashEV f2 h]

/-! ## `areDuplicates` (stored node vs unpacked node; four cases)

  In each case the code first compares the down pointers in one loop and then
  (if the forest has edge values) the edge values in a second loop; the loops
  have no side effects, so the model fuses them.  `he` is `n.hasEdges()`.
  Sparse index arrays are assumed ascending (asserted by the code:
  `nb.isSorted()`, DEVELOPMENT_CODE check in `makeSparseNode`). -/

/-- stored truncated full vs full unpacked node -/
def dupFF (he : Bool) : Content → Content → Bool
  | [], c => c.all (·.1 == 0)             -- beyond the stored size: must be transparent
  | _ :: _, [] => false                   -- `size > n.getSize()`
  | s :: t, e :: c =>
    s.1 == e.1 && (!he || s.1 == 0 || e.2 == s.2) && dupFF he t c

/-- stored sparse vs full unpacked node; `i` = current index in `n` -/
def dupSF (he : Bool) : Nat → List SEntry → Content → Bool
  | _, [], c => c.all (·.1 == 0)           -- "anything beyond must be transparent"
  | _, _ :: _, [] => false                 -- `index[z] >= n.getSize()`
  | i, x :: l, e :: c =>
    if i < x.1 then e.1 == 0 && dupSF he (i+1) (x :: l) c   -- skipped edges must be transparent
    else i == x.1 && x.2.1 == e.1 && (!he || e.2 == x.2.2) && dupSF he (i+1) l c

/-- stored truncated full vs sparse unpacked node; `i` = current index in the stored node -/
def dupFS (he : Bool) : Nat → Content → List SEntry → Bool
  | _, t, [] => t.isEmpty                  -- `if (i < size) return false`
  | _, [], _ :: _ => false                 -- `n.index(z) >= size`
  | i, s :: t, x :: l =>
    if i < x.1 then s.1 == 0 && dupFS he (i+1) t (x :: l)
    else i == x.1 && x.2.1 == s.1 && (!he || x.2.2 == s.2) && dupFS he (i+1) t l

/-- stored sparse vs sparse unpacked node -/
def dupSS (he : Bool) : List SEntry → List SEntry → Bool
  | [], [] => true
  | a :: l1, b :: l2 =>
    a.1 == b.1 && a.2.1 == b.2.1 && (!he || b.2.2 == a.2.2) && dupSS he l1 l2
  | _, _ => false                          -- `n.getSize() != nnz`

/-- `simple_separated::areDuplicates(addr, n)` -/
def areDuplicates (cfg : Cfg) (p : Packed) (v : View) : Bool :=
  match p, v with
  | .sparse idx down ev, .full c => dupSF cfg.hasEdges 0 (sparseEntries idx down ev) c
  | .sparse idx down ev, .sparse l => dupSS cfg.hasEdges (sparseEntries idx down ev) l
  | .full n down ev, .full c => dupFF cfg.hasEdges (fullEntries n down ev) c
  | .full n down ev, .sparse l => dupFS cfg.hasEdges 0 (fullEntries n down ev) l

/-- comparing edge values, or not comparing them in a forest without edge values -/
theorem edge_cmp {cfg : Cfg} {a b : EdgeVal} (ha : a.length = cfg.spe) (hb : b.length = cfg.spe) :
    (!cfg.hasEdges || a == b) = true ↔ a = b := by
  unfold Cfg.hasEdges
  by_cases hs : cfg.spe = 0
  · rw [hs] at ha hb
    have ha' : a = [] := List.eq_nil_of_length_eq_zero ha
    have hb' : b = [] := List.eq_nil_of_length_eq_zero hb
    simp [hs, ha', hb']
  · simp [hs]

theorem entry_eq {a b : Entry} : a = b ↔ a.1 = b.1 ∧ a.2 = b.2 := by
  obtain ⟨a1, a2⟩ := a; obtain ⟨b1, b2⟩ := b; simp

theorem all_zero_iff {cfg : Cfg} : ∀ {c : Content}, WF cfg c →
    (c.all (·.1 == 0) = true ↔ c = List.replicate c.length cfg.zero)
  | [], _ => by simp
  | e :: c, h => by
    obtain ⟨he, hc⟩ := WF_cons.1 h
    have ih := all_zero_iff hc
    simp only [List.all_cons, Bool.and_eq_true, ih, List.length_cons, List.replicate_succ,
      List.cons.injEq, beq_iff_eq]
    constructor
    · rintro ⟨h0, h1⟩; exact ⟨eq_zero_of_down he h0, h1⟩
    · rintro ⟨h0, h1⟩; exact ⟨by rw [h0]; rfl, h1⟩

theorem dupFF_iff {cfg : Cfg} : ∀ {t c : Content}, WF cfg t → WF cfg c →
    (dupFF cfg.hasEdges t c = true ↔ ∃ k, c = t ++ List.replicate k cfg.zero)
  | [], c, _, hc => by
    simp only [dupFF, List.nil_append, all_zero_iff hc]
    constructor
    · intro h; exact ⟨_, h⟩
    · rintro ⟨k, hk⟩; rw [hk]; simp
  | s :: t, [], _, _ => by simp [dupFF]
  | s :: t, e :: c, ht, hc => by
    obtain ⟨hs, ht'⟩ := WF_cons.1 ht
    obtain ⟨he, hc'⟩ := WF_cons.1 hc
    have ih := dupFF_iff ht' hc'
    have hse : (s.1 == e.1 && (!cfg.hasEdges || s.1 == 0 || e.2 == s.2)) = true ↔ e = s := by
      rw [entry_eq]
      by_cases h1 : s.1 = e.1
      · by_cases h0 : s.1 = 0
        · have : e.2 = s.2 := by rw [hs.2 h0, he.2 (h1 ▸ h0)]
          simp [h1, this, h1 ▸ h0]
        · have := edge_cmp he.1 hs.1
          simp only [Bool.or_eq_true] at this
          constructor
          · intro hh
            simp only [Bool.and_eq_true, Bool.or_eq_true, beq_iff_eq] at hh
            obtain ⟨_, hh⟩ := hh
            refine ⟨h1.symm, ?_⟩
            rcases hh with (hh | hh) | hh
            · exact this.1 (.inl hh)
            · exact absurd hh h0
            · exact this.1 (.inr (by simpa using hh))
          · rintro ⟨_, h2⟩; simp [h1, h2]
      · have h1' : ¬ e.1 = s.1 := fun h => h1 h.symm
        simp [h1, h1']
    simp only [dupFF, Bool.and_eq_true, List.cons_append, List.cons.injEq]
    rw [← Bool.and_eq_true, hse, ih]
    constructor
    · rintro ⟨h1, k, hk⟩; exact ⟨k, h1, hk⟩
    · rintro ⟨k, h1, hk⟩; exact ⟨h1, k, hk⟩

theorem dupSS_iff {cfg : Cfg} : ∀ {l1 l2 : List SEntry}, WFS cfg l1 → WFS cfg l2 →
    (dupSS cfg.hasEdges l1 l2 = true ↔ l1 = l2)
  | [], [], _, _ => by simp [dupSS]
  | [], _ :: _, _, _ => by simp [dupSS]
  | _ :: _, [], _, _ => by simp [dupSS]
  | (i, h, v) :: l1, (j, g, w) :: l2, h1, h2 => by
    have ih := dupSS_iff (l1 := l1) (l2 := l2) (fun x hx => h1 x (by simp [hx]))
      (fun x hx => h2 x (by simp [hx]))
    have hv := (h1 (i, h, v) (by simp)).1
    have hw := (h2 (j, g, w) (by simp)).1
    have hc := edge_cmp (a := w) (b := v) hw hv
    simp only at hv hw
    simp only [dupSS, Bool.and_eq_true, beq_iff_eq, ih, hc, List.cons.injEq, Prod.mk.injEq]
    constructor
    · rintro ⟨⟨⟨a, b⟩, c⟩, d⟩; exact ⟨⟨a, b, c.symm⟩, d⟩
    · rintro ⟨⟨a, b, c⟩, d⟩; exact ⟨⟨⟨a, b⟩, c.symm⟩, d⟩

theorem nzFrom_cons_zero {e : Entry} (c : Content) (i : Nat) (h0 : e.1 = 0) :
    nzFrom i (e :: c) = nzFrom (i+1) c := by
  simp [nzFrom, idxFilter, h0]

theorem nzFrom_cons_nz {e : Entry} (c : Content) (i : Nat) (h0 : e.1 ≠ 0) :
    nzFrom i (e :: c) = (i, e.1, e.2) :: nzFrom (i+1) c := by
  simp [nzFrom, idxFilter, h0]

theorem nzFrom_gt (c : Content) (i : Nat) : ∀ x ∈ nzFrom (i+1) c, i < x.1 := by
  intro x hx
  have := (idxFilter_ge _ c (i+1) x hx).1
  omega

theorem dupSF_skip (he : Bool) {i : Nat} {l : List SEntry} (hl : ∀ x ∈ l, i < x.1)
    (e : Entry) (c : Content) :
    dupSF he i l (e :: c) = (e.1 == 0 && dupSF he (i+1) l c) := by
  cases l with
  | nil => simp [dupSF]
  | cons x l => simp [dupSF, hl x (by simp)]

theorem dupFS_skip (he : Bool) {i : Nat} {l : List SEntry} (hl : ∀ x ∈ l, i < x.1)
    (s : Entry) (t : Content) :
    dupFS he i (s :: t) l = (!l.isEmpty && (s.1 == 0 && dupFS he (i+1) t l)) := by
  cases l with
  | nil => simp [dupFS]
  | cons x l => simp [dupFS, hl x (by simp)]

theorem entry_cmp {cfg : Cfg} {a b : Entry} (ha : WFe cfg a) (hb : WFe cfg b) :
    (a.1 == b.1 && (!cfg.hasEdges || b.2 == a.2)) = true ↔ a = b := by
  have := edge_cmp hb.1 ha.1
  rw [Bool.and_eq_true, this, entry_eq, beq_iff_eq]
  constructor
  · rintro ⟨h1, h2⟩; exact ⟨h1, h2.symm⟩
  · rintro ⟨h1, h2⟩; exact ⟨h1, h2.symm⟩

theorem entry_cmp' {cfg : Cfg} {a b : Entry} (ha : WFe cfg a) (hb : WFe cfg b) :
    (a.1 == b.1 && (!cfg.hasEdges || a.2 == b.2)) = true ↔ a = b := by
  have := edge_cmp ha.1 hb.1
  rw [Bool.and_eq_true, this, entry_eq, beq_iff_eq]

/-- stored sparse (the non-zero entries of `c1`) vs a full unpacked node `c2` -/
theorem dupSF_iff {cfg : Cfg} : ∀ {c2 c1 : Content} (i : Nat), WF cfg c1 → WF cfg c2 →
    (dupSF cfg.hasEdges i (nzFrom i c1) c2 = true ↔ nzFrom i c1 = nzFrom i c2)
  | [], c1, i, _, _ => by
    cases h : nzFrom i c1 <;> simp [dupSF, nzFrom, idxFilter]
  | e2 :: c2, [], i, _, h2 => by
    have hnil : nzFrom i ([] : Content) = [] := rfl
    rw [hnil]
    simp only [dupSF]
    rw [show ([] = nzFrom i (e2 :: c2)) ↔ (nzFrom i (e2 :: c2) = []) from eq_comm, nzFrom,
      idxFilter_eq_nil]
    simp [bne]
  | e2 :: c2, e1 :: c1, i, h1, h2 => by
    obtain ⟨he1, h1'⟩ := WF_cons.1 h1
    obtain ⟨he2, h2'⟩ := WF_cons.1 h2
    have ih := dupSF_iff (c2 := c2) (c1 := c1) (i+1) h1' h2'
    by_cases z1 : e1.1 = 0
    · rw [nzFrom_cons_zero c1 i z1, dupSF_skip _ (nzFrom_gt c1 i), Bool.and_eq_true, ih]
      by_cases z2 : e2.1 = 0
      · rw [nzFrom_cons_zero c2 i z2]; simp [z2]
      · rw [nzFrom_cons_nz c2 i z2]
        simp only [beq_iff_eq, z2, false_and, false_iff]
        intro heq
        have := nzFrom_gt c1 i (i, e2.1, e2.2) (by rw [heq]; simp)
        simp at this
    · rw [nzFrom_cons_nz c1 i z1]
      simp only [dupSF, Nat.lt_irrefl, if_false, beq_self_eq_true, Bool.true_and]
      by_cases z2 : e2.1 = 0
      · rw [nzFrom_cons_zero c2 i z2]
        have hne : ¬ e1.1 = e2.1 := by rw [z2]; exact z1
        simp only [Bool.and_eq_true, beq_iff_eq, hne, false_and, false_iff]
        intro heq
        have := nzFrom_gt c2 i (i, e1.1, e1.2) (by rw [← heq]; simp)
        simp at this
      · rw [nzFrom_cons_nz c2 i z2]
        rw [Bool.and_eq_true, entry_cmp he1 he2, ih]
        simp only [List.cons.injEq, Prod.mk.injEq, true_and]
        rw [entry_eq]

theorem nzFrom_eq_nil_iff_trunc {cfg : Cfg} {c : Content} (h : WF cfg c) (i : Nat) :
    nzFrom i c = [] ↔ trunc cfg c = [] := by
  rw [nzFrom, idxFilter_eq_nil, trunc_eq_nil]
  constructor
  · intro ha e he; rw [transparent_eq (h e he)]; simpa [bne] using ha e he
  · intro ha e he; have := ha e he; rw [transparent_eq (h e he)] at this; simpa [bne] using this

/-- stored truncated full `t` vs the sparse unpacked node of `c` -/
theorem dupFS_iff {cfg : Cfg} : ∀ {t c : Content} (i : Nat), WF cfg t → WF cfg c →
    (dupFS cfg.hasEdges i t (nzFrom i c) = true ↔ t = trunc cfg c)
  | [], c, i, _, hc => by
    have hiff := nzFrom_eq_nil_iff_trunc hc i
    cases h : nzFrom i c with
    | nil => have := hiff.1 h; simp [dupFS, this]
    | cons x l =>
      have hne : trunc cfg c ≠ [] := fun hh => by rw [hiff.2 hh] at h; cases h
      simp only [dupFS]
      constructor
      · intro hh; cases hh
      · intro hh; exact absurd hh.symm hne
  | s :: t, [], i, _, _ => by simp [dupFS, nzFrom, idxFilter, trunc]
  | s :: t, e :: c, i, ht, hc => by
    obtain ⟨hs, ht'⟩ := WF_cons.1 ht
    obtain ⟨he, hc'⟩ := WF_cons.1 hc
    have ih := dupFS_iff (t := t) (c := c) (i+1) ht' hc'
    rw [trunc_cons]
    by_cases z : e.1 = 0
    · have hte : cfg.transparent e = true := by rw [transparent_eq he]; simp [z]
      rw [nzFrom_cons_zero c i z, dupFS_skip _ (nzFrom_gt c i)]
      by_cases hn : trunc cfg c = []
      · have := (nzFrom_eq_nil_iff_trunc hc' (i+1)).2 hn
        simp [hn, hte, this]
      · have hne : nzFrom (i+1) c ≠ [] := fun h => hn ((nzFrom_eq_nil_iff_trunc hc' (i+1)).1 h)
        have hie : (nzFrom (i+1) c).isEmpty = false := by
          cases h : nzFrom (i+1) c
          · exact absurd h hne
          · rfl
        simp only [hie, Bool.not_false, Bool.true_and, Bool.and_eq_true, beq_iff_eq, ih, hn,
          if_false, List.cons.injEq]
        constructor
        · rintro ⟨h0, h1⟩
          exact ⟨by rw [eq_zero_of_down hs h0, eq_zero_of_down he z], h1⟩
        · rintro ⟨h0, h1⟩; exact ⟨by rw [h0]; exact z, h1⟩
    · have hte : cfg.transparent e = false := by rw [transparent_eq he]; simp [z]
      rw [nzFrom_cons_nz c i z]
      simp only [dupFS, Nat.lt_irrefl, if_false, beq_self_eq_true, Bool.true_and]
      rw [Bool.and_eq_true, entry_cmp' he hs, ih]
      by_cases hn : trunc cfg c = []
      · simp only [hn, hte, if_true, Bool.false_eq_true, if_false, List.cons.injEq]
        constructor
        · rintro ⟨h0, h1⟩; exact ⟨h0.symm, h1⟩
        · rintro ⟨h0, h1⟩; exact ⟨h0.symm, h1⟩
      · simp only [hn, if_false, List.cons.injEq]
        constructor
        · rintro ⟨h0, h1⟩; exact ⟨h0.symm, h1⟩
        · rintro ⟨h0, h1⟩; exact ⟨h0.symm, h1⟩

theorem WFS_nte {cfg : Cfg} {c : Content} (h : WF cfg c) :
    WFS cfg (nonTransparentEntries cfg c) := by
  intro x hx
  obtain ⟨_, hget, hp⟩ := (mem_idxFilter c 0 x).1 hx
  have hmem : x.2 ∈ c := List.mem_of_getElem? hget
  have hw := h x.2 hmem
  refine ⟨hw.1, ?_⟩
  rw [transparent_eq hw] at hp
  simpa using hp

theorem nte_inj {cfg : Cfg} {c1 c2 : Content} (h1 : WF cfg c1) (h2 : WF cfg c2)
    (hl : c1.length = c2.length)
    (heq : nonTransparentEntries cfg c1 = nonTransparentEntries cfg c2) : c1 = c2 := by
  have e1 := expand_nte h1
  have e2 := expand_nte h2
  rw [hl, heq] at e1
  exact e1.symm.trans e2

theorem trunc_inj {cfg : Cfg} {c1 c2 : Content} (h1 : WF cfg c1) (h2 : WF cfg c2)
    (hl : c1.length = c2.length) (heq : trunc cfg c1 = trunc cfg c2) : c1 = c2 := by
  have e1 := trunc_append_replicate h1
  have e2 := trunc_append_replicate h2
  rw [hl, heq] at e1
  exact e1.symm.trans e2

/-- full unpacked node (size of the level), against both stored forms -/
theorem areDuplicates_spec_full {cfg : Cfg} (f1 : Flags) {c1 c2 : Content}
    (h1 : WF cfg c1) (h2 : WF cfg c2) (hl : c1.length = c2.length) :
    areDuplicates cfg (pack cfg f1 c1) (fullView c2) = true ↔ c1 = c2 := by
  rcases pack_cases cfg f1 c1 with hp | hp <;> rw [hp]
  · simp only [mkFull, fullView, areDuplicates]
    rw [fullEntries_pack_full, dupFF_iff (WF_trunc h1) h2]
    constructor
    · rintro ⟨k, hk⟩
      have e1 := trunc_append_replicate h1
      have hlen := congrArg List.length hk
      simp only [List.length_append, List.length_replicate] at hlen
      have : k = c1.length - (trunc cfg c1).length := by omega
      rw [this, e1] at hk
      exact hk.symm
    · intro heq
      exact ⟨_, by rw [← heq]; exact (trunc_append_replicate h1).symm⟩
  · simp only [mkSparse, fullView, areDuplicates]
    rw [sparseEntries_map, nte_eq_nz h1, dupSF_iff 0 h1 h2, ← nte_eq_nz h1, ← nte_eq_nz h2]
    exact ⟨nte_inj h1 h2 hl, fun h => by rw [h]⟩

/-- sparse unpacked node, against both stored forms -/
theorem areDuplicates_spec_sparse {cfg : Cfg} (f1 : Flags) {c1 c2 : Content}
    (h1 : WF cfg c1) (h2 : WF cfg c2) (hl : c1.length = c2.length) :
    areDuplicates cfg (pack cfg f1 c1) (sparseView cfg c2) = true ↔ c1 = c2 := by
  rcases pack_cases cfg f1 c1 with hp | hp <;> rw [hp]
  · simp only [mkFull, sparseView, areDuplicates]
    rw [fullEntries_pack_full, nte_eq_nz h2, dupFS_iff 0 (WF_trunc h1) h2]
    exact ⟨trunc_inj h1 h2 hl, fun h => by rw [h]⟩
  · simp only [mkSparse, sparseView, areDuplicates]
    rw [sparseEntries_map, dupSS_iff (WFS_nte h1) (WFS_nte h2)]
    exact ⟨nte_inj h1 h2 hl, fun h => by rw [h]⟩

/-- truncated full unpacked node (what `fillUnpacked` with `FULL_OR_SPARSE`
    produces from a stored full node), against both stored forms -/
theorem areDuplicates_spec_truncFull {cfg : Cfg} (f1 : Flags) {c1 c2 : Content}
    (h1 : WF cfg c1) (h2 : WF cfg c2) (hl : c1.length = c2.length) :
    areDuplicates cfg (pack cfg f1 c1) (.full (trunc cfg c2)) = true ↔ c1 = c2 := by
  rcases pack_cases cfg f1 c1 with hp | hp <;> rw [hp]
  · simp only [mkFull, areDuplicates]
    rw [fullEntries_pack_full, dupFF_iff (WF_trunc h1) (WF_trunc h2)]
    constructor
    · rintro ⟨k, hk⟩
      have e1 := trunc_append_replicate h1
      have e2 := trunc_append_replicate h2
      generalize c2.length - (trunc cfg c2).length = m at e2
      generalize c1.length - (trunc cfg c1).length = n1 at e1
      rw [hk, List.append_assoc, List.replicate_append_replicate] at e2
      have hlen2 := congrArg List.length e2
      have hlen1 := congrArg List.length e1
      simp only [List.length_append, List.length_replicate] at hlen1 hlen2
      have : k + m = n1 := by omega
      rw [this, e1] at e2
      exact e2
    · intro heq; exact ⟨0, by rw [heq]; simp⟩
  · simp only [mkSparse, areDuplicates]
    rw [sparseEntries_map, nte_eq_nz h1, dupSF_iff 0 h1 (WF_trunc h2), ← nte_eq_nz h1,
      ← nte_eq_nz (WF_trunc h2), nte_trunc]
    exact ⟨nte_inj h1 h2 hl, fun h => by rw [h]⟩

/-- all stored × unpacked combinations at once: the node stored for `c1` under
    flag `f1` duplicates the node obtained by unpacking (in any form `st2`) what
    was stored for `c2` under flag `f2`, iff `c1 = c2` -/
theorem areDuplicates_spec {cfg : Cfg} (f1 f2 st2 : Flags) {c1 c2 : Content}
    (h1 : WF cfg c1) (h2 : WF cfg c2) (hl : c1.length = c2.length) :
    areDuplicates cfg (pack cfg f1 c1) (fillUnpacked cfg st2 c2.length (pack cfg f2 c2)) = true
      ↔ c1 = c2 := by
  cases st2
  · rw [fillUnpacked_fullOnly f2 h2]; exact areDuplicates_spec_full f1 h1 h2 hl
  · rw [fillUnpacked_sparseOnly f2 h2]; exact areDuplicates_spec_sparse f1 h1 h2 hl
  · rw [fillUnpacked_fullOrSparse]
    split
    · exact areDuplicates_spec_sparse f1 h1 h2 hl
    · exact areDuplicates_spec_truncFull f1 h1 h2 hl

/-- the assertion at the end of `makeNode` (`MEDDLY_DCASSERT(areDuplicates(addr, nb))`) -/
theorem areDuplicates_pack_self {cfg : Cfg} (opt : Flags) {c : Content} (h : WF cfg c) :
    areDuplicates cfg (pack cfg opt c) (fullView c) = true :=
  (areDuplicates_spec_full opt h h rfl).2 rfl

/-- a non-zero logical child is listed among the non-transparent entries -/
theorem mem_nte_of_downAt {cfg : Cfg} {c : Content} (h : WF cfg c) {j : Nat}
    (hj : downAt c j ≠ 0) : ∃ v, c[j]? = some (downAt c j, v) ∧
      (j, downAt c j, v) ∈ nonTransparentEntries cfg c := by
  cases hc : c[j]? with
  | none => simp [downAt, hc] at hj
  | some e =>
    have hd : downAt c j = e.1 := by simp [downAt, hc]
    rw [hd] at hj ⊢
    have hwe : WFe cfg e := h e (List.mem_of_getElem? hc)
    refine ⟨e.2, rfl, ?_⟩
    refine (mem_idxFilter c 0 (j, e.1, e.2)).2 ⟨Nat.zero_le _, by simpa using hc, ?_⟩
    rw [transparent_eq hwe]; simp [hj]

theorem downAt_of_mem_nte {cfg : Cfg} {c : Content} (h : WF cfg c) {x : SEntry}
    (hx : x ∈ nonTransparentEntries cfg c) :
    c[x.1]? = some x.2 ∧ downAt c x.1 = x.2.1 ∧ x.2.1 ≠ 0 := by
  obtain ⟨_, hget, _⟩ := (mem_idxFilter c 0 x).1 hx
  simp only [Nat.sub_zero] at hget
  exact ⟨hget, by simp [downAt, hget], (WFS_nte h x hx).2⟩

/-- `singletonSpec` says what it should: `some (i, d)` iff the child at index `i`
    is `d ≠ 0` and every other child is transparent -/
theorem singletonSpec_eq_some_iff {cfg : Cfg} {c : Content} (h : WF cfg c) (i : Nat) (d : Handle) :
    singletonSpec cfg c = some (i, d) ↔
      d ≠ 0 ∧ downAt c i = d ∧ ∀ j, j ≠ i → downAt c j = 0 := by
  constructor
  · intro hs
    unfold singletonSpec at hs
    split at hs
    · rename_i i' d' v hl
      cases hs
      have hmem : (i, d, v) ∈ nonTransparentEntries cfg c := by rw [hl]; simp
      obtain ⟨_, hd, hne⟩ := downAt_of_mem_nte h hmem
      refine ⟨hne, hd, ?_⟩
      intro j hj
      by_cases h0 : downAt c j = 0
      · exact h0
      · obtain ⟨v', _, hm⟩ := mem_nte_of_downAt h h0
        rw [hl] at hm
        simp only [List.mem_cons, Prod.mk.injEq, List.not_mem_nil, or_false] at hm
        exact absurd hm.1 hj
    · cases hs
  · rintro ⟨hd0, hdi, hother⟩
    have hne : downAt c i ≠ 0 := by rw [hdi]; exact hd0
    obtain ⟨v, hget, hmem⟩ := mem_nte_of_downAt h hne
    rw [hdi] at hget hmem
    have hall : ∀ x ∈ nonTransparentEntries cfg c, x = (i, d, v) := by
      intro x hx
      obtain ⟨hg, hdx, hnx⟩ := downAt_of_mem_nte h hx
      have hxi : x.1 = i := by
        by_cases hxi : x.1 = i
        · exact hxi
        · have := hother x.1 hxi; rw [hdx] at this; exact absurd this hnx
      rw [hxi, hget] at hg
      obtain ⟨a, b⟩ := x
      simp only at hxi hg
      cases hg
      rw [hxi]
    have hpw := idxFilter_pairwise (fun e => !cfg.transparent e) c 0
    unfold singletonSpec
    unfold nonTransparentEntries at hall hmem ⊢
    generalize idxFilter (fun e => !cfg.transparent e) 0 c = l at hall hmem hpw
    match l, hall, hmem, hpw with
    | [], _, hmem, _ => cases hmem
    | [a], hall, _, _ => rw [hall a (by simp)]
    | a :: b :: r, hall, _, hpw =>
      have ha := hall a (by simp)
      have hb := hall b (by simp)
      have := (List.pairwise_cons.1 hpw).1 b (by simp)
      rw [ha, hb] at this
      exact absurd this (Nat.lt_irrefl _)

theorem singletonSpec_flag_indep {cfg : Cfg} (f1 f2 : Flags) {c : Content} (h : WF cfg c) :
    isSingleton (pack cfg f1 c) = isSingleton (pack cfg f2 c) := by
  rw [isSingleton_spec f1 h, isSingleton_spec f2 h]

/-! ## `makeNode` from a SPARSE unpacked node -/

/-- `truncsize = nb.index(nnzs-1) + 1` (for `nnzs = 0` the code reads
    `index(-1)`; such nodes are reduced away before they reach `makeNode`;
    the model says 0) -/
def lastIdxSucc (l : List SEntry) : Nat :=
  match l.getLast? with
  | some x => x.1 + 1
  | none => 0

/-- `makeNode(p, nb, opt)` for a sparse `nb`: `nnzs = nb.getSize()`,
    `makeFullNode` fills `truncsize` transparent entries and scatters,
    `makeSparseNode` copies -/
def packSparseNb (cfg : Cfg) (opt : Flags) (l : List SEntry) : Packed :=
  let mkF : Packed :=
    .full (lastIdxSucc l) ((expand cfg (lastIdxSucc l) l).map (·.1))
      ((expand cfg (lastIdxSucc l) l).map (·.2))
  let mkS : Packed := .sparse (l.map (·.1)) (l.map (·.2.1)) (l.map (·.2.2))
  match opt with
  | .fullOnly => mkF
  | .sparseOnly => mkS
  | .fullOrSparse =>
    if slotsForNode cfg l.length true < slotsForNode cfg (lastIdxSucc l) false then mkS else mkF

theorem lastIdxSucc_nte {cfg : Cfg} (c : Content) :
    lastIdxSucc (nonTransparentEntries cfg c) = truncSize cfg c := by
  rw [truncSize_eq, ← nte_trunc, nonTransparentEntries]
  rcases List.eq_nil_or_concat (trunc cfg c) with hn | ⟨init, last, hc⟩
  · simp [hn, idxFilter, lastIdxSucc]
  · rw [List.concat_eq_append] at hc
    have hlast := trunc_last c init last hc
    rw [hc, idxFilter_append]
    simp [idxFilter, hlast, lastIdxSucc]

theorem expand_truncSize {cfg : Cfg} {c : Content} (h : WF cfg c) :
    expand cfg (truncSize cfg c) (nonTransparentEntries cfg c) = c.take (truncSize cfg c) := by
  have := expand_nte (WF_trunc h)
  rw [nte_trunc] at this
  rw [truncSize_eq, take_trunc, this]

/-- packing the sparse view gives the same stored node as packing the full view -/
theorem packSparseNb_eq {cfg : Cfg} (opt : Flags) {c : Content} (h : WF cfg c) :
    packSparseNb cfg opt (nonTransparentEntries cfg c) = pack cfg opt c := by
  unfold packSparseNb pack
  simp only [lastIdxSucc_nte, expand_truncSize h, ← nnz_eq]
  rfl

/-! ## Examples (non-vacuity; all by `decide`) -/

instance (cfg : Cfg) (c : Content) : Decidable (WF cfg c) := by
  unfold WF; infer_instance

namespace Examples

/-- multi-terminal forest: no edge values -/
def cfgMT : Cfg := { spe := 0, te := [] }
/-- edge-valued forest with one slot per edge (EV+ `int`), transparent value 0 -/
def cfgEV : Cfg := { spe := 1, te := [0] }

/-- size 5, children at indexes 1 and 3 -/
def c5 : Content := [(0, []), (7, []), (0, []), (9, []), (0, [])]
def e5 : Content := [(0, [0]), (7, [3]), (0, [0]), (9, [4]), (0, [0])]

example : WF cfgMT c5 := by decide
example : WF cfgEV e5 := by decide

-- the scan of `makeNode`
example : nnz cfgMT c5 = 2 ∧ truncSize cfgMT c5 = 4 := by decide
-- MT: sparse 3 + 2·2 = 7 slots, truncated full 3 + 1·4 = 7 slots: tie → full
example : slotsForNode cfgMT 2 true = 7 ∧ slotsForNode cfgMT 4 false = 7 := by decide
-- EV: sparse 3 + 3·2 = 9 slots, truncated full 3 + 2·4 = 11 slots → sparse
example : slotsForNode cfgEV 2 true = 9 ∧ slotsForNode cfgEV 4 false = 11 := by decide

-- the three packed forms, MT
example : pack cfgMT .fullOnly c5 = .full 4 [0, 7, 0, 9] [[], [], [], []] := by decide
example : pack cfgMT .sparseOnly c5 = .sparse [1, 3] [7, 9] [[], []] := by decide
example : pack cfgMT .fullOrSparse c5 = .full 4 [0, 7, 0, 9] [[], [], [], []] := by decide
-- the three packed forms, EV
example : pack cfgEV .fullOnly e5 = .full 4 [0, 7, 0, 9] [[0], [3], [0], [4]] := by decide
example : pack cfgEV .sparseOnly e5 = .sparse [1, 3] [7, 9] [[3], [4]] := by decide
example : pack cfgEV .fullOrSparse e5 = .sparse [1, 3] [7, 9] [[3], [4]] := by decide
-- MT, sparse wins: one child at index 3 (sparse 5 slots, full 7 slots)
example : pack cfgMT .fullOrSparse [(0, []), (0, []), (0, []), (9, []), (0, [])]
    = .sparse [3] [9] [[]] := by decide

-- all three decode to the same content, in both unpacked forms
example : unpackFull cfgMT 5 (pack cfgMT .fullOnly c5) = c5
    ∧ unpackFull cfgMT 5 (pack cfgMT .sparseOnly c5) = c5
    ∧ unpackFull cfgMT 5 (pack cfgMT .fullOrSparse c5) = c5 := by decide
example : unpackFull cfgEV 5 (pack cfgEV .fullOnly e5) = e5
    ∧ unpackFull cfgEV 5 (pack cfgEV .sparseOnly e5) = e5
    ∧ unpackFull cfgEV 5 (pack cfgEV .fullOrSparse e5) = e5 := by decide
example : unpackSparse (pack cfgEV .fullOnly e5) = [(1, 7, [3]), (3, 9, [4])]
    ∧ unpackSparse (pack cfgEV .sparseOnly e5) = [(1, 7, [3]), (3, 9, [4])]
    ∧ unpackSparse (pack cfgEV .fullOrSparse e5) = [(1, 7, [3]), (3, 9, [4])] := by decide
-- `FULL_OR_SPARSE` unpacking keeps the stored form; a stored full node stays truncated
example : fillUnpacked cfgEV .fullOrSparse 5 (pack cfgEV .fullOnly e5)
    = .full [(0, [0]), (7, [3]), (0, [0]), (9, [4])] := by decide
example : fillUnpacked cfgEV .fullOrSparse 5 (pack cfgEV .sparseOnly e5)
    = .sparse [(1, 7, [3]), (3, 9, [4])] := by decide

-- child lookup (binary search in the sparse form), inside and outside the node
example : (List.range 7).map (getDownPtr (pack cfgMT .fullOnly c5)) = [0, 7, 0, 9, 0, 0, 0] := by
  decide
example : (List.range 7).map (getDownPtr (pack cfgMT .sparseOnly c5)) = [0, 7, 0, 9, 0, 0, 0] := by
  decide
example : getDownEdge (pack cfgEV .sparseOnly e5) 3 = (9, some [4])
    ∧ getDownEdge (pack cfgEV .fullOnly e5) 3 = (9, some [4])
    ∧ getDownEdge (pack cfgEV .sparseOnly e5) 2 = (0, none)
    ∧ getDownEdge (pack cfgEV .fullOnly e5) 2 = (0, some [0])
    ∧ getDownEdge (pack cfgEV .fullOnly e5) 4 = (0, none) := by decide

-- hash streams agree (edge values hashed or not)
example : hashNode true (pack cfgEV .fullOnly e5) = [(1, 7, [3]), (3, 9, [4])]
    ∧ hashNode true (pack cfgEV .sparseOnly e5) = [(1, 7, [3]), (3, 9, [4])]
    ∧ (fullView e5).hash cfgEV true = [(1, 7, [3]), (3, 9, [4])]
    ∧ (sparseView cfgEV e5).hash cfgEV true = [(1, 7, [3]), (3, 9, [4])]
    ∧ hashNode false (pack cfgEV .fullOnly e5) = [(1, 7, []), (3, 9, [])] := by decide

-- duplicates: all four stored × unpacked combinations accept the same node …
example : areDuplicates cfgEV (pack cfgEV .fullOnly e5) (fullView e5) = true
    ∧ areDuplicates cfgEV (pack cfgEV .fullOnly e5) (sparseView cfgEV e5) = true
    ∧ areDuplicates cfgEV (pack cfgEV .sparseOnly e5) (fullView e5) = true
    ∧ areDuplicates cfgEV (pack cfgEV .sparseOnly e5) (sparseView cfgEV e5) = true := by decide
/-- … and reject a node that differs in one edge value / one child / one position -/
def e5' : Content := [(0, [0]), (7, [3]), (0, [0]), (9, [5]), (0, [0])]
def e5'' : Content := [(0, [0]), (7, [3]), (0, [0]), (8, [4]), (0, [0])]
def e5''' : Content := [(0, [0]), (7, [3]), (0, [0]), (0, [0]), (9, [4])]
example : ∀ c' ∈ [e5', e5'', e5'''],
      areDuplicates cfgEV (pack cfgEV .fullOnly e5) (fullView c') = false
    ∧ areDuplicates cfgEV (pack cfgEV .fullOnly e5) (sparseView cfgEV c') = false
    ∧ areDuplicates cfgEV (pack cfgEV .sparseOnly e5) (fullView c') = false
    ∧ areDuplicates cfgEV (pack cfgEV .sparseOnly e5) (sparseView cfgEV c') = false := by decide

-- two children: not a singleton, in either form (stored full size 4 > 2)
example : isSingleton (pack cfgMT .fullOnly c5) = none
    ∧ isSingleton (pack cfgMT .sparseOnly c5) = none := by decide
-- children at indexes 0 and 2 of a size-3 node, stored full with size 3:
-- NOT a singleton although the entry just before the last one is transparent
example : isSingleton (pack cfgMT .fullOnly [(7, []), (0, []), (9, [])]) = none
    ∧ isSingleton (pack cfgMT .sparseOnly [(7, []), (0, []), (9, [])]) = none
    ∧ singletonSpec cfgMT [(7, []), (0, []), (9, [])] = none := by decide
example : isSingleton (pack cfgMT .fullOnly [(7, []), (0, []), (0, []), (0, []), (9, [])]) = none :=
  by decide

/-- singleton at index 0 of a size-5 node -/
def s0 : Content := [(7, []), (0, []), (0, []), (0, []), (0, [])]
/-- singleton at the last index of a size-5 node -/
def s4 : Content := [(0, []), (0, []), (0, []), (0, []), (7, [])]
example : pack cfgMT .fullOnly s0 = .full 1 [7] [[]]
    ∧ pack cfgMT .sparseOnly s0 = .sparse [0] [7] [[]]
    ∧ pack cfgMT .fullOrSparse s0 = .full 1 [7] [[]] := by decide
example : pack cfgMT .fullOnly s4 = .full 5 [0, 0, 0, 0, 7] [[], [], [], [], []]
    ∧ pack cfgMT .sparseOnly s4 = .sparse [4] [7] [[]]
    ∧ pack cfgMT .fullOrSparse s4 = .sparse [4] [7] [[]] := by decide
example : isSingleton (pack cfgMT .fullOnly s0) = some (0, 7)
    ∧ isSingleton (pack cfgMT .sparseOnly s0) = some (0, 7)
    ∧ isSingleton (pack cfgMT .fullOrSparse s0) = some (0, 7)
    ∧ singletonSpec cfgMT s0 = some (0, 7) := by decide
example : isSingleton (pack cfgMT .fullOnly s4) = some (4, 7)
    ∧ isSingleton (pack cfgMT .sparseOnly s4) = some (4, 7)
    ∧ isSingleton (pack cfgMT .fullOrSparse s4) = some (4, 7)
    ∧ singletonSpec cfgMT s4 = some (4, 7) := by decide
-- singleton in the middle, EV
example : isSingleton (pack cfgEV .fullOnly [(0, [0]), (0, [0]), (5, [2]), (0, [0])]) = some (2, 5)
    ∧ isSingleton (pack cfgEV .sparseOnly [(0, [0]), (0, [0]), (5, [2]), (0, [0])]) = some (2, 5) := by
  decide

-- why well-formedness is assumed: an EV entry with a transparent child but a
-- non-transparent edge value is counted by `makeNode` (so it is stored) but
-- dropped by the `down[i] != 0` test of `fillUnpacked`(full → sparse) / `hashNode`
def bad : Content := [(0, [5]), (7, [3])]
example : ¬ WF cfgEV bad := by decide
example : unpackSparse (pack cfgEV .sparseOnly bad) = [(0, 0, [5]), (1, 7, [3])]
    ∧ unpackSparse (pack cfgEV .fullOnly bad) = [(1, 7, [3])] := by decide

-- packing the sparse unpacked node gives the same stored node
example : packSparseNb cfgEV .fullOnly (nonTransparentEntries cfgEV e5) = pack cfgEV .fullOnly e5
    ∧ packSparseNb cfgEV .fullOrSparse (nonTransparentEntries cfgEV e5)
        = pack cfgEV .fullOrSparse e5 := by decide

end Examples

/-! ## Property theorems -/

/-- **C02 (codec level): the full and sparse views of a node agree.**
    For every well-formed content `c`, every storage flag `opt` the forest was
    created with, and every unpacked form `st2` asked of `fillUnpacked`:
    the full decoding is `c`, the sparse decoding is the list of non-transparent
    entries of `c`, the sparse decoding expands to the full decoding, and whatever
    `fillUnpacked` returns stands for `c`. -/
theorem C02_views_agree {cfg : Cfg} (opt st2 : Flags) {c : Content} (h : WF cfg c) :
    unpackFull cfg c.length (pack cfg opt c) = c
    ∧ unpackSparse (pack cfg opt c) = nonTransparentEntries cfg c
    ∧ expand cfg c.length (unpackSparse (pack cfg opt c))
        = unpackFull cfg c.length (pack cfg opt c)
    ∧ (fillUnpacked cfg st2 c.length (pack cfg opt c)).toFull cfg c.length = c :=
  ⟨unpack_pack_full opt h, unpack_pack_sparse opt h, views_agree opt h,
   fillUnpacked_toFull opt st2 h⟩

/-- **C02 (codec level): the views hash identically.**
    `hashNode` on the stored node (either stored form) and `computeHash` on any
    unpacked form of it push the same items, whether or not edge values are hashed;
    the common stream is that of the non-transparent entries of `c`. -/
theorem C02_hash_identical {cfg : Cfg} (hashEV : Bool) (opt st2 : Flags) {c : Content}
    (h : WF cfg c) :
    (fillUnpacked cfg st2 c.length (pack cfg opt c)).hash cfg hashEV
        = hashNode hashEV (pack cfg opt c)
    ∧ hashNode hashEV (pack cfg opt c) = (nonTransparentEntries cfg c).map (hashItem hashEV)
    ∧ (fullView c).hash cfg hashEV = (sparseView cfg c).hash cfg hashEV :=
  ⟨hash_agree hashEV opt st2 h, hashNode_pack hashEV opt h, hash_fullView hashEV h⟩

/-- **C02 (codec level): duplicate detection is equality of contents** for all four
    stored × unpacked combinations (and the truncated full unpacked node of
    `FULL_OR_SPARSE` reads), for nodes of the same level. -/
theorem C02_duplicates {cfg : Cfg} (f1 f2 st2 : Flags) {c1 c2 : Content}
    (h1 : WF cfg c1) (h2 : WF cfg c2) (hl : c1.length = c2.length) :
    (areDuplicates cfg (pack cfg f1 c1) (fullView c2) = true ↔ c1 = c2)
    ∧ (areDuplicates cfg (pack cfg f1 c1) (sparseView cfg c2) = true ↔ c1 = c2)
    ∧ (areDuplicates cfg (pack cfg f1 c1)
          (fillUnpacked cfg st2 c2.length (pack cfg f2 c2)) = true ↔ c1 = c2) :=
  ⟨areDuplicates_spec_full f1 h1 h2 hl, areDuplicates_spec_sparse f1 h1 h2 hl,
   areDuplicates_spec f1 f2 st2 h1 h2 hl⟩

/-- **Singleton test: the truth for all sizes and both stored forms.**
    `isSingletonNode` on the stored node answers `some (i, d)` exactly when the
    child at `i` is `d ≠ 0` and every other child of the node is transparent. -/
theorem isSingleton_truth {cfg : Cfg} (opt : Flags) {c : Content} (h : WF cfg c)
    (i : Nat) (d : Handle) :
    isSingleton (pack cfg opt c) = some (i, d) ↔
      d ≠ 0 ∧ downAt c i = d ∧ ∀ j, j ≠ i → downAt c j = 0 := by
  rw [isSingleton_spec opt h]; exact singletonSpec_eq_some_iff h i d

/-- **C12 (codec level): nothing observable depends on the storage flag.**
    For any two flags `f1 f2` (full only, sparse only, either), every reader of
    the stored node returns the same result: full and sparse decoding, every
    `fillUnpacked` form once expanded, child lookup (with and without edge value
    component), the singleton test, the hash stream, and the duplicate test
    against any unpacked node of the level. -/
theorem C12_codec_flag_indep {cfg : Cfg} (f1 f2 : Flags) {c : Content} (h : WF cfg c) :
    unpackFull cfg c.length (pack cfg f1 c) = unpackFull cfg c.length (pack cfg f2 c)
    ∧ unpackSparse (pack cfg f1 c) = unpackSparse (pack cfg f2 c)
    ∧ (∀ st2, (fillUnpacked cfg st2 c.length (pack cfg f1 c)).toFull cfg c.length
          = (fillUnpacked cfg st2 c.length (pack cfg f2 c)).toFull cfg c.length)
    ∧ (∀ i, getDownPtr (pack cfg f1 c) i = getDownPtr (pack cfg f2 c) i)
    ∧ isSingleton (pack cfg f1 c) = isSingleton (pack cfg f2 c)
    ∧ (∀ b, hashNode b (pack cfg f1 c) = hashNode b (pack cfg f2 c))
    ∧ (∀ (f st2 : Flags) (c2 : Content), WF cfg c2 → c.length = c2.length →
          areDuplicates cfg (pack cfg f1 c) (fillUnpacked cfg st2 c2.length (pack cfg f c2))
          = areDuplicates cfg (pack cfg f2 c) (fillUnpacked cfg st2 c2.length (pack cfg f c2))) := by
  refine ⟨pack_flag_indep f1 f2 h, pack_flag_indep_sparse f1 f2 h, ?_, ?_,
    singletonSpec_flag_indep f1 f2 h, fun b => hashNode_flag_indep b f1 f2 h, ?_⟩
  · intro st2; rw [fillUnpacked_toFull f1 st2 h, fillUnpacked_toFull f2 st2 h]
  · intro i; rw [getDownPtr_spec f1 h, getDownPtr_spec f2 h]
  · intro f st2 c2 h2 hl
    rw [Bool.eq_iff_iff, areDuplicates_spec f1 f st2 h h2 hl, areDuplicates_spec f2 f st2 h h2 hl]

/-- **C12 (codec level), node counts / canonicity:** under every flag, two
    contents of the same level are stored as duplicates of each other iff they are
    equal, so the unique table identifies exactly the same nodes whatever the flag;
    in particular the stored forms of equal contents coincide and `pack` is
    injective on well-formed contents of a level. -/
theorem C12_pack_injective {cfg : Cfg} (opt : Flags) {c1 c2 : Content}
    (h1 : WF cfg c1) (h2 : WF cfg c2) (hl : c1.length = c2.length)
    (heq : pack cfg opt c1 = pack cfg opt c2) : c1 = c2 := by
  have e1 := unpack_pack_full opt h1
  have e2 := unpack_pack_full opt h2
  rw [heq, hl] at e1
  exact e1.symm.trans e2

/-- **Layout choice (`FULL_OR_SPARSE`).**  Sparse is chosen iff
    `(2 + slots_per_edge) * nnzs < (1 + slots_per_edge) * truncsize`; ties go to
    truncated full; the chosen layout is never larger than either alternative;
    `FULL_ONLY` / `SPARSE_ONLY` force the layout. -/
theorem layout_choice (cfg : Cfg) (c : Content) :
    ((pack cfg .fullOrSparse c).isSparse = true ↔
        (2 + cfg.spe) * nnz cfg c < (1 + cfg.spe) * truncSize cfg c)
    ∧ (pack cfg .fullOrSparse c).slots cfg ≤ (pack cfg .fullOnly c).slots cfg
    ∧ (pack cfg .fullOrSparse c).slots cfg ≤ (pack cfg .sparseOnly c).slots cfg
    ∧ (pack cfg .fullOnly c).isSparse = false
    ∧ (pack cfg .sparseOnly c).isSparse = true
    ∧ (pack cfg .fullOnly c).slots cfg = slotsForNode cfg (truncSize cfg c) false
    ∧ (pack cfg .sparseOnly c).slots cfg = slotsForNode cfg (nnz cfg c) true :=
  ⟨pack_fullOrSparse_isSparse cfg c, slots_fullOrSparse_le_full cfg c,
   slots_fullOrSparse_le_sparse cfg c, rfl, rfl, rfl, slots_mkSparse cfg c⟩

end Codec
end Meddly

/-
  Axiom audit (`#print axioms`, Lean 4.33.0):

    unpack_pack_full, unpack_pack_sparse, views_agree, fillUnpacked_toFull,
    pack_flag_indep, pack_flag_indep_sparse, pack_flag_indep_ge,
    getDownPtr_spec, getDownEdge_spec, isSingleton_spec, singletonSpec_eq_some_iff,
    areDuplicates_spec_full, areDuplicates_spec_sparse, areDuplicates_spec_truncFull,
    areDuplicates_spec, hash_agree, packSparseNb_eq,
    slots_fullOrSparse_le_full, slots_fullOrSparse_le_sparse,
    C02_views_agree, C02_hash_identical, C02_duplicates, isSingleton_truth,
    C12_codec_flag_indep, C12_pack_injective, layout_choice
        : [propext, Classical.choice, Quot.sound]
    pack_tie_full
        : [propext]

  No proof placeholders, no additional axioms, no native evaluation.

  Modelling notes.
  * `tv` (the transparent node) is 0, as the code itself assumes in
    `fillUnpacked` (full → sparse: `if (down[i])`), in `areDuplicates`
    (full/full edge loop: `if (down[i])`) and in the EV `getDownPtr` (`dn = 0`).
  * Sparse index arrays are ascending; `areDuplicates` is modelled for ascending
    input only (for unsorted input the C++ reads `n.down(i)` at an index that
    is not `index[z]`; the model answers `false` there).
  * Header slots (unhashed / hashed extra information) only enter the slot
    counts; their comparison in `areDuplicates` and their contribution to the
    hash are the same prefix in every case and are not modelled.
    (`makeFullNode` / `makeSparseNode` copy the HASHED header with
    `nb.getHHdata(chunk + unhashed_start)`, i.e. to the unhashed offset; this
    is harmless only while at most one of the two headers is non-empty.)
  * `makeNode` on a sparse unpacked node with `nnzs = 0` reads `nb.index(-1)`;
    `lastIdxSucc` returns 0 there.
-/
