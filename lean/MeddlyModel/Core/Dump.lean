/-
  Certificate checker for a dump of a real (shared, DAG-shaped) node store.

  A dump is a list of node records (`DNode`): handle, position, full child
  vector.  Children are either pointers to other stored nodes (`Child.nd h`)
  or decoded terminals (`Child.tm v`).  `Dump.unfold` turns a child into the
  tree model `DD α` of `Core/DD.lean`; `Dump.check` is an executable checker
  that works on the *shared* representation (never unfolding) and
  `Dump.check_sound` shows that it implies `DD.Red` of every unfolded root.
-/
import MeddlyModel.Core.DD

namespace Meddly

inductive Child (α : Type) where
  | nd (h : Nat)        -- pointer to the stored node with handle h (h > 0)
  | tm (v : α)          -- terminal, already decoded to its value
  deriving DecidableEq, Repr, Inhabited

structure DNode (α : Type) where
  handle : Nat
  pos    : Nat               -- position (≥ 1), see DD.lean header
  down   : List (Child α)    -- FULL child vector, length = size of the variable at pos
  deriving DecidableEq, Repr, Inhabited

abbrev Dump (α : Type) := List (DNode α)

namespace Dump
variable {α : Type}

def find (D : Dump α) (h : Nat) : Option (DNode α) := D.find? (fun n => n.handle == h)

/-- unfold a child into a tree; `fuel` ≥ position of the child suffices -/
def unfold (D : Dump α) (zero : α) : Nat → Child α → DD α
  | _, .tm v => .leaf v
  | 0, .nd _ => .leaf zero
  | f+1, .nd h =>
    match D.find h with
    | none => .leaf zero
    | some n => .node n.pos (n.down.map (unfold D zero f))

/-- position of a child: 0 for terminals (and dangling pointers) -/
def cpos (D : Dump α) : Child α → Nat
  | .tm _ => 0
  | .nd h =>
    match D.find h with
    | some m => m.pos
    | none => 0

/-- a child is valid in `D`: a terminal, or a pointer that resolves to a node at position ≤ `bound` -/
def childOK (D : Dump α) (bound : Nat) : Child α → Bool
  | .tm _ => true
  | .nd h =>
    match D.find h with
    | some m => decide (m.pos ≤ bound)
    | none => false

/-! ## Basic facts -/

theorem find_some {D : Dump α} {h : Nat} {m : DNode α} (e : D.find h = some m) :
    m ∈ D ∧ m.handle = h := by
  unfold find at e
  refine ⟨List.mem_of_find?_eq_some e, ?_⟩
  have := List.find?_some e
  simpa using this

theorem childOK_nd {D : Dump α} {b h : Nat} (e : D.childOK b (.nd h) = true) :
    ∃ m, D.find h = some m ∧ m.pos ≤ b := by
  cases hf : D.find h with
  | none => simp [childOK, hf] at e
  | some m => exact ⟨m, rfl, by simpa [childOK, hf] using e⟩

theorem childOK_mono {D : Dump α} {b b' : Nat} {c : Child α} (e : D.childOK b c = true)
    (hb : b ≤ b') : D.childOK b' c = true := by
  cases c with
  | tm v => rfl
  | nd h =>
    obtain ⟨m, hm, hp⟩ := childOK_nd e
    simp only [childOK, hm, decide_eq_true_eq]
    omega

variable [DecidableEq α]

/-- handles pairwise distinct and no two distinct nodes with the same `(pos, down)` -/
def distinctOK : Dump α → Bool
  | [] => true
  | n :: rest =>
    rest.all (fun m => m.handle != n.handle && !(m.pos == n.pos && m.down == n.down)) &&
    distinctOK rest

def storeOK (D : Dump α) : Bool :=
  D.all (fun n => decide (0 < n.handle) && decide (1 ≤ n.pos) &&
    n.down.all (fun c => D.childOK (n.pos - 1) c)) &&
  D.distinctOK

/-! ### dump-level mirrors of the tree predicates -/

def isNodeAtC (D : Dump α) (p : Nat) : Child α → Bool
  | .tm _ => false
  | .nd h =>
    match D.find h with
    | some m => m.pos == p
    | none => false

/-- the node record `m` is the `i`-singleton at position `p` -/
def isSingletonN (zero : α) (p i : Nat) (m : DNode α) : Bool :=
  m.pos == p && decide (i < m.down.length) &&
    (List.range m.down.length).all (fun j => j == i || m.down.getD j (.tm zero) == .tm zero) &&
    m.down.getD i (.tm zero) != .tm zero

def isSingletonC (zero : α) (D : Dump α) (p i : Nat) : Child α → Bool
  | .tm _ => false
  | .nd h =>
    match D.find h with
    | some m => isSingletonN zero p i m
    | none => false

def isAnySingletonC (zero : α) (D : Dump α) (p : Nat) : Child α → Bool
  | .tm _ => false
  | .nd h =>
    match D.find h with
    | some m => m.pos == p && (List.range m.down.length).any (fun i => isSingletonN zero p i m)
    | none => false

/-- mirror of `DD.edgeOK` computed from the dump -/
def edgeOKC (S : Shape) (zero : α) (D : Dump α) (k : Nat) (fromIdx : Option Nat) (c : Child α) : Bool :=
  match S.mode k with
  | .red => true
  | .none => isNodeAtC D k c || c == .tm zero || k == 0
  | .ident =>
    match fromIdx with
    | some i => !(isSingletonC zero D k i c)
    | none => !(isAnySingletonC zero D k c)

/-- the per-edge part of `Red`: all `edgeOK` conjuncts from position `k` down to the
    position of the child (or down to 1 for a terminal) -/
def edgeChk (S : Shape) (zero : α) (D : Dump α) : Nat → Option Nat → Child α → Bool
  | 0, _, _ => true
  | k+1, fi, c =>
    edgeOKC S zero D (k+1) fi c &&
    (if D.cpos c = k+1 then true else edgeChk S zero D k none c)

/-- `edgeChk` for the children `cs` of a node, numbered from `i` -/
def edgesChk (S : Shape) (zero : α) (D : Dump α) (k : Nat) : Nat → List (Child α) → Bool
  | _, [] => true
  | i, c :: cs => edgeChk S zero D k (some i) c && edgesChk S zero D k (i+1) cs

/-- the node-local part of `Red` -/
def nodeOK (S : Shape) (zero : α) (D : Dump α) (n : DNode α) : Bool :=
  decide (n.pos ≤ S.top) &&
  n.down.length == S.size n.pos &&
  n.down.any (fun c => c != .tm zero) &&
  (S.mode n.pos != .red || !(n.down.all (fun c => c == n.down.headD (.tm zero)))) &&
  edgesChk S zero D (n.pos - 1) 0 n.down

def rootOK (S : Shape) (zero : α) (D : Dump α) (c : Child α) : Bool :=
  childOK D S.top c && edgeChk S zero D S.top none c

def check (S : Shape) (zero : α) (D : Dump α) (roots : List (Child α)) : Bool :=
  storeOK D && D.all (nodeOK S zero D) && roots.all (rootOK S zero D)

def evalChild (S : Shape) (zero : α) (D : Dump α) (c : Child α) (a : Assign) : α :=
  DD.eval S zero S.top (D.unfold zero S.top c) a

/-- `DD.eval` of the unfolding, computed by walking the dump -/
def evalFastAux (S : Shape) (zero : α) (D : Dump α) : Nat → Child α → Assign → α
  | 0, .tm v, _ => v
  | 0, .nd _, _ => zero
  | k+1, c, a =>
    match c with
    | .tm _ =>
      if S.mode (k+1) = .ident ∧ a (k+1) ≠ a (k+2) then zero
      else evalFastAux S zero D k c a
    | .nd h =>
      match D.find h with
      | none =>
        if S.mode (k+1) = .ident ∧ a (k+1) ≠ a (k+2) then zero
        else evalFastAux S zero D k (.tm zero) a
      | some m =>
        if m.pos = k+1 then evalFastAux S zero D k (m.down.getD (a (k+1)) (.tm zero)) a
        else if S.mode (k+1) = .ident ∧ a (k+1) ≠ a (k+2) then zero
        else evalFastAux S zero D k c a

def evalFast (S : Shape) (zero : α) (D : Dump α) (c : Child α) (a : Assign) : α :=
  evalFastAux S zero D S.top c a

theorem storeOK_node {D : Dump α} (hs : D.storeOK = true) {n : DNode α} (hn : n ∈ D) :
    0 < n.handle ∧ 1 ≤ n.pos ∧ ∀ c ∈ n.down, D.childOK (n.pos - 1) c = true := by
  simp only [storeOK, Bool.and_eq_true, List.all_eq_true, decide_eq_true_eq] at hs
  obtain ⟨⟨h1, h2⟩, h3⟩ := hs.1 n hn
  exact ⟨h1, h2, h3⟩

theorem storeOK_distinct {D : Dump α} (hs : D.storeOK = true) : D.distinctOK = true := by
  simp only [storeOK, Bool.and_eq_true] at hs
  exact hs.2

/-- a found node has position ≥ 1 and valid children -/
theorem storeOK_find {D : Dump α} (hs : D.storeOK = true) {h : Nat} {m : DNode α}
    (e : D.find h = some m) :
    1 ≤ m.pos ∧ ∀ c ∈ m.down, D.childOK (m.pos - 1) c = true :=
  (storeOK_node hs (find_some e).1).2

theorem distinctOK_unique : ∀ {D : Dump α}, D.distinctOK = true → ∀ {a b : DNode α},
    a ∈ D → b ∈ D → a.pos = b.pos → a.down = b.down → a = b
  | [], _, _, _, ha, _, _, _ => by cases ha
  | n :: rest, hd, a, b, ha, hb, hp, hdn => by
    simp only [distinctOK, Bool.and_eq_true, List.all_eq_true, Bool.not_eq_true',
      Bool.and_eq_false_iff, bne_iff_ne, ne_eq, beq_eq_false_iff_ne] at hd
    rcases List.mem_cons.1 ha with rfl | ha'
    · rcases List.mem_cons.1 hb with rfl | hb'
      · rfl
      · rcases (hd.1 b hb').2 with h | h
        · exact absurd hp.symm h
        · exact absurd hdn.symm h
    · rcases List.mem_cons.1 hb with rfl | hb'
      · rcases (hd.1 a ha').2 with h | h
        · exact absurd hp h
        · exact absurd hdn h
      · exact distinctOK_unique hd.2 ha' hb' hp hdn

theorem distinctOK_find : ∀ {D : Dump α}, D.distinctOK = true → ∀ {n : DNode α},
    n ∈ D → D.find n.handle = some n
  | [], _, _, hn => by cases hn
  | x :: rest, hd, n, hn => by
    simp only [distinctOK, Bool.and_eq_true, List.all_eq_true, bne_iff_ne, ne_eq] at hd
    rcases List.mem_cons.1 hn with rfl | hn'
    · simp [find]
    · have hne : x.handle ≠ n.handle := fun e => (hd.1 n hn').1 e.symm
      have ih := distinctOK_find hd.2 hn'
      unfold find at ih ⊢
      rw [List.find?_cons_of_neg (by simpa using hne)]
      exact ih

/-! ## Unfolding -/

omit [DecidableEq α] in
@[simp] theorem unfold_tm (D : Dump α) (zero : α) (f : Nat) (v : α) :
    D.unfold zero f (.tm v) = .leaf v := by
  cases f <;> rfl

omit [DecidableEq α] in
theorem unfold_nd_succ {D : Dump α} (zero : α) (f : Nat) {h : Nat} {m : DNode α}
    (e : D.find h = some m) :
    D.unfold zero (f+1) (.nd h) = .node m.pos (m.down.map (D.unfold zero f)) := by
  simp only [unfold, e]

/-- a valid pointer unfolds to a node (never to a leaf) -/
theorem unfold_nd {D : Dump α} (zero : α) (hs : D.storeOK = true) {f h : Nat}
    (v : D.childOK f (.nd h) = true) :
    ∃ m g, D.find h = some m ∧ f = g+1 ∧ m.pos ≤ g+1 ∧
      (∀ c ∈ m.down, D.childOK g c = true) ∧
      D.unfold zero f (.nd h) = .node m.pos (m.down.map (D.unfold zero g)) := by
  obtain ⟨m, hm, hp⟩ := childOK_nd v
  obtain ⟨h1, hc⟩ := storeOK_find hs hm
  cases f with
  | zero => omega
  | succ g =>
    refine ⟨m, g, hm, rfl, hp, ?_, unfold_nd_succ zero g hm⟩
    intro c hcm
    exact childOK_mono (hc c hcm) (by omega)

/-- with enough fuel the unfolding does not depend on the fuel -/
theorem unfold_fuel {D : Dump α} (zero : α) (hs : D.storeOK = true) :
    ∀ (f f' : Nat) (c : Child α), D.childOK f c = true → f ≤ f' →
      D.unfold zero f' c = D.unfold zero f c := by
  intro f
  induction f with
  | zero =>
    intro f' c v _
    cases c with
    | tm x => simp
    | nd h =>
      obtain ⟨m, g, _, hf, _⟩ := unfold_nd zero hs v
      omega
  | succ g ih =>
    intro f' c v hle
    cases c with
    | tm x => simp
    | nd h =>
      obtain ⟨m, g0, hm, hf, hp, hc, _⟩ := unfold_nd zero hs v
      have hg : g0 = g := by omega
      subst hg
      cases f' with
      | zero => omega
      | succ g' =>
        rw [unfold_nd_succ zero g' hm, unfold_nd_succ zero g0 hm]
        congr 1
        apply List.map_congr_left
        intro c hcm
        exact ih g' c (hc c hcm) (by omega)

theorem unfold_eq_leaf_zero {D : Dump α} (zero : α) (hs : D.storeOK = true) {f : Nat}
    {c : Child α} (v : D.childOK f c = true) :
    D.unfold zero f c = .leaf zero ↔ c = .tm zero := by
  cases c with
  | tm x =>
    simp only [unfold_tm, DD.leaf.injEq, Child.tm.injEq]
  | nd h =>
    obtain ⟨m, g, _, _, _, _, hu⟩ := unfold_nd zero hs v
    rw [hu]
    constructor <;> intro e <;> cases e

theorem unfold_beq_leaf_zero {D : Dump α} (zero : α) (hs : D.storeOK = true) {f : Nat}
    {c : Child α} (v : D.childOK f c = true) :
    (D.unfold zero f c == .leaf zero) = (c == .tm zero) := by
  rw [Bool.eq_iff_iff, beq_iff_eq, beq_iff_eq]
  exact unfold_eq_leaf_zero zero hs v

theorem map_inj_on {β γ : Type} (u : β → γ) : ∀ (l1 l2 : List β),
    (∀ a ∈ l1, ∀ b ∈ l2, u a = u b → a = b) → l1.map u = l2.map u → l1 = l2
  | [], [], _, _ => rfl
  | [], _ :: _, _, e => by cases e
  | _ :: _, [], _, e => by cases e
  | a :: l1, b :: l2, hinj, e => by
    simp only [List.map_cons, List.cons.injEq] at e
    have hab : a = b := hinj a (List.mem_cons_self ..) b (List.mem_cons_self ..) e.1
    have ht : l1 = l2 := map_inj_on u l1 l2
      (fun x hx y hy => hinj x (List.mem_cons_of_mem _ hx) y (List.mem_cons_of_mem _ hy)) e.2
    rw [hab, ht]

/-- the unique-table invariant makes unfolding injective on valid children -/
theorem unfold_inj (D : Dump α) (zero : α) (h : D.storeOK = true) (c1 c2 : Child α) (f : Nat)
    (v1 : D.childOK f c1 = true) (v2 : D.childOK f c2 = true) :
    D.unfold zero f c1 = D.unfold zero f c2 → c1 = c2 := by
  induction f generalizing c1 c2 with
  | zero =>
    cases c1 with
    | nd h1 => obtain ⟨_, _, _, hf, _⟩ := unfold_nd zero h v1; omega
    | tm x1 =>
      cases c2 with
      | nd h2 => obtain ⟨_, _, _, hf, _⟩ := unfold_nd zero h v2; omega
      | tm x2 =>
        intro e
        simp only [unfold_tm, DD.leaf.injEq] at e
        rw [e]
  | succ g ih =>
    cases c1 with
    | tm x1 =>
      cases c2 with
      | tm x2 =>
        intro e
        simp only [unfold_tm, DD.leaf.injEq] at e
        rw [e]
      | nd h2 =>
        obtain ⟨_, _, _, _, _, _, hu⟩ := unfold_nd zero h v2
        rw [hu, unfold_tm]
        intro e; cases e
    | nd h1 =>
      obtain ⟨m1, g1, hm1, hf1, _, hc1, hu1⟩ := unfold_nd zero h v1
      cases c2 with
      | tm x2 =>
        rw [hu1, unfold_tm]
        intro e; cases e
      | nd h2 =>
        obtain ⟨m2, g2, hm2, hf2, _, hc2, hu2⟩ := unfold_nd zero h v2
        have e1 : g1 = g := by omega
        have e2 : g2 = g := by omega
        subst e1; subst e2
        rw [hu1, hu2]
        intro e
        simp only [DD.node.injEq] at e
        have hdown : m1.down = m2.down :=
          map_inj_on _ _ _ (fun a ha b hb => ih a b (hc1 a ha) (hc2 b hb)) e.2
        have hm : m1 = m2 :=
          distinctOK_unique (storeOK_distinct h) (find_some hm1).1 (find_some hm2).1 e.1 hdown
        have := (find_some hm1).2
        have := (find_some hm2).2
        subst hm
        congr 1
        omega

/-! ## The dump-level predicates coincide with the tree predicates on the unfolding -/

omit [DecidableEq α] in
theorem getD_map_unfold (D : Dump α) (zero : α) (g : Nat) (cs : List (Child α)) (j : Nat) :
    (cs.map (D.unfold zero g)).getD j (.leaf zero) = D.unfold zero g (cs.getD j (.tm zero)) := by
  simp only [List.getD_eq_getElem?_getD, List.getElem?_map]
  cases cs[j]? <;> simp

omit [DecidableEq α] in
theorem childOK_getD {D : Dump α} (zero : α) {g : Nat} {cs : List (Child α)}
    (hc : ∀ c ∈ cs, D.childOK g c = true) (j : Nat) :
    D.childOK g (cs.getD j (.tm zero)) = true := by
  rw [List.getD_eq_getElem?_getD]
  cases e : cs[j]? with
  | none => rfl
  | some c => exact hc c (List.mem_of_getElem? e)

theorem getD_beq_leaf_zero {D : Dump α} (zero : α) (hs : D.storeOK = true) {g : Nat}
    {cs : List (Child α)} (hc : ∀ c ∈ cs, D.childOK g c = true) (j : Nat) :
    ((cs.map (D.unfold zero g)).getD j (.leaf zero) == .leaf zero) =
      (cs.getD j (.tm zero) == .tm zero) := by
  rw [getD_map_unfold]
  exact unfold_beq_leaf_zero zero hs (childOK_getD zero hc j)

theorem isNodeAt_unfold {D : Dump α} (zero : α) (hs : D.storeOK = true) {f : Nat} {c : Child α}
    (v : D.childOK f c = true) (p : Nat) :
    DD.isNodeAt p (D.unfold zero f c) = D.isNodeAtC p c := by
  cases c with
  | tm x => simp [DD.isNodeAt, isNodeAtC]
  | nd h =>
    obtain ⟨m, g, hm, _, _, _, hu⟩ := unfold_nd zero hs v
    simp only [hu, DD.isNodeAt, isNodeAtC, hm]

theorem isSingleton_node {D : Dump α} (zero : α) (hs : D.storeOK = true) {g : Nat}
    {m : DNode α} (hc : ∀ c ∈ m.down, D.childOK g c = true) (p i : Nat) :
    DD.isSingleton zero p i (.node m.pos (m.down.map (D.unfold zero g))) =
      isSingletonN zero p i m := by
  simp only [DD.isSingleton, isSingletonN, List.length_map, bne, getD_beq_leaf_zero zero hs hc]

theorem isSingleton_unfold {D : Dump α} (zero : α) (hs : D.storeOK = true) {f : Nat}
    {c : Child α} (v : D.childOK f c = true) (p i : Nat) :
    DD.isSingleton zero p i (D.unfold zero f c) = isSingletonC zero D p i c := by
  cases c with
  | tm x => simp [DD.isSingleton, isSingletonC]
  | nd h =>
    obtain ⟨m, g, hm, _, _, hc, hu⟩ := unfold_nd zero hs v
    rw [hu, isSingleton_node zero hs hc]
    simp only [isSingletonC, hm]

theorem isAnySingleton_unfold {D : Dump α} (zero : α) (hs : D.storeOK = true) {f : Nat}
    {c : Child α} (v : D.childOK f c = true) (p : Nat) :
    DD.isAnySingleton zero p (D.unfold zero f c) = isAnySingletonC zero D p c := by
  cases c with
  | tm x => simp [DD.isAnySingleton, isAnySingletonC]
  | nd h =>
    obtain ⟨m, g, hm, _, _, hc, hu⟩ := unfold_nd zero hs v
    rw [hu]
    simp only [DD.isAnySingleton, isAnySingletonC, hm, List.length_map,
      isSingleton_node zero hs hc]
    cases hp : m.pos == p with
    | true => simp
    | false =>
      simp only [Bool.false_and, List.any_eq_false]
      intro i _
      simp [isSingletonN, hp]

theorem edgeOK_unfold {D : Dump α} (S : Shape) (zero : α) (hs : D.storeOK = true) {f : Nat}
    {c : Child α} (v : D.childOK f c = true) (k : Nat) (fi : Option Nat) :
    DD.edgeOK S zero k fi (D.unfold zero f c) = edgeOKC S zero D k fi c := by
  unfold DD.edgeOK edgeOKC
  cases S.mode k with
  | red => rfl
  | none =>
    simp only [isNodeAt_unfold zero hs v, unfold_beq_leaf_zero zero hs v]
  | ident =>
    cases fi with
    | none => simp only [isAnySingleton_unfold zero hs v]
    | some i => simp only [isSingleton_unfold zero hs v]

/-! ## Node-local conjuncts -/

theorem any_ne_zero_map {D : Dump α} (zero : α) (hs : D.storeOK = true) {g : Nat} :
    ∀ (cs : List (Child α)), (∀ c ∈ cs, D.childOK g c = true) →
      (cs.map (D.unfold zero g)).any (fun c => c != .leaf zero) =
        cs.any (fun c => c != .tm zero)
  | [], _ => rfl
  | c :: cs, hc => by
    have ih := any_ne_zero_map zero hs cs (fun x hx => hc x (List.mem_cons_of_mem _ hx))
    simp only [List.map_cons, List.any_cons, ih]
    simp only [bne, unfold_beq_leaf_zero zero hs (hc c (List.mem_cons_self ..))]

theorem unfold_beq_unfold {D : Dump α} (zero : α) (hs : D.storeOK = true) {g : Nat}
    {c d : Child α} (vc : D.childOK g c = true) (vd : D.childOK g d = true) :
    (D.unfold zero g c == D.unfold zero g d) = (c == d) := by
  rw [Bool.eq_iff_iff, beq_iff_eq, beq_iff_eq]
  exact ⟨unfold_inj D zero hs c d g vc vd, fun e => by rw [e]⟩

theorem all_beq_map {D : Dump α} (zero : α) (hs : D.storeOK = true) {g : Nat} {d : Child α}
    (vd : D.childOK g d = true) :
    ∀ (cs : List (Child α)), (∀ c ∈ cs, D.childOK g c = true) →
      (cs.map (D.unfold zero g)).all (fun c => c == D.unfold zero g d) =
        cs.all (fun c => c == d)
  | [], _ => rfl
  | c :: cs, hc => by
    simp only [List.map_cons, List.all_cons,
      unfold_beq_unfold zero hs (hc c (List.mem_cons_self ..)) vd,
      all_beq_map zero hs vd cs (fun x hx => hc x (List.mem_cons_of_mem _ hx))]

/-- the redundancy test on `Child` values coincides with the test on unfolded trees -/
theorem all_eq_head_map {D : Dump α} (zero : α) (hs : D.storeOK = true) {g : Nat}
    (cs : List (Child α)) (hc : ∀ c ∈ cs, D.childOK g c = true) :
    (cs.map (D.unfold zero g)).all (fun c => c == (cs.map (D.unfold zero g)).headD (.leaf zero)) =
      cs.all (fun c => c == cs.headD (.tm zero)) := by
  cases cs with
  | nil => rfl
  | cons c0 cs =>
    simp only [List.map_cons, List.headD_cons]
    rw [← List.map_cons]
    exact all_beq_map zero hs (hc c0 (List.mem_cons_self ..)) (c0 :: cs) hc

omit [DecidableEq α] in
theorem getD_cons_succ' (c : Child α) (cs : List (Child α)) (j : Nat) (d : Child α) :
    (c :: cs).getD (j+1) d = cs.getD j d := by
  simp [List.getD_eq_getElem?_getD]

theorem edgesChk_getD (S : Shape) (zero : α) (D : Dump α) (k : Nat) :
    ∀ (cs : List (Child α)) (i0 : Nat), edgesChk S zero D k i0 cs = true →
      ∀ j, j < cs.length → edgeChk S zero D k (some (i0 + j)) (cs.getD j (.tm zero)) = true
  | [], _, _, j, hj => by cases hj
  | c :: cs, i0, h, j, hj => by
    simp only [edgesChk, Bool.and_eq_true] at h
    cases j with
    | zero => simpa using h.1
    | succ j =>
      rw [getD_cons_succ']
      have := edgesChk_getD S zero D k cs (i0+1) h.2 j (by simpa using hj)
      have e : i0 + (j+1) = i0 + 1 + j := by omega
      rw [e]; exact this

/-! ## Soundness -/

theorem allNodeOK_find {S : Shape} {zero : α} {D : Dump α}
    (hn : D.all (nodeOK S zero D) = true) {h : Nat} {m : DNode α} (e : D.find h = some m) :
    nodeOK S zero D m = true :=
  List.all_eq_true.1 hn m (find_some e).1

/-- main lemma: the edge check (plus the node checks of everything stored) gives `Red` of
    the unfolding, for every edge entering position `k` -/
theorem red_of_edgeChk (S : Shape) (zero : α) {D : Dump α} (hs : D.storeOK = true)
    (hn : D.all (nodeOK S zero D) = true) :
    ∀ (k : Nat) (fi : Option Nat) (c : Child α) (f : Nat),
      D.childOK k c = true → k ≤ f → edgeChk S zero D k fi c = true →
      DD.Red S zero k fi (D.unfold zero f c) = true := by
  intro k
  induction k with
  | zero =>
    intro fi c f v _ _
    cases c with
    | tm x => simp [DD.Red]
    | nd h => obtain ⟨_, _, _, hf, _⟩ := unfold_nd zero hs v; omega
  | succ k ih =>
    intro fi c f v hle hchk
    simp only [edgeChk, Bool.and_eq_true] at hchk
    obtain ⟨he, hrest⟩ := hchk
    have v' : D.childOK f c = true := childOK_mono v hle
    have heo : DD.edgeOK S zero (k+1) fi (D.unfold zero f c) = true := by
      rw [edgeOK_unfold S zero hs v']; exact he
    cases c with
    | tm x =>
      rw [unfold_tm] at heo ⊢
      simp only [DD.Red, heo, Bool.true_and]
      have hr : edgeChk S zero D k none (.tm x) = true := by simpa [cpos] using hrest
      have := ih none (.tm x) f rfl (by omega) hr
      simpa using this
    | nd h =>
      obtain ⟨m, hm, hpk⟩ := childOK_nd v
      obtain ⟨m2, g, hm2, hf, _, hc, hu⟩ := unfold_nd zero hs v'
      rw [hm] at hm2
      cases hm2
      rw [hu] at heo
      have hcp : D.cpos (.nd h) = m.pos := by simp [cpos, hm]
      rw [hcp] at hrest
      by_cases hpe : m.pos = k+1
      · rw [hu]
        simp only [DD.Red, heo, Bool.true_and, if_pos hpe]
        have hnm := allNodeOK_find hn hm
        simp only [nodeOK, Bool.and_eq_true] at hnm
        obtain ⟨⟨⟨⟨_, h2⟩, h3⟩, h4⟩, h5⟩ := hnm
        simp only [Bool.and_eq_true]
        refine ⟨⟨⟨?_, ?_⟩, ?_⟩, ?_⟩
        · rw [List.length_map, ← hpe]; exact h2
        · rw [any_ne_zero_map zero hs _ hc]; exact h3
        · rw [all_eq_head_map zero hs _ hc, ← hpe]; exact h4
        · rw [List.all_eq_true]
          intro i hi
          rw [List.mem_range, List.length_map] at hi
          rw [getD_map_unfold]
          have hck : ∀ c ∈ m.down, D.childOK k c = true := by
            intro c hcm
            have := (storeOK_find hs hm).2 c hcm
            rw [hpe] at this
            exact this
          apply ih (some i) _ g (childOK_getD zero hck i) (by omega)
          have := edgesChk_getD S zero D (m.pos - 1) m.down 0 h5 i hi
          rw [hpe, Nat.zero_add] at this
          exact this
      · have hlt : m.pos < k+1 := by omega
        have hr : edgeChk S zero D k none (.nd h) = true := by simpa [hpe] using hrest
        have hv : D.childOK k (.nd h) = true := by
          simp only [childOK, hm, decide_eq_true_eq]; omega
        have := ih none (.nd h) f hv (by omega) hr
        rw [hu] at this ⊢
        simp only [DD.Red, heo, Bool.true_and, if_neg hpe, if_pos hlt]
        exact this

/-- a stored node (entered at its own position through `fi`) unfolds to a reduced tree as
    soon as the `edgeOK` test of the arriving edge holds -/
theorem red_of_node (S : Shape) (zero : α) {D : Dump α} (hs : D.storeOK = true)
    (hn : D.all (nodeOK S zero D) = true) {n : DNode α} (hmem : n ∈ D) (fi : Option Nat)
    (f : Nat) (hf : n.pos ≤ f)
    (he : DD.edgeOK S zero n.pos fi (D.unfold zero f (.nd n.handle)) = true) :
    DD.Red S zero n.pos fi (D.unfold zero f (.nd n.handle)) = true := by
  have hfind := distinctOK_find (storeOK_distinct hs) hmem
  have hp := (storeOK_node hs hmem).2.1
  have v : D.childOK n.pos (.nd n.handle) = true := by
    simp only [childOK, hfind, decide_eq_true_eq]; omega
  apply red_of_edgeChk S zero hs hn n.pos fi _ f v hf
  rw [edgeOK_unfold S zero hs (childOK_mono v hf)] at he
  obtain ⟨k, hk⟩ : ∃ k, n.pos = k+1 := ⟨n.pos - 1, by omega⟩
  rw [hk] at he ⊢
  simp only [edgeChk, he, Bool.true_and]
  simp [cpos, hfind, hk]

/-- soundness of the certificate checker: every root unfolds to a tree in reduced form -/
theorem check_sound (S : Shape) (zero : α) (D : Dump α) (roots : List (Child α))
    (h : Dump.check S zero D roots = true) :
    ∀ r ∈ roots, DD.Red S zero S.top none (D.unfold zero S.top r) = true := by
  simp only [check, Bool.and_eq_true] at h
  obtain ⟨⟨hs, hn⟩, hr⟩ := h
  intro r hrm
  have := List.all_eq_true.1 hr r hrm
  simp only [rootOK, Bool.and_eq_true] at this
  exact red_of_edgeChk S zero hs hn S.top none r S.top this.1 (Nat.le_refl _) this.2

/-- every stored node of a checked dump unfolds to a reduced tree when entered with `fi`
    at its own position, provided the arriving edge is legal -/
theorem check_sound_node (S : Shape) (zero : α) (D : Dump α) (roots : List (Child α))
    (h : Dump.check S zero D roots = true) (n : DNode α) (hmem : n ∈ D) (fi : Option Nat)
    (he : edgeOKC S zero D n.pos fi (.nd n.handle) = true) :
    DD.Red S zero n.pos fi (D.unfold zero n.pos (.nd n.handle)) = true := by
  simp only [check, Bool.and_eq_true] at h
  obtain ⟨⟨hs, hn⟩, _⟩ := h
  apply red_of_node S zero hs hn hmem fi n.pos (Nat.le_refl _)
  have hfind := distinctOK_find (storeOK_distinct hs) hmem
  have v : D.childOK n.pos (.nd n.handle) = true := by
    simp only [childOK, hfind, decide_eq_true_eq]; omega
  rw [edgeOK_unfold S zero hs v]; exact he

/-! ## Fast evaluation -/

omit [DecidableEq α] in
theorem evalFastAux_eq (S : Shape) (zero : α) (D : Dump α) (a : Assign) :
    ∀ (k : Nat) (c : Child α) (f : Nat), k ≤ f →
      evalFastAux S zero D k c a = DD.eval S zero k (D.unfold zero f c) a := by
  intro k
  induction k with
  | zero =>
    intro c f _
    cases c with
    | tm x => simp [evalFastAux, DD.eval]
    | nd h =>
      cases f with
      | zero => simp [evalFastAux, unfold, DD.eval]
      | succ g =>
        cases hm : D.find h with
        | none => simp [evalFastAux, unfold, hm, DD.eval]
        | some m => simp [evalFastAux, unfold, hm, DD.eval]
  | succ k ih =>
    intro c f hle
    cases c with
    | tm x =>
      have := ih (.tm x) f (by omega)
      rw [unfold_tm] at this ⊢
      simp only [evalFastAux, DD.eval, this]
    | nd h =>
      obtain ⟨g, hg⟩ : ∃ g, f = g+1 := ⟨f - 1, by omega⟩
      subst hg
      cases hm : D.find h with
      | none =>
        have := ih (.tm zero) (g+1) (by omega)
        rw [unfold_tm] at this
        simp only [evalFastAux, unfold, hm, DD.eval, this]
      | some m =>
        have h1 := ih (.nd h) (g+1) (by omega)
        have h2 := ih (m.down.getD (a (k+1)) (.tm zero)) g (by omega)
        rw [unfold_nd_succ zero g hm] at h1 ⊢
        simp only [evalFastAux, hm, DD.eval, getD_map_unfold, h1, h2]

omit [DecidableEq α] in
/-- the dump walk computes the denotation of the unfolding -/
theorem evalFast_eq_evalChild (S : Shape) (zero : α) (D : Dump α) (c : Child α) (a : Assign) :
    evalFast S zero D c a = evalChild S zero D c a :=
  evalFastAux_eq S zero D a S.top c S.top (Nat.le_refl _)

end Dump

/-! ## Non-vacuity: concrete dumps -/

namespace DumpExamples
open Dump

/-- three positions, all fully reduced, sizes 2, 3, 2 (positions 1, 2, 3) -/
def S1 : Shape := { top := 3, size := fun p => if p = 2 then 3 else 2, mode := fun _ => .red }

/-- six nodes; node 1 has parents 3, 4 and 6, node 3 has parents 5 and 6;
    node 6 skips position 2 on its child 0 -/
def D1 : Dump Nat :=
  [ ⟨1, 1, [.tm 0, .tm 1]⟩,
    ⟨2, 1, [.tm 1, .tm 0]⟩,
    ⟨3, 2, [.nd 1, .nd 2, .tm 0]⟩,
    ⟨4, 2, [.nd 1, .nd 1, .nd 2]⟩,
    ⟨5, 3, [.nd 3, .nd 4]⟩,
    ⟨6, 3, [.nd 1, .nd 3]⟩ ]

example : Dump.check S1 0 D1 [.nd 5, .nd 6, .nd 1, .nd 4, .tm 1, .tm 0] = true := by decide

example : ∀ r ∈ [Child.nd 5, .nd 6, .nd 1, .nd 4, .tm 1, .tm 0],
    DD.Red S1 0 S1.top none (D1.unfold 0 S1.top r) = true :=
  Dump.check_sound S1 0 D1 _ (by decide)

example : D1.unfold 0 3 (.nd 6) =
    .node 3 [.node 1 [.leaf 0, .leaf 1],
             .node 2 [.node 1 [.leaf 0, .leaf 1], .node 1 [.leaf 1, .leaf 0], .leaf 0]] := by
  decide

-- x3 = 1, x2 = 1, x1 = 0  ↦  node 6 → node 3 → node 2 → 1
example : Dump.evalFast S1 0 D1 (.nd 6) (fun p => if p = 1 then 0 else 1) = 1 := by decide
example : Dump.evalChild S1 0 D1 (.nd 6) (fun p => if p = 1 then 0 else 1) = 1 := by decide
-- x3 = 0 skips position 2
example : Dump.evalFast S1 0 D1 (.nd 6) (fun p => if p = 1 then 1 else 0) = 1 := by decide

/-- identity-reduced relation over two variables: positions 4, 2 unprimed (`red`),
    positions 3, 1 primed (`ident`); all sizes 2 -/
def S2 : Shape :=
  { top := 4, size := fun _ => 2, mode := fun p => if p = 4 ∨ p = 2 then .red else .ident }

/-- node 1 is the 1-singleton at the `ident` position 1, legal because it is entered through
    index 0 of node 2; node 6 is the 1-singleton at the `ident` position 3, legal because it
    is entered through index 0 of node 7; node 3 has a child (`tm true`) that skips the
    `ident` position 1; node 5's child 1 skips the `ident` position 3.
    Node 2 has parents 4 and 6, node 3 has parents 4, 5 and 7. -/
def D2 : Dump Bool :=
  [ ⟨1, 1, [.tm false, .tm true]⟩,
    ⟨2, 2, [.nd 1, .tm false]⟩,
    ⟨3, 2, [.tm true, .tm false]⟩,
    ⟨4, 3, [.nd 2, .nd 3]⟩,
    ⟨6, 3, [.tm false, .nd 2]⟩,
    ⟨5, 4, [.nd 4, .nd 3]⟩,
    ⟨7, 4, [.nd 6, .nd 3]⟩ ]

example : Dump.check S2 false D2 [.nd 5, .nd 7, .nd 3, .tm true, .tm false] = true := by decide

example : ∀ r ∈ [Child.nd 5, .nd 7, .nd 3, .tm true, .tm false],
    DD.Red S2 false S2.top none (D2.unfold false S2.top r) = true :=
  Dump.check_sound S2 false D2 _ (by decide)

-- the root `tm true` is the identity relation: every position is skipped
example : Dump.evalFast S2 false D2 (.tm true) (fun p => if p ≤ 2 then 1 else 0) = true := by decide
example : Dump.evalFast S2 false D2 (.tm true) (fun p => if p = 3 then 1 else 0) = false := by decide
-- x2 = 1 (pos 4), x2' skipped (pos 3, must equal 1), x1 = 0 (pos 2), x1' skipped
example : Dump.evalFast S2 false D2 (.nd 5) (fun p => if p ≥ 3 then 1 else 0) = true := by decide
example : Dump.evalFast S2 false D2 (.nd 5) (fun p => if p = 4 then 1 else 0) = false := by decide

/-! ### rejected dumps -/

/-- duplicate content: nodes 1 and 2 have the same `(pos, down)` -/
def Bdup : Dump Nat :=
  [ ⟨1, 1, [.tm 0, .tm 1]⟩, ⟨2, 1, [.tm 0, .tm 1]⟩, ⟨3, 2, [.nd 1, .nd 2, .tm 0]⟩ ]
example : Bdup.storeOK = false := by decide
example : Bdup.all (nodeOK S1 0 Bdup) = true := by decide
example : Dump.check S1 0 Bdup [.nd 3] = false := by decide

/-- duplicate handle -/
def Bhandle : Dump Nat := [ ⟨1, 1, [.tm 0, .tm 1]⟩, ⟨1, 1, [.tm 1, .tm 0]⟩ ]
example : Dump.check S1 0 Bhandle [.nd 1] = false := by decide

/-- a child that does not point strictly downwards -/
def Bup : Dump Nat := [ ⟨1, 1, [.tm 0, .nd 2]⟩, ⟨2, 1, [.tm 1, .tm 0]⟩ ]
example : Dump.check S1 0 Bup [.nd 1] = false := by decide

/-- redundant node stored at a `red` position -/
def Bred : Dump Nat := [ ⟨1, 1, [.tm 1, .tm 1]⟩, ⟨2, 2, [.nd 1, .tm 0, .tm 1]⟩ ]
example : Bred.storeOK = true := by decide
example : nodeOK S1 0 Bred ⟨1, 1, [.tm 1, .tm 1]⟩ = false := by decide
example : Dump.check S1 0 Bred [.nd 2] = false := by decide
-- redundancy of shared children is detected on handles, without unfolding
def Bred2 : Dump Nat := [ ⟨1, 1, [.tm 0, .tm 1]⟩, ⟨2, 2, [.nd 1, .nd 1, .nd 1]⟩ ]
example : Bred2.storeOK = true := by decide
example : Dump.check S1 0 Bred2 [.nd 2] = false := by decide

/-- all-zero node (at an `ident` position, where redundancy is not forbidden) -/
def Bzero : Dump Bool := [ ⟨1, 1, [.tm false, .tm false]⟩, ⟨2, 2, [.nd 1, .tm true]⟩ ]
example : Bzero.storeOK = true := by decide
example : nodeOK S2 false Bzero ⟨1, 1, [.tm false, .tm false]⟩ = false := by decide
example : Dump.check S2 false Bzero [.nd 2] = false := by decide

/-- illegal singleton: node 1 is the 1-singleton at the `ident` position 1 and is
    entered through index 1 of node 2 -/
def Bsing : Dump Bool := [ ⟨1, 1, [.tm false, .tm true]⟩, ⟨2, 2, [.tm false, .nd 1]⟩ ]
example : Bsing.storeOK = true := by decide
example : nodeOK S2 false Bsing ⟨1, 1, [.tm false, .tm true]⟩ = true := by decide
example : nodeOK S2 false Bsing ⟨2, 2, [.tm false, .nd 1]⟩ = false := by decide
example : Dump.check S2 false Bsing [.nd 2] = false := by decide

/-- illegal singleton below a skipped position: root edge skips 4, 3, 2 and reaches a
    singleton at the `ident` position 1 (any singleton is illegal after a skip) -/
example : Dump.check S2 false [⟨1, 1, [.tm false, .tm true]⟩] [.nd 1] = false := by decide
example : Dump.check S2 false [⟨1, 1, [.tm false, .tm true]⟩] [] = true := by decide

/-- quasi-reduced: two positions of size 2, nothing may be skipped -/
def S3 : Shape := { top := 2, size := fun _ => 2, mode := fun _ => .none }

/-- legal quasi-reduced dump (redundant nodes are stored, `tm 0` is transparent) -/
def D3 : Dump Nat := [ ⟨1, 1, [.tm 1, .tm 1]⟩, ⟨2, 2, [.nd 1, .tm 0]⟩ ]
example : Dump.check S3 0 D3 [.nd 2, .tm 0] = true := by decide

/-- quasi-mode skip: child 0 of node 2 jumps from position 2 to the terminal 1 -/
def Bquasi : Dump Nat := [ ⟨1, 1, [.tm 1, .tm 1]⟩, ⟨2, 2, [.tm 1, .nd 1]⟩ ]
example : Bquasi.storeOK = true := by decide
example : nodeOK S3 0 Bquasi ⟨2, 2, [.tm 1, .nd 1]⟩ = false := by decide
example : Dump.check S3 0 Bquasi [.nd 2] = false := by decide
-- a root edge that skips position 2
example : Dump.check S3 0 D3 [.nd 1] = false := by decide

end DumpExamples
end Meddly
