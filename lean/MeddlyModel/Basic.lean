def hello := "world"
