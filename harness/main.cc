// mdh <family> --seed N --tier quick|thorough [--case i] [--cases n] [--key value ...]
#include "common.h"
using namespace mdh;

int main(int argc, char** argv) {
    if (argc < 2) {
        fprintf(stderr, "usage: mdh <family> [--seed N] [--tier T] [--case i]\nfamilies:\n");
        for (auto& f : families()) fprintf(stderr, "  %-12s %s\n", f.name, f.what);
        return 2;
    }
    Args a;
    a.family = argv[1];
    for (int i = 2; i + 1 < argc; i += 2) {
        std::string k = argv[i];
        if (k.rfind("--", 0) == 0) k = k.substr(2);
        a.kv[k] = argv[i + 1];
    }
    a.seed = (uint64_t) a.getl("seed", 1);
    a.tier = a.get("tier", "quick");
    a.only_case = a.getl("case", -1);
    a.cases = a.getl("cases", -1);
    // global overrides usable with every family: --forcepol storage,mm,deletion  (policy of every forest made by
    // makeForest) and --ct style,stale,maxsize (compute-table configuration of every libInit() without argument)
    if (!a.get("forcepol").empty()) setenv("MDH_FORCE_POL", a.get("forcepol").c_str(), 1);
    if (!a.get("ct").empty()) setenv("MDH_CT_CONF", a.get("ct").c_str(), 1);
    setvbuf(stdout, nullptr, _IOFBF, 1 << 20);
    for (auto& f : families()) {
        if (a.family == f.name) {
            emit("family %s", f.name);
            emit("seed %lu", (unsigned long) a.seed);
            emit("tier %s", a.tier.c_str());
            int rc = 1;
            try {
                rc = f.fn(a);
            } catch (MEDDLY::error& e) {
                emit("crash uncaught-meddly-error %s %s:%u", errName(e), e.getFile(), e.getLine());
                rc = 3;
            } catch (const char* s) {
                emit("crash uncaught-string %s", s);
                rc = 3;
            }
            STATS.dump();
            emit("done %d", rc);
            fflush(stdout);
            return rc;
        }
    }
    fprintf(stderr, "unknown family %s\n", a.family.c_str());
    return 2;
}
