#include "common.h"
#include <csignal>
#include <unistd.h>
#include "unique_table.h"
#include <cmath>
#include <cstdarg>

using namespace MEDDLY;

namespace mdh {

Stats STATS;

// ------------------------------------------------------------------ Val
Val Val::real(double d) {
    Val v;
    v.t = R;
    if (d == 0.0) { v.n = 0; v.e = 0; return v; }
    int ex;
    double m = frexp(d, &ex);          // d = m * 2^ex, 0.5 <= |m| < 1
    // 53 bits of mantissa are enough for any double; floats need 24
    long mant = (long) ldexp(m, 53);
    ex -= 53;
    while ((mant & 1) == 0) { mant >>= 1; ++ex; }
    if (ex >= 0) {
        if (ex > 20) { v.n = mant; v.e = -ex; return v; }   // huge: keep as mant * 2^ex, e negative
        v.n = mant << ex; v.e = 0;
    } else {
        v.n = mant; v.e = -ex;
    }
    return v;
}
double Val::toDouble() const {
    switch (t) {
        case B: case I: return double(n);
        case R: return ldexp(double(n), -e);
        default: return INFINITY;
    }
}
std::string Val::str() const {
    char buf[64];
    switch (t) {
        case B: return n ? "T" : "F";
        case I: snprintf(buf, sizeof buf, "%ld", n); return buf;
        case R: snprintf(buf, sizeof buf, "%ld/%d", n, e); return buf;   // n / 2^e
        default: return "inf";
    }
}
Val fromRangeval(const rangeval& rv) {
    if (rv.isPlusInfinity()) return Val::inf();
    if (rv.isBoolean()) return Val::boolean(bool(rv));
    if (rv.isInteger()) return Val::integer(long(rv));
    return Val::real(double(rv));
}
rangeval toRangeval(const Val& v, range_type rt) {
    if (v.t == Val::INF) return rangeval(range_special::PLUS_INFINITY, rt);
    switch (rt) {
        case range_type::BOOLEAN: return rangeval(bool(v.n != 0));
        case range_type::INTEGER: return rangeval(long(v.n));
        default: return rangeval(v.toDouble());
    }
}

// ------------------------------------------------------------------ Kind
std::string Kind::str() const {
    std::string s = rel ? "rel " : "set ";
    s += rt == range_type::BOOLEAN ? "bool " : rt == range_type::INTEGER ? "int " : "real ";
    switch (el) {
        case edge_labeling::MULTI_TERMINAL: s += "mt "; break;
        case edge_labeling::EVPLUS: s += "evp "; break;
        case edge_labeling::INDEX_SET: s += "idx "; break;
        default: s += "evt "; break;
    }
    s += rr == reduction_rule::FULLY_REDUCED ? "fully" : rr == reduction_rule::QUASI_REDUCED ? "quasi" : "ident";
    return s;
}
bool Kind::legal() const {
    if (rr == reduction_rule::IDENTITY_REDUCED && !rel) return false;
    switch (el) {
        case edge_labeling::MULTI_TERMINAL: return true;
        case edge_labeling::EVPLUS: return rt == range_type::INTEGER;
        case edge_labeling::INDEX_SET: return rt == range_type::INTEGER && !rel;
        case edge_labeling::EVTIMES: return rt == range_type::REAL && rel;
    }
    return false;
}
Val Kind::zero() const {
    if (el == edge_labeling::EVPLUS || el == edge_labeling::INDEX_SET) return Val::inf();
    switch (rt) {
        case range_type::BOOLEAN: return Val::boolean(false);
        case range_type::INTEGER: return Val::integer(0);
        default: return Val::real(0.0);
    }
}
std::vector<Kind> allKinds(bool sets, bool rels) {
    std::vector<Kind> out;
    for (int rel = 0; rel < 2; rel++) {
        if (rel ? !rels : !sets) continue;
        for (range_type rt : {range_type::BOOLEAN, range_type::INTEGER, range_type::REAL})
            for (edge_labeling el : {edge_labeling::MULTI_TERMINAL, edge_labeling::EVPLUS, edge_labeling::EVTIMES})
                for (reduction_rule rr : {reduction_rule::FULLY_REDUCED, reduction_rule::QUASI_REDUCED,
                                          reduction_rule::IDENTITY_REDUCED}) {
                    Kind k; k.rel = rel; k.rt = rt; k.el = el; k.rr = rr;
                    if (k.legal()) out.push_back(k);
                }
    }
    return out;
}

std::string Pol::str() const {
    static const char* st[] = {"full", "sparse", "either"};
    static const char* mmn[] = {"origgrid", "arraygrid", "malloc", "heap"};
    static const char* dl[] = {"never", "optimistic", "pessimistic"};
    return std::string(st[storage]) + "," + mmn[mm] + "," + dl[del];
}
Pol Pol::random(Rng& r) {
    Pol p; p.storage = r.below(3); p.mm = r.below(4); p.del = r.below(3); return p;
}

forest* makeForest(domain* d, const Kind& k, const Pol& pl0) {
    Pol pl = pl0;
    if (const char* e = getenv("MDH_FORCE_POL")) { int a = 2, b = 0, c = 1; sscanf(e, "%d,%d,%d", &a, &b, &c); pl.storage = a; pl.mm = b; pl.del = c; }
    policies p(k.rel);
    p.useDefaults(k.rel);
    switch (k.rr) {
        case reduction_rule::FULLY_REDUCED: p.setFullyReduced(); break;
        case reduction_rule::QUASI_REDUCED: p.setQuasiReduced(); break;
        default: p.setIdentityReduced(); break;
    }
    switch (pl.storage) { case 0: p.setFullStorage(); break; case 1: p.setSparseStorage(); break; default: p.setFullOrSparse(); }
    switch (pl.del) { case 0: p.setNeverDelete(); break; case 1: p.setOptimistic(); break; default: p.setPessimistic(); }
    switch (pl.mm) {
        case 0: p.nodemm = ORIGINAL_GRID; break;
        case 1: p.nodemm = ARRAY_PLUS_GRID; break;
        case 2: p.nodemm = MALLOC_MANAGER; break;
        default: p.nodemm = HEAP_MANAGER; break;
    }
    return forest::create(d, k.rel ? RELATION : SET, k.rt, k.el, p);
}

// ------------------------------------------------------------------ Dom
void Dom::create() { d = domain::createBottomUp(sizes.data(), unsigned(sizes.size())); }
void Dom::destroy() { if (d) domain::destroy(d); d = nullptr; }
std::string Dom::str() const {
    std::string s = "dom";
    for (int x : sizes) s += " " + std::to_string(x);
    return s;
}
size_t Dom::card(bool rel) const {
    size_t c = 1;
    for (int x : sizes) c *= size_t(x) * (rel ? size_t(x) : 1);
    return c;
}
Dom randomDom(Rng& r, unsigned minK, unsigned maxK, int maxSize, size_t maxCard, bool rel) {
    for (;;) {
        Dom D;
        unsigned K = unsigned(r.range(int(minK), int(maxK)));
        for (unsigned i = 0; i < K; i++) D.sizes.push_back(r.range(2, maxSize));
        if (D.card(rel) <= maxCard) return D;
    }
}

void setMinterm(const Dom& D, bool rel, size_t idx, minterm& m) {
    // least significant digit = variable 1 (primed before unprimed for relations)
    for (unsigned v = 1; v <= D.K(); v++) {
        size_t sz = size_t(D.sizes[v - 1]);
        if (rel) {
            int pr = int(idx % sz); idx /= sz;
            int un = int(idx % sz); idx /= sz;
            m.setVars(v, un, pr);
        } else {
            m.setVar(v, int(idx % sz)); idx /= sz;
        }
    }
}

std::vector<Val> tableOf(const Dom& D, const dd_edge& e) {
    const forest* F = e.getForest();
    bool rel = F->isForRelations();
    size_t n = D.card(rel);
    std::vector<Val> t(n);
    minterm m(F);
    for (size_t i = 0; i < n; i++) {
        setMinterm(D, rel, i, m);
        rangeval rv;
        e.evaluate(m, rv);
        t[i] = fromRangeval(rv);
    }
    return t;
}
std::string tableStr(const std::vector<Val>& t) {
    std::string s;
    for (size_t i = 0; i < t.size(); i++) { if (i) s += ' '; s += t[i].str(); }
    return s;
}

Val randomValue(Rng& r, const Kind& k, bool allowZero) {
    for (;;) {
        Val v;
        bool evp = k.el == edge_labeling::EVPLUS || k.el == edge_labeling::INDEX_SET;
        switch (k.rt) {
            case range_type::BOOLEAN: v = Val::boolean(allowZero ? r.chance(1, 2) : true); break;
            case range_type::INTEGER: {
                static const long pool[] = {-2, -1, 0, 1, 2, 3, 5, 7};
                if (evp) {
                    if (r.chance(1, 6)) v = Val::inf();
                    else v = Val::integer(r.range(k.rel ? -3 : 0, 6));
                } else v = Val::integer(pool[r.below(8)]);
                break;
            }
            default: {
                // exactness-safe grid: small dyadic rationals, multiples of 1/4 would not survive the
                // library's round(x/1e-5)*1e-5 exactly -> use halves and integers only
                static const double pool[] = {-2.0, -1.0, -0.5, 0.0, 0.5, 1.0, 1.5, 2.0, 3.0, 4.0};
                if (k.el == edge_labeling::EVTIMES) {
                    static const double p2[] = {0.0, 0.25, 0.5, 1.0, 2.0, 4.0, -1.0, -2.0};
                    v = Val::real(p2[r.below(8)]);
                } else v = Val::real(pool[r.below(10)]);
                break;
            }
        }
        if (!allowZero && v == k.zero()) continue;
        return v;
    }
}

std::vector<Val> randomTable(Rng& r, const Dom& D, const Kind& k, unsigned density) {
    size_t n = D.card(k.rel);
    std::vector<Val> t(n, k.zero());
    for (size_t i = 0; i < n; i++)
        if (r.below(100) < density) t[i] = randomValue(r, k, false);
    return t;
}

std::vector<Val> structuredTable(Rng& r, const Dom& D, const Kind& k, unsigned density) {
    unsigned K = D.K();
    // roles: 0 general, 1 free, 2 fixed, 3 identity (relations), 4 fixed unprimed / free primed (relations)
    std::vector<int> role(K + 1, 0), cu(K + 1, 0), cp(K + 1, 0);
    for (unsigned x = 1; x <= K; x++) {
        unsigned q = r.below(100);
        if (k.rel) role[x] = q < 30 ? 0 : q < 45 ? 1 : q < 60 ? 2 : q < 90 ? 3 : 4;
        else role[x] = q < 40 ? 0 : q < 75 ? 1 : 2;
        cu[x] = r.range(0, D.sizes[x - 1] - 1);
        cp[x] = r.range(0, D.sizes[x - 1] - 1);
    }
    // base function over the general variables only
    size_t bsize = 1;
    for (unsigned x = 1; x <= K; x++) if (role[x] == 0) { size_t sz = size_t(D.sizes[x - 1]); bsize *= k.rel ? sz * sz : sz; }
    std::vector<Val> base(bsize, k.zero());
    bool any = false;
    for (auto& v : base) if (r.below(100) < density) { v = randomValue(r, k, false); any = true; }
    if (!any) base[r.below(unsigned(bsize))] = randomValue(r, k, false);
    size_t n = D.card(k.rel);
    std::vector<Val> t(n, k.zero());
    for (size_t idx = 0; idx < n; idx++) {
        size_t rest = idx, stride = 1, red = 0;
        bool in = true;
        for (unsigned x = 1; x <= K && in; x++) {
            size_t sz = size_t(D.sizes[x - 1]);
            size_t pr = 0, un;
            if (k.rel) { pr = rest % sz; rest /= sz; }
            un = rest % sz; rest /= sz;
            switch (role[x]) {
                case 0: red += (k.rel ? pr + un * sz : un) * stride; stride *= k.rel ? sz * sz : sz; break;
                case 1: break;
                case 2: if (int(un) != cu[x] || (k.rel && int(pr) != cp[x])) in = false; break;
                case 3: if (pr != un) in = false; break;
                default: if (int(un) != cu[x]) in = false; break;
            }
        }
        if (in) t[idx] = base[red];
    }
    return t;
}

void buildFromTable(const Dom& D, forest* F, const Kind& k, const std::vector<Val>& t, dd_edge& out) {
    size_t n = t.size();
    Val z = k.zero();
    size_t nz = 0;
    for (size_t i = 0; i < n; i++) if (t[i] != z) ++nz;
    minterm_coll mc(unsigned(nz ? nz : 1), F);
    for (size_t i = 0; i < n; i++) {
        if (t[i] == z) continue;
        setMinterm(D, k.rel, i, mc.unused());
        mc.unused().setValue(toRangeval(t[i], k.rt));
        mc.pushUnused();
    }
    out.attach(F);
    // entries are disjoint, so max / min never has to combine two values; the default
    // (the transparent value) only has to sit on the right side of every value.
    bool evp = k.el == edge_labeling::EVPLUS || k.el == edge_labeling::INDEX_SET;
    if (evp) {
        mc.buildFunctionMin(toRangeval(z, k.rt), out);
    } else {
        bool anyNeg = false;
        for (size_t i = 0; i < n; i++) if (t[i].t != Val::INF && t[i].n < 0) anyNeg = true;
        if (!anyNeg) mc.buildFunctionMax(toRangeval(z, k.rt), out);
        else {
            // negatives present: max with default 0 would be outside the documented contract.
            // Build the positive part with max and the negative part with min, then add.
            minterm_coll pos(unsigned(nz), F), neg(unsigned(nz), F);
            for (size_t i = 0; i < n; i++) {
                if (t[i] == z) continue;
                minterm_coll& c = (t[i].n < 0) ? neg : pos;
                setMinterm(D, k.rel, i, c.unused());
                c.unused().setValue(toRangeval(t[i], k.rt));
                c.pushUnused();
            }
            dd_edge a(F), b(F);
            if (pos.size()) pos.buildFunctionMax(toRangeval(z, k.rt), a); else F->createConstant(toRangeval(z, k.rt), a);
            if (neg.size()) neg.buildFunctionMin(toRangeval(z, k.rt), b); else F->createConstant(toRangeval(z, k.rt), b);
            apply(PLUS, a, b, out);
        }
    }
}

// ------------------------------------------------------------------ dumps
static std::string evStr(const edge_value& ev) {
    char buf[64];
    if (ev.isVoid()) return "";
    if (ev.isInt()) { snprintf(buf, sizeof buf, ":%d", int(ev)); return buf; }
    if (ev.isLong()) { snprintf(buf, sizeof buf, ":%ld", long(ev)); return buf; }
    if (ev.isFloat()) return ":" + Val::real(double(float(ev))).str();
    { double d; ev.get(d); return ":" + Val::real(d).str(); }
}

std::string childStr(forest* F, const Kind& k, node_handle h) {
    char buf[64];
    if (h > 0) { snprintf(buf, sizeof buf, "N%d", h); return buf; }
    if (k.el == edge_labeling::MULTI_TERMINAL) {
        switch (k.rt) {
            case range_type::BOOLEAN: return std::string("T") + (F->getBooleanFromHandle(h) ? "T" : "F");
            case range_type::INTEGER: snprintf(buf, sizeof buf, "T%d", F->getIntegerFromHandle(h)); return buf;
            default: return "T" + Val::real(double(F->getRealFromHandle(h))).str();
        }
    }
    // EV forests: terminal 0 = transparent, -1 = omega
    return h == 0 ? "TZ" : "TW";
}

std::string edgeStr(const dd_edge& e, const Kind& k) {
    forest* F = e.getForest();
    if (!F) return "detached";
    return childStr(F, k, e.getNode()) + evStr(e.getEdgeValue());
}

void dumpForest(const char* name, forest* F, const Kind& k) {
    node_handle last = F->getLastNode();
    long live = 0, badViews = 0, badHash = 0, badFind = 0;
    // harness-side recount, used only to mark the case suspicious when screening (the verdict is the acceptor's)
    std::map<node_handle, unsigned long> refs, reported;
    for (node_handle h = 1; h <= last; h++) {
        if (!F->isActiveNode(h)) continue;
        if (F->isDeletedNode(h)) continue;
        ++live;
        int lvl = F->getNodeLevel(h);
        unpacked_node* U = unpacked_node::newFromNode(F, h, FULL_ONLY);
        std::string s = "node ";
        s += name;
        char buf[96];
        snprintf(buf, sizeof buf, " %d %d %lu %lu %u", h, posOfLevel(k.rel, lvl), F->getNodeInCount(h),
                 F->verifCacheCount(h), U->getSize());
        s += buf;
        reported[h] = F->getNodeInCount(h);
        for (unsigned i = 0; i < U->getSize(); i++) {
            s += ' ';
            s += childStr(F, k, U->down(i));
            if (U->hasEdges()) s += evStr(U->edgeval(i));
            if (U->down(i) > 0) ++refs[U->down(i)];
        }
        // the sparse view must describe the same index -> (edge value, child) map as the full view, and
        // both views must hash like the stored node (the unique table is rebucketed with hashNode)
        {
            unpacked_node* S = unpacked_node::newFromNode(F, h, SPARSE_ONLY);
            std::vector<node_handle> dn(U->getSize(), F->getTransparentNode());
            std::vector<std::string> ev(U->getSize());
            bool ok = true;
            unsigned prev = 0;
            for (unsigned z = 0; z < S->getSize(); z++) {
                unsigned i = S->index(z);
                if (i >= U->getSize() || (z && i <= prev)) { ok = false; break; }
                prev = i;
                dn[i] = S->down(z);
                if (S->hasEdges()) ev[i] = evStr(S->edgeval(z));
            }
            for (unsigned i = 0; ok && i < U->getSize(); i++) {
                if (dn[i] != U->down(i)) ok = false;
                if (ok && U->hasEdges() && U->down(i) != F->getTransparentNode() && ev[i] != evStr(U->edgeval(i))) ok = false;
            }
            if (!ok) ++badViews;
            U->computeHash();
            S->computeHash();
            if (U->hash() != S->hash() || U->hash() != F->hashNode(h)) ++badHash;
            // the unique table must find this very node for either view
            if (F->getUT()->find(*U, F->getVarByLevel(lvl)) != h || F->getUT()->find(*S, F->getVarByLevel(lvl)) != h) ++badFind;
            unpacked_node::Recycle(S);
        }
        unpacked_node::Recycle(U);
        emits(s);
    }
    emit("expect views-agree.%s 0 %ld", name, badViews);
    emit("expect views-hash-alike.%s 0 %ld", name, badHash);
    emit("expect unique-table-finds-node.%s 0 %ld", name, badFind);
    std::vector<node_handle> roots;
    F->verifRoots(roots);
    std::string s = std::string("roots ") + name;
    for (node_handle r : roots) { s += ' '; s += childStr(F, k, r); if (r > 0) ++refs[r]; }
    emits(s);
    emit("count %s live %ld reported %ld", name, live, F->getCurrentNumNodes());
    if (badViews || badHash || badFind || live != F->getCurrentNumNodes()) markSuspect();
    for (auto& pr : reported) if (refs[pr.first] != pr.second) { markSuspect(); break; }
    for (auto& pr : refs) if (!reported.count(pr.first)) { markSuspect(); break; }
}

void emitForest(const std::string& name, forest* F, const Kind& k, const Pol& p) {
    emit("forest %s %u %s %s", name.c_str(), F->FID(), k.str().c_str(), p.str().c_str());
}
void emitTable(const std::string& ename, const std::string& fname, const Dom& D, const dd_edge& e) {
    emit("table %s %s %s", ename.c_str(), fname.c_str(), tableStr(tableOf(D, e)).c_str());
}
void emitAudit(const std::string& fname, forest* F, const Kind& k) {
    emit("cleardump %s", fname.c_str());
    dumpForest(fname.c_str(), F, k);
    emit("audit %s", fname.c_str());
}
void emitRoot(const std::string& ename, const std::string& fname, const dd_edge& e, const Kind& k) {
    emit("root %s %s %s", ename.c_str(), fname.c_str(), edgeStr(e, k).c_str());
}
void emitEq(const std::string& e1, const std::string& e2, const dd_edge& a, const dd_edge& b) {
    emit("eq %s %s %d", e1.c_str(), e2.c_str(), int(a == b));
}

const char* errName(const error& e) {
    switch (e.getCode()) {
#define C(x) case error::x: return #x;
        C(UNINITIALIZED) C(ALREADY_INITIALIZED) C(NOT_IMPLEMENTED) C(INSUFFICIENT_MEMORY) C(INVALID_OPERATION)
        C(INVALID_VARIABLE) C(INVALID_LEVEL) C(INVALID_BOUND) C(INVALID_ITERATOR) C(DOMAIN_NOT_EMPTY)
        C(UNKNOWN_OPERATION) C(DOMAIN_MISMATCH) C(FOREST_MISMATCH) C(TYPE_MISMATCH) C(WRONG_NUMBER)
        C(VALUE_OVERFLOW) C(DIVIDE_BY_ZERO) C(SUBTRACT_INFINITY) C(INFINITY_DIV_INFINITY) C(INVALID_POLICY)
        C(INVALID_ASSIGNMENT) C(INVALID_ARGUMENT) C(INVALID_OPTION) C(INVALID_FILE) C(COULDNT_READ)
        C(COULDNT_WRITE) C(MISCELLANEOUS)
#undef C
    }
    return "UNKNOWN";
}

// ------------------------------------------------------------------ lifecycle
std::string CTConf::str() const {
    static const char* st[] = {"monoChained", "monoUnchained", "opChained", "opUnchained"};
    static const char* sl[] = {"aggressive", "moderate", "lazy"};
    return std::string(st[style]) + "," + sl[stale] + "," + std::to_string(maxSize);
}
void libInit(const CTConf* ct0) {
    initializer_list* L = defaultInitializerList(nullptr);
    CTConf envconf;
    const CTConf* ct = ct0;
    if (!ct) if (const char* e = getenv("MDH_CT_CONF")) {
        int a = 0, b = 1; long c = 0;
        sscanf(e, "%d,%d,%ld", &a, &b, &c);
        envconf.style = a; envconf.stale = b; envconf.maxSize = c;
        ct = &envconf;
    }
    if (ct) {
        switch (ct->style) {
            case 0: ct_initializer::setBuiltinStyle(ct_initializer::MonolithicChainedHash); break;
            case 1: ct_initializer::setBuiltinStyle(ct_initializer::MonolithicUnchainedHash); break;
            case 2: ct_initializer::setBuiltinStyle(ct_initializer::OperationChainedHash); break;
            default: ct_initializer::setBuiltinStyle(ct_initializer::OperationUnchainedHash); break;
        }
        switch (ct->stale) {
            case 0: ct_initializer::setStaleRemoval(staleRemovalOption::Aggressive); break;
            case 1: ct_initializer::setStaleRemoval(staleRemovalOption::Moderate); break;
            default: ct_initializer::setStaleRemoval(staleRemovalOption::Lazy); break;
        }
        if (ct->maxSize > 0) ct_initializer::setMaxSize(unsigned(ct->maxSize));
    }
    MEDDLY::initialize(L);
}
void libCleanup() { MEDDLY::cleanup(); }

// ------------------------------------------------------------------ registry
static std::vector<Family>& fams() { static std::vector<Family> v; return v; }
void registerFamily(const char* name, FamilyFn fn, const char* what) { fams().push_back({name, fn, what}); }
const std::vector<Family>& families() { return fams(); }

// ------------------------------------------------------------------ screening: do not lose the case that crashes
static void screenCrashHandler(int sig) {
    Screen& s = SCREEN();
    if (s.mem) {
        fflush(s.mem);
        if (s.buf && s.len) { ssize_t w = write(1, s.buf, s.len); (void) w; }
    }
    signal(sig, SIG_DFL);
    raise(sig);
}
void screenInstallCrashFlush() {
    signal(SIGSEGV, screenCrashHandler);
    signal(SIGABRT, screenCrashHandler);
    signal(SIGFPE, screenCrashHandler);
    signal(SIGBUS, screenCrashHandler);
}

}  // namespace mdh
