// Family `iter` (C11): enumeration (dd_edge::iterator, with and without masks), CARDINALITY into
// long / double / mpz, getNodeCount / getEdgeCount, for every forest kind.
//
// Records added to the function-level protocol (handled by lean/Driver/P_Iter.lean):
//   iter <R> <edge> <forest> <m_top> ... <m_1>      start of enumeration R of <edge>; one mask token per
//                                                   position (top first): x = free (DONT_CARE), c = DONT_CHANGE
//                                                   (primed follows unprimed), <digit> = fixed value
//   visit <R> <d_top> ... <d_1> = <value>           one visited minterm, in the order the iterator produced it
//   endvisit <R>                                    iterator exhausted
//   card <edge> long|double|mpz <n>                 CARDINALITY of <edge> in that result type
//   counts <edge> <forest> <rootchild> <nodes> <edgesAll> <edgesNonzero>
//                                                   getNodeCount, getEdgeCount(true), getEdgeCount(false);
//                                                   recounted by the acceptor on the last dump of <forest>
//   cubecard long|double|mpz <n> <v_K> ... <v_1>    cardinality of a cube over a LARGE domain (no table):
//                                                   v = <size>:<u> (sets) or <size>:<u>:<p> (relations),
//                                                   u,p in {x, c, digit}
//   err <R> ITER_DEREF_END <edge> INVALID_ITERATOR  dereferencing the exhausted iterator (generic `err`)
//
// Known trigger F-C11-1 (sanitizer builds only): CARDINALITY into mpz on any edge with an inner node allocates
// its temporary with `new mpz_t` (an array new) and frees it with scalar `delete` (cardinality.cc,
// mpzcard::initTemp/doneTemp); AddressSanitizer aborts with alloc-dealloc-mismatch.  Case 0 probes one such
// call in a forked child (`note known-trigger F-C11-1`); while the probe dies the other cases skip the mpz
// result type (`stat card.mpz.steered`), once it survives they ask for it again.  `--mpz 1` forces the calls.
#include "common.h"
#include <gmp.h>
#include <sys/wait.h>
#include <unistd.h>
#include <fcntl.h>
using namespace MEDDLY;
using namespace mdh;

namespace {

std::string digitsOf(const minterm& m, bool rel, unsigned K) {
    std::string s;
    for (unsigned k = K; k; --k) {
        s += std::to_string(m.from(k));
        s += ' ';
        if (rel) { s += std::to_string(m.to(k)); s += ' '; }
    }
    return s;
}

std::string maskTok(int v) {
    if (v == DONT_CARE) return "x";
    if (v == DONT_CHANGE) return "c";
    return std::to_string(v);
}

std::string maskStr(const minterm* m, bool rel, unsigned K) {
    std::string s;
    for (unsigned k = K; k; --k) {
        s += ' ';
        s += m ? maskTok(m->from(k)) : "x";
        if (rel) { s += ' '; s += m ? maskTok(m->to(k)) : "x"; }
    }
    return s;
}

// walk the iterator to exhaustion, printing every visited minterm
long walk(const char* R, dd_edge::iterator& it, bool rel, unsigned K, long limit) {
    long n = 0;
    for (; it; ++it) {
        const minterm& m = *it;
        emit("visit %s %s= %s", R, digitsOf(m, rel, K).c_str(), fromRangeval(m.getValue()).str().c_str());
        if (++n > limit) { emit("note runaway-iterator %s", R); break; }
    }
    emit("endvisit %s", R);
    return n;
}

void randomMask(Rng& r, const Dom& D, bool rel, minterm& mask, int style) {
    // style 0: mostly free; 1: mostly fixed; 2: DONT_CHANGE heavy (relations)
    for (unsigned v = 1; v <= D.K(); v++) {
        int sz = D.sizes[v - 1];
        int pf = style == 1 ? 60 : 25;
        int from = r.below(100) < unsigned(pf) ? r.range(0, sz - 1) : DONT_CARE;
        mask.from(v) = from;
        if (rel) {
            int to;
            unsigned x = r.below(100);
            if (style == 2) to = x < 60 ? DONT_CHANGE : (x < 75 ? r.range(0, sz - 1) : DONT_CARE);
            else to = x < unsigned(pf) ? r.range(0, sz - 1) : (x < unsigned(pf) + 15 ? DONT_CHANGE : DONT_CARE);
            mask.to(v) = to;
        }
    }
}

std::string mpzStr(mpz_t z) {
    char* s = mpz_get_str(nullptr, 10, z);
    std::string out(s);
    free(s);
    return out;
}

bool steerMpz = false;

void emitCards(const std::string& name, const dd_edge& e) {
    long cl = -1;
    apply(CARDINALITY, e, cl);
    emit("card %s long %ld", name.c_str(), cl);
    double cd = -1;
    apply(CARDINALITY, e, cd);
    emit("card %s double %.0f", name.c_str(), cd);
    if (steerMpz) { STATS.hit("card.mpz.steered"); STATS.hit("card.calls", 2); return; }
    mpz_t z;
    mpz_init(z);
    apply(CARDINALITY, e, z);
    emit("card %s mpz %s", name.c_str(), mpzStr(z).c_str());
    mpz_clear(z);
    STATS.hit("card.calls", 3);
}

// Forked probe of CARDINALITY into mpz on an edge with inner nodes.  Returns true when the child survived.
bool probeMpz(bool print) {
    Dom D;
    D.sizes = {2, 2};
    D.create();
    Kind k;   // set bool mt fully
    forest* F = makeForest(D.d, k, Pol());
    bool ok = true;
    {
        std::vector<Val> t = {Val::boolean(true), Val::boolean(false), Val::boolean(true), Val::boolean(true)};
        dd_edge e(F);
        buildFromTable(D, F, k, t, e);
        if (print) {
            emits(D.str());
            emitForest("F", F, k, Pol());
            emit("input P %s", tableStr(t).c_str());
            emitTable("P", "F", D, e);
            emit("note known-trigger F-C11-1 CARDINALITY into mpz (new[] / delete mismatch of the temporary, sanitizer builds)");
        }
        fflush(stdout);
        fflush(stderr);
        pid_t pid = fork();
        if (pid == 0) {
            int devnull = open("/dev/null", 1);
            if (devnull >= 0) dup2(devnull, 2);
            mpz_t z;
            mpz_init(z);
            long v = -1;
            try { apply(CARDINALITY, e, z); v = mpz_get_si(z); } catch (...) { _exit(99); }
            _exit(v >= 0 && v < 60 ? int(20 + v) : 98);
        }
        int status = 0;
        waitpid(pid, &status, 0);
        if (WIFEXITED(status) && WEXITSTATUS(status) >= 20 && WEXITSTATUS(status) < 80) {
            if (print) emit("card P mpz %d", WEXITSTATUS(status) - 20);
        } else {
            ok = false;
            if (print) {
                if (WIFSIGNALED(status)) emit("card P mpz crash signal=%d cardinality-mpz-temporary", WTERMSIG(status));
                else emit("card P mpz crash exit=%d cardinality-mpz-temporary", WEXITSTATUS(status));
            }
        }
        STATS.hit(ok ? "mpz.probe.survived" : "mpz.probe.crashed");
    }
    forest::destroy(F);
    D.destroy();
    return ok;
}

// one case over a large domain: the cardinality of a cube, far beyond 2^64
void bigCube(Rng& r, const Args& A) {
    Kind k;
    k.rel = r.chance(1, 2);
    k.rt = range_type::BOOLEAN;
    std::vector<reduction_rule> rules = {reduction_rule::FULLY_REDUCED, reduction_rule::QUASI_REDUCED};
    if (k.rel) rules.push_back(reduction_rule::IDENTITY_REDUCED);
    k.rr = r.pick(rules);
    if (r.chance(1, 3)) { k.rt = range_type::INTEGER; if (r.chance(1, 2)) k.el = edge_labeling::EVPLUS; }
    Dom D;
    unsigned K = unsigned(r.range(3, k.rel ? (A.thorough() ? 90 : 70) : (A.thorough() ? 180 : 140)));
    for (unsigned i = 0; i < K; i++) D.sizes.push_back(r.range(2, 5));
    D.create();
    emits(D.str());
    Pol pol = r.chance(1, 2) ? Pol::random(r) : Pol();
    forest* F = makeForest(D.d, k, pol);
    emitForest("F", F, k, pol);
    STATS.hit("cube." + k.str());
    {
        minterm m(F);
        std::string desc;
        // half of the cubes have LONG runs of unconstrained levels (one skipped run alone beyond 2^32, 2^64):
        // the free / constrained choice is then a two-state chain instead of independent per level
        bool runny = r.chance(1, 2);
        bool freeRun = r.chance(1, 2);
        if (runny) STATS.hit("cube.longRuns");
        for (unsigned v = K; v; --v) {
            int sz = D.sizes[v - 1];
            if (runny && r.chance(1, 16)) freeRun = !freeRun;
            bool fix = runny ? !freeRun : r.chance(1, 3);
            int from = fix ? r.range(0, sz - 1) : DONT_CARE;
            if (k.rel) {
                unsigned x = r.below(100);
                int to = x < 30 ? r.range(0, sz - 1) : (x < 65 ? DONT_CHANGE : DONT_CARE);
                if (runny) to = freeRun ? (r.chance(1, 8) ? DONT_CHANGE : DONT_CARE) : (r.chance(1, 2) ? r.range(0, sz - 1) : DONT_CHANGE);
                m.setVars(v, from, to);
                if (to == DONT_CHANGE && from >= 0) to = from;   // what setVars stores
                desc += " " + std::to_string(sz) + ":" + maskTok(from) + ":" + maskTok(to);
            } else {
                m.setVar(v, from);
                desc += " " + std::to_string(sz) + ":" + maskTok(from);
            }
        }
        Val one = k.rt == range_type::BOOLEAN ? Val::boolean(true) : Val::integer(r.range(1, 5));
        m.setValue(toRangeval(one, k.rt));
        dd_edge e(F);
        m.buildFunction(toRangeval(k.zero(), k.rt), e);
        mpz_t z, zd;
        mpz_init(z);
        mpz_init(zd);
        double cd = 0;
        apply(CARDINALITY, e, cd);
        mpz_set_d(zd, cd);
        emit("cubecard double %s%s", mpzStr(zd).c_str(), desc.c_str());
        if (steerMpz) { mpz_set(z, zd); STATS.hit("card.mpz.steered"); }
        else {
            apply(CARDINALITY, e, z);
            emit("cubecard mpz %s%s", mpzStr(z).c_str(), desc.c_str());
        }
        if (mpz_sizeinbase(z, 2) <= 62) {
            long cl = 0;
            apply(CARDINALITY, e, cl);
            emit("cubecard long %ld%s", cl, desc.c_str());
            STATS.hit("cube.long");
        }
        STATS.hit(mpz_sizeinbase(z, 2) > 64 ? "cube.beyond64bit" : "cube.within64bit");
        mpz_clear(z);
        mpz_clear(zd);
        emit("note cube nodes %lu", e.getNodeCount());
    }
    forest::destroy(F);
    D.destroy();
}

int run(const Args& A) {
    libInit();
    long ncases = A.cases > 0 ? A.cases : (A.thorough() ? 8000 : 1500);
    std::vector<Kind> kinds = allKinds(true, true);
    for (long c = 0; c <= ncases; c++) {
        if (c == 0) {
            // the probe always runs (it decides whether the mpz result type is asked for elsewhere)
            bool sel = A.selected(c);
            if (sel) beginCase(c);
            bool ok = probeMpz(sel);
            if (sel) endCase();
            steerMpz = !ok && !A.getl("mpz", 0);
            continue;
        }
        if (!A.selected(c)) continue;
        Rng r(Rng::mix(A.seed, uint64_t(c)));
        if (c % 12 == 11) {
            beginCase(c);
            bigCube(r, A);
            endCase();
            continue;
        }
        Kind k = kinds[r.below(unsigned(kinds.size()))];
        // tiny domains get every mask (exhaustive core), others random masks
        bool tiny = r.chance(1, 5);
        Dom D = tiny ? randomDom(r, 1, 2, 3, k.rel ? 81 : 9, k.rel)
                     : randomDom(r, 1, k.rel ? 3 : (A.thorough() ? 5 : 4), A.thorough() ? 4 : 3, k.rel ? 1300 : 300, k.rel);
        D.create();
        beginCase(c);
        emits(D.str());
        Pol pol = r.chance(1, 2) ? Pol::random(r) : Pol();
        forest* F = makeForest(D.d, k, pol);
        emitForest("F", F, k, pol);
        STATS.hit("kind." + k.str());
        unsigned K = D.K();
        long limit = long(D.card(k.rel)) + 5;
        {
            static const unsigned dens[] = {0, 3, 15, 40, 70, 100};
            int nedges = r.range(1, 3);
            std::vector<dd_edge> E;
            std::vector<std::string> names;
            for (int i = 0; i < nedges; i++) {
                std::vector<Val> t = randomTable(r, D, k, dens[r.below(6)]);
                if (k.rel && r.chance(1, 3)) {
                    // identity pattern in a random subset of the variables, times an arbitrary function of
                    // the others: makes skipped primed (and unprimed) levels likely
                    std::vector<bool> idv(K + 1, false);
                    for (unsigned x = 1; x <= K; x++) idv[x] = r.chance(1, 2);
                    if (K == 1 || r.chance(1, 3)) for (unsigned x = 1; x <= K; x++) idv[x] = true;
                    std::vector<Val> base = randomTable(r, D, k, 70);
                    for (size_t idx = 0; idx < t.size(); idx++) {
                        size_t rest = idx, stride = 1, red = 0;
                        bool diag = true;
                        for (unsigned x = 1; x <= K; x++) {
                            size_t sz = size_t(D.sizes[x - 1]);
                            size_t pr = rest % sz; rest /= sz;
                            size_t un = rest % sz; rest /= sz;
                            if (idv[x]) { if (pr != un) diag = false; }
                            else red += (pr + un * sz) * stride;
                            stride *= sz * sz;
                        }
                        t[idx] = diag ? base[red] : k.zero();
                    }
                    STATS.hit("gen.identityLike");
                }
                dd_edge e(F);
                buildFromTable(D, F, k, t, e);
                std::string nm = std::string("A") + std::to_string(i);
                emit("input %s %s", nm.c_str(), tableStr(t).c_str());
                emitTable(nm, "F", D, e);
                E.push_back(e);
                names.push_back(nm);
            }
            int serial = 0;
            dd_edge::iterator* reuse = nullptr;
            for (int i = 0; i < nedges; i++) {
                const dd_edge& e = E[size_t(i)];
                const std::string& nm = names[size_t(i)];
                // ---- full enumeration, no mask
                {
                    std::string R = "R" + std::to_string(serial++);
                    emit("iter %s %s F%s", R.c_str(), nm.c_str(), maskStr(nullptr, k.rel, K).c_str());
                    dd_edge::iterator it = e.begin();
                    long n = walk(R.c_str(), it, k.rel, K, limit);
                    STATS.hit("iter.full");
                    STATS.hit("iter.visited", n);
                    // the exhausted iterator: stays exhausted, dereference is an error
                    ++it;
                    emit("expect iter-end-stays 1 %d", int(!bool(it)));
                    try {
                        const minterm& m = *it;
                        emit("op %s ITER_DEREF_END %s", R.c_str(), nm.c_str());
                        emit("note deref-returned %d", m.from(1));
                    } catch (error& er) {
                        emit("err %s ITER_DEREF_END %s %s", R.c_str(), nm.c_str(), errName(er));
                        STATS.hit("iter.derefEnd");
                    }
                    dd_edge::iterator endit = e.end();
                    emit("expect iter-eq-end 1 %d", int(it == endit));
                }
                // ---- masked enumerations
                std::vector<std::vector<int>> masks;   // per mask: from(1..K) then to(1..K)
                if (tiny && D.card(k.rel) <= 36) {
                    // every mask: each unprimed in {x, 0..sz-1}, each primed additionally c
                    std::vector<std::vector<int>> cur(1);
                    for (unsigned v = 1; v <= K; v++) {
                        std::vector<std::vector<int>> nxt;
                        for (auto& m : cur) {
                            for (int f = -1; f < D.sizes[v - 1]; f++) {
                                if (!k.rel) { auto mm = m; mm.push_back(f); mm.push_back(0); nxt.push_back(mm); continue; }
                                for (int t = -2; t < D.sizes[v - 1]; t++) { auto mm = m; mm.push_back(f); mm.push_back(t); nxt.push_back(mm); }
                            }
                        }
                        cur.swap(nxt);
                    }
                    masks = cur;
                    if (masks.size() > 400) {   // keep a random 400 of them
                        for (size_t j = 0; j < 400; j++) std::swap(masks[j], masks[j + r.below(unsigned(masks.size() - j))]);
                        masks.resize(400);
                    } else STATS.hit("iter.allMasks");
                } else {
                    int nm_ = r.range(2, 5);
                    for (int j = 0; j < nm_; j++) {
                        minterm mk(F);
                        randomMask(r, D, k.rel, mk, int(r.below(k.rel ? 3 : 2)));
                        std::vector<int> mm;
                        for (unsigned v = 1; v <= K; v++) { mm.push_back(mk.from(v)); mm.push_back(k.rel ? mk.to(v) : 0); }
                        masks.push_back(mm);
                    }
                    // the all-free mask given explicitly must behave like no mask
                    if (r.chance(1, 3)) { std::vector<int> mm; for (unsigned v = 1; v <= K; v++) { mm.push_back(DONT_CARE); mm.push_back(DONT_CARE); } masks.push_back(mm); }
                }
                for (auto& mm : masks) {
                    minterm mk(F);
                    for (unsigned v = 1; v <= K; v++) { mk.from(v) = mm[2 * (v - 1)]; if (k.rel) mk.to(v) = mm[2 * (v - 1) + 1]; }
                    std::string R = "R" + std::to_string(serial++);
                    emit("iter %s %s F%s", R.c_str(), nm.c_str(), maskStr(&mk, k.rel, K).c_str());
                    long n;
                    if (reuse && r.chance(1, 2)) {
                        // restart an existing iterator (re-uses / recycles its unpacked nodes)
                        reuse->restart(e, &mk);
                        n = walk(R.c_str(), *reuse, k.rel, K, limit);
                        STATS.hit("iter.restart");
                    } else {
                        if (!reuse) {
                            reuse = new dd_edge::iterator(e, &mk);
                            n = walk(R.c_str(), *reuse, k.rel, K, limit);
                        } else {
                            dd_edge::iterator it = e.begin(&mk);
                            n = walk(R.c_str(), it, k.rel, K, limit);
                        }
                    }
                    STATS.hit("iter.masked");
                    STATS.hit("iter.visited", n);
                }
                // ---- cardinality, three result types
                emitCards(nm, e);
                if (r.chance(1, 3)) { emitCards(nm, e); STATS.hit("card.warm"); }   // warm compute table
            }
            delete reuse;
            // ---- node / edge counts against the dump
            emitAudit("F", F, k);
            for (int i = 0; i < nedges; i++) {
                emitRoot(names[size_t(i)], "F", E[size_t(i)], k);
                emit("counts %s F %s %lu %lu %lu", names[size_t(i)].c_str(), edgeStr(E[size_t(i)], k).c_str(),
                     E[size_t(i)].getNodeCount(), E[size_t(i)].getEdgeCount(true), E[size_t(i)].getEdgeCount(false));
                STATS.hit("counts");
            }
            for (int i = 0; i < nedges; i++) {
                emitTable(names[size_t(i)], "F", D, E[size_t(i)]);
                emit("unchanged %s", names[size_t(i)].c_str());
            }
        }
        endCase();
        forest::destroy(F);
        D.destroy();
    }
    emit("note mpz-steering %s", steerMpz ? "on" : "off");
    libCleanup();
    return 0;
}
FamilyReg reg("iter", run, "C11 enumeration (masks), cardinality (long/double/mpz), node and edge counts");
}  // namespace
