// Common infrastructure of the verification harness `mdh`.
// Everything random derives from one splitmix64 state seeded by --seed and the
// case number, so every case replays exactly.
#ifndef MDH_COMMON_H
#define MDH_COMMON_H

#include "meddly.h"
#include <cstdarg>
#include <cstdio>
#include <cstdint>
#include <cstdlib>
#include <cstring>
#include <string>
#include <vector>
#include <map>
#include <set>
#include <functional>
#include <algorithm>
#include <sstream>

namespace mdh {

// ------------------------------------------------------------------ RNG
struct Rng {
    uint64_t s;
    explicit Rng(uint64_t seed = 1) : s(seed) {}
    uint64_t next() {
        uint64_t z = (s += 0x9E3779B97F4A7C15ull);
        z = (z ^ (z >> 30)) * 0xBF58476D1CE4E5B9ull;
        z = (z ^ (z >> 27)) * 0x94D049BB133111EBull;
        return z ^ (z >> 31);
    }
    unsigned below(unsigned n) { return n ? unsigned(next() % n) : 0; }
    int range(int lo, int hi) { return lo + int(below(unsigned(hi - lo + 1))); }
    bool chance(unsigned num, unsigned den) { return below(den) < num; }
    template <class T> const T& pick(const std::vector<T>& v) { return v[below(unsigned(v.size()))]; }
    static uint64_t mix(uint64_t a, uint64_t b) {
        Rng r(a * 0x100000001B3ull ^ (b + 0x9E3779B97F4A7C15ull));
        r.next();
        return r.next();
    }
};

// ------------------------------------------------------------------ args
struct Args {
    std::map<std::string, std::string> kv;
    std::string family;
    uint64_t seed = 1;
    std::string tier = "quick";
    long only_case = -1;          // replay a single case
    long cases = -1;              // override number of cases
    std::string get(const std::string& k, const std::string& d = "") const {
        auto it = kv.find(k);
        return it == kv.end() ? d : it->second;
    }
    long getl(const std::string& k, long d) const {
        auto it = kv.find(k);
        return it == kv.end() ? d : atol(it->second.c_str());
    }
    bool thorough() const { return tier == "thorough"; }
    // case selection: --case i (single), --from a --to b (range), --skip "i,j,k"
    bool selected(long c) const {
        if (only_case >= 0) return c == only_case;
        if (c < getl("from", 0) || c > getl("to", 1L << 60)) return false;
        std::string sk = "," + get("skip") + ",";
        return sk.find("," + std::to_string(c) + ",") == std::string::npos;
    }
};

// ------------------------------------------------------------------ output
// The transcript goes to stdout, one record per line.
//
// SCREENING (option --screen N of a family that supports it): the records of a case are collected in memory and
// written out only when the harness itself found the case suspicious (markSuspect(): a held function changed, an
// evaluation threw, an == that must hold does not, ...) or for every N-th case as a sample.  The harness-side test
// is only a SEARCH for failing inputs over far more cases than the acceptor could read; the verdict on every case
// that is written out is still the acceptor's.  A crash writes out the collected records of the current case.
struct Screen {
    bool on = false, suspect = false;
    long sampleEvery = 50, caseNo = 0, kept = 0, dropped = 0, suspects = 0;
    FILE* mem = nullptr;
    char* buf = nullptr;
    size_t len = 0;
};
inline Screen& SCREEN() { static Screen s; return s; }
inline FILE* OUT() { Screen& s = SCREEN(); return s.mem ? s.mem : stdout; }
inline void markSuspect() { SCREEN().suspect = true; }
void screenInstallCrashFlush();       // common.cc
inline void emit(const char* fmt, ...) __attribute__((format(printf, 1, 2)));
inline void emit(const char* fmt, ...) {
    va_list ap;
    va_start(ap, fmt);
    vfprintf(OUT(), fmt, ap);
    va_end(ap);
    fputc('\n', OUT());
}
// case brackets; flushing keeps the transcript complete up to a crash
inline void beginCase(long c) {
    Screen& s = SCREEN();
    if (s.on) { s.mem = open_memstream(&s.buf, &s.len); s.suspect = false; s.caseNo = c; }
    fprintf(OUT(), "case %ld\n", c);
    if (!s.mem) fflush(stdout);
}
inline void endCase() {
    Screen& s = SCREEN();
    fputs("endcase\n", OUT());
    if (s.mem) {
        fclose(s.mem); s.mem = nullptr;
        bool keep = s.suspect || (s.sampleEvery > 0 && s.caseNo % s.sampleEvery == 0);
        if (s.suspect) ++s.suspects;
        if (keep) { fwrite(s.buf, 1, s.len, stdout); ++s.kept; } else ++s.dropped;
        free(s.buf); s.buf = nullptr; s.len = 0;
    }
    fflush(stdout);
}
inline void emits(const std::string& s) { fputs(s.c_str(), OUT()); fputc('\n', OUT()); }

// distribution counters, printed at the end as `stat <key> <count>` lines
struct Stats {
    std::map<std::string, long> c;
    void hit(const std::string& k, long n = 1) { c[k] += n; }
    void dump() const { for (auto& p : c) emit("stat %s %ld", p.first.c_str(), p.second); }
};
extern Stats STATS;

// ------------------------------------------------------------------ values
// A function value as the model sees it.
struct Val {
    enum T { B, I, R, INF } t = I;
    long n = 0;      // B: 0/1 ; I: the integer ; R: numerator
    int e = 0;       // R: value = n / 2^e (normalised: n odd or e==0)
    static Val boolean(bool b) { Val v; v.t = B; v.n = b; return v; }
    static Val integer(long x) { Val v; v.t = I; v.n = x; return v; }
    static Val inf() { Val v; v.t = INF; return v; }
    static Val real(double d);   // exact conversion of a (float-representable) double
    double toDouble() const;
    bool operator==(const Val& o) const { return t == o.t && n == o.n && e == o.e; }
    bool operator!=(const Val& o) const { return !(*this == o); }
    bool operator<(const Val& o) const {
        if (t != o.t) return t < o.t;
        if (n != o.n) return n < o.n;
        return e < o.e;
    }
    std::string str() const;     // T/F ; 12 ; 3/4 (= 3 / 2^2 printed as n/2^e -> "3/2^2"); inf
};
Val fromRangeval(const MEDDLY::rangeval& rv);
MEDDLY::rangeval toRangeval(const Val& v, MEDDLY::range_type rt);

// ------------------------------------------------------------------ kinds
struct Kind {
    bool rel = false;
    MEDDLY::range_type rt = MEDDLY::range_type::BOOLEAN;
    MEDDLY::edge_labeling el = MEDDLY::edge_labeling::MULTI_TERMINAL;
    MEDDLY::reduction_rule rr = MEDDLY::reduction_rule::FULLY_REDUCED;
    std::string str() const;     // "set bool mt fully"
    bool legal() const;
    Val zero() const;            // transparent value: F / 0 / 0.0 / inf (EV+, index set)
};
std::vector<Kind> allKinds(bool sets, bool rels);

struct Pol {
    int storage = 2;      // 0 full only, 1 sparse only, 2 either
    int mm = 0;           // 0 orig grid, 1 array+grid, 2 malloc, 3 heap
    int del = 1;          // 0 never, 1 optimistic, 2 pessimistic
    std::string str() const;
    static Pol random(Rng& r);
};
MEDDLY::forest* makeForest(MEDDLY::domain* d, const Kind& k, const Pol& p);

// ------------------------------------------------------------------ domains / assignments
struct Dom {
    std::vector<int> sizes;            // sizes[0] = variable 1 (bottom)
    MEDDLY::domain* d = nullptr;
    unsigned K() const { return unsigned(sizes.size()); }
    void create();                     // createBottomUp
    void destroy();
    std::string str() const;           // "dom 2 3 2"
    // number of assignments for sets / relations
    size_t card(bool rel) const;
};
Dom randomDom(Rng& r, unsigned minK, unsigned maxK, int maxSize, size_t maxCard, bool rel);

// Enumeration order = the order of the library's iterators: x_K most significant, for relations
// x_K, x'_K, x_{K-1}, x'_{K-1}, ...  `idx` -> minterm
void setMinterm(const Dom& D, bool rel, size_t idx, MEDDLY::minterm& m);
// all-assignment table of an edge through dd_edge::evaluate
std::vector<Val> tableOf(const Dom& D, const MEDDLY::dd_edge& e);
std::string tableStr(const std::vector<Val>& t);

// a table with STRUCTURE: every variable gets a role - general (takes part in a random base function), free (the
// function does not depend on it: redundant levels), fixed (x = c; relations: also x' = c' or x' free), identity
// (relations: x' = x) - so that skipped levels, long edges and identity patterns of every rule occur
std::vector<Val> structuredTable(Rng& r, const Dom& D, const Kind& k, unsigned density);

// build an edge denoting exactly `t` (one minterm per non-default assignment,
// buildFunctionMax with default = transparent value or the minimum)
void buildFromTable(const Dom& D, MEDDLY::forest* F, const Kind& k, const std::vector<Val>& t, MEDDLY::dd_edge& out);

// random table for a kind; density in percent
std::vector<Val> randomTable(Rng& r, const Dom& D, const Kind& k, unsigned density);
Val randomValue(Rng& r, const Kind& k, bool allowZero);

// ------------------------------------------------------------------ dumps
// position of a level: sets: level ; relations: unprimed k -> 2k, primed -k -> 2k-1
inline int posOfLevel(bool rel, int lvl) { return rel ? (lvl > 0 ? 2 * lvl : -2 * lvl - 1) : lvl; }
// `node <F> <handle> <pos> <in> <cc> <n> c0 c1 ...`   child = N<handle>[:ev] | T<val>[:ev]
// dumps every active node of the forest, then `root <F> <handle-or-T>` for every registered edge
void dumpForest(const char* name, MEDDLY::forest* F, const Kind& k);
std::string childStr(MEDDLY::forest* F, const Kind& k, MEDDLY::node_handle h);
std::string edgeStr(const MEDDLY::dd_edge& e, const Kind& k);   // "N17" / "T1" / "N17:3" (EV)

const char* errName(const MEDDLY::error& e);

// Standard records understood by the generic acceptor (lean/Driver/Funcs.lean):
//   forest <name> <fid> <kind> <policy>
void emitForest(const std::string& name, MEDDLY::forest* F, const Kind& k, const Pol& p);
//   table <edge> <forest> v0 v1 ...        (dd_edge::evaluate at every assignment)
void emitTable(const std::string& ename, const std::string& fname, const Dom& D, const MEDDLY::dd_edge& e);
//   cleardump F / node ... / roots ... / count ... / audit F   : dump of the whole node store + certificate request
void emitAudit(const std::string& fname, MEDDLY::forest* F, const Kind& k);
//   root <edge> <forest> <child>           : which node (and edge value) the edge points to; the acceptor
//   evaluates it on the LAST dump of that forest with the model's eval and compares with the edge's table
void emitRoot(const std::string& ename, const std::string& fname, const MEDDLY::dd_edge& e, const Kind& k);
//   eq <e1> <e2> <0|1>                     : observed dd_edge::operator==
void emitEq(const std::string& e1, const std::string& e2, const MEDDLY::dd_edge& a, const MEDDLY::dd_edge& b);

// ------------------------------------------------------------------ library lifecycle helpers
struct CTConf { int style = 0; int stale = 1; long maxSize = 0; std::string str() const; };
void libInit(const CTConf* ct = nullptr);
void libCleanup();

// family registry
typedef int (*FamilyFn)(const Args&);
struct Family { const char* name; FamilyFn fn; const char* what; };
void registerFamily(const char* name, FamilyFn fn, const char* what);
const std::vector<Family>& families();
struct FamilyReg { FamilyReg(const char* n, FamilyFn f, const char* w) { registerFamily(n, f, w); } };

}  // namespace mdh
#endif
