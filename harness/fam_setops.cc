// Family `setops` (C04): union / intersection / difference / complement / cross over every
// assignment of operand and result forests, cold and warm compute tables.
#include "common.h"
using namespace MEDDLY;
using namespace mdh;

namespace {

struct FSpec { Kind k; Pol p; forest* F = nullptr; std::string name; };

// harness-side pointwise check, used only to mark a case suspicious when screening (common.h SCREENING)
void suspectUnless(const std::vector<Val>& got, const std::vector<Val>& ta, const std::vector<Val>& tb, int op) {
    for (size_t i = 0; i < got.size(); i++) {
        bool a = ta[i].n != 0, b = tb[i].n != 0, want = op == 0 ? (a || b) : op == 1 ? (a && b) : op == 2 ? (a && !b) : !a;
        if ((got[i].n != 0) != want) { markSuspect(); return; }
    }
}

int run(const Args& A) {
    libInit();
    if (A.getl("screen", 0) > 0) { SCREEN().on = true; SCREEN().sampleEvery = A.getl("screen", 0); screenInstallCrashFlush(); }
    long ncases = A.cases > 0 ? A.cases : (A.thorough() ? 4000 : 600);
    for (long c = 0; c < ncases; c++) {
        if (!A.selected(c)) continue;
        Rng r(Rng::mix(A.seed, uint64_t(c)));
        bool rel = r.chance(1, 2);
        Dom D = randomDom(r, 1, rel ? 3 : 4, A.thorough() ? 4 : 3, rel ? 1300 : 300, rel);
        D.create();
        beginCase(c);
        emits(D.str());
        // three forests: operand a, operand b, result c; aliasing pattern chosen at random
        std::vector<reduction_rule> rules = {reduction_rule::FULLY_REDUCED, reduction_rule::QUASI_REDUCED};
        if (rel) rules.push_back(reduction_rule::IDENTITY_REDUCED);
        FSpec fs[3];
        int alias = r.below(6);   // 0: all distinct, 1: a=b, 2: a=c, 3: b=c, 4: all same, 5: all distinct same rule
        reduction_rule same = r.pick(rules);
        for (int i = 0; i < 3; i++) {
            fs[i].k.rel = rel;
            fs[i].k.rr = (alias == 5) ? same : r.pick(rules);
            fs[i].p = r.chance(1, 3) ? Pol::random(r) : Pol();
            fs[i].name = std::string("F") + char('a' + i);
        }
        auto mk = [&](int i) { fs[i].F = makeForest(D.d, fs[i].k, fs[i].p); };
        mk(0);
        if (alias == 1 || alias == 4) fs[1] = fs[0], fs[1].name = "Fb"; else mk(1);
        if (alias == 2 || alias == 4) fs[2] = fs[0], fs[2].name = "Fc";
        else if (alias == 3) fs[2] = fs[1], fs[2].name = "Fc";
        else mk(2);
        for (int i = 0; i < 3; i++)
            emit("forest %s %u %s %s", fs[i].name.c_str(), fs[i].F->FID(), fs[i].k.str().c_str(), fs[i].p.str().c_str());
        STATS.hit(std::string("alias.") + std::to_string(alias));
        STATS.hit(rel ? "shape.rel" : "shape.set");
        {
            unsigned da = r.pick(std::vector<unsigned>{0, 10, 30, 50, 80, 100});
            unsigned db = r.pick(std::vector<unsigned>{0, 10, 30, 50, 80, 100});
            std::vector<Val> ta = randomTable(r, D, fs[0].k, da), tb = randomTable(r, D, fs[1].k, db);
            // a third of the operands have structure (identity patterns, redundant and fixed variables): the shapes on
            // which the operations' shortcuts (terminal / identity / 'result is one operand' exits) fire above level 0
            if (r.chance(1, 3)) { ta = structuredTable(r, D, fs[0].k, da ? da : 50); STATS.hit("gen.structured"); }
            if (r.chance(1, 3)) { tb = structuredTable(r, D, fs[1].k, db ? db : 50); STATS.hit("gen.structured"); }
            if (r.chance(1, 8)) tb = ta;
            dd_edge a(fs[0].F), b(fs[1].F);
            buildFromTable(D, fs[0].F, fs[0].k, ta, a);
            buildFromTable(D, fs[1].F, fs[1].k, tb, b);
            emit("input A %s", tableStr(ta).c_str());
            emit("input B %s", tableStr(tb).c_str());
            emit("table A Fa %s", tableStr(tableOf(D, a)).c_str());
            emit("table B Fb %s", tableStr(tableOf(D, b)).c_str());
            fflush(stdout);
            int rounds = r.chance(1, 2) ? 2 : 1;   // second round = warm compute table
            std::vector<dd_edge> keep;              // results of the last round, kept alive for the dump
            std::vector<std::string> keepOps;
            for (int round = 0; round < rounds; round++) {
                const char* names[] = {"UNION", "INTERSECTION", "DIFFERENCE"};
                binary_builtin0 ops[] = {UNION, INTERSECTION, DIFFERENCE};
                for (int o = 0; o < 3; o++) {
                    dd_edge res(fs[2].F);
                    try {
                        apply(ops[o], a, b, res);
                        emit("op R%d %s A B", o, names[o]);
                        emit("table R%d Fc %s", o, tableStr(tableOf(D, res)).c_str());
                        if (SCREEN().on) suspectUnless(tableOf(D, res), ta, tb, o);
                        STATS.hit(std::string("op.") + names[o]);
                        if (round == rounds - 1) { keep.push_back(res); keepOps.push_back(std::string("R") + char('0' + o) + " " + names[o] + " A B"); }
                    } catch (error& e) {
                        emit("err R%d %s A B %s", o, names[o], errName(e));
                        markSuspect();
                        emit("note thrown-at %s:%u", e.getFile(), e.getLine());
                        STATS.hit(std::string("err.") + errName(e));
                    }
                }
                {
                    dd_edge res(fs[2].F);
                    try {
                        apply(COMPLEMENT, a, res);
                        emit("op R3 COMPLEMENT A");
                        emit("table R3 Fc %s", tableStr(tableOf(D, res)).c_str());
                        if (SCREEN().on) suspectUnless(tableOf(D, res), ta, tb, 3);
                        STATS.hit("op.COMPLEMENT");
                        if (round == rounds - 1) { keep.push_back(res); keepOps.push_back("R3 COMPLEMENT A"); }
                    } catch (error& e) {
                        emit("err R3 COMPLEMENT A %s", errName(e));
                        markSuspect();
                        STATS.hit(std::string("err.") + errName(e));
                    }
                }
                // cross product of two sets into a relation forest (sets only)
                if (!rel && round == 0 && D.card(true) <= 1300) {
                    Kind kx; kx.rel = true;
                    std::vector<reduction_rule> rr = {reduction_rule::FULLY_REDUCED, reduction_rule::QUASI_REDUCED,
                                                      reduction_rule::IDENTITY_REDUCED};
                    kx.rr = r.pick(rr);
                    Pol px = r.chance(1, 3) ? Pol::random(r) : Pol();
                    forest* X = makeForest(D.d, kx, px);
                    emitForest("Fx", X, kx, px);
                    {
                        dd_edge res(X);
                        try {
                            apply(CROSS, a, b, res);
                            emit("op RX CROSS A B");
                            emitTable("RX", "Fx", D, res);
                            STATS.hit("op.CROSS");
                            emitAudit("Fx", X, kx);
                            emitRoot("RX", "Fx", res, kx);
                        } catch (error& e) {
                            emit("err RX CROSS A B %s", errName(e));
                            STATS.hit(std::string("err.CROSS.") + errName(e));
                        }
                    }
                    forest::destroy(X);
                }
                // result forest must stay canonical with exact counts
                if (round == rounds - 1) {
                    emitAudit("Fc", fs[2].F, fs[2].k);
                    emitAudit("Fa", fs[0].F, fs[0].k);
                    emitAudit("Fb", fs[1].F, fs[1].k);
                    // structural tie: the model's apply on the dumped operands must give the dumped result tree
                    emitRoot("A", "Fa", a, fs[0].k);
                    emitRoot("B", "Fb", b, fs[1].k);
                    for (size_t i = 0; i < keep.size(); i++) {
                        std::string rn = keepOps[i].substr(0, 2);
                        emitRoot(rn, "Fc", keep[i], fs[2].k);
                        emit("modelop %s", keepOps[i].c_str());
                    }
                    keep.clear();
                }
                // operands must be unchanged
                emit("table A Fa %s", tableStr(tableOf(D, a)).c_str());
                emit("table B Fb %s", tableStr(tableOf(D, b)).c_str());
                emit("unchanged A");
                emit("unchanged B");
                if (SCREEN().on && (tableOf(D, a) != ta || tableOf(D, b) != tb)) markSuspect();
            }
        }
        endCase();
        std::set<forest*> seen;
        for (int i = 0; i < 3; i++) if (seen.insert(fs[i].F).second) forest::destroy(fs[i].F);
        D.destroy();
    }
    if (SCREEN().on) {
        emit("note screening kept %ld dropped %ld suspects %ld", SCREEN().kept, SCREEN().dropped, SCREEN().suspects);
        STATS.hit("screen.kept", SCREEN().kept); STATS.hit("screen.dropped", SCREEN().dropped); STATS.hit("screen.suspects", SCREEN().suspects);
    }
    libCleanup();
    return 0;
}
FamilyReg reg("setops", run, "C04 set algebra across forest triples");
}  // namespace
