// Family `oplife` (C06): node lifetime at the OPERATION level.
// Random histories of real operations (set algebra, complement, copies between rules, images, integer / EV+
// arithmetic and comparisons), edge copies, assignments and releases, cache clears, over several forests with
// random rules and policies, on STRUCTURED operands (identity patterns, redundant levels, fixed variables: the
// shapes on which operations take their early exits and chain builders).  At random points every forest is
// dumped and recounted exactly (incoming count = parents + user edges, no pointer to a reclaimed node); every
// result is compared with the pointwise oracle; every held edge must keep its function; at the end everything
// is released, the caches are cleared and every forest must be empty.
#include "common.h"
using namespace MEDDLY;
using namespace mdh;

namespace {

struct FS { Kind k; Pol p; forest* F = nullptr; std::string name; };
struct Held { std::string name; int f; dd_edge e; std::vector<Val> t; };

struct Case {
    Rng& r;
    Dom& D;
    std::vector<FS> fs;
    std::vector<Held> pool;
    long serial = 0;
    std::string fresh() { return "E" + std::to_string(serial++); }

    int addForest(const Kind& k) {
        FS f; f.k = k; f.p = r.chance(1, 2) ? Pol::random(r) : Pol();
        f.name = "F" + std::to_string(fs.size());
        f.F = makeForest(D.d, f.k, f.p);
        emitForest(f.name, f.F, f.k, f.p);
        fs.push_back(f);
        return int(fs.size()) - 1;
    }
    void addOperand(int fi, bool posOnly) {
        const FS& f = fs[size_t(fi)];
        static const unsigned dens[] = {10, 30, 60, 100};
        std::vector<Val> t = r.chance(2, 3) ? structuredTable(r, D, f.k, dens[r.below(4)]) : randomTable(r, D, f.k, dens[r.below(4)]);
        if (posOnly) for (auto& v : t) if (v.t == Val::I && v.n <= 0 && v != f.k.zero()) v = Val::integer(1 + (-v.n));
        bool evp = f.k.el == edge_labeling::EVPLUS;
        if (evp) for (auto& v : t) if (v.t == Val::I && v.n <= 0) v = Val::integer(1 - v.n);   // EV+ 0*inf, negatives: C05 findings
        Held h{fresh(), fi, dd_edge(f.F), t};
        buildFromTable(D, f.F, f.k, t, h.e);
        emit("input %s %s", h.name.c_str(), tableStr(t).c_str());
        emitTable(h.name, f.name, D, h.e);
        pool.push_back(h);
        STATS.hit("operand");
    }
    std::vector<int> poolIn(const std::vector<int>& forests) {
        std::vector<int> out;
        for (size_t i = 0; i < pool.size(); i++)
            if (std::find(forests.begin(), forests.end(), pool[i].f) != forests.end()) out.push_back(int(i));
        return out;
    }
    // store a result: either a new pool entry or replacing (releasing) an old one
    void store(const std::string& name, int fi, const dd_edge& e) {
        Held h{name, fi, e, tableOf(D, e)};
        // results with large values are not fed back: products stay far from the integer range limit (an operation
        // that raises is C16's subject, and leaves nodes behind - a recorded finding of C05)
        for (const Val& v : h.t) if (v.t == Val::I && (v.n > 1000 || v.n < -1000)) { STATS.hit("store.dropped-large"); return; }
        if (pool.size() > 9 || (pool.size() > 3 && r.chance(1, 3))) { pool[r.below(unsigned(pool.size()))] = h; STATS.hit("store.replace"); }
        else pool.push_back(h);
    }
    void bin(const char* opn, binary_builtin0 op, int a, int b, int rf) {
        const FS& f = fs[size_t(rf)];
        dd_edge res(f.F);
        std::string R = fresh();
        emit("resforest %s", f.name.c_str());
        try {
            apply(op, pool[size_t(a)].e, pool[size_t(b)].e, res);
        } catch (error& e) {
            emit("err %s %s %s %s %s", R.c_str(), opn, pool[size_t(a)].name.c_str(), pool[size_t(b)].name.c_str(), errName(e));
            STATS.hit(std::string("err.") + opn + "." + errName(e));
            return;
        }
        emit("op %s %s %s %s", R.c_str(), opn, pool[size_t(a)].name.c_str(), pool[size_t(b)].name.c_str());
        emitTable(R, f.name, D, res);
        STATS.hit(std::string("op.") + opn);
        store(R, rf, res);
    }
    // the same for a factory object (REACHABLE_*(fwd) are functions returning the factory)
    void binf(const char* opn, binary_factory& op, int a, int b, int rf) {
        const FS& f = fs[size_t(rf)];
        dd_edge res(f.F);
        std::string R = fresh();
        emit("resforest %s", f.name.c_str());
        try {
            apply(op, pool[size_t(a)].e, pool[size_t(b)].e, res);
        } catch (error& e) {
            emit("err %s %s %s %s %s", R.c_str(), opn, pool[size_t(a)].name.c_str(), pool[size_t(b)].name.c_str(), errName(e));
            STATS.hit(std::string("err.") + opn + "." + errName(e));
            return;
        }
        emit("op %s %s %s %s", R.c_str(), opn, pool[size_t(a)].name.c_str(), pool[size_t(b)].name.c_str());
        emitTable(R, f.name, D, res);
        STATS.hit(std::string("op.") + opn);
        store(R, rf, res);
    }
    void un(const char* opn, unary_builtin0 op, int a, int rf) {
        const FS& f = fs[size_t(rf)];
        dd_edge res(f.F);
        std::string R = fresh();
        emit("resforest %s", f.name.c_str());
        try {
            apply(op, pool[size_t(a)].e, res);
        } catch (error& e) {
            emit("err %s %s %s %s", R.c_str(), opn, pool[size_t(a)].name.c_str(), errName(e));
            STATS.hit(std::string("err.") + opn + "." + errName(e));
            return;
        }
        emit("op %s %s %s", R.c_str(), opn, pool[size_t(a)].name.c_str());
        emitTable(R, f.name, D, res);
        STATS.hit(std::string("op.") + opn);
        store(R, rf, res);
    }
    void auditAll() {
        for (auto& f : fs) emitAudit(f.name, f.F, f.k);
        STATS.hit("audit");
    }
    void heldKeepFunction() {
        for (auto& h : pool) {
            emit("input %s %s", h.name.c_str(), tableStr(h.t).c_str());
            try {
                std::vector<Val> now = tableOf(D, h.e);
                emit("table %s %s %s", h.name.c_str(), fs[size_t(h.f)].name.c_str(), tableStr(now).c_str());
                if (now != h.t) markSuspect();
            } catch (error& e) {
                emit("expect evaluate.%s ok %s", h.name.c_str(), errName(e));
                markSuspect();
            }
        }
    }
    void housekeeping() {
        unsigned x = r.below(100);
        if (x < 25 && !pool.empty()) { pool.erase(pool.begin() + long(r.below(unsigned(pool.size())))); STATS.hit("release"); }
        else if (x < 40 && pool.size() >= 2) {
            // assignment between two held edges of the same forest (operator=), or a copy (copy constructor)
            size_t a = r.below(unsigned(pool.size())), b = r.below(unsigned(pool.size()));
            if (pool[a].f == pool[b].f && a != b) { pool[b].e = pool[a].e; pool[b].t = pool[a].t; pool[b].name = pool[a].name; STATS.hit("assign"); }
            else { Held h = pool[a]; pool.push_back(h); STATS.hit("copyctor"); }
        } else if (x < 55) { fs[r.below(unsigned(fs.size()))].F->removeAllComputeTableEntries(); STATS.hit("clearCT"); }
        else if (x < 75) auditAll();
    }
    void finish() {
        heldKeepFunction();
        auditAll();
        pool.clear();
        for (auto& f : fs) f.F->removeAllComputeTableEntries();
        for (auto& f : fs) {
            emit("expect leak-%s 0 %ld", f.name.c_str(), f.F->getCurrentNumNodes());
            if (f.F->getCurrentNumNodes() != 0) markSuspect();
        }
    }
};

int run(const Args& A) {
    libInit();
    // --screen N: see common.h (SCREENING): suspicious = a recount / view / unique-table mismatch in any dump, a leak at
    // the end, a held edge that changed its function or cannot be evaluated, a crash
    if (A.getl("screen", 0) > 0) { SCREEN().on = true; SCREEN().sampleEvery = A.getl("screen", 0); screenInstallCrashFlush(); }
    long ncases = A.cases > 0 ? A.cases : (A.thorough() ? 3000 : 500);
    for (long c = 0; c < ncases; c++) {
        if (!A.selected(c)) continue;
        Rng r(Rng::mix(A.seed, uint64_t(c)));
        int mode = int(r.below(12));        // 0-3 set algebra, 4-6 images, 7-9 numeric, 10-11 EV+ distance images
        bool rel = mode <= 3 ? r.chance(2, 3) : false;
        bool nrel = mode >= 7 && mode <= 9 && r.chance(1, 3);
        bool relDom = rel || nrel || (mode >= 4 && mode <= 6) || mode >= 10;
        Dom D = nrel ? randomDom(r, 1, 2, 3, 200, true)
                     : randomDom(r, relDom ? 1 : 2, relDom ? 3 : 4, A.thorough() ? 4 : 3, relDom ? 800 : 200, relDom);
        D.create();
        beginCase(c);
        emits(D.str());
        Case C{r, D};
        auto rules = [&](bool rl) {
            std::vector<reduction_rule> v = {reduction_rule::FULLY_REDUCED, reduction_rule::QUASI_REDUCED};
            if (rl) { v.push_back(reduction_rule::IDENTITY_REDUCED); v.push_back(reduction_rule::IDENTITY_REDUCED); }
            return v;
        };
        int steps = A.thorough() ? r.range(10, 50) : r.range(8, 30);
        if (mode <= 3) {
            STATS.hit(rel ? "mode.setalg.rel" : "mode.setalg.set");
            int nf = r.range(1, 3);
            std::vector<int> all;
            for (int i = 0; i < nf; i++) { Kind k; k.rel = rel; k.rr = r.pick(rules(rel)); all.push_back(C.addForest(k)); }
            for (int i = 0; i < 4; i++) C.addOperand(r.pick(all), false);
            for (int s = 0; s < steps; s++) {
                if (C.pool.empty()) { C.addOperand(r.pick(all), false); continue; }
                unsigned x = r.below(100);
                int a = int(r.below(unsigned(C.pool.size()))), b = int(r.below(unsigned(C.pool.size())));
                int rf = r.pick(all);
                if (x < 15) C.bin("UNION", UNION, a, b, rf);
                else if (x < 30) C.bin("INTERSECTION", INTERSECTION, a, b, rf);
                else if (x < 45) C.bin("DIFFERENCE", DIFFERENCE, a, b, rf);
                else if (x < 65) C.un("COMPLEMENT", COMPLEMENT, a, rf);
                else if (x < 75) C.un("COPY", COPY, a, rf);
                else if (x < 82) C.addOperand(r.pick(all), false);
                else C.housekeeping();
            }
        } else if (mode <= 6) {
            STATS.hit("mode.image");
            std::vector<int> sets, rels;
            int ns = r.range(1, 2), nr = r.range(1, 2);
            for (int i = 0; i < ns; i++) { Kind k; k.rr = r.pick(rules(false)); sets.push_back(C.addForest(k)); }
            for (int i = 0; i < nr; i++) { Kind k; k.rel = true; k.rr = r.pick(rules(true)); rels.push_back(C.addForest(k)); }
            for (int i = 0; i < 3; i++) C.addOperand(r.pick(sets), false);
            for (int i = 0; i < 3; i++) C.addOperand(r.pick(rels), false);
            for (int s = 0; s < steps; s++) {
                std::vector<int> ps = C.poolIn(sets), pr = C.poolIn(rels);
                if (ps.empty()) { C.addOperand(r.pick(sets), false); continue; }
                if (pr.empty()) { C.addOperand(r.pick(rels), false); continue; }
                unsigned x = r.below(100);
                if (x < 22) C.bin("POST_IMAGE", POST_IMAGE, r.pick(ps), r.pick(pr), r.pick(sets));
                else if (x < 44) C.bin("PRE_IMAGE", PRE_IMAGE, r.pick(ps), r.pick(pr), r.pick(sets));
                else if (x < 52) C.bin("UNION", UNION, r.pick(ps), r.pick(ps), r.pick(sets));
                else if (x < 60) C.bin("UNION", UNION, r.pick(pr), r.pick(pr), r.pick(rels));
                else if (x < 66) C.bin("INTERSECTION", INTERSECTION, r.pick(pr), r.pick(pr), r.pick(rels));
                else if (x < 74) C.un("COMPLEMENT", COMPLEMENT, r.pick(pr), r.pick(rels));
                else if (x < 80) C.un("COMPLEMENT", COMPLEMENT, r.pick(ps), r.pick(sets));
                else if (x < 86) C.addOperand(r.chance(1, 2) ? r.pick(sets) : r.pick(rels), false);
                else if (x < 92) {
                    // reachability (saturation and breadth-first) with the result in the operand's own forest and an
                    // identity-reduced relation: the combinations without recorded findings of C08
                    int a = r.pick(ps), q = r.pick(pr);
                    if (C.fs[size_t(C.pool[size_t(q)].f)].k.rr == reduction_rule::IDENTITY_REDUCED) {
                        bool fwd = r.chance(1, 2);
                        if (r.chance(1, 2)) C.binf(fwd ? "REACH_SAT_FWD" : "REACH_SAT_BWD", REACHABLE_SATUR(fwd), a, q, C.pool[size_t(a)].f);
                        else C.binf(fwd ? "REACH_NOFS_FWD" : "REACH_NOFS_BWD", REACHABLE_TRAD_NOFS(fwd), a, q, C.pool[size_t(a)].f);
                    }
                }
                else C.housekeeping();
            }
        } else if (mode >= 10) {
            // EV+ distance functions over sets, boolean relations: images add one to the distances and take minima,
            // reachability iterates that to the fixed point; all results stay in EV+ set forests
            STATS.hit("mode.evimage");
            std::vector<int> sets, rels;
            int ns = r.range(1, 2), nr = r.range(1, 2);
            for (int i = 0; i < ns; i++) { Kind k; k.rt = range_type::INTEGER; k.el = edge_labeling::EVPLUS; k.rr = r.pick(rules(false)); sets.push_back(C.addForest(k)); }
            for (int i = 0; i < nr; i++) { Kind k; k.rel = true; k.rr = r.pick(rules(true)); rels.push_back(C.addForest(k)); }
            for (int i = 0; i < 3; i++) C.addOperand(r.pick(sets), true);
            for (int i = 0; i < 3; i++) C.addOperand(r.pick(rels), false);
            for (int s = 0; s < steps; s++) {
                std::vector<int> ps = C.poolIn(sets), pr = C.poolIn(rels);
                if (ps.empty()) { C.addOperand(r.pick(sets), true); continue; }
                if (pr.empty()) { C.addOperand(r.pick(rels), false); continue; }
                unsigned x = r.below(100);
                if (x < 25) C.bin("POST_IMAGE", POST_IMAGE, r.pick(ps), r.pick(pr), r.pick(sets));
                else if (x < 50) C.bin("PRE_IMAGE", PRE_IMAGE, r.pick(ps), r.pick(pr), r.pick(sets));
                else if (x < 60) C.bin("MINIMUM", MINIMUM, r.pick(ps), r.pick(ps), r.pick(sets));
                else if (x < 68) C.bin("PLUS", PLUS, r.pick(ps), r.pick(ps), r.pick(sets));
                else if (x < 74) C.un("COPY", COPY, r.pick(ps), r.pick(sets));
                else if (x < 80) C.addOperand(r.chance(1, 2) ? r.pick(sets) : r.pick(rels), r.chance(1, 2));
                else if (x < 88) {
                    int a = r.pick(ps), q = r.pick(pr);
                    if (C.fs[size_t(C.pool[size_t(q)].f)].k.rr == reduction_rule::IDENTITY_REDUCED) {
                        bool fwd = r.chance(1, 2);
                        if (r.chance(1, 2)) C.binf(fwd ? "REACH_SAT_FWD" : "REACH_SAT_BWD", REACHABLE_SATUR(fwd), a, q, C.pool[size_t(a)].f);
                        else C.binf(fwd ? "REACH_NOFS_FWD" : "REACH_NOFS_BWD", REACHABLE_TRAD_NOFS(fwd), a, q, C.pool[size_t(a)].f);
                    }
                }
                else C.housekeeping();
            }
        } else {
            // numeric: integer multi-terminal and EV+ forests over the same (set or relation) domain, a boolean
            // forest for comparisons; copies only between forests of the same labeling (other conversions have
            // recorded findings of C10)
            STATS.hit(nrel ? "mode.numeric.rel" : "mode.numeric.set");
            std::vector<int> mts, evs, bools;
            int nm = r.range(1, 2), ne = r.range(0, 2);
            for (int i = 0; i < nm; i++) { Kind k; k.rel = nrel; k.rt = range_type::INTEGER; k.rr = r.pick(rules(nrel)); mts.push_back(C.addForest(k)); }
            for (int i = 0; i < ne; i++) {
                Kind k; k.rel = nrel; k.rt = range_type::INTEGER; k.el = edge_labeling::EVPLUS;
                k.rr = r.pick(rules(nrel));
                evs.push_back(C.addForest(k));
            }
            { Kind k; k.rel = nrel; k.rr = r.pick(rules(nrel)); bools.push_back(C.addForest(k)); }
            for (int i = 0; i < 3; i++) C.addOperand(r.pick(mts), true);
            for (int i = 0; i < (evs.empty() ? 0 : 3); i++) C.addOperand(r.pick(evs), true);
            for (int s = 0; s < steps; s++) {
                std::vector<int> pm = C.poolIn(mts), pe = C.poolIn(evs);
                if (pm.empty()) { C.addOperand(r.pick(mts), true); continue; }
                if (!evs.empty() && pe.empty()) { C.addOperand(r.pick(evs), true); continue; }
                unsigned x = r.below(100);
                bool useEv = !evs.empty() && r.chance(1, 2);
                const std::vector<int>& P = useEv ? pe : pm;
                const std::vector<int>& FF = useEv ? evs : mts;
                if (x < 14) C.bin("PLUS", PLUS, r.pick(P), r.pick(P), r.pick(FF));
                else if (x < 28) C.bin("MULTIPLY", MULTIPLY, r.pick(P), r.pick(P), r.pick(FF));
                else if (x < 40) C.bin("MINIMUM", MINIMUM, r.pick(P), r.pick(P), r.pick(FF));
                else if (x < 52) C.bin("MAXIMUM", MAXIMUM, r.pick(P), r.pick(P), r.pick(FF));
                else if (x < 60) C.bin("EQUAL", EQUAL, r.pick(pm), r.pick(pm), r.pick(bools));
                else if (x < 68) C.bin("LESS_THAN", LESS_THAN, r.pick(pm), r.pick(pm), r.pick(bools));
                else if (x < 76) C.un("COPY", COPY, r.pick(P), r.pick(FF));
                else if (x < 82) C.addOperand(r.pick(FF), true);
                else C.housekeeping();
            }
        }
        C.finish();
        endCase();
        for (auto& f : C.fs) forest::destroy(f.F);
        D.destroy();
    }
    if (SCREEN().on) {
        emit("note screening kept %ld dropped %ld suspects %ld", SCREEN().kept, SCREEN().dropped, SCREEN().suspects);
        STATS.hit("screen.kept", SCREEN().kept); STATS.hit("screen.dropped", SCREEN().dropped); STATS.hit("screen.suspects", SCREEN().suspects);
    }
    libCleanup();
    return 0;
}
FamilyReg reg("oplife", run, "C06 operation-level node lifetime: histories of real operations on structured operands, exact recounts, no leak");
}  // namespace
