// Family `reach` (C08): every reachability operation returns exactly the least fixed point.
//
// A case is a *scenario*: one domain, one relation forest, one forest for the initial sets and
// (optionally) a separate forest for the results, and a list of steps
//     R name edges      define a relation by its explicit edge list (state numbers = set-table index)
//     I name states     define an initial set (boolean) / initial distance function (0 at the states,
//                       optionally a start offset; "unreachable" elsewhere)
//     C alg dir I R     call REACHABLE_TRAD_FS / REACHABLE_TRAD_NOFS / REACHABLE_SATUR(.,1), forward or
//                       backward, and print the result table; results of the same (I, R, dir) are
//                       compared pairwise with dd_edge::operator==
//     X                 removeAllComputeTableEntries() on every forest
//     A forest          dump + certificate request for a forest
// Successive calls share the forests, the operations (with their cached relation split and
// explorer state) and the compute tables.
//
// Scenarios come from (1) the random generator, (2) the exhaustive tier (all 16 relations x 4 initial
// sets on a 2-state domain x every algorithm x every forest combination) and (3) fixed PROBES of the
// known defect classes F4..F10.  The random generator steers away from the trigger classes of those
// defects unless `--allow F4,F5,...` (or `--allow all`) is given; the probes keep reproducing them in
// a forked child so that a crash of the library cannot take the harness down.  Whether F6 (the
// over-release in fillSplit) is still present in the tree is DETECTED by a forked self-test
// (`--assume-f6 present|absent` overrides): if it is repaired, saturation calls on every relation,
// pessimistic relation forests and compute-table clears between saturation calls are generated.  Probe cases print
// `note known-trigger <tag>` and tag the names of their forests / result edges with `@<tag>@rel-<rule>`,
// which is what the known-finding patterns match.
//
// `--scenario "<text>"` runs one hand-written scenario (see parseScenario) as case 0.
#include "common.h"
#include <sys/types.h>
#include <sys/wait.h>
#include <unistd.h>
#include <signal.h>
#include <fcntl.h>
#include <cerrno>
using namespace MEDDLY;
using namespace mdh;

namespace {

// ------------------------------------------------------------------ scenario
enum { ALG_FS = 0, ALG_NOFS = 1, ALG_SAT = 2 };
enum { SK_BOOL = 0, SK_MTINT = 1, SK_EVP = 2 };
enum { RULE_FULLY = 0, RULE_QUASI = 1, RULE_IDENT = 2 };

struct Step {
    char kind = 'C';                               // R I C X A
    std::string name;                              // R / I : name ; A : forest (set|res|rel)
    std::vector<std::pair<int, int>> edges;        // R
    std::vector<std::pair<int, long>> init;        // I : (state, start offset)
    int alg = ALG_NOFS;                            // C
    bool fwd = true;                               // C
    std::string a, b;                              // C : init name, relation name
};

struct Scn {
    std::vector<int> dom;
    int setKind = SK_BOOL;
    int setRule = RULE_FULLY;
    int resRule = -1;          // -1: results live in the forest of the initial sets
    int relRule = RULE_IDENT;
    Pol polSet, polRes, polRel;
    std::string tag;           // probes: F4 ... ; empty otherwise
    std::vector<Step> steps;
};

const char* ruleName(int r) { return r == RULE_FULLY ? "fully" : r == RULE_QUASI ? "quasi" : "ident"; }
const char* algName(int a) { return a == ALG_FS ? "FS" : a == ALG_NOFS ? "NOFS" : "SAT"; }
reduction_rule ruleOf(int r) {
    return r == RULE_FULLY ? reduction_rule::FULLY_REDUCED
         : r == RULE_QUASI ? reduction_rule::QUASI_REDUCED : reduction_rule::IDENTITY_REDUCED;
}
Kind setKindOf(int sk, int rule) {
    Kind k;
    k.rel = false;
    k.rr = ruleOf(rule);
    if (sk == SK_BOOL) { k.rt = range_type::BOOLEAN; k.el = edge_labeling::MULTI_TERMINAL; }
    else if (sk == SK_MTINT) { k.rt = range_type::INTEGER; k.el = edge_labeling::MULTI_TERMINAL; }
    else { k.rt = range_type::INTEGER; k.el = edge_labeling::EVPLUS; }
    return k;
}
Kind relKindOf(int rule) {
    Kind k;
    k.rel = true; k.rt = range_type::BOOLEAN; k.el = edge_labeling::MULTI_TERMINAL; k.rr = ruleOf(rule);
    return k;
}

std::string polCsv(const Pol& p) { return std::to_string(p.storage) + "," + std::to_string(p.mm) + "," + std::to_string(p.del); }

// textual form (also accepted by --scenario); ';' separates items
std::string scnText(const Scn& s) {
    std::string t = "dom=";
    for (size_t i = 0; i < s.dom.size(); i++) t += (i ? "," : "") + std::to_string(s.dom[i]);
    const char* sk[] = {"bool", "int", "evp"};
    t += std::string(";set=") + sk[s.setKind] + "." + ruleName(s.setRule);
    if (s.resRule >= 0) t += std::string(";res=") + ruleName(s.resRule);
    t += std::string(";rel=") + ruleName(s.relRule);
    t += ";pol.set=" + polCsv(s.polSet) + ";pol.rel=" + polCsv(s.polRel);
    if (s.resRule >= 0) t += ";pol.res=" + polCsv(s.polRes);
    if (!s.tag.empty()) t += ";tag=" + s.tag;
    for (const Step& st : s.steps) {
        switch (st.kind) {
            case 'R': {
                t += ";R:" + st.name + ":";
                for (size_t i = 0; i < st.edges.size(); i++)
                    t += (i ? "," : "") + std::to_string(st.edges[i].first) + ">" + std::to_string(st.edges[i].second);
                break;
            }
            case 'I': {
                t += ";I:" + st.name + ":";
                for (size_t i = 0; i < st.init.size(); i++) {
                    t += (i ? "," : "") + std::to_string(st.init[i].first);
                    if (st.init[i].second) t += "=" + std::to_string(st.init[i].second);
                }
                break;
            }
            case 'C':
                t += std::string(";C:") + (st.alg == ALG_FS ? "fs" : st.alg == ALG_NOFS ? "nofs" : "sat") + ":" +
                     (st.fwd ? "f" : "b") + ":" + st.a + ":" + st.b;
                break;
            case 'X': t += ";X"; break;
            case 'A': t += ";A:" + st.name; break;
        }
    }
    return t;
}

std::vector<std::string> splitOn(const std::string& s, char c) {
    std::vector<std::string> out;
    std::string cur;
    for (char ch : s) { if (ch == c) { out.push_back(cur); cur.clear(); } else cur += ch; }
    out.push_back(cur);
    return out;
}
int ruleFromName(const std::string& n) { return n == "fully" ? RULE_FULLY : n == "quasi" ? RULE_QUASI : RULE_IDENT; }
Pol polFromCsv(const std::string& v) {
    Pol p; int a = 2, b = 0, c = 1;
    sscanf(v.c_str(), "%d,%d,%d", &a, &b, &c);
    p.storage = a; p.mm = b; p.del = c;
    return p;
}

Scn parseScenario(const std::string& text) {
    Scn s;
    for (const std::string& item : splitOn(text, ';')) {
        if (item.empty()) continue;
        size_t eq = item.find('=');
        if (item[0] == 'X' && item.size() == 1) { Step st; st.kind = 'X'; s.steps.push_back(st); continue; }
        if (item.size() > 1 && item[1] == ':') {
            std::vector<std::string> f = splitOn(item, ':');
            Step st;
            st.kind = item[0];
            if (st.kind == 'R') {
                st.name = f[1];
                if (f.size() > 2 && !f[2].empty())
                    for (const std::string& e : splitOn(f[2], ',')) {
                        int a = 0, b = 0;
                        if (sscanf(e.c_str(), "%d>%d", &a, &b) == 2) st.edges.push_back({a, b});
                    }
            } else if (st.kind == 'I') {
                st.name = f[1];
                if (f.size() > 2 && !f[2].empty())
                    for (const std::string& e : splitOn(f[2], ',')) {
                        int a = 0; long o = 0;
                        if (sscanf(e.c_str(), "%d=%ld", &a, &o) >= 1) st.init.push_back({a, o});
                    }
            } else if (st.kind == 'C') {
                st.alg = f[1] == "fs" ? ALG_FS : f[1] == "nofs" ? ALG_NOFS : ALG_SAT;
                st.fwd = f[2] == "f";
                st.a = f[3]; st.b = f[4];
            } else if (st.kind == 'A') {
                st.name = f[1];
            }
            s.steps.push_back(st);
            continue;
        }
        if (eq == std::string::npos) continue;
        std::string k = item.substr(0, eq), v = item.substr(eq + 1);
        if (k == "dom") { s.dom.clear(); for (auto& x : splitOn(v, ',')) s.dom.push_back(atoi(x.c_str())); }
        else if (k == "set") {
            std::vector<std::string> f = splitOn(v, '.');
            s.setKind = f[0] == "bool" ? SK_BOOL : f[0] == "int" ? SK_MTINT : SK_EVP;
            s.setRule = f.size() > 1 ? ruleFromName(f[1]) : RULE_FULLY;
        }
        else if (k == "res") s.resRule = ruleFromName(v);
        else if (k == "rel") s.relRule = ruleFromName(v);
        else if (k == "pol.set") s.polSet = polFromCsv(v);
        else if (k == "pol.res") s.polRes = polFromCsv(v);
        else if (k == "pol.rel") s.polRel = polFromCsv(v);
        else if (k == "tag") s.tag = v;
    }
    return s;
}

// ------------------------------------------------------------------ explicit relations
size_t nStates(const std::vector<int>& dom) { size_t n = 1; for (int x : dom) n *= size_t(x); return n; }

// index of the pair (from, to) in the relation table: per variable v (bottom-up) the digit pair
// (primed = to_v least significant, then unprimed = from_v)
size_t relIndex(const std::vector<int>& dom, size_t from, size_t to) {
    size_t idx = 0, stride = 1;
    for (int sz : dom) {
        size_t f = from % size_t(sz), t = to % size_t(sz);
        from /= size_t(sz); to /= size_t(sz);
        idx += (t + size_t(sz) * f) * stride;
        stride *= size_t(sz) * size_t(sz);
    }
    return idx;
}

typedef std::vector<std::vector<char>> Mat;   // adjacency over states
Mat matOf(const std::vector<int>& dom, const std::vector<std::pair<int, int>>& edges) {
    size_t n = nStates(dom);
    Mat m(n, std::vector<char>(n, 0));
    for (auto& e : edges) if (size_t(e.first) < n && size_t(e.second) < n) m[size_t(e.first)][size_t(e.second)] = 1;
    return m;
}

// Trigger class of F7 (read off satur_sets.cc fillSplit): at some level k of the split the common
// diagonal D_k is non-empty and the current relation M_k has an edge (i,a)->(j,b) with i != j and
// (a,b) in D_k.  With a fully-reduced relation forest `M_k \ D_k` reads the lower-level node D_k as
// "level k unconstrained", so those edges are dropped from top_exactly[k] and from everything below.
bool f7Trigger(const std::vector<int>& dom, const Mat& R) {
    // M over the lower states of levels 1..k; start with k = K
    Mat M = R;
    for (int k = int(dom.size()); k >= 1; --k) {
        size_t sz = size_t(dom[size_t(k - 1)]);
        size_t nlow = M.size() / sz;
        Mat D(nlow, std::vector<char>(nlow, 0));
        bool any = false;
        for (size_t a = 0; a < nlow; a++)
            for (size_t b = 0; b < nlow; b++) {
                bool all = true;
                for (size_t i = 0; i < sz && all; i++) all = M[i * nlow + a][i * nlow + b];
                D[a][b] = all;
                any = any || all;
            }
        if (!any) return false;
        for (size_t a = 0; a < nlow; a++)
            for (size_t b = 0; b < nlow; b++) {
                if (!D[a][b]) continue;
                for (size_t i = 0; i < sz; i++)
                    for (size_t j = 0; j < sz; j++)
                        if (i != j && M[i * nlow + a][j * nlow + b]) return true;
            }
        M = D;
    }
    return false;
}

// Trigger class of F6 (satur_sets.cc fillSplit: `diag.set(Brn->getDiagonal(0))` adopts an unlinked
// handle): at some level k >= 2 of the split the current relation M_k has a top-level node and its
// (0,0) block is a NODE (not a terminal).  The block is a terminal iff it is empty, or - depending on
// the reduction rule - the identity (identity-reduced) or the full relation (fully-reduced) on the
// lower levels.  Conservative: any other non-empty block counts.
bool f6Trigger(const std::vector<int>& dom, const Mat& R, int relRule) {
    Mat M = R;
    for (int k = int(dom.size()); k >= 2; --k) {
        size_t sz = size_t(dom[size_t(k - 1)]);
        size_t nlow = M.size() / sz;
        bool anyM = false;
        for (auto& row : M) for (char c : row) anyM = anyM || c;
        if (!anyM) return false;
        Mat D(nlow, std::vector<char>(nlow, 0));
        for (size_t a = 0; a < nlow; a++)
            for (size_t b = 0; b < nlow; b++) {
                bool all = true;
                for (size_t i = 0; i < sz && all; i++) all = M[i * nlow + a][i * nlow + b];
                D[a][b] = all;
            }
        // does M_k have a node at level k?  identity-reduced: not iff M_k = I_k x D ; fully: not iff M_k
        // is independent of (x_k, x'_k)
        bool skipped = true;
        for (size_t i = 0; i < sz && skipped; i++)
            for (size_t j = 0; j < sz && skipped; j++)
                for (size_t a = 0; a < nlow && skipped; a++)
                    for (size_t b = 0; b < nlow && skipped; b++) {
                        bool want = (relRule == RULE_IDENT) ? (i == j && D[a][b]) : bool(M[a][b]);
                        if (bool(M[i * nlow + a][j * nlow + b]) != want) skipped = false;
                    }
        if (relRule == RULE_QUASI) skipped = false;
        if (!skipped) {
            // (0,0) block
            bool anyB = false, isId = true, isFull = true;
            for (size_t a = 0; a < nlow; a++)
                for (size_t b = 0; b < nlow; b++) {
                    bool v = M[a][b];
                    anyB = anyB || v;
                    if (v != (a == b)) isId = false;
                    if (!v) isFull = false;
                }
            bool terminal = !anyB || (relRule == RULE_IDENT && isId) || (relRule == RULE_FULLY && isFull);
            if (!terminal) return true;
        }
        M = D;
    }
    return false;
}

// ------------------------------------------------------------------ options (known trigger classes)
struct Allow {
    bool f4 = false, f5 = false, f6 = false, f7 = false, f8 = false, f9 = false, f10 = false;
    static Allow parse(const std::string& s) {
        Allow a;
        std::string t = "," + s + ",";
        bool all = t.find(",all,") != std::string::npos;
        a.f4 = all || t.find(",F4,") != std::string::npos;
        a.f5 = all || t.find(",F5,") != std::string::npos;
        a.f6 = all || t.find(",F6,") != std::string::npos;
        a.f7 = all || t.find(",F7,") != std::string::npos;
        a.f8 = all || t.find(",F8,") != std::string::npos;
        a.f9 = all || t.find(",F9,") != std::string::npos;
        a.f10 = all || t.find(",F10,") != std::string::npos;
        return a;
    }
};

// ------------------------------------------------------------------ executor
struct Exec {
    const Scn& S;
    Dom D;
    Kind kSet, kRes, kRel;
    forest *FSet = nullptr, *FRes = nullptr, *FRel = nullptr;
    std::string nSet, nRes, nRel;
    std::map<std::string, dd_edge> edges;                 // inits, relations
    std::map<std::string, std::string> forestOf;
    struct Res { std::string name, key; dd_edge e; };
    std::vector<Res*> results;
    int serial = 0;

    explicit Exec(const Scn& s) : S(s) {}

    std::string tagSuffix() const {
        if (S.tag.empty()) return "";
        return "@" + S.tag + "@rel-" + ruleName(S.relRule);
    }

    void setup() {
        D.sizes = S.dom;
        D.create();
        emits(D.str());
        kSet = setKindOf(S.setKind, S.setRule);
        kRel = relKindOf(S.relRule);
        nSet = "S" + tagSuffix(); nRel = "Rf" + tagSuffix(); nRes = nSet;
        FSet = makeForest(D.d, kSet, S.polSet);
        emitForest(nSet, FSet, kSet, S.polSet);
        if (S.resRule >= 0) {
            kRes = setKindOf(S.setKind, S.resRule);
            nRes = "Sr" + tagSuffix();
            FRes = makeForest(D.d, kRes, S.polRes);
            emitForest(nRes, FRes, kRes, S.polRes);
        } else { kRes = kSet; FRes = FSet; }
        FRel = makeForest(D.d, kRel, S.polRel);
        emitForest(nRel, FRel, kRel, S.polRel);
        emit("resforest %s", nRes.c_str());
        emit("note scenario %s", scnText(S).c_str());
        if (!S.tag.empty()) emit("note known-trigger %s", S.tag.c_str());
        STATS.hit(std::string("set.") + kSet.str());
        STATS.hit(std::string("rel.") + ruleName(S.relRule));
        STATS.hit(S.resRule >= 0 ? "res.separate-forest" : "res.same-forest");
        if (S.polRel.del == 2) STATS.hit("rel.pessimistic");
        fflush(stdout);
    }

    void defRel(const Step& st) {
        size_t n = nStates(S.dom);
        std::vector<Val> t(D.card(true), Val::boolean(false));
        for (auto& e : st.edges)
            if (size_t(e.first) < n && size_t(e.second) < n) t[relIndex(S.dom, size_t(e.first), size_t(e.second))] = Val::boolean(true);
        dd_edge r(FRel);
        buildFromTable(D, FRel, kRel, t, r);
        edges[st.name] = r;
        forestOf[st.name] = nRel;
        emit("input %s %s", st.name.c_str(), tableStr(t).c_str());
        emitTable(st.name, nRel, D, r);
        STATS.hit("rel.edges", long(st.edges.size()));
    }

    void defInit(const Step& st) {
        size_t n = nStates(S.dom);
        Val un = S.setKind == SK_BOOL ? Val::boolean(false) : S.setKind == SK_MTINT ? Val::integer(-1) : Val::inf();
        std::vector<Val> t(n, un);
        for (auto& p : st.init)
            if (size_t(p.first) < n) t[size_t(p.first)] = S.setKind == SK_BOOL ? Val::boolean(true) : Val::integer(p.second);
        dd_edge e(FSet);
        if (S.setKind == SK_MTINT) {
            // as tests/kan_chkrs.cc: distance 0 (or the start offset) at the initial states, -1 elsewhere
            size_t cnt = 0;
            for (auto& v : t) if (v.n >= 0) ++cnt;
            if (cnt == 0) FSet->createConstant(rangeval(-1L), e);
            else {
                minterm_coll mc(unsigned(cnt), FSet);
                for (size_t i = 0; i < n; i++) {
                    if (t[i].n < 0) continue;
                    setMinterm(D, false, i, mc.unused());
                    mc.unused().setValue(rangeval(long(t[i].n)));
                    mc.pushUnused();
                }
                mc.buildFunctionMax(rangeval(-1L), e);
            }
        } else buildFromTable(D, FSet, kSet, t, e);
        edges[st.name] = e;
        forestOf[st.name] = nSet;
        emit("input %s %s", st.name.c_str(), tableStr(t).c_str());
        emitTable(st.name, nSet, D, e);
        STATS.hit("init.states", long(st.init.size()));
    }

    void call(const Step& st) {
        std::string opn = std::string("REACH_") + algName(st.alg) + (st.fwd ? "_FWD" : "_BWD");
        std::string rname = std::string("R") + std::to_string(serial++) + "." + algName(st.alg) + (st.fwd ? ".f" : ".b") + tagSuffix();
        Res* res = new Res{rname, st.a + "/" + st.b + (st.fwd ? "/f" : "/b"), dd_edge(FRes)};
        const dd_edge& I = edges[st.a];
        const dd_edge& R = edges[st.b];
        try {
            switch (st.alg) {
                case ALG_FS: apply(REACHABLE_TRAD_FS(st.fwd), I, R, res->e); break;
                case ALG_NOFS: apply(REACHABLE_TRAD_NOFS(st.fwd), I, R, res->e); break;
                default: apply(REACHABLE_SATUR(st.fwd, 1), I, R, res->e); break;
            }
            emit("op %s %s %s %s", rname.c_str(), opn.c_str(), st.a.c_str(), st.b.c_str());
            emitTable(rname, nRes, D, res->e);
            STATS.hit("op." + opn);
            STATS.hit(std::string("op.") + algName(st.alg) + ".rel-" + ruleName(S.relRule) + "." + (S.setKind == SK_BOOL ? "bool" : S.setKind == SK_MTINT ? "mtint" : "evp"));
            for (Res* o : results)
                if (o->key == res->key) { emitEq(o->name, rname, o->e, res->e); STATS.hit("eq.pairs"); }
            results.push_back(res);
            // Reach.lfp_idem (Ops/ReachLaws.lean): asking again from the answer returns the SAME edge.
            // Only where the answer is a legal initial set (boolean sets, result forest = set forest).
            if (FRes == FSet && S.setKind == SK_BOOL && S.tag.empty()) {
                std::string aname = rname + ".again";
                dd_edge again(FRes);
                try {
                    switch (st.alg) {
                        case ALG_FS: apply(REACHABLE_TRAD_FS(st.fwd), res->e, R, again); break;
                        case ALG_NOFS: apply(REACHABLE_TRAD_NOFS(st.fwd), res->e, R, again); break;
                        default: apply(REACHABLE_SATUR(st.fwd, 1), res->e, R, again); break;
                    }
                    emit("op %s %s %s %s", aname.c_str(), opn.c_str(), rname.c_str(), st.b.c_str());
                    emitTable(aname, nRes, D, again);
                    emitEq(rname, aname, res->e, again);
                    STATS.hit("idem.again");
                    // Reach.lfp_union: the answer from a UNION of initial sets is the UNION of the answers (same edge).
                    for (Res* o : results) {
                        if (o == res) continue;
                        std::string tail = "/" + st.b + (st.fwd ? "/f" : "/b");
                        if (o->key.size() <= tail.size() || o->key.compare(o->key.size() - tail.size(), tail.size(), tail) != 0) continue;
                        std::string oa = o->key.substr(0, o->key.size() - tail.size());
                        if (oa == st.a || !edges.count(oa)) continue;
                        std::string un = rname + ".ui", run = rname + ".ru", urn = rname + ".ur";
                        dd_edge ui(FSet), ru(FRes), ur(FRes);
                        apply(UNION, edges[oa], I, ui);
                        emit("op %s UNION %s %s", un.c_str(), oa.c_str(), st.a.c_str());
                        emitTable(un, nSet, D, ui);
                        switch (st.alg) {
                            case ALG_FS: apply(REACHABLE_TRAD_FS(st.fwd), ui, R, ru); break;
                            case ALG_NOFS: apply(REACHABLE_TRAD_NOFS(st.fwd), ui, R, ru); break;
                            default: apply(REACHABLE_SATUR(st.fwd, 1), ui, R, ru); break;
                        }
                        emit("op %s %s %s %s", run.c_str(), opn.c_str(), un.c_str(), st.b.c_str());
                        emitTable(run, nRes, D, ru);
                        apply(UNION, o->e, res->e, ur);
                        emit("op %s UNION %s %s", urn.c_str(), o->name.c_str(), rname.c_str());
                        emitTable(urn, nRes, D, ur);
                        emitEq(run, urn, ru, ur);
                        STATS.hit("union.law");
                        break;
                    }
                } catch (error& e2) {
                    emit("err %s %s %s %s %s", aname.c_str(), opn.c_str(), rname.c_str(), st.b.c_str(), errName(e2));
                    STATS.hit(std::string("err.again.") + errName(e2));
                }
            }
        } catch (error& e) {
            emit("err %s %s %s %s %s", rname.c_str(), opn.c_str(), st.a.c_str(), st.b.c_str(), errName(e));
            emit("note thrown-at %s:%u", e.getFile(), e.getLine());
            STATS.hit(std::string("err.") + opn + "." + errName(e));
            delete res;
        }
        fflush(stdout);
    }

    void clearAll() {
        FSet->removeAllComputeTableEntries();
        if (FRes != FSet) FRes->removeAllComputeTableEntries();
        FRel->removeAllComputeTableEntries();
        STATS.hit("clear.CT");
    }

    void audit(const std::string& which) {
        if (which == "set") emitAudit(nSet, FSet, kSet);
        else if (which == "res") emitAudit(nRes, FRes, kRes);
        else emitAudit(nRel, FRel, kRel);
        STATS.hit("audit." + which);
    }

    void run() {
        setup();
        for (const Step& st : S.steps) {
            switch (st.kind) {
                case 'R': defRel(st); break;
                case 'I': defInit(st); break;
                case 'C': call(st); break;
                case 'X': clearAll(); break;
                case 'A': audit(st.name); break;
            }
        }
        // operands must be unchanged
        for (auto& p : edges) {
            emitTable(p.first, forestOf[p.first], D, p.second);
            emit("unchanged %s", p.first.c_str());
        }
        // every result still denotes what it denoted when it was returned
        for (Res* r : results) { emitTable(r->name, nRes, D, r->e); emit("unchanged %s", r->name.c_str()); }
        fflush(stdout);
    }

    void teardown() {
        for (Res* r : results) delete r;
        results.clear();
        edges.clear();
        if (FRes && FRes != FSet) forest::destroy(FRes);
        if (FSet) forest::destroy(FSet);
        if (FRel) forest::destroy(FRel);
        D.destroy();
    }
};

long CASE_TIMEOUT = 120;

void runInProcess(long c, const Scn& s) {
    beginCase(c);
    alarm(unsigned(CASE_TIMEOUT));          // a reachability loop that never meets its stop test must not hang the check
    Exec x(s);
    x.run();
    alarm(0);
    endCase();
    x.teardown();
}

// Runs the scenario in a forked child whose stdout is a pipe; the parent copies the complete lines
// and reports how the child ended as `probe <tag> rel-<rule> <outcome>`.
void runForked(long c, const Scn& s) {
    beginCase(c);
    fflush(stdout);
    fflush(stderr);
    int fd[2];
    if (pipe(fd) != 0) { emit("probe %s rel-%s cannot-pipe", s.tag.c_str(), ruleName(s.relRule)); endCase(); return; }
    pid_t pid = fork();
    if (pid == 0) {
        close(fd[0]);
        dup2(fd[1], 1);
        close(fd[1]);
        // keep sanitizer / crash chatter of an expected crash out of the parent's stderr
        if (!getenv("MDH_PROBE_STDERR")) { int nul = open("/dev/null", 1); if (nul >= 0) { dup2(nul, 2); close(nul); } }
        alarm(120);
        setvbuf(stdout, nullptr, _IOLBF, 0);   // keep every completed record if the library crashes
        int rc = 0;
        try {
            Exec x(s);
            x.run();
            // no teardown: the child's only job was the transcript
        } catch (error& e) {
            emit("note uncaught-meddly-error %s %s:%u", errName(e), e.getFile(), e.getLine());
            rc = 3;
        }
        fflush(stdout);
        _exit(rc);
    }
    close(fd[1]);
    std::string buf;
    char tmp[65536];
    for (;;) {
        ssize_t k = read(fd[0], tmp, sizeof tmp);
        if (k > 0) buf.append(tmp, size_t(k));
        else if (k == 0) break;
        else if (errno != EINTR) break;
    }
    close(fd[0]);
    int status = 0;
    waitpid(pid, &status, 0);
    size_t lastNl = buf.rfind('\n');
    if (lastNl != std::string::npos) fwrite(buf.data(), 1, lastNl + 1, stdout);
    std::string outcome;
    if (WIFEXITED(status) && WEXITSTATUS(status) == 0) outcome = "returned";
    else if (WIFEXITED(status)) outcome = "exit-" + std::to_string(WEXITSTATUS(status));
    else if (WIFSIGNALED(status)) outcome = "signal-" + std::to_string(WTERMSIG(status));
    else outcome = "unknown-end";
    // the last call the child had started: first C step without a result line is not knowable from
    // here, so the record names the scenario's tag and relation rule only
    emit("probe %s rel-%s %s", s.tag.empty() ? "none" : s.tag.c_str(), ruleName(s.relRule), outcome.c_str());
    STATS.hit("probe." + (s.tag.empty() ? std::string("none") : s.tag) + "." + outcome);
    endCase();
}

// ------------------------------------------------------------------ random scenarios
std::vector<std::pair<int, int>> randomRelation(Rng& r, const std::vector<int>& dom, std::string& shape) {
    size_t n = nStates(dom);
    size_t K = dom.size();
    Mat m(n, std::vector<char>(n, 0));
    auto digit = [&](size_t s, size_t v) { for (size_t w = 0; w < v; w++) s /= size_t(dom[w]); return s % size_t(dom[v]); };
    int kind = int(r.below(10));
    if (kind == 0) { shape = "empty"; }
    else if (kind == 1) { shape = "full"; for (size_t a = 0; a < n; a++) for (size_t b = 0; b < n; b++) m[a][b] = 1; }
    else if (kind == 2 || kind == 3) {
        shape = "random";
        unsigned dens = r.pick(std::vector<unsigned>{3, 8, 15, 30, 60});
        for (size_t a = 0; a < n; a++) for (size_t b = 0; b < n; b++) if (r.below(100) < dens) m[a][b] = 1;
    } else if (kind == 4) {
        shape = "chain";   // long shortest paths: a permutation chain with a few shortcuts
        std::vector<size_t> perm(n);
        for (size_t i = 0; i < n; i++) perm[i] = i;
        for (size_t i = n; i > 1; i--) std::swap(perm[i - 1], perm[r.below(unsigned(i))]);
        size_t len = n <= 2 ? n : size_t(r.range(int(n / 2), int(n)));
        for (size_t i = 0; i + 1 < len; i++) m[perm[i]][perm[i + 1]] = 1;
        if (r.chance(1, 2) && len > 1) m[perm[len - 1]][perm[0]] = 1;
        int extra = r.range(0, 2);
        for (int e = 0; e < extra; e++) m[r.below(unsigned(n))][r.below(unsigned(n))] = 1;
    } else {
        // union of events: each event touches a subset of the variables with a local relation and is
        // the identity elsewhere (identity-skipped levels, non-trivial top-level diagonal)
        shape = "events";
        int nev = r.range(1, 3);
        for (int e = 0; e < nev; e++) {
            std::vector<char> touched(K, 0);
            bool anyT = false;
            for (size_t v = 0; v < K; v++) { touched[v] = r.chance(1, 2); anyT = anyT || touched[v]; }
            if (!anyT) touched[r.below(unsigned(K))] = 1;
            // local relation per touched variable: list of (i -> j); nondeterministic, may contain i -> i
            std::vector<std::vector<std::pair<size_t, size_t>>> loc(K);
            for (size_t v = 0; v < K; v++) {
                if (!touched[v]) continue;
                int cnt = r.range(1, dom[v]);
                for (int q = 0; q < cnt; q++) loc[v].push_back({size_t(r.below(unsigned(dom[v]))), size_t(r.below(unsigned(dom[v])))});
            }
            for (size_t a = 0; a < n; a++)
                for (size_t b = 0; b < n; b++) {
                    bool ok = true;
                    for (size_t v = 0; v < K && ok; v++) {
                        size_t da = digit(a, v), db = digit(b, v);
                        if (!touched[v]) ok = (da == db);
                        else {
                            bool f = false;
                            for (auto& p : loc[v]) if (p.first == da && p.second == db) f = true;
                            ok = f;
                        }
                    }
                    if (ok) m[a][b] = 1;
                }
        }
    }
    // decorations: self-loops, dead ends stay as they are
    if (r.chance(1, 4)) { for (size_t a = 0; a < n; a++) if (r.chance(1, 2)) m[a][a] = 1; shape += "+loops"; }
    if (r.chance(1, 10)) { for (size_t a = 0; a < n; a++) m[a][a] = 1; shape += "+allloops"; }
    if (r.chance(1, 6) && shape.find("events") == 0) { m[r.below(unsigned(n))][r.below(unsigned(n))] = 1; shape += "+edge"; }
    std::vector<std::pair<int, int>> out;
    for (size_t a = 0; a < n; a++) for (size_t b = 0; b < n; b++) if (m[a][b]) out.push_back({int(a), int(b)});
    return out;
}

std::vector<std::pair<int, long>> randomInit(Rng& r, const std::vector<int>& dom, int setKind) {
    size_t n = nStates(dom);
    std::vector<std::pair<int, long>> out;
    int kind = int(r.below(10));
    if (kind == 0) return out;                                    // empty initial set
    if (kind == 1) { for (size_t i = 0; i < n; i++) out.push_back({int(i), 0}); return out; }
    int cnt = kind < 6 ? 1 : r.range(2, int(std::max<size_t>(2, n / 3)));
    std::set<int> seen;
    for (int q = 0; q < cnt; q++) {
        int s = int(r.below(unsigned(n)));
        if (!seen.insert(s).second) continue;
        long off = 0;
        if (setKind != SK_BOOL && r.chance(1, 5)) off = r.range(1, 3);    // seeded start distance
        out.push_back({s, off});
    }
    std::sort(out.begin(), out.end());
    return out;
}

const std::vector<std::vector<int>>& domPool(bool thorough) {
    static const std::vector<std::vector<int>> q = {
        {2}, {3}, {2, 2}, {3, 2}, {2, 3}, {2, 3, 2}, {2, 2, 2}, {3, 3}, {4, 2}, {3, 2, 2}, {2, 2, 2, 2}};
    static const std::vector<std::vector<int>> t = {
        {2}, {3}, {2, 2}, {3, 2}, {2, 3}, {2, 3, 2}, {2, 2, 2}, {3, 3}, {4, 2}, {3, 2, 2}, {2, 2, 2, 2},
        {3, 3, 2}, {4, 3}, {2, 3, 2, 2}, {3, 3, 3}, {5, 2}, {2, 2, 2, 2, 2}, {4, 4}};
    return thorough ? t : q;
}

// generator overrides for hunting: --force-rel fully|quasi|ident, --force-set bool|int|evp,
// --force-polrel a,b,c, --force-dom 2,3,2
struct Force { int rel = -1; int set = -1; bool polrel = false; Pol prel; std::vector<int> dom; };

Scn randomScenario(Rng& r, bool thorough, const Allow& allow, const Force& force) {
    Scn s;
    s.dom = r.pick(domPool(thorough));
    unsigned kk = r.below(20);
    s.setKind = kk < 11 ? SK_BOOL : kk < 15 ? SK_MTINT : SK_EVP;
    s.setRule = (s.setKind == SK_MTINT) ? RULE_FULLY : (r.chance(1, 2) ? RULE_FULLY : RULE_QUASI);
    if (r.chance(1, 3)) s.resRule = (s.setKind == SK_MTINT) ? RULE_FULLY : (r.chance(1, 2) ? RULE_FULLY : RULE_QUASI);
    // MT-integer distances are offered for fully-reduced result forests only: a quasi-reduced one must
    // be rejected with NOT_IMPLEMENTED (saturation, frontier); the no-frontier call there is F8
    bool mtintQuasi = s.setKind == SK_MTINT && r.chance(1, 8);
    if (mtintQuasi) { s.setRule = RULE_QUASI; s.resRule = -1; STATS.hit("set.mtint-quasi-must-be-rejected"); }
    s.relRule = int(r.below(3));
    s.polSet = r.chance(1, 2) ? Pol::random(r) : Pol();
    s.polRes = r.chance(1, 2) ? Pol::random(r) : Pol();
    s.polRel = r.chance(1, 2) ? Pol::random(r) : Pol();
    if (force.rel >= 0) s.relRule = force.rel;
    if (force.set >= 0) { s.setKind = force.set; mtintQuasi = false; if (s.setKind == SK_MTINT) { s.setRule = RULE_FULLY; if (s.resRule >= 0) s.resRule = RULE_FULLY; } }
    if (force.polrel) s.polRel = force.prel;
    if (!force.dom.empty()) s.dom = force.dom;
    int rounds = r.range(1, thorough ? 4 : 3);
    std::string satRel;            // the relation SAT was last called with since the last clear-all (F4)
    int ri = 0, ii = 0;
    std::string curRel, curInit;
    bool curInitHasZero = true;
    Mat curMat;
    bool anySat = false;
    bool bfsOk = !(s.resRule >= 0 && !allow.f9);     // F9: BFS with init forest != result forest
    if (!bfsOk) STATS.hit("steer.sat-only.F9-separate-result-forest");
    for (int round = 0; round < rounds; round++) {
        bool newRel = round == 0 || !r.chance(1, 4);
        if (newRel) {
            Step st; st.kind = 'R'; st.name = "REL" + std::to_string(ri++);
            std::string shape;
            st.edges = randomRelation(r, s.dom, shape);
            STATS.hit("shape." + shape.substr(0, shape.find('+')));
            if (shape.find('+') != std::string::npos) STATS.hit("shape.decorated");
            curRel = st.name;
            curMat = matOf(s.dom, st.edges);
            s.steps.push_back(st);
        } else STATS.hit("round.same-relation");
        int ninit = r.range(1, 2);
        for (int q = 0; q < ninit; q++) {
            bool newInit = curInit.empty() || !r.chance(1, 5);
            if (newInit) {
                Step st; st.kind = 'I'; st.name = "INIT" + std::to_string(ii++);
                st.init = randomInit(r, s.dom, s.setKind);
                // MT-integer sets: half of the initial functions carry start offsets >= 1 everywhere
                // (no distance-0 terminal: the class on which saturation is not hit by F10)
                if (s.setKind == SK_MTINT && r.chance(1, 2)) for (auto& p : st.init) if (p.second == 0) p.second = r.range(1, 3);
                curInitHasZero = false;
                for (auto& p : st.init) if (p.second == 0) curInitHasZero = true;
                curInit = st.name;
                s.steps.push_back(st);
            } else STATS.hit("round.same-init");
            std::vector<bool> dirs;
            unsigned dsel = r.below(4);
            if (dsel != 1) dirs.push_back(true);
            if (dsel != 0) dirs.push_back(false);
            for (bool fwd : dirs) {
                std::vector<int> algs = {ALG_NOFS, ALG_SAT};
                if (s.setKind == SK_BOOL || r.chance(1, 6)) algs.push_back(ALG_FS);   // FS on distances: NOT_IMPLEMENTED
                for (size_t i = algs.size(); i > 1; i--) std::swap(algs[i - 1], algs[r.below(unsigned(i))]);
                if (r.chance(1, 5)) algs.push_back(algs[r.below(unsigned(algs.size()))]);   // repeated call, warm cache
                for (int alg : algs) {
                    if (alg != ALG_SAT && !bfsOk) continue;
                    if (mtintQuasi && alg == ALG_NOFS && !allow.f8) { STATS.hit("steer.skip-nofs.F8-mtint-quasi-result"); continue; }
                    if (mtintQuasi && alg == ALG_SAT) {      // must be rejected: no steering needed, nothing is computed
                        Step st; st.kind = 'C'; st.alg = alg; st.fwd = fwd; st.a = curInit; st.b = curRel;
                        s.steps.push_back(st);
                        continue;
                    }
                    if (alg == ALG_SAT) {
                        // steer away from the known trigger classes
                        if (s.relRule == RULE_QUASI && !allow.f5) { STATS.hit("steer.skip-sat.F5-quasi-relation"); continue; }
                        if (!allow.f6 && f6Trigger(s.dom, curMat, s.relRule)) { STATS.hit("steer.skip-sat.F6-diagonal-node"); continue; }
                        if (s.relRule != RULE_IDENT && !allow.f7 && f7Trigger(s.dom, curMat)) { STATS.hit("steer.skip-sat.F7-offdiagonal-over-common-diagonal"); continue; }
                        if (s.setKind == SK_MTINT && curInitHasZero && !allow.f10) { STATS.hit("steer.skip-sat.F10-mtint-distance-zero"); continue; }
                        if (!satRel.empty() && satRel != curRel && !allow.f4) {
                            // stale satfire entries: either clear every compute table first, or skip
                            if (r.chance(2, 3)) { Step x; x.kind = 'X'; s.steps.push_back(x); STATS.hit("steer.clear-before-sat.F4"); }
                            else { STATS.hit("steer.skip-sat.F4-second-relation"); continue; }
                        }
                        satRel = curRel;
                        anySat = true;
                    }
                    Step st; st.kind = 'C'; st.alg = alg; st.fwd = fwd; st.a = curInit; st.b = curRel;
                    s.steps.push_back(st);
                }
            }
        }
        if (round + 1 < rounds && r.chance(1, 3)) {
            Step st; st.kind = 'X'; s.steps.push_back(st);
            satRel.clear();      // stale satfire entries are gone
        }
    }
    if (anySat) STATS.hit("case.with-saturation");
    { Step st; st.kind = 'A'; st.name = "res"; s.steps.push_back(st); }
    if (s.resRule >= 0) { Step st; st.kind = 'A'; st.name = "set"; s.steps.push_back(st); }
    { Step st; st.kind = 'A'; st.name = "rel"; s.steps.push_back(st); }
    return s;
}

// ------------------------------------------------------------------ exhaustive tier: 2-state domain
// all 16 relations x all 4 initial sets x every algorithm x both directions, for one choice of forests
Scn exhaustiveScenario(int relMask, int setKind, int setRule, int relRule, const Allow& allow) {
    Scn s;
    s.dom = {2};
    s.setKind = setKind; s.setRule = setRule; s.relRule = relRule;
    Step R; R.kind = 'R'; R.name = "REL";
    for (int a = 0; a < 2; a++) for (int b = 0; b < 2; b++) if (relMask & (1 << (2 * a + b))) R.edges.push_back({a, b});
    s.steps.push_back(R);
    bool sat = true;
    if (relRule == RULE_QUASI && !allow.f5) sat = false;
    if (relRule == RULE_FULLY && !allow.f7 && f7Trigger(s.dom, matOf(s.dom, R.edges))) sat = false;
    bool satZeroOk = !(setKind == SK_MTINT && !allow.f10);   // F10: MT-integer sets with a distance-0 state
    if (!sat) STATS.hit("steer.exhaustive-skip-sat");
    for (int im = 0; im < 4; im++) {
        Step I; I.kind = 'I'; I.name = "INIT" + std::to_string(im);
        for (int a = 0; a < 2; a++) if (im & (1 << a)) I.init.push_back({a, 0});
        s.steps.push_back(I);
        for (int fwd = 1; fwd >= 0; fwd--)
            for (int alg = 0; alg < 3; alg++) {
                if (alg == ALG_FS && setKind != SK_BOOL) continue;
                if (alg == ALG_SAT && !sat) continue;
                if (alg == ALG_SAT && !satZeroOk && !I.init.empty()) continue;
                Step C; C.kind = 'C'; C.alg = alg; C.fwd = fwd; C.a = I.name; C.b = "REL";
                s.steps.push_back(C);
            }
    }
    { Step st; st.kind = 'A'; st.name = "res"; s.steps.push_back(st); }
    return s;
}

// ------------------------------------------------------------------ is F6 still in the tree?
// Forked self-test: one saturation call whose split meets a non-terminal diagonal, then a recount of
// the incoming references of every relation node (parents' slots + registered root edges) against
// the forest's own counts.  Exit code of the child: 0 = counts exact, 1 = over-release seen.
bool recountExact(forest* F) {
    node_handle last = F->getLastNode();
    std::map<node_handle, unsigned long> cnt;
    for (node_handle h = 1; h <= last; h++) {
        if (!F->isActiveNode(h) || F->isDeletedNode(h)) continue;
        unpacked_node* U = unpacked_node::newFromNode(F, h, FULL_ONLY);
        for (unsigned i = 0; i < U->getSize(); i++) if (U->down(i) > 0) cnt[U->down(i)]++;
        unpacked_node::Recycle(U);
    }
    std::vector<node_handle> roots;
    F->verifRoots(roots);
    for (node_handle r : roots) if (r > 0) cnt[r]++;
    for (node_handle h = 1; h <= last; h++) {
        if (!F->isActiveNode(h) || F->isDeletedNode(h)) continue;
        if (F->getNodeInCount(h) != cnt[h]) return false;
    }
    return true;
}

bool detectF6() {
    fflush(stdout);
    fflush(stderr);
    pid_t pid = fork();
    if (pid == 0) {
        int nul = open("/dev/null", 1);
        if (nul >= 0) { dup2(nul, 1); dup2(nul, 2); close(nul); }
        alarm(60);
        int rc = 0;
        try {
            Scn s = parseScenario("dom=2,2;set=bool.fully;rel=ident;R:REL:0>1,2>3,0>2;I:INIT:0;C:sat:f:INIT:REL");
            Exec x(s);
            x.run();
            rc = recountExact(x.FRel) ? 0 : 1;
        } catch (error&) { rc = 1; }
        _exit(rc);
    }
    int status = 0;
    waitpid(pid, &status, 0);
    return !(WIFEXITED(status) && WEXITSTATUS(status) == 0);
}

// ------------------------------------------------------------------ probes of the known defect classes
// Fixed case numbers 900000 + index.  Every probe runs in a forked child.
struct Probe { const char* tag; const char* text; };
const Probe PROBES[] = {
    // F4 (history dependence of REACHABLE_SATUR: stale `satfire` entries of an earlier relation):
    //   after a backward call with REL0 the backward call with REL1 from {0} differs from BFS
    /* 900000 */ {"F4", "dom=3,2;set=bool.fully;rel=ident;R:REL0:1>2,4>5,5>3;I:INIT1:3;C:sat:b:INIT1:REL0;R:REL1:2>0;I:INIT2:0;C:nofs:b:INIT2:REL1;C:sat:b:INIT2:REL1"},
    //   the project owner's relation on (2,3,2), here returning an EXTRA state (4)
    /* 900001 */ {"F4", "dom=2,3,2;set=bool.quasi;rel=ident;R:REL0:0>1,1>0,2>3,4>5,6>7,8>9,10>11;I:INIT0:0;C:sat:b:INIT0:REL0;R:TGT:2>6,5>2;I:TI:6;C:nofs:b:TI:TGT;C:sat:b:TI:TGT"},
    // F5 (quasi-reduced relation forest): SIGSEGV in recFire ...
    /* 900002 */ {"F5", "dom=3,2;set=bool.fully;rel=quasi;R:REL0:0>0,0>1,1>1,2>2,3>3,4>4,5>5;I:INIT0:3;C:nofs:f:INIT0:REL0;C:sat:f:INIT0:REL0"},
    //   ... and states missing (the F7 mechanism under the quasi rule)
    /* 900003 */ {"F5", "dom=2;set=bool.fully;rel=quasi;R:REL:0>0,0>1,1>1;I:INIT:0;C:nofs:f:INIT:REL;C:sat:f:INIT:REL"},
    // F6 (fillSplit adopts an unlinked diagonal handle): pessimistic relation forest, first call crashes
    /* 900004 */ {"F6", "dom=2,2;set=bool.fully;rel=ident;pol.rel=2,0,2;R:REL0:0>1,1>0;I:INIT0:0;C:sat:f:INIT0:REL0"},
    //   default policies: the reference recount of the relation forest is off by one after one call
    /* 900005 */ {"F6", "dom=2,2;set=bool.fully;rel=ident;R:REL:0>1,2>3,0>2;I:INIT:0;C:sat:f:INIT:REL;A:rel"},
    //   default policies: a breadth-first call AFTER a saturation call crashes (relation forest poisoned)
    /* 900006 */ {"F6", "dom=2,2;set=bool.fully;rel=ident;R:REL0:0>1,0>2,1>3;I:INIT0:2,3;C:sat:f:INIT0:REL0;I:INIT1:0;C:fs:b:INIT1:REL0"},
    // F7 (fully-reduced relation forest: `mxd \ diag` reads the diagonal node as "level k unconstrained")
    /* 900007 */ {"F7", "dom=2;set=bool.fully;rel=fully;R:REL:0>0,0>1,1>1;I:INIT:0;C:nofs:f:INIT:REL;C:sat:f:INIT:REL"},
    /* 900008 */ {"F7", "dom=2;set=bool.fully;rel=fully;R:REL:0>0,0>1,1>0,1>1;I:INIT:1;C:fs:b:INIT:REL;C:sat:b:INIT:REL"},
    /* 900009 */ {"F7", "dom=2,2;set=evp.fully;rel=fully;R:REL:0>0,0>2,1>1,2>2,3>3,2>3;I:INIT:0;C:nofs:f:INIT:REL;C:sat:f:INIT:REL"},
    // F8 (REACHABLE_TRAD_NOFS, MT-integer result forest not fully reduced: null image operation)
    /* 900010 */ {"F8", "dom=2,2;set=int.quasi;rel=ident;R:REL:0>1,1>2,2>3;I:INIT:0;C:nofs:f:INIT:REL"},
    // F9 (REACHABLE_TRAD_FS / _NOFS with the initial set in another forest than the result)
    /* 900011 */ {"F9", "dom=2,2;set=bool.fully;res=fully;rel=ident;R:REL0:0>1,1>2,2>3;I:INIT0:0;C:nofs:f:INIT0:REL0"},
    /* 900012 */ {"F9", "dom=2;set=bool.fully;res=fully;rel=ident;R:REL0:0>1;I:INIT0:0;C:fs:f:INIT0:REL0"},
    // F10 (REACHABLE_SATUR on MT-integer distance sets drops the distance-0 states)
    /* 900013 */ {"F10", "dom=2;set=int.fully;rel=ident;R:REL0:0>1;I:INIT0:0;C:nofs:f:INIT0:REL0;C:sat:f:INIT0:REL0"},
    /* 900014 */ {"F10", "dom=2,2;set=int.fully;rel=ident;R:REL0:0>1,2>3,1>2;I:INIT0:0,3=1;C:nofs:b:INIT0:REL0;C:sat:b:INIT0:REL0"},
};
const int NPROBES = int(sizeof(PROBES) / sizeof(PROBES[0]));

int run(const Args& A) {
    libInit();
    Allow allow = Allow::parse(A.get("allow"));
    CASE_TIMEOUT = A.getl("case-timeout", 120);
    {
        std::string as = A.get("assume-f6", "auto");
        bool present = as == "present" ? true : as == "absent" ? false : detectF6();
        emit("note selftest F6 %s", present ? "present" : "absent");
        STATS.hit(present ? "selftest.F6.present" : "selftest.F6.absent");
        if (!present) allow.f6 = true;
    }
    // ---- hand-written scenario
    if (!A.get("scenario").empty()) {
        Scn s = parseScenario(A.get("scenario"));
        if (A.getl("fork", 0)) runForked(0, s); else runInProcess(0, s);
        libCleanup();
        return 0;
    }
    Force force;
    if (!A.get("force-rel").empty()) force.rel = ruleFromName(A.get("force-rel"));
    if (!A.get("force-set").empty()) force.set = A.get("force-set") == "bool" ? SK_BOOL : A.get("force-set") == "int" ? SK_MTINT : SK_EVP;
    if (!A.get("force-polrel").empty()) { force.polrel = true; force.prel = polFromCsv(A.get("force-polrel")); }
    if (!A.get("force-dom").empty()) for (auto& x : splitOn(A.get("force-dom"), ',')) force.dom.push_back(atoi(x.c_str()));
    // ---- random scenarios
    long ncases = A.cases >= 0 ? A.cases : (A.thorough() ? 20000 : 7000);
    for (long c = 0; c < ncases; c++) {
        if (!A.selected(c)) continue;
        Rng r(Rng::mix(A.seed, uint64_t(c)));
        Scn s = randomScenario(r, A.thorough(), allow, force);
        if (!A.get("append").empty()) {      // hunting aid: extra steps after the generated ones
            Scn extra = parseScenario(A.get("append"));
            for (const Step& st : extra.steps) s.steps.push_back(st);
        }
        if (A.getl("fork", 0)) runForked(c, s); else runInProcess(c, s);
    }
    // ---- exhaustive tier
    if (A.getl("exhaustive", 1)) {
        long c = 800000;
        for (int setKind = 0; setKind < 3; setKind++)
            for (int setRule = 0; setRule < 2; setRule++) {
                if (setKind == SK_MTINT && setRule == RULE_QUASI) continue;
                for (int relRule = 0; relRule < 3; relRule++)
                    for (int relMask = 0; relMask < 16; relMask++, c++) {
                        if (!A.selected(c)) continue;
                        Scn s = exhaustiveScenario(relMask, setKind, setRule, relRule, allow);
                        runInProcess(c, s);
                        STATS.hit("exhaustive.cases");
                    }
            }
    }
    // ---- probes of the known trigger classes
    if (A.getl("probes", 1)) {
        for (int i = 0; i < NPROBES; i++) {
            long c = 900000 + i;
            if (!A.selected(c)) continue;
            Scn s = parseScenario(PROBES[i].text);
            s.tag = PROBES[i].tag;
            runForked(c, s);
        }
    }
    libCleanup();
    return 0;
}
FamilyReg reg("reach", run, "C08 reachability (BFS with/without frontier, saturation; fwd/bwd; distances) = least fixed point");
}  // namespace
