// Family `canon` (C01, C02, C06-audit, C12): the same function built along different paths must be
// the identical edge; every quiescent state of the forest must pass the canonical-form certificate.
//
// Paths: (0) minterm collection; (1) two halves in shuffled order combined by an operation;
// (2) copy into a forest with another reduction rule / range and back; (3) an operation chain that
// is the identity on functions; (4) rebuilt after everything else was released, caches cleared and
// handles recycled by unrelated garbage.
#include "common.h"
#include <cmath>
using namespace MEDDLY;
using namespace mdh;

namespace {

struct Held { std::string name; dd_edge e; std::vector<Val> target; int path; };

bool isEVP(const Kind& k) { return k.el == edge_labeling::EVPLUS; }
bool isEVT(const Kind& k) { return k.el == edge_labeling::EVTIMES; }
bool isBoolMT(const Kind& k) { return k.el == edge_labeling::MULTI_TERMINAL && k.rt == range_type::BOOLEAN; }

// combine two functions with disjoint supports
bool combine(const Kind& k, const dd_edge& a, const dd_edge& b, dd_edge& out) {
    try {
        if (isBoolMT(k)) apply(UNION, a, b, out);
        else if (isEVP(k)) apply(MINIMUM, a, b, out);
        else if (isEVT(k)) return false;
        else apply(PLUS, a, b, out);
        return true;
    } catch (error& e) {
        STATS.hit(std::string("combine.err.") + errName(e));
        return false;
    }
}

// an operation chain that is the identity: bool (f u g) \ (g \ f); numeric (f + g) - g
bool roundChain(const Kind& k, forest* F, const Dom& D, Rng& r, const dd_edge& f, dd_edge& out) {
    try {
        if (isEVT(k)) return false;
        dd_edge g(F);
        if (isEVP(k)) {
            // g finite everywhere
            std::vector<Val> tg(D.card(k.rel));
            for (auto& v : tg) v = Val::integer(r.range(0, 4));
            buildFromTable(D, F, k, tg, g);
        } else {
            buildFromTable(D, F, k, randomTable(r, D, k, 40), g);
        }
        if (isBoolMT(k)) {
            dd_edge u(F), d(F);
            apply(UNION, f, g, u);
            apply(DIFFERENCE, g, f, d);
            apply(DIFFERENCE, u, d, out);
        } else {
            dd_edge s(F);
            apply(PLUS, f, g, s);
            apply(MINUS, s, g, out);
        }
        return true;
    } catch (error& e) {
        STATS.hit(std::string("chain.err.") + errName(e));
        return false;
    }
}

int run(const Args& A) {
    libInit();
    long ncases = A.cases > 0 ? A.cases : (A.thorough() ? 1500 : 260);
    std::vector<Kind> kinds = allKinds(true, true);
    for (long c = 0; c < ncases; c++) {
        if (!A.selected(c)) continue;
        Rng r(Rng::mix(A.seed, uint64_t(c)));
        Kind k = kinds[r.below(unsigned(kinds.size()))];
        if (k.el == edge_labeling::INDEX_SET) continue;
        Dom D = randomDom(r, 1, k.rel ? 3 : (A.thorough() ? 5 : 4), A.thorough() ? 4 : 3, k.rel ? 700 : 260, k.rel);
        D.create();
        beginCase(c);
        emits(D.str());
        Pol pol = r.chance(1, 2) ? Pol::random(r) : Pol();
        forest* F = makeForest(D.d, k, pol);
        emitForest("F", F, k, pol);
        // partner forest for copy round trips: same labeling and range, another rule (lossless)
        Kind kg = k;
        {
            std::vector<reduction_rule> rules = {reduction_rule::FULLY_REDUCED, reduction_rule::QUASI_REDUCED};
            if (k.rel) rules.push_back(reduction_rule::IDENTITY_REDUCED);
            kg.rr = r.pick(rules);
        }
        Pol polg = Pol::random(r);
        forest* G = makeForest(D.d, kg, polg);
        emitForest("G", G, kg, polg);
        STATS.hit("kind." + k.str());

        std::vector<Held*> held;
        int ntargets = r.range(2, 5);
        std::vector<std::vector<Val>> targets;
        for (int t = 0; t < ntargets; t++) {
            if (t > 0 && r.chance(1, 4)) {
                // near-duplicate of an earlier target: change one assignment
                std::vector<Val> v = targets[r.below(unsigned(targets.size()))];
                size_t i = r.below(unsigned(v.size()));
                Val nv = randomValue(r, k, true);
                v[i] = nv;
                targets.push_back(v);
            } else {
                static const unsigned dens[] = {0, 5, 20, 50, 80, 100};
                if (r.chance(1, 3)) { targets.push_back(structuredTable(r, D, k, dens[1 + r.below(5)])); STATS.hit("gen.structured"); }
                else targets.push_back(randomTable(r, D, k, dens[r.below(6)]));
            }
        }
        // EV* forests: half of the cases use TINY magnitudes (2^-21 .. 2^-30, exact in a float and above the
        // library's 1e-10 zero threshold): values that differ by a factor >= 2 but by less than 1e-6 absolutely
        // must still be different edge values / different nodes
        if (isEVT(k) && r.chance(1, 2)) {
            STATS.hit("gen.evtimes.tiny");
            for (auto& tg : targets)
                for (auto& v : tg)
                    if (v != k.zero() && !r.chance(1, 5)) {
                        double m = std::ldexp(1.0, -int(r.range(21, 30)));
                        v = Val::real(v.n < 0 ? -m : m);
                    }
        }
        // EV+ forests: a third of the cases carry a LARGE offset (beyond 2^31, 2^32) on every finite value: built from
        // minterms the children carry it, built as (small function) + constant it sits on the root edge only - the
        // normal form (minimum pulled up, 64-bit edge values) must make both the same edge
        long bigOffset = 0;
        if (isEVP(k) && r.chance(1, 3)) {
            static const long offs[] = {(1L << 31) + 5, 1L << 33, (1L << 40) + 12345};
            bigOffset = offs[r.below(3)];
            STATS.hit("gen.evplus.big-offset");
            for (auto& tg : targets) for (auto& v : tg) if (v.t == Val::I) v.n += bigOffset;
        }
        int serial = 0;
        auto hold = [&](const std::vector<Val>& tgt, int path) -> Held* {
            Held* h = new Held{std::string("E") + std::to_string(serial++), dd_edge(F), tgt, path};
            held.push_back(h);
            return h;
        };
        for (int round = 0; round < 2; round++) {
            for (size_t t = 0; t < targets.size(); t++) {
                const std::vector<Val>& tgt = targets[t];
                // path 0
                if (round == 0 || r.chance(1, 2)) {
                    Held* h = hold(tgt, round == 0 ? 0 : 4);
                    buildFromTable(D, F, k, tgt, h->e);
                    STATS.hit(round == 0 ? "path.0" : "path.4");
                }
                // path 1: halves
                if (r.chance(2, 3)) {
                    std::vector<Val> a(tgt.size(), k.zero()), b(tgt.size(), k.zero());
                    for (size_t i = 0; i < tgt.size(); i++) (r.chance(1, 2) ? a : b)[i] = tgt[i];
                    dd_edge ea(F), eb(F), res(F);
                    if (r.chance(1, 2)) { buildFromTable(D, F, k, b, eb); buildFromTable(D, F, k, a, ea); }
                    else { buildFromTable(D, F, k, a, ea); buildFromTable(D, F, k, b, eb); }
                    if (combine(k, ea, eb, res)) { Held* h = hold(tgt, 1); h->e = res; STATS.hit("path.1"); }
                }
                // path 2: copy there and back
                if (r.chance(1, 2)) {
                    try {
                        dd_edge src(F), there(G), back(F);
                        buildFromTable(D, F, k, tgt, src);
                        apply(COPY, src, there);
                        apply(COPY, there, back);
                        Held* h = hold(tgt, 2); h->e = back; STATS.hit("path.2");
                    } catch (error& e) { STATS.hit(std::string("copy.err.") + errName(e)); }
                }
                // path 5 (EV+ with a large offset): small function + constant
                if (bigOffset && r.chance(2, 3)) {
                    try {
                        std::vector<Val> small = tgt;
                        for (auto& v : small) if (v.t == Val::I) v.n -= bigOffset;
                        dd_edge es(F), ec(F), res(F);
                        buildFromTable(D, F, k, small, es);
                        F->createConstant(bigOffset, ec);
                        apply(PLUS, es, ec, res);
                        Held* h = hold(tgt, 5); h->e = res; STATS.hit("path.5");
                    } catch (error& e) { STATS.hit(std::string("path5.err.") + errName(e)); }
                }
                // path 3: identity chain
                if (r.chance(1, 2)) {
                    dd_edge src(F), res(F);
                    buildFromTable(D, F, k, tgt, src);
                    if (roundChain(k, F, D, r, src, res)) { Held* h = hold(tgt, 3); h->e = res; STATS.hit("path.3"); }
                }
            }
            if (round == 0) {
                // observe, then churn: release a random half, clear caches, create and drop garbage
                for (Held* h : held) emitTable(h->name, "F", D, h->e);
                emitAudit("F", F, k);
                for (Held* h : held) emitRoot(h->name, "F", h->e, k);
                for (size_t i = 0; i < held.size(); i++)
                    for (size_t j = i + 1; j < held.size(); j++)
                        emitEq(held[i]->name, held[j]->name, held[i]->e, held[j]->e);
                std::vector<Held*> keep;
                for (Held* h : held) { if (r.chance(1, 2)) keep.push_back(h); else delete h; }
                held.swap(keep);
                if (r.chance(2, 3)) { F->removeAllComputeTableEntries(); G->removeAllComputeTableEntries(); STATS.hit("churn.clearCT"); }
                int garbage = r.range(0, 6);
                for (int g = 0; g < garbage; g++) {
                    dd_edge junk(F);
                    buildFromTable(D, F, k, randomTable(r, D, k, 50), junk);
                }
                if (r.chance(1, 2)) F->removeAllComputeTableEntries();
                STATS.hit("churn.garbage", garbage);
            }
        }
        for (Held* h : held) emitTable(h->name, "F", D, h->e);
        emitAudit("F", F, k);
        emitAudit("G", G, kg);
        for (Held* h : held) emitRoot(h->name, "F", h->e, k);
        size_t pairs = 0;
        for (size_t i = 0; i < held.size(); i++)
            for (size_t j = i + 1; j < held.size(); j++) {
                emitEq(held[i]->name, held[j]->name, held[i]->e, held[j]->e);
                ++pairs;
            }
        STATS.hit("eq.pairs", long(pairs));
        // every held edge must still denote its target (C06: held edges keep their function)
        for (Held* h : held) {
            emit("input %s %s", h->name.c_str(), tableStr(h->target).c_str());
            emitTable(h->name, "F", D, h->e);
        }
        // release everything: nothing may leak (C06)
        for (Held* h : held) delete h;
        held.clear();
        F->removeAllComputeTableEntries();
        G->removeAllComputeTableEntries();
        emit("expect leak-F 0 %ld", F->getCurrentNumNodes());
        emit("expect leak-G 0 %ld", G->getCurrentNumNodes());
        endCase();
        forest::destroy(F);
        forest::destroy(G);
        D.destroy();
    }
    libCleanup();
    return 0;
}
FamilyReg reg("canon", run, "C01/C02/C06/C12 canonicity across build paths, certificates of the node store");
}  // namespace
