// Family `ctable` (C07): compute tables are transparent.
//
// Part 1 (mode trace): synthetic entry types (like tests/chk_ct.cc) over two small MT forests;
// random find / add / removeStales / removeAll / forest-clear against REAL nodes that are built,
// released (so they die) and rebuilt (handle reuse); one library configuration per case,
// cycling through 4 styles x 3 stale policies x maxSize in {1, 1024, 2048, default}.
// Part 2 (mode e2e): one script of real operations executed under several configurations;
// result tables must agree between configurations and with the pointwise oracle.
//
// Transcript grammar: see NOTES.md (ctable).
#include "common.h"
#include "compute_table.h"
#include "ct_entry_type.h"
#include "ct_vector.h"
#include "ct_initializer.h"
using namespace MEDDLY;
using namespace mdh;

namespace {

const long DEFAULT_MAXSIZE = 16777216;

std::vector<CTConf> allConfs(bool thorough) {
    std::vector<CTConf> v;
    // 1 = smallest value the constructor accepts (0 throws); 1024 = initial table size;
    // 2048 = the only small value the doubling sequence ever hits (so the limit really binds)
    (void) thorough;
    std::vector<long> sizes = {1, 1024, 2048, DEFAULT_MAXSIZE};
    for (int st = 0; st < 4; st++)
        for (int sl = 0; sl < 3; sl++)
            for (long ms : sizes) { CTConf c; c.style = st; c.stale = sl; c.maxSize = ms; v.push_back(c); }
    return v;
}
inline bool isMono(const CTConf& c) { return c.style < 2; }
inline bool isChained(const CTConf& c) { return c.style == 0 || c.style == 2; }

// ------------------------------------------------------------------------------------------
// stale removal on every compute table of the library (monolithic, or one per entry type)
// ------------------------------------------------------------------------------------------
void removeStalesEverywhere() {
    if (compute_table::removeStalesFromMonolithic()) return;
    // per-operation tables: entry type ids are handed out sequentially; a throw-away entry type
    // tells us the current upper bound.
    ct_entry_type* s = new ct_entry_type("mdh_sentinel");
    s->setFixed(ct_itemtype('I'));
    s->setResult(ct_itemtype('I'));
    s->doneBuilding();
    unsigned top = s->getID();
    s->markForDestroy();   // no entries -> deleted right away
    for (unsigned i = 1; i < top; i++) {
        const ct_entry_type* et = ct_entry_type::getEntryType(i);
        if (!et) continue;
        compute_table* ct = et->getCT();
        if (ct) ct->removeStales();
    }
}

// ==========================================================================================
//                                      PART 1: trace
// ==========================================================================================

struct FInfo {
    forest* F = nullptr;
    Kind k;
    Pol p;
    int idx = 0;
    int topLevel = 0;
    std::vector<std::vector<Val>> pool;
    std::map<std::string, int> poolIdx;
    std::vector<dd_edge*> slot;
    std::vector<int> slotC;
    bool destroyed = false;
    std::set<node_handle> tracked;
    std::map<node_handle, std::string> lastObs;
    std::map<node_handle, std::string> lastContent;   // last content other than D
};

// item codes: >= 0 : node of forest <code> ; -1 : 'I' ; -2 : 'L'
struct ETInfo {
    ct_entry_type* et = nullptr;
    std::vector<int> key, res;
    unsigned long lastScans = 0;
    long lastEntries = -1;
};

struct KeyRec { int et; std::vector<long> items; };   // node items: handle

struct Trace {
    const Dom& D;
    CTConf conf;
    FInfo f[2];
    ETInfo e[4];
    std::vector<KeyRec> past;
    Rng& r;
    Trace(const Dom& d, Rng& rr) : D(d), r(rr) {}

    bool alive(int fi, node_handle h) const {
        const FInfo& X = f[fi];
        if (X.destroyed) return false;
        if (h < 1) return true;
        if (h > X.F->getLastNode()) return false;
        return !X.F->isDeletedNode(h);
    }
    // logical identity of the node currently sitting at handle h: index of its function in the
    // pool, U = some other function, D = no node
    std::string content(int fi, node_handle h) {
        FInfo& X = f[fi];
        if (!alive(fi, h)) return "D";
        if (X.k.rr == reduction_rule::QUASI_REDUCED && X.F->getNodeLevel(h) != X.topLevel) return "U";
        dd_edge tmp(X.F);
        tmp.set_and_link(h);
        std::string t = tableStr(tableOf(D, tmp));
        auto it = X.poolIdx.find(t);
        if (it == X.poolIdx.end()) return "U";
        return std::to_string(it->second);
    }
    std::string nodeTok(int fi, node_handle h) {
        FInfo& X = f[fi];
        char buf[64];
        if (h < 1) {
            if (X.destroyed) return "T0";
            if (X.k.rt == range_type::BOOLEAN) snprintf(buf, sizeof buf, "T%d", X.F->getBooleanFromHandle(h) ? 1 : 0);
            else snprintf(buf, sizeof buf, "T%d", X.F->getIntegerFromHandle(h));
            return buf;
        }
        if (!X.destroyed) X.tracked.insert(h);
        snprintf(buf, sizeof buf, "N%d.%d.", fi, h);
        return std::string(buf) + content(fi, h);
    }
    std::string itemTok(int code, long v) {
        if (code >= 0) return nodeTok(code, node_handle(v));
        return "I" + std::to_string(v);
    }
    compute_table* tableOfET(int i) { return e[i].et->getCT(); }
    int tableId(int i) { return isMono(conf) ? 0 : i; }

    void pollGC(const char* when) {
        std::set<int> seen;
        for (int i = 0; i < 4; i++) {
            unsigned long s = tableOfET(i)->getStats().resizeScans;
            if (s != e[i].lastScans) {
                e[i].lastScans = s;
                if (seen.insert(tableId(i)).second) { emit("gc %d %s", tableId(i), when); STATS.hit("trace.gc"); }
            }
        }
    }

    void sync() {
        pollGC("sync");
        for (int fi = 0; fi < 2; fi++) {
            FInfo& X = f[fi];
            if (X.destroyed) continue;
            node_handle last = X.F->getLastNode();
            node_handle mx = last;
            if (!X.tracked.empty()) mx = std::max(mx, *X.tracked.rbegin());
            std::vector<unsigned long> counts(size_t(mx) + 1026, 0);
            compute_table::countAllNodeEntries(X.F, counts);
            for (node_handle h : X.tracked) {
                bool al = alive(fi, h);
                std::string c = content(fi, h);
                if (c != "D") {
                    auto lc = X.lastContent.find(h);
                    if (lc != X.lastContent.end() && lc->second != c) STATS.hit("trace.handleReuse");
                    X.lastContent[h] = c;
                } else if (h <= X.F->getLastNode() && X.F->verifCacheCount(h) > 0) {
                    STATS.hit("trace.deadButCached");
                }
                unsigned long inc = al ? X.F->getNodeInCount(h) : 0;
                unsigned long cc = (h <= X.F->getLastNode()) ? X.F->verifCacheCount(h) : 0;
                char buf[160];
                snprintf(buf, sizeof buf, "obs N%d.%d %d %lu %lu %lu %s", fi, h, al ? 1 : 0, inc, cc, counts[size_t(h)], c.c_str());
                std::string line = buf;
                auto it = X.lastObs.find(h);
                if (it == X.lastObs.end() || it->second != line) { emits(line); X.lastObs[h] = line; }
            }
        }
        for (int i = 0; i < 4; i++) {
            long n = long(e[i].et->getNumEntries());
            if (n != e[i].lastEntries) { emit("entries %d %ld", i, n); e[i].lastEntries = n; }
        }
        emit("sync");
    }

    bool heldNode(int fi, node_handle h) {
        if (h < 1) return true;
        FInfo& X = f[fi];
        if (X.destroyed) return false;
        for (dd_edge* s : X.slot) if (s && s->getNode() == h) return true;
        return false;
    }
    bool pickHeld(int fi, long& out) {
        FInfo& X = f[fi];
        if (X.destroyed) return false;
        std::vector<int> occ;
        for (size_t i = 0; i < X.slot.size(); i++) if (X.slot[i]) occ.push_back(int(i));
        if (occ.empty()) return false;
        out = X.slot[size_t(r.pick(occ))]->getNode();
        return true;
    }

    // one find, and on a miss possibly the add
    void lookup(int ei, const std::vector<long>& keyItems, bool mayAdd) {
        ETInfo& E = e[ei];
        ct_vector key(unsigned(E.key.size()));
        ct_vector res(unsigned(E.res.size()));
        std::string ks;
        for (size_t i = 0; i < E.key.size(); i++) {
            if (E.key[i] >= 0) key[unsigned(i)].setN(node_handle(keyItems[i]));
            else key[unsigned(i)].setI(int(keyItems[i]));
            ks += " " + itemTok(E.key[i], keyItems[i]);
        }
        if (E.et->findCT(key, res)) {
            std::string rs;
            for (size_t i = 0; i < E.res.size(); i++) {
                long v = E.res[i] >= 0 ? long(res[unsigned(i)].getN()) : E.res[i] == -1 ? long(res[unsigned(i)].getI()) : res[unsigned(i)].getL();
                rs += " " + itemTok(E.res[i], v);
            }
            emit("find %d%s -> hit%s", ei, ks.c_str(), rs.c_str());
            STATS.hit("trace.hit");
            return;
        }
        emit("find %d%s -> miss", ei, ks.c_str());
        STATS.hit("trace.miss");
        // result forests must exist for an add
        bool can = mayAdd;
        for (int c : E.key) if (c >= 0 && f[c].destroyed) can = false;
        for (int c : E.res) if (c >= 0 && f[c].destroyed) can = false;
        std::vector<long> resItems;
        if (can) {
            for (int c : E.res) {
                long v = 0;
                if (c >= 0) { if (!pickHeld(c, v)) { can = false; break; } }
                else v = long(r.below(1000));
                resItems.push_back(v);
            }
        }
        if (!can) { E.et->noaddCT(key); STATS.hit("trace.noadd"); return; }
        std::string rs;
        for (size_t i = 0; i < E.res.size(); i++) {
            if (E.res[i] >= 0) res[unsigned(i)].setN(node_handle(resItems[i]));
            else if (E.res[i] == -1) res[unsigned(i)].setI(int(resItems[i]));
            else res[unsigned(i)].setL(resItems[i]);
            rs += " " + itemTok(E.res[i], resItems[i]);
        }
        E.et->addCT(key, res);
        emit("add %d%s ->%s", ei, ks.c_str(), rs.c_str());
        STATS.hit("trace.add");
        if (past.size() < 400) past.push_back({ei, keyItems}); else past[r.below(400)] = {ei, keyItems};
        pollGC("add");
    }

    bool randomKey(int ei, std::vector<long>& out, int intRange) {
        out.clear();
        for (int c : e[ei].key) {
            long v;
            if (c >= 0) { if (!pickHeld(c, v)) return false; }
            else v = long(r.below(unsigned(intRange)));
            out.push_back(v);
        }
        return true;
    }

    void build(int fi, int s, int c) {
        FInfo& X = f[fi];
        if (X.slot[size_t(s)]) release(fi, s);
        dd_edge* ed = new dd_edge(X.F);
        buildFromTable(D, X.F, X.k, X.pool[size_t(c)], *ed);
        X.slot[size_t(s)] = ed;
        X.slotC[size_t(s)] = c;
        emit("build %d %d %d %s", fi, s, c, nodeTok(fi, ed->getNode()).c_str());
        STATS.hit("trace.build");
    }
    void release(int fi, int s) {
        FInfo& X = f[fi];
        dd_edge* ed = X.slot[size_t(s)];
        if (!ed) return;
        node_handle h = ed->getNode();
        std::string tok = nodeTok(fi, h);
        X.slot[size_t(s)] = nullptr;
        delete ed;
        emit("release %d %d", fi, s);
        if (!heldNode(fi, h)) { emit("kill %s", tok.c_str()); STATS.hit("trace.kill"); }
    }
    void rmStales() {
        std::set<compute_table*> done;
        for (int i = 0; i < 4; i++) if (done.insert(tableOfET(i)).second) tableOfET(i)->removeStales();
        emit("rmstales");
        STATS.hit("trace.rmstales");
    }
    void rmAll() {
        std::set<compute_table*> done;
        for (int i = 0; i < 4; i++) if (done.insert(tableOfET(i)).second) tableOfET(i)->removeAll();
        emit("rmall");
        STATS.hit("trace.rmall");
    }
    void clearForest(int fi) {
        if (f[fi].destroyed) return;
        f[fi].F->removeAllComputeTableEntries();
        emit("clearf %d", fi);
        STATS.hit("trace.clearf");
    }
};

void runTrace(const Args& A, long c, const CTConf& conf) {
    Rng r(Rng::mix(A.seed, uint64_t(c)));
    libInit(&conf);
    Dom D = randomDom(r, 2, 3, 3, 27, false);
    D.create();
    emit("case %ld", c);
    emit("mode trace");
    emit("cfg %d %d %ld", conf.style, conf.stale, conf.maxSize);
    emits(D.str());
    {
        Trace T(D, r);
        T.conf = conf;
        const int NSLOT = 6;
        for (int fi = 0; fi < 2; fi++) {
            FInfo& X = T.f[fi];
            X.idx = fi;
            X.k.rel = false;
            X.k.rt = r.chance(1, 2) ? range_type::BOOLEAN : range_type::INTEGER;
            X.k.el = edge_labeling::MULTI_TERMINAL;
            X.k.rr = r.chance(1, 3) ? reduction_rule::QUASI_REDUCED : reduction_rule::FULLY_REDUCED;
            X.p.storage = int(r.below(3));
            X.p.mm = int(r.below(4));
            // forest 1 (the result forest of most types) is mostly pessimistic so that result nodes die
            if (fi == 1) X.p.del = r.chance(2, 3) ? 2 : 1;
            else X.p.del = r.chance(1, 2) ? 1 : (r.chance(4, 5) ? 2 : 0);
            X.F = makeForest(D.d, X.k, X.p);
            X.topLevel = int(D.K());
            size_t n = D.card(false);
            int npool = 10;
            int guard = 0;
            while (int(X.pool.size()) < npool && guard++ < 1000) {
                std::vector<Val> t(n, X.k.zero());
                bool constant = X.pool.size() == 0 && r.chance(1, 3);
                for (size_t i = 0; i < n; i++) {
                    if (constant) { t[i] = X.k.rt == range_type::BOOLEAN ? Val::boolean(true) : Val::integer(2); continue; }
                    if (X.k.rt == range_type::BOOLEAN) t[i] = Val::boolean(r.chance(1, 2));
                    else t[i] = Val::integer(long(r.below(4)));
                }
                std::string s = tableStr(t);
                if (X.poolIdx.count(s)) continue;
                X.poolIdx[s] = int(X.pool.size());
                X.pool.push_back(t);
            }
            X.slot.assign(NSLOT, nullptr);
            X.slotC.assign(NSLOT, -1);
            emit("forest %d %s %s", fi, X.k.str().c_str(), X.p.str().c_str());
            STATS.hit(std::string("trace.del.") + (X.p.del == 0 ? "never" : X.p.del == 1 ? "optimistic" : "pessimistic"));
        }
        // entry types
        {
            forest* F0 = T.f[0].F; forest* F1 = T.f[1].F;
            const char* names[4] = {"mdh_nn_n", "mdh_in_l", "mdh_nn_n2", "mdh_i_n"};
            for (int i = 0; i < 4; i++) T.e[i].et = new ct_entry_type(names[i]);
            T.e[0].et->setFixed(F0, F0); T.e[0].et->setResult(F0);
            T.e[0].key = {0, 0}; T.e[0].res = {0};
            T.e[1].et->setFixed(ct_itemtype('I'), F0); T.e[1].et->setResult(ct_itemtype('L'));
            T.e[1].key = {-1, 0}; T.e[1].res = {-2};
            T.e[2].et->setFixed(F0, F1); T.e[2].et->setResult(F1);
            T.e[2].key = {0, 1}; T.e[2].res = {1};
            T.e[3].et->setFixed(ct_itemtype('I')); T.e[3].et->setResult(F1);
            T.e[3].key = {-1}; T.e[3].res = {1};
            for (int i = 0; i < 4; i++) {
                T.e[i].et->doneBuilding();
                T.e[i].lastScans = T.e[i].et->getCT()->getStats().resizeScans;
                std::string pat;
                for (int cde : T.e[i].key) pat += cde >= 0 ? "N" + std::to_string(cde) : "I";
                pat += ":";
                for (int cde : T.e[i].res) pat += cde >= 0 ? "N" + std::to_string(cde) : "I";
                emit("etype %d %s", i, pat.c_str());
            }
        }
        // initial population
        for (int fi = 0; fi < 2; fi++)
            for (int s = 0; s < 3; s++) T.build(fi, s, int(r.below(unsigned(T.f[fi].pool.size()))));
        T.sync();
        int nsteps = A.thorough() ? r.range(80, 220) : r.range(50, 120);
        // a few cases stress the table geometry with bulk adds
        bool bulky = r.chance(1, 4);
        bool huge = A.thorough() && r.chance(1, 8);
        for (int st = 0; st < nsteps; st++) {
            unsigned a = r.below(100);
            if (a < 16) {
                int fi = int(r.below(2));
                T.build(fi, int(r.below(NSLOT)), int(r.below(unsigned(T.f[fi].pool.size()))));
            } else if (a < 30) {
                int fi = int(r.below(2));
                int s = int(r.below(NSLOT));
                if (T.f[fi].slot[size_t(s)]) T.release(fi, s);
            } else if (a < 66) {
                int ei = int(r.below(4));
                std::vector<long> k;
                if (T.randomKey(ei, k, ei == 3 ? 8 : 40)) T.lookup(ei, k, r.chance(4, 5));
            } else if (a < 78) {
                // re-find an earlier key whose nodes we still hold
                if (!T.past.empty()) {
                    const KeyRec kr = T.past[r.below(unsigned(T.past.size()))];
                    bool ok = true;
                    for (size_t i = 0; i < kr.items.size(); i++) {
                        int cde = T.e[kr.et].key[i];
                        if (cde >= 0 && !(kr.items[i] >= 1 && T.heldNode(cde, node_handle(kr.items[i])))) ok = false;
                    }
                    if (ok) { T.lookup(kr.et, kr.items, r.chance(1, 2)); STATS.hit("trace.refind"); }
                }
            } else if (a < 84) {
                int n = bulky ? r.range(100, 500) : r.range(10, 60);
                if (huge && r.chance(1, 3)) n = r.range(1500, 4000);
                std::vector<long> k;
                for (int i = 0; i < n; i++)
                    if (T.randomKey(1, k, huge ? 3000 : 600)) T.lookup(1, k, true);
                STATS.hit("trace.bulk");
            } else if (a < 90) {
                T.rmStales();
            } else if (a < 93) {
                T.rmAll();
            } else if (a < 97) {
                T.clearForest(int(r.below(2)));
            } else {
                // several finds of type 3 (int key, node result): result nodes may be dead by now
                for (int i = 0; i < 8; i++) T.lookup(3, {long(i)}, false);
            }
            T.sync();
        }
        // sometimes: destroy the second forest while entries still mention it
        if (r.chance(1, 3)) {
            FInfo& X = T.f[1];
            for (size_t s = 0; s < X.slot.size(); s++) if (X.slot[s]) { delete X.slot[s]; X.slot[s] = nullptr; }
            forest::destroy(X.F);
            X.destroyed = true;
            emit("fdestroy 1");
            STATS.hit("trace.fdestroy");
            T.sync();
            for (int i = 0; i < 8; i++) T.lookup(3, {long(i)}, false);
            T.sync();
            for (int i = 0; i < 6; i++) {
                int ei = int(r.below(2));
                std::vector<long> k;
                if (T.randomKey(ei, k, 40)) T.lookup(ei, k, true);
            }
            T.sync();
            T.rmStales();
            T.sync();
        }
        T.rmAll();
        T.sync();
        for (int i = 0; i < 4; i++) T.e[i].et->markForDestroy();
        for (int fi = 0; fi < 2; fi++) {
            FInfo& X = T.f[fi];
            for (dd_edge* s : X.slot) if (s) delete s;
            X.slot.clear();
            if (!X.destroyed) forest::destroy(X.F);
        }
    }
    emit("endcase");
    fflush(stdout);   // keep finished cases if a later one crashes
    D.destroy();
    libCleanup();
}

// ==========================================================================================
//                                      PART 2: end to end
// ==========================================================================================

enum EKind { E_BUILD, E_OP, E_RELEASE, E_RMSTALES, E_CLEARF };
struct EStep {
    EKind kind;
    int forest = 0;       // 0 = boolean forest, 1 = integer forest (destination forest)
    int a = -1, b = -1, dst = -1;
    int op = 0;           // 0 UNION 1 INTERSECTION 2 PLUS 3 MULTIPLY 4 COPY(bool->int) 5 MAXIMUM
    std::vector<Val> table;
};
const char* OPN[] = {"UNION", "INTERSECTION", "PLUS", "MULTIPLY", "COPY", "MAXIMUM"};

struct Script {
    Dom D;
    Kind kb, ki;
    Pol pb, pi;
    std::vector<EStep> steps;
};

Script makeScript(Rng& r, bool thorough) {
    Script S;
    S.D = randomDom(r, 2, thorough ? 4 : 3, 3, 40, false);
    S.kb.rel = false; S.kb.rt = range_type::BOOLEAN; S.kb.el = edge_labeling::MULTI_TERMINAL;
    S.kb.rr = r.chance(1, 3) ? reduction_rule::QUASI_REDUCED : reduction_rule::FULLY_REDUCED;
    S.ki = S.kb; S.ki.rt = range_type::INTEGER;
    S.ki.rr = r.chance(1, 3) ? reduction_rule::QUASI_REDUCED : reduction_rule::FULLY_REDUCED;
    S.pb.storage = int(r.below(3)); S.pb.mm = int(r.below(4)); S.pb.del = r.chance(1, 2) ? 1 : 2;
    S.pi.storage = int(r.below(3)); S.pi.mm = int(r.below(4)); S.pi.del = r.chance(1, 2) ? 1 : 2;
    const int NS = 5;
    size_t n = S.D.card(false);
    // oracle tables per slot (to keep integer values bounded); empty vector = free slot
    std::vector<std::vector<long>> tb[2];
    tb[0].assign(NS, {}); tb[1].assign(NS, {});
    std::vector<EStep> history;   // builds, for rebuilds
    int nsteps = thorough ? r.range(40, 100) : r.range(25, 60);
    auto occupied = [&](int f) { std::vector<int> o; for (int i = 0; i < NS; i++) if (!tb[f][size_t(i)].empty()) o.push_back(i); return o; };
    for (int st = 0; st < nsteps; st++) {
        unsigned a = r.below(100);
        EStep e;
        if (a < 22 || st < 3) {
            e.kind = E_BUILD;
            e.forest = int(r.below(2));
            e.dst = int(r.below(NS));
            if (!history.empty() && r.chance(1, 3)) {
                const EStep& h = history[r.below(unsigned(history.size()))];
                e.forest = h.forest; e.table = h.table;
            } else {
                unsigned dens = r.pick(std::vector<unsigned>{10, 30, 50, 80});
                e.table.assign(n, e.forest == 0 ? Val::boolean(false) : Val::integer(0));
                for (size_t i = 0; i < n; i++)
                    if (r.below(100) < dens) e.table[i] = e.forest == 0 ? Val::boolean(true) : Val::integer(long(1 + r.below(3)));
            }
            std::vector<long> t(n);
            for (size_t i = 0; i < n; i++) t[i] = e.table[i].n;
            tb[e.forest][size_t(e.dst)] = t;
            history.push_back(e);
        } else if (a < 72) {
            e.kind = E_OP;
            int op = int(r.below(6));
            int f = (op <= 1) ? 0 : 1;
            int fa = (op == 4) ? 0 : f;
            std::vector<int> oa = occupied(fa), ob = occupied(f);
            if (oa.empty() || ob.empty()) continue;
            e.op = op; e.forest = f;
            e.a = r.pick(oa); e.b = (op == 4) ? -1 : r.pick(ob);
            // repeat an earlier operation quite often (warm tables)
            if (r.chance(1, 3)) {
                std::vector<const EStep*> olds;
                for (const EStep& o : S.steps) if (o.kind == E_OP) olds.push_back(&o);
                if (!olds.empty()) {
                    const EStep* o = olds[r.below(unsigned(olds.size()))];
                    int ofa = (o->op == 4) ? 0 : o->forest;
                    if (!tb[ofa][size_t(o->a)].empty() && (o->op == 4 || !tb[o->forest][size_t(o->b)].empty())) {
                        e.op = o->op; e.forest = o->forest; e.a = o->a; e.b = o->b; op = e.op; f = e.forest; fa = ofa;
                    }
                }
            }
            e.dst = int(r.below(NS));
            const std::vector<long>& ta = tb[fa][size_t(e.a)];
            std::vector<long> res(n);
            bool ok = true;
            for (size_t i = 0; i < n; i++) {
                long x = ta[i], y = (op == 4) ? 0 : tb[f][size_t(e.b)][i];
                switch (op) {
                    case 0: res[i] = (x || y); break;
                    case 1: res[i] = (x && y); break;
                    case 2: res[i] = x + y; break;
                    case 3: res[i] = x * y; break;
                    case 4: res[i] = x; break;
                    default: res[i] = std::max(x, y); break;
                }
                if (res[i] > 100000 || res[i] < -100000) ok = false;
            }
            if (!ok) continue;
            tb[f][size_t(e.dst)] = res;
        } else if (a < 88) {
            e.kind = E_RELEASE;
            e.forest = int(r.below(2));
            std::vector<int> o = occupied(e.forest);
            if (o.empty()) continue;
            e.dst = r.pick(o);
            tb[e.forest][size_t(e.dst)].clear();
        } else if (a < 95) {
            e.kind = E_RMSTALES;
        } else {
            e.kind = E_CLEARF;
            e.forest = int(r.below(2));
        }
        S.steps.push_back(e);
    }
    return S;
}

void runScript(const Script& S0, int ci, const CTConf& conf) {
    libInit(&conf);
    Script S = S0;
    S.D.d = nullptr;
    S.D.create();
    emit("ecfg %d %d %d %ld", ci, conf.style, conf.stale, conf.maxSize);
    {
        forest* F[2];
        F[0] = makeForest(S.D.d, S.kb, S.pb);
        F[1] = makeForest(S.D.d, S.ki, S.pi);
        const Kind* K[2] = {&S.kb, &S.ki};
        const int NS = 5;
        std::vector<dd_edge*> slot[2];
        slot[0].assign(NS, nullptr); slot[1].assign(NS, nullptr);
        for (size_t si = 0; si < S.steps.size(); si++) {
            const EStep& e = S.steps[si];
            switch (e.kind) {
                case E_BUILD: {
                    dd_edge* ed = new dd_edge(F[e.forest]);
                    buildFromTable(S.D, F[e.forest], *K[e.forest], e.table, *ed);
                    delete slot[e.forest][size_t(e.dst)];
                    slot[e.forest][size_t(e.dst)] = ed;
                    emit("opr %d %zu BUILD", ci, si);
                    emit("arg %d %zu A %s", ci, si, tableStr(e.table).c_str());
                    emit("res %d %zu %s", ci, si, tableStr(tableOf(S.D, *ed)).c_str());
                    STATS.hit("e2e.build");
                    break;
                }
                case E_OP: {
                    int fa = (e.op == 4) ? 0 : e.forest;
                    dd_edge* A = slot[fa][size_t(e.a)];
                    dd_edge* B = (e.op == 4) ? nullptr : slot[e.forest][size_t(e.b)];
                    dd_edge* R = new dd_edge(F[e.forest]);
                    emit("opr %d %zu %s", ci, si, OPN[e.op]);
                    emit("arg %d %zu A %s", ci, si, tableStr(tableOf(S.D, *A)).c_str());
                    if (B) emit("arg %d %zu B %s", ci, si, tableStr(tableOf(S.D, *B)).c_str());
                    try {
                        switch (e.op) {
                            case 0: apply(UNION, *A, *B, *R); break;
                            case 1: apply(INTERSECTION, *A, *B, *R); break;
                            case 2: apply(PLUS, *A, *B, *R); break;
                            case 3: apply(MULTIPLY, *A, *B, *R); break;
                            case 4: apply(COPY, *A, *R); break;
                            default: apply(MAXIMUM, *A, *B, *R); break;
                        }
                        emit("res %d %zu %s", ci, si, tableStr(tableOf(S.D, *R)).c_str());
                    } catch (error& er) {
                        emit("res %d %zu error %s", ci, si, errName(er));
                    }
                    delete slot[e.forest][size_t(e.dst)];
                    slot[e.forest][size_t(e.dst)] = R;
                    STATS.hit(std::string("e2e.op.") + OPN[e.op]);
                    break;
                }
                case E_RELEASE:
                    delete slot[e.forest][size_t(e.dst)];
                    slot[e.forest][size_t(e.dst)] = nullptr;
                    STATS.hit("e2e.release");
                    break;
                case E_RMSTALES:
                    removeStalesEverywhere();
                    STATS.hit("e2e.rmstales");
                    break;
                case E_CLEARF:
                    F[e.forest]->removeAllComputeTableEntries();
                    STATS.hit("e2e.clearf");
                    break;
            }
        }
        // final consistency of the counters of both forests against the tables
        for (int fi = 0; fi < 2; fi++) {
            node_handle last = F[fi]->getLastNode();
            std::vector<unsigned long> counts(size_t(last) + 1026, 0);
            compute_table::countAllNodeEntries(F[fi], counts);
            long bad = 0, nz = 0;
            for (node_handle h = 1; h <= last; h++) {
                if (counts[size_t(h)] != F[fi]->verifCacheCount(h)) ++bad;
                if (counts[size_t(h)]) ++nz;
            }
            emit("ccsum %d %d %ld %ld", ci, fi, nz, bad);
        }
        for (int fi = 0; fi < 2; fi++) {
            for (dd_edge* s : slot[fi]) delete s;
            forest::destroy(F[fi]);
        }
    }
    emit("endcfg %d", ci);
    S.D.destroy();
    libCleanup();
}

void runE2E(const Args& A, long c) {
    Rng r(Rng::mix(A.seed, uint64_t(c)));
    emit("case %ld", c);
    emit("mode e2e");
    Script S = makeScript(r, A.thorough());
    emits(S.D.str());
    emit("steps %zu", S.steps.size());
    std::vector<CTConf> all = allConfs(A.thorough());
    std::vector<CTConf> use;
    { CTConf d; d.style = 1; d.stale = 1; d.maxSize = 0; use.push_back(d); }   // library default
    if (A.thorough()) {
        for (const CTConf& x : all) use.push_back(x);
    } else {
        // at least one of every style, chosen from the seed
        for (int st = 0; st < 4; st++) {
            CTConf x; x.style = st; x.stale = int(r.below(3));
            x.maxSize = r.pick(std::vector<long>{1, 1024, 2048, DEFAULT_MAXSIZE});
            use.push_back(x);
        }
        use.push_back(r.pick(all));
    }
    for (size_t i = 0; i < use.size(); i++) runScript(S, int(i), use[i]);
    STATS.hit("e2e.cases");
    STATS.hit("e2e.configs", long(use.size()));
    emit("endcase");
    fflush(stdout);
}

int run(const Args& A) {
    std::vector<CTConf> confs = allConfs(A.thorough());
    long nconf = long(confs.size());
    long ntrace = A.thorough() ? nconf * 4 : nconf * 2;
    long ne2e = A.thorough() ? 30 : 12;
    if (A.cases > 0) { ntrace = A.cases; ne2e = std::max(1L, A.cases / 6); }
    long total = ntrace + ne2e;
    for (long c = 0; c < total; c++) {
        if (A.only_case >= 0 && c != A.only_case) continue;
        if (c < ntrace) {
            // the configuration is a function of the case number and the seed
            const CTConf& conf = confs[size_t((c + long(A.seed % 1000)) % nconf)];
            STATS.hit("trace.cases");
            STATS.hit("trace.style." + std::to_string(conf.style));
            runTrace(A, c, conf);
        } else {
            runE2E(A, c);
        }
    }
    return 0;
}
FamilyReg reg("ctable", run, "C07 compute tables are transparent (trace + end-to-end)");
}  // namespace
