// Family `image` (C09): one-step pre-/post-image of sets, distance functions (MT integer: negative =
// unreachable; EV+: +infinity = unreachable) under MT relations of every reduction rule, and
// vector-matrix / matrix-vector products of MT integer / real vectors and matrices.
//
// Per case: a small non-uniform domain, a set/vector forest S-forest, a relation/matrix forest and a
// result forest (possibly the set forest itself), random tables of varied structure (empty, identity,
// per-variable products with identity / don't-care / explicit levels interleaved, unions of "events",
// partial diagonals, dead ends, self loops), the operations cold and warm, the result tables, the
// operands re-read afterwards, audits of the node stores.
//
// Options: --mode image|vm|err|probe (default: mixed; probe = hand-made reproducers of the findings), --steer 0|1 (default 1:
// keep the random generator away from the triggers of the known findings F-A..F-C, see NOTES.md),
// --negmix 0|1 (MT integer operands carry several
// different negative values; default: some cases), --relrange 0|1 (integer/real valued relations as
// image relations; default 1: a few cases).
#include "common.h"
using namespace MEDDLY;
using namespace mdh;

namespace {

struct FSpec { Kind k; Pol p; forest* F = nullptr; std::string name; };

// ---------------------------------------------------------------- explicit indexing
size_t setIndex(const Dom& D, const std::vector<int>& x) {
    size_t idx = 0, stride = 1;
    for (unsigned v = 0; v < D.K(); v++) { idx += size_t(x[v]) * stride; stride *= size_t(D.sizes[v]); }
    return idx;
}
size_t relIndex(const Dom& D, const std::vector<int>& un, const std::vector<int>& pr) {
    size_t idx = 0, stride = 1;
    for (unsigned v = 0; v < D.K(); v++) {
        size_t sz = size_t(D.sizes[v]);
        idx += (size_t(pr[v]) + sz * size_t(un[v])) * stride;
        stride *= sz * sz;
    }
    return idx;
}
void setDigits(const Dom& D, size_t idx, std::vector<int>& x) {
    x.assign(D.K(), 0);
    for (unsigned v = 0; v < D.K(); v++) { x[v] = int(idx % size_t(D.sizes[v])); idx /= size_t(D.sizes[v]); }
}

// ---------------------------------------------------------------- relation structure generators
// A relation structure is a 0/1 matrix over (from-state, to-state), as a table in relation order.
typedef std::vector<char> Bits;

// per-variable local relation: sz x sz matrix; kind 0 identity, 1 all pairs, 2 random, 3 single pair,
// 4 successor function, 5 partial diagonal
std::vector<char> localRel(Rng& r, int sz, int kind) {
    std::vector<char> m(size_t(sz * sz), 0);
    switch (kind) {
        case 0: for (int i = 0; i < sz; i++) m[size_t(i * sz + i)] = 1; break;
        case 1: std::fill(m.begin(), m.end(), 1); break;
        case 2: for (auto& c : m) c = r.chance(1, 2); break;
        case 3: m[size_t(r.below(unsigned(sz)) * sz + int(r.below(unsigned(sz))))] = 1; break;
        case 4: for (int i = 0; i < sz; i++) m[size_t(i * sz + (i + 1) % sz)] = 1; break;
        default: for (int i = 0; i < sz; i++) m[size_t(i * sz + i)] = r.chance(1, 2); break;
    }
    return m;
}
// conjunction over the variables of local relations
Bits productRel(const Dom& D, const std::vector<std::vector<char>>& loc) {
    size_t n = D.card(true);
    Bits t(n, 0);
    for (size_t idx = 0; idx < n; idx++) {
        size_t rest = idx;
        bool ok = true;
        for (unsigned v = 0; v < D.K() && ok; v++) {
            size_t sz = size_t(D.sizes[v]);
            size_t pr = rest % sz; rest /= sz;
            size_t un = rest % sz; rest /= sz;
            ok = loc[v][un * sz + pr] != 0;
        }
        t[idx] = ok;
    }
    return t;
}
Bits randomEvent(Rng& r, const Dom& D, unsigned identBias) {
    std::vector<std::vector<char>> loc;
    for (unsigned v = 0; v < D.K(); v++) {
        int kind = r.below(10) < identBias ? 0 : int(r.below(6));
        loc.push_back(localRel(r, D.sizes[v], kind));
        STATS.hit(std::string("rel.local.") + std::to_string(kind));
    }
    return productRel(D, loc);
}

Bits genRelation(Rng& r, const Dom& D, std::string& style) {
    size_t n = D.card(true);
    Bits t(n, 0);
    switch (r.below(9)) {
        case 0: {   // random density
            unsigned d = r.pick(std::vector<unsigned>{3, 10, 30, 60, 100});
            for (auto& c : t) c = r.below(100) < d;
            style = "random";
            break;
        }
        case 1: {   // identity on every variable
            std::vector<std::vector<char>> loc;
            for (unsigned v = 0; v < D.K(); v++) loc.push_back(localRel(r, D.sizes[v], 0));
            t = productRel(D, loc);
            style = "identity";
            break;
        }
        case 2: style = "empty"; break;
        case 3: case 4: t = randomEvent(r, D, 4); style = "product"; break;
        case 5: case 6: {   // union of events, mostly identity levels (Petri-net like)
            int ev = r.range(2, 4);
            for (int e = 0; e < ev; e++) { Bits b = randomEvent(r, D, 6); for (size_t i = 0; i < n; i++) t[i] |= b[i]; }
            style = "events";
            break;
        }
        case 7: {   // random + self loops on some states + dead ends (emptied rows)
            for (auto& c : t) c = r.below(100) < 25;
            size_t ns = D.card(false);
            std::vector<int> x;
            for (size_t s = 0; s < ns; s++) {
                setDigits(D, s, x);
                if (r.chance(1, 3)) t[relIndex(D, x, x)] = 1;        // self loop
                if (r.chance(1, 4)) {                                  // dead end: no outgoing edge
                    std::vector<int> y;
                    for (size_t s2 = 0; s2 < ns; s2++) { setDigits(D, s2, y); t[relIndex(D, x, y)] = 0; }
                }
            }
            style = "loops-deadends";
            break;
        }
        default: {  // partial diagonal: only self loops, on a random subset of the states
            size_t ns = D.card(false);
            std::vector<int> x;
            for (size_t s = 0; s < ns; s++) { setDigits(D, s, x); if (r.chance(1, 2)) t[relIndex(D, x, x)] = 1; }
            style = "partial-diagonal";
            break;
        }
    }
    return t;
}

// set structure: which states are members
Bits genSet(Rng& r, const Dom& D, std::string& style) {
    size_t n = D.card(false);
    Bits t(n, 0);
    switch (r.below(7)) {
        case 0: style = "empty"; break;
        case 1: t[r.below(unsigned(n))] = 1; style = "single"; break;
        case 2: std::fill(t.begin(), t.end(), 1); style = "all"; break;
        case 3: {   // product of per-variable subsets (skipped levels in fully reduced forests)
            std::vector<std::vector<char>> sub;
            for (unsigned v = 0; v < D.K(); v++) {
                std::vector<char> s(size_t(D.sizes[v]), 1);
                if (r.chance(1, 2)) for (auto& c : s) c = r.chance(1, 2);
                sub.push_back(s);
            }
            std::vector<int> x;
            for (size_t i = 0; i < n; i++) {
                setDigits(D, i, x);
                bool ok = true;
                for (unsigned v = 0; v < D.K(); v++) ok = ok && sub[v][size_t(x[v])];
                t[i] = ok;
            }
            style = "product";
            break;
        }
        default: {
            unsigned d = r.pick(std::vector<unsigned>{10, 30, 60, 90});
            for (auto& c : t) c = r.below(100) < d;
            style = "random";
            break;
        }
    }
    return t;
}

const char* rname(reduction_rule rr) {
    return rr == reduction_rule::FULLY_REDUCED ? "fully" : rr == reduction_rule::QUASI_REDUCED ? "quasi" : "ident";
}

Kind mkKind(bool rel, range_type rt, edge_labeling el, reduction_rule rr) {
    Kind k; k.rel = rel; k.rt = rt; k.el = el; k.rr = rr; return k;
}

struct OpRun { const char* name; binary_factory& (*fac)(); bool swap; };

const reduction_rule FR = reduction_rule::FULLY_REDUCED, QR = reduction_rule::QUASI_REDUCED,
                     IR = reduction_rule::IDENTITY_REDUCED;
const edge_labeling MT = edge_labeling::MULTI_TERMINAL, EVP = edge_labeling::EVPLUS, EVT = edge_labeling::EVTIMES;

// everything that defines one case
struct Plan {
    std::string mode;                 // image | vm | err | probe
    Dom D;
    FSpec fs, fr, fc;                 // set/vector forest, relation/matrix forest, result forest
    bool sameForest = false;          // result lives in the set forest
    std::vector<Val> ts, tr;          // operand tables
    std::string sstyle, rstyle;
    bool negmix = false;
    std::vector<OpRun> ops;
    int rounds = 1;
    bool checkCanon = true;           // audit / == checks of the result forest
    unsigned eqNum = 1, eqDen = 2;    // how often the result is rebuilt from its table and compared with ==
};

const OpRun OP_POST = {"POST_IMAGE", POST_IMAGE, false}, OP_PRE = {"PRE_IMAGE", PRE_IMAGE, false},
            OP_VM = {"VM_MULTIPLY", VM_MULTIPLY, false}, OP_MV = {"MV_MULTIPLY", MV_MULTIPLY, true};



// F-D trigger: a quasi-reduced MT-integer distance set whose restriction to the low k variables is the
// constant 0 (= the transparent terminal, "distance 0 everywhere") meets a restriction of a fully-reduced
// relation that is a non-zero constant (a terminal) at a level above 0.
bool triggerFD(const Dom& D, const std::vector<Val>& ts, const std::vector<Val>& tr, const Val& relZero) {
    size_t ns = 1, nr = 1;
    for (unsigned k = 1; k <= D.K(); k++) {
        size_t sz = size_t(D.sizes[k - 1]);
        ns *= sz; nr *= sz * sz;
        size_t highS = ts.size() / ns, highR = tr.size() / nr;
        std::vector<char> zeroBlock(highS, 1), fullBlock(highR, 1);
        for (size_t h = 0; h < highS; h++)
            for (size_t l = 0; l < ns; l++) if (!(ts[h * ns + l].t == Val::I && ts[h * ns + l].n == 0)) { zeroBlock[h] = 0; break; }
        for (size_t h = 0; h < highR; h++)
            for (size_t l = 0; l < nr; l++)
                if (tr[h * nr + l] == relZero || tr[h * nr + l] != tr[h * nr]) { fullBlock[h] = 0; break; }
        // high relation index -> its unprimed / primed high set indexes
        for (size_t h = 0; h < highR; h++) {
            if (!fullBlock[h]) continue;
            size_t rest = h, un = 0, pr = 0, stride = 1;
            for (unsigned v = k + 1; v <= D.K(); v++) {
                size_t s2 = size_t(D.sizes[v - 1]);
                size_t p = rest % s2; rest /= s2;
                size_t u = rest % s2; rest /= s2;
                un += u * stride; pr += p * stride; stride *= s2;
            }
            if (zeroBlock[un] || zeroBlock[pr]) return true;
        }
    }
    return false;
}

// ---------------------------------------------------------------- steering (known findings, see NOTES.md)
void steerPlan(Plan& P) {
    FSpec &fs = P.fs, &fr = P.fr, &fc = P.fc;
    const Dom& D = P.D;
    const std::string& mode = P.mode;
    // F-A: EV+ image under the EMPTY relation returns the edge <min S, infinity> instead of <0, infinity>:
    //      keep the case but shift the distances so that their minimum (= the root edge value) is 0
    bool relEmpty = true;
    for (auto& v : P.tr) if (v != fr.k.zero()) relEmpty = false;
    if (fs.k.el == EVP && !fs.k.rel && relEmpty) {
        long mn = -1;
        for (auto& v : P.ts) if (v.t == Val::I && (mn < 0 || v.n < mn)) mn = v.n;
        if (mn > 0) { for (auto& v : P.ts) if (v.t == Val::I) v.n -= mn; STATS.hit("steer.F-A"); }
    }
    // F-B: fully-reduced set x identity-reduced relation -> quasi-reduced result: the terminal shortcut
    //      leaves skipped levels in the quasi-reduced result.  Function-level checks stay, the
    //      canonical-form checks (audit, ==) of the result forest are off for this triple.
    if (!fs.k.rel && fs.k.rr == FR && fr.k.rel && fr.k.rr == IR && !fc.k.rel && fc.k.rr == QR) {
        P.checkCanon = false;
        STATS.hit("steer.F-B");
    }
    // F-D: crash (unpacked_node::initFromNode on a terminal) when a quasi-reduced MT-integer distance set
    //      reaches the terminal 0 (distance 0 everywhere below) together with a terminal of a fully-reduced
    //      relation above level 0: shift the distances by one so that no all-zero block remains
    if (mode != "vm" && !fs.k.rel && fs.k.el == MT && fs.k.rt == range_type::INTEGER && fs.k.rr == QR &&
        fr.k.rel && fr.k.el == MT && fr.k.rr == FR && triggerFD(D, P.ts, P.tr, fr.k.zero())) {
        for (auto& v : P.ts) if (v.t == Val::I && v.n >= 0) v.n += 1;
        STATS.hit("steer.F-D");
    }
    // F-C: VM/MV_MULTIPLY accept EV+ vectors (documented: multi-terminal only) and return an edge
    //      without edge value: not called
    if (fs.k.el != MT && fc.k.el == fs.k.el) {
        std::vector<OpRun> keep;
        for (auto& o : P.ops) if (o.fac != VM_MULTIPLY && o.fac != MV_MULTIPLY) keep.push_back(o);
        if (keep.size() != P.ops.size()) STATS.hit("steer.F-C");
        P.ops = keep;
    }
}

void planRandom(const Args& A, Rng& r, Plan& P) {
    std::string forcedMode = A.get("mode");
    long negmixOpt = A.getl("negmix", -1);
    long relrangeOpt = A.getl("relrange", 1);
    bool steer = A.getl("steer", 0) != 0;      // F-A..F-D are repaired in /repo (fix: commits): no steering by default
    {
        unsigned m = r.below(20);
        P.mode = m < 12 ? "image" : m < 17 ? "vm" : "err";
        if (!forcedMode.empty()) P.mode = forcedMode;
    }
    const std::string& mode = P.mode;
    P.D = randomDom(r, 1, 3, A.thorough() ? 4 : 3, 1300, true);
    const Dom& D = P.D;
    FSpec &fs = P.fs, &fr = P.fr, &fc = P.fc;
    std::vector<reduction_rule> setRules = {FR, QR}, relRules = {FR, QR, IR};
    if (mode == "image") {
        unsigned sk = r.below(10);   // 0-4 bool, 5-6 MT int, 7-9 EV+
        range_type rt = sk < 5 ? range_type::BOOLEAN : range_type::INTEGER;
        edge_labeling el = sk < 7 ? MT : EVP;
        fs.k = mkKind(false, rt, el, r.pick(setRules));
        fc.k = mkKind(false, rt, el, r.pick(setRules));
        // the library implements MT integer distances only for fully reduced results; a quarter of the
        // MT-int cases still ask for a quasi-reduced result (expected: NOT_IMPLEMENTED)
        if (el == MT && rt == range_type::INTEGER && !r.chance(1, 4)) fc.k.rr = FR;
        fr.k = mkKind(true, range_type::BOOLEAN, MT, r.pick(relRules));
        if (relrangeOpt && r.chance(1, 12)) {
            fr.k.rt = r.chance(1, 2) ? range_type::INTEGER : range_type::REAL;
            STATS.hit("image.relrange");
        }
        P.sameForest = r.chance(1, 2);
    } else if (mode == "vm") {
        range_type rt = r.chance(1, 2) ? range_type::INTEGER : range_type::REAL;
        fs.k = mkKind(false, rt, MT, r.pick(setRules));
        fc.k = mkKind(false, rt, MT, r.pick(setRules));
        fr.k = mkKind(true, rt, MT, r.pick(relRules));
        // sometimes a matrix of another element type: boolean (0/1) or the other numeric type
        if (r.chance(1, 8)) {
            fr.k.rt = r.pick(std::vector<range_type>{range_type::BOOLEAN, range_type::INTEGER, range_type::REAL});
            STATS.hit("vm.mixed-matrix-range");
        }
        P.sameForest = r.chance(1, 2);
    } else {
        // err: arbitrary legal kinds in the three roles (mostly unsupported triples)
        std::vector<Kind> sk = allKinds(true, false), rk = allKinds(false, true);
        auto pickSet = [&]() { for (;;) { Kind k = r.pick(sk); if (k.el != edge_labeling::INDEX_SET) return k; } };
        fs.k = r.chance(1, 8) ? r.pick(rk) : pickSet();
        fc.k = r.chance(1, 8) ? r.pick(rk) : pickSet();
        fr.k = r.chance(1, 8) ? pickSet() : r.pick(rk);
        if (r.chance(1, 2)) { fr.k.el = MT; if (!fr.k.legal()) fr.k.rt = range_type::BOOLEAN; }
        P.sameForest = false;
    }
    if (P.sameForest) fc.k = fs.k;
    fs.p = r.chance(1, 3) ? Pol::random(r) : Pol();
    fr.p = r.chance(1, 3) ? Pol::random(r) : Pol();
    fc.p = P.sameForest ? fs.p : (r.chance(1, 3) ? Pol::random(r) : Pol());

    // ---------------------------------------------------------------- operand tables
    P.negmix = negmixOpt >= 0 ? negmixOpt != 0 : r.chance(1, 5);
    bool isVM = mode == "vm";
    // first operand (set / distance function / vector)
    if (fs.k.rel) { P.ts = randomTable(r, D, fs.k, 30); P.sstyle = "relation"; }
    else {
        Bits b = genSet(r, D, P.sstyle);
        P.ts.assign(b.size(), fs.k.zero());
        bool allZeroDist = r.chance(1, 3);
        for (size_t i = 0; i < b.size(); i++) {
            Val& v = P.ts[i];
            if (fs.k.el == EVP) v = b[i] ? Val::integer(allZeroDist ? 0 : r.range(0, 7)) : Val::inf();
            else if (fs.k.el == EVT) v = b[i] ? randomValue(r, fs.k, false) : fs.k.zero();
            else if (fs.k.rt == range_type::BOOLEAN) v = Val::boolean(b[i]);
            else if (isVM || mode == "err") v = b[i] ? randomValue(r, fs.k, false) : fs.k.zero();
            else if (fs.k.rt == range_type::INTEGER)
                v = b[i] ? Val::integer(allZeroDist ? 0 : r.range(0, 7)) : Val::integer(P.negmix ? -long(r.range(1, 3)) : -1);
            else v = b[i] ? randomValue(r, fs.k, false) : fs.k.zero();
        }
        if (!isVM && fs.k.el == MT && fs.k.rt == range_type::INTEGER && P.negmix) P.sstyle += "+negmix";
    }
    // second operand (relation / matrix)
    if (!fr.k.rel) { P.tr = randomTable(r, D, fr.k, 30); P.rstyle = "set"; }
    else {
        Bits b = genRelation(r, D, P.rstyle);
        P.tr.assign(b.size(), fr.k.zero());
        bool constant = r.chance(1, 3);     // "scalar times structure"
        Val cv = randomValue(r, fr.k, false);
        for (size_t i = 0; i < b.size(); i++)
            if (b[i]) P.tr[i] = (fr.k.rt == range_type::BOOLEAN && fr.k.el == MT) ? Val::boolean(true)
                                : constant ? cv : randomValue(r, fr.k, false);
    }
    // ---------------------------------------------------------------- operations
    if (isVM) P.ops = {OP_VM, OP_MV};
    else if (mode == "err" && r.chance(1, 3)) P.ops = {OP_VM, OP_MV, OP_POST, OP_PRE};
    else P.ops = {OP_POST, OP_PRE};
    if (r.chance(1, 2)) std::reverse(P.ops.begin(), P.ops.end());
    P.rounds = r.chance(1, 2) ? 2 : 1;     // second round: warm compute tables

    if (steer) steerPlan(P);
}

// exhaustive part: one variable of size 2 — ALL 16 relations x all sets / distance functions with values in
// {unreachable, 0, 1} x every forest triple the factories accept
long numExhaustive() { return 12 * 16 * 4 + 6 * 16 * 9 + 12 * 16 * 9; }
void planExhaustive(long e, bool steer, Plan& P) {
    P.mode = "exhaustive";
    FSpec &fs = P.fs, &fr = P.fr, &fc = P.fc;
    P.D.sizes = {2};
    P.rounds = (e % 3 == 0) ? 2 : 1;
    P.ops = {OP_POST, OP_PRE};
    P.eqNum = 1; P.eqDen = 1;
    const reduction_rule SR[2] = {FR, QR}, RR[3] = {FR, QR, IR};
    int group; long nsets; long ntriples;
    if (e < 12 * 16 * 4) { group = 0; nsets = 4; ntriples = 12; }
    else if ((e -= 12 * 16 * 4) < 6 * 16 * 9) { group = 1; nsets = 9; ntriples = 6; }
    else { e -= 6 * 16 * 9; group = 2; nsets = 9; ntriples = 12; }
    long setCode = e % nsets; e /= nsets;
    long relCode = e % 16; e /= 16;
    long triple = e % ntriples;
    reduction_rule sr = SR[triple % 2], rr = RR[(triple / 2) % 3], cr = (group == 1) ? FR : SR[(triple / 6) % 2];
    range_type rt = group == 0 ? range_type::BOOLEAN : range_type::INTEGER;
    edge_labeling el = group == 2 ? EVP : MT;
    fs.k = mkKind(false, rt, el, sr);
    fc.k = mkKind(false, rt, el, cr);
    fr.k = mkKind(true, range_type::BOOLEAN, MT, rr);
    P.sameForest = (sr == cr) && (relCode % 2 == 0);
    P.tr.clear();
    for (int b = 0; b < 4; b++) P.tr.push_back(Val::boolean((relCode >> b) & 1));
    P.ts.clear();
    for (int st = 0; st < 2; st++) {
        if (group == 0) P.ts.push_back(Val::boolean((setCode >> st) & 1));
        else {
            long d = (st == 0 ? setCode % 3 : setCode / 3) - 1;      // -1 unreachable, 0, 1
            if (d < 0) P.ts.push_back(group == 1 ? Val::integer(-1) : Val::inf());
            else P.ts.push_back(Val::integer(d));
        }
    }
    P.sstyle = "exhaustive"; P.rstyle = "exhaustive";
    if (steer) steerPlan(P);
}

// hand-made reproducers of the findings the random generator is steered away from
long numProbes() { return 4; }
void planProbe(long c, Plan& P) {
    P.mode = "probe";
    FSpec &fs = P.fs, &fr = P.fr, &fc = P.fc;
    P.eqNum = 1; P.eqDen = 1;
    P.rounds = 1;
    switch (c) {
        case 0: {   // F-A
            P.D.sizes = {2};
            fs.k = mkKind(false, range_type::INTEGER, EVP, FR);
            fc.k = fs.k; P.sameForest = true;
            fr.k = mkKind(true, range_type::BOOLEAN, MT, FR);
            P.ts = {Val::integer(4), Val::inf()};
            P.tr.assign(4, Val::boolean(false));
            P.ops = {OP_POST, OP_PRE};
            P.sstyle = "probe-F-A"; P.rstyle = "empty";
            break;
        }
        case 1: {   // F-B
            P.D.sizes = {2, 3};
            fs.k = mkKind(false, range_type::BOOLEAN, MT, FR);
            fc.k = mkKind(false, range_type::BOOLEAN, MT, QR);
            fr.k = mkKind(true, range_type::BOOLEAN, MT, IR);
            P.ts.assign(6, Val::boolean(true));
            P.tr.assign(36, Val::boolean(false));
            {
                std::vector<int> x;
                for (size_t s = 0; s < 6; s++) { setDigits(P.D, s, x); P.tr[relIndex(P.D, x, x)] = Val::boolean(true); }
            }
            P.ops = {OP_POST, OP_PRE};
            P.sstyle = "probe-F-B-all"; P.rstyle = "identity";
            break;
        }
        case 3: {   // F-D
            P.D.sizes = {2};
            fs.k = mkKind(false, range_type::INTEGER, MT, QR);
            fc.k = mkKind(false, range_type::INTEGER, MT, FR);
            fr.k = mkKind(true, range_type::BOOLEAN, MT, FR);
            P.ts = {Val::integer(0), Val::integer(0)};
            P.tr.assign(4, Val::boolean(true));
            P.ops = {OP_POST, OP_PRE};
            P.sstyle = "probe-F-D-all-zero"; P.rstyle = "all-pairs";
            break;
        }
        default: {  // F-C
            P.D.sizes = {2};
            fs.k = mkKind(false, range_type::INTEGER, EVP, FR);
            fc.k = fs.k; P.sameForest = true;
            fr.k = mkKind(true, range_type::INTEGER, MT, FR);
            P.ts = {Val::integer(1), Val::integer(2)};
            P.tr = {Val::integer(1), Val::integer(0), Val::integer(0), Val::integer(1)};
            P.ops = {OP_VM, OP_MV};
            P.sstyle = "probe-F-C"; P.rstyle = "identity";
            break;
        }
    }
}

void execute(Plan& P, Rng& r) {
    Dom& D = P.D;
    FSpec &fs = P.fs, &fr = P.fr, &fc = P.fc;
    const std::string& mode = P.mode;
    emits(D.str());
    emit("note mode %s", mode.c_str());
    STATS.hit("mode." + mode);
    STATS.hit("dom.K" + std::to_string(D.K()));
    fs.F = makeForest(D.d, fs.k, fs.p);
    fr.F = makeForest(D.d, fr.k, fr.p);
    fc.F = P.sameForest ? fs.F : makeForest(D.d, fc.k, fc.p);
    emitForest("Fs", fs.F, fs.k, fs.p);
    emitForest("Fr", fr.F, fr.k, fr.p);
    emitForest("Fc", fc.F, fc.k, fc.p);
    emit("resforest Fc");
    STATS.hit(std::string("triple.") + mode + "." + fs.k.str().substr(4) + "|" + rname(fr.k.rr) + "|" +
              fc.k.str().substr(4));
    if (P.sameForest) STATS.hit("alias.result-in-set-forest");
    STATS.hit("set.style." + P.sstyle);
    STATS.hit("rel.style." + P.rstyle);
    bool isVM = mode == "vm";
    {
        dd_edge S(fs.F), REL(fr.F);
        buildFromTable(D, fs.F, fs.k, P.ts, S);
        buildFromTable(D, fr.F, fr.k, P.tr, REL);
        emit("input S %s", tableStr(P.ts).c_str());
        emit("input REL %s", tableStr(P.tr).c_str());
        emitTable("S", "Fs", D, S);
        emitTable("REL", "Fr", D, REL);
        emit("note set-style %s rel-style %s rel-root %s set-root %s", P.sstyle.c_str(), P.rstyle.c_str(),
             REL.getNode() > 0 ? (std::string("level") + std::to_string(fr.F->getNodeLevel(REL.getNode()))).c_str() : "terminal",
             S.getNode() > 0 ? (std::string("level") + std::to_string(fs.F->getNodeLevel(S.getNode()))).c_str() : "terminal");
        if (REL.getNode() <= 0) STATS.hit("rel.root.terminal");
        else if (unsigned(std::abs(fr.F->getNodeLevel(REL.getNode()))) < D.K()) STATS.hit("rel.root.below-top");
        fflush(stdout);

        bool distExact = true;                   // all operand negatives are -1: the result's are, too
        for (auto& v : P.ts) if (v.t == Val::I && v.n < -1) distExact = false;
        std::vector<std::pair<std::string, dd_edge>> keep;   // results stay alive until the audit
        for (int round = 0; round < P.rounds; round++) {
            for (size_t o = 0; o < P.ops.size(); o++) {
                const OpRun& op = P.ops[o];
                std::string rn = std::string("R") + std::to_string(o) + (round ? "w" : "");
                dd_edge res(fc.F);
                const dd_edge& first = op.swap ? REL : S;
                const dd_edge& second = op.swap ? S : REL;
                const char* n1 = op.swap ? "REL" : "S";
                const char* n2 = op.swap ? "S" : "REL";
                try {
                    apply(op.fac, first, second, res);
                    emit("op %s %s %s %s", rn.c_str(), op.name, n1, n2);
                    bool isImage = op.fac == POST_IMAGE || op.fac == PRE_IMAGE;
                    bool mtIntDist = isImage && fc.k.el == MT && fc.k.rt == range_type::INTEGER;
                    if (mtIntDist && !distExact)
                        emit("disttable %s Fc %s", rn.c_str(), tableStr(tableOf(D, res)).c_str());
                    else
                        emitTable(rn, "Fc", D, res);
                    STATS.hit(std::string("op.") + op.name + (round ? ".warm" : ".cold"));
                    // the result must be THE canonical edge of its function: rebuild it from its table
                    if (P.checkCanon && fc.k.rt != range_type::REAL && fc.k.el != EVT && r.chance(P.eqNum, P.eqDen)) {
                        std::vector<Val> tv = tableOf(D, res);
                        dd_edge again(fc.F);
                        buildFromTable(D, fc.F, fc.k, tv, again);
                        std::string xn = "X" + rn;
                        emitTable(xn, "Fc", D, again);
                        emitEq(rn, xn, res, again);
                        STATS.hit("eq.rebuilt");
                    }
                    keep.push_back(std::make_pair(rn, res));
                } catch (error& e) {
                    emit("err %s %s %s %s %s", rn.c_str(), op.name, n1, n2, errName(e));
                    emit("note thrown-at %s:%u", e.getFile(), e.getLine());
                    STATS.hit(std::string("err.") + op.name + "." + errName(e));
                }
            }
            // operands unchanged
            emitTable("S", "Fs", D, S);
            emitTable("REL", "Fr", D, REL);
            emit("unchanged S");
            emit("unchanged REL");
            // warm and cold results are the same edge
            if (round == 1)
                for (size_t i = 0; i < keep.size(); i++)
                    for (size_t j = i + 1; j < keep.size(); j++)
                        if (keep[j].first == keep[i].first + "w")
                            emitEq(keep[i].first, keep[j].first, keep[i].second, keep[j].second);
            if (round == P.rounds - 1) {
                if (P.checkCanon) {
                    emitAudit("Fc", fc.F, fc.k);
                    for (auto& kv : keep) emitRoot(kv.first, "Fc", kv.second, fc.k);   // model eval of the dumped root
                } else emit("note canonical-form checks of Fc are off for this triple (finding F-B)");
                if (fs.F != fc.F) emitAudit("Fs", fs.F, fs.k);
                emitAudit("Fr", fr.F, fr.k);
                // structural tie: the model's algorithm on the dumped operand trees must give the dumped result tree
                if (P.checkCanon && distExact && fs.k.el == MT && fr.k.el == MT && fc.k.el == MT &&
                    fc.k.rt != range_type::REAL && fs.k.rt == fc.k.rt &&
                    (mode != "vm" || fr.k.rt == fc.k.rt))
                    for (auto& kv : keep) {
                        const OpRun& op = P.ops[size_t(kv.first[1] - '0')];
                        emit("imagemodel %s %s Fc %s %s %s Fr %s", kv.first.c_str(), op.name, edgeStr(kv.second, fc.k).c_str(),
                             fs.F == fc.F ? "Fc" : "Fs", edgeStr(S, fs.k).c_str(), edgeStr(REL, fr.k).c_str());
                        STATS.hit("imagemodel");
                    }
            }
        }
        keep.clear();
    }
}

int run(const Args& A) {
    libInit();
    bool probe = A.get("mode") == "probe";
    bool steer = A.getl("steer", 0) != 0;
    long nrandom = probe ? 0 : A.cases > 0 ? A.cases : (A.thorough() ? 30000 : 6000);
    long nex = (probe || A.get("mode") != "" || A.cases > 0) ? 0 : numExhaustive();   // cases nrandom.. : exhaustive part
    long ncases = probe ? numProbes() : nrandom + nex;
    for (long c = 0; c < ncases; c++) {
        if (!A.selected(c)) continue;
        Rng r(Rng::mix(A.seed, uint64_t(c)));
        Plan P;
        if (probe) planProbe(c, P);
        else if (c < nrandom) planRandom(A, r, P);
        else planExhaustive(c - nrandom, steer, P);
        P.D.create();
        beginCase(c);
        execute(P, r);
        endCase();
        forest::destroy(P.fs.F);
        forest::destroy(P.fr.F);
        if (!P.sameForest) forest::destroy(P.fc.F);
        P.D.destroy();
    }
    libCleanup();
    return 0;
}
FamilyReg reg("image", run, "C09 pre/post image (bool, distances) and vector-matrix products across forest triples");
}  // namespace
