// Family `lifecycle` (C17): random histories of library / domain / forest / edge / iterator /
// operation creation and destruction, replayed by the Lean model `Lifecycle.step`.
//
// Every case starts with the library NOT running and ends with it not running and with
// every client object destroyed.  After every step the harness prints what the library
// itself reports (never what the harness believes): the forest each edge says it belongs
// to, the function it denotes, the registry of forests, the operations still registered,
// the live compute-table entries grouped by the forests their entry type mentions.
#include "common.h"
#include <malloc.h>
#include "ct_entry_type.h"
#include "compute_table.h"
#include <sstream>
#include <unistd.h>
#include <sys/wait.h>

using namespace MEDDLY;
using namespace mdh;

namespace {

const char* KCODE[6] = {"sb", "si", "se", "rb", "ri", "re"};

Kind kindOf(int code, int rr) {
    Kind k;
    k.rel = code >= 3;
    int c = code % 3;
    k.rt = (c == 0) ? range_type::BOOLEAN : range_type::INTEGER;
    k.el = (c == 2) ? edge_labeling::EVPLUS : edge_labeling::MULTI_TERMINAL;
    switch (rr) {
        case 0: k.rr = reduction_rule::FULLY_REDUCED; break;
        case 1: k.rr = reduction_rule::QUASI_REDUCED; break;
        default: k.rr = k.rel ? reduction_rule::IDENTITY_REDUCED : reduction_rule::FULLY_REDUCED; break;
    }
    return k;
}

struct DRec { int id; Dom D; bool live; };
struct FRec { unsigned fid; forest* F; const void* addr; int dom; int code; Kind k; bool live; };
struct ERec { int id; dd_edge* e; bool valid = false; };   // valid: holds a function built by fill / apply
struct IRec { int id; dd_edge::iterator* it; int srcEdge; unsigned fid; bool usable; };
struct ORec { int id; const operation* op; bool alive; };

struct World {
    bool running = false;                 // harness belief, only used to stay within defined behaviour
    std::vector<DRec> doms;               // every domain ever created in this case
    std::vector<FRec> forests;            // every forest created in this initialisation
    std::vector<ERec> edges;
    std::vector<IRec> iters;
    std::vector<ORec> ops;
    int nextDom = 1, nextEdge = 1, nextIter = 1, nextOp = 1;
    std::vector<const void*> justDestroyed;   // addresses of forests destroyed by the current step

    DRec* dom(int id) { for (auto& d : doms) if (d.id == id) return &d; return nullptr; }
    FRec* forestByFid(unsigned fid) { for (auto& f : forests) if (f.live && f.fid == fid) return &f; return nullptr; }
    ERec* edge(int id) { for (auto& e : edges) if (e.id == id) return &e; return nullptr; }
    std::vector<DRec*> liveDoms() { std::vector<DRec*> v; for (auto& d : doms) if (d.live) v.push_back(&d); return v; }
    std::vector<FRec*> liveForests() { std::vector<FRec*> v; for (auto& f : forests) if (f.live) v.push_back(&f); return v; }
    void forestDied(FRec& f) {
        f.live = false;
        justDestroyed.push_back(f.addr);
        for (auto& it : iters) if (it.fid == f.fid) { it.usable = false; it.fid = 0; }
    }
    void edgeWritten(int id) { for (auto& it : iters) if (it.srcEdge == id) it.usable = false; }
};

std::string tableTok(const Dom& D, const dd_edge& e) {
    std::vector<Val> t = tableOf(D, e);
    std::string s;
    for (size_t i = 0; i < t.size(); i++) { if (i) s += ','; s += t[i].str(); }
    return s;
}

// F-C17-3: with per-operation compute tables, the entry type of a destroyed operation that still has
// entries owns its table and is deleted by the removal of its last entry; removeAllComputeTableEntries()
// of a surviving forest named by that entry type runs CT->removeAll() on exactly that table and keeps
// iterating over it after it has been freed.  True iff that call on F would do so.
bool ctClearHazard(const forest* F) {
    if (compute_table::Monolithic()) return false;
    std::ostringstream os;
    { ostream_output o(os); ct_entry_type::showAll(o); }
    std::istringstream is(os.str());
    std::string line;
    while (std::getline(is, line)) {
        unsigned id = 0; unsigned long cnt = 0;
        if (sscanf(line.c_str(), "Entry type #%u, has %lu entries", &id, &cnt) != 2) continue;
        const ct_entry_type* et = ct_entry_type::getEntryType(id);
        if (et && et->isMarkedForDeletion() && cnt > 0 && et->hasForest(F)) return true;
    }
    return false;
}

// steer around F-C17-3 until its probe (probeCtClearAfterDestroy) shows that the library survives the call
bool steerCtClear = true;

// ------------------------------------------------------------------ observations
void observe(World& W) {
    bool running = initializer_list::libraryIsRunning();
    emit("run %d", running ? 1 : 0);
    if (running) {
        emit("maxfid %u", forest::MaxFID());
        // domain registry: mark every registered domain, count ours, unmark
        domain::testMarkAllDomains(true);
        int marked = 0;
        for (auto& d : W.doms) if (d.live && d.D.d->isMarkedForDeletion()) ++marked;
        domain::testMarkAllDomains(false);
        int still = 0;
        for (auto& d : W.doms) if (d.live && d.D.d->isMarkedForDeletion()) ++still;
        emit("doms %d %d", marked, still);
        unsigned mx = forest::MaxFID();
        for (unsigned fid = 1; fid <= mx; fid++) {
            forest* F = forest::getForestWithID(fid);
            if (F) emit("forest %u %u", fid, F->countRegisteredEdges());
        }
    }
    for (auto& er : W.edges) {
        forest* F = er.e->getForest();
        if (!F) { emit("edge %d 0 -", er.id); continue; }
        unsigned fid = F->FID();
        FRec* fr = W.forestByFid(fid);
        if (!fr || fr->F != F) {
            // the edge claims a forest the harness does not know as live: print without table
            emit("edge %d %u ?", er.id, fid);
            continue;
        }
        emit("edge %d %u %s", er.id, fid, tableTok(W.dom(fr->dom)->D, *er.e).c_str());
    }
    // tracked operations that are still registered
    {
        std::set<const operation*> reg;
        unsigned n = operation::getOpListSize();
        unsigned staleOps = 0;
        for (unsigned i = 0; i < n; i++) {
            operation* op = operation::getOpWithID(i);
            if (!op) continue;
            reg.insert(op);
            if (!W.justDestroyed.empty()) {
                if (binary_operation* b = dynamic_cast<binary_operation*>(op)) {
                    for (const void* a : W.justDestroyed)
                        if (b->getOp1F() == a || b->getOp2F() == a || b->getResF() == a) { ++staleOps; break; }
                }
            }
        }
        std::string s = "ops";
        for (auto& o : W.ops) {
            if (o.alive && !reg.count(o.op)) o.alive = false;
            if (o.alive) s += " " + std::to_string(o.id);
        }
        emits(s);
        // compute-table entry types
        std::ostringstream os;
        { ostream_output o(os); ct_entry_type::showAll(o); }
        std::istringstream is(os.str());
        std::string line;
        std::map<std::vector<unsigned>, unsigned long> live;
        unsigned staleEts = 0;
        while (std::getline(is, line)) {
            unsigned id = 0; unsigned long cnt = 0;
            if (sscanf(line.c_str(), "Entry type #%u, has %lu entries", &id, &cnt) != 2) continue;
            std::vector<unsigned> fs;
            bool any = false, bad = false;
            size_t pos = 0;
            while ((pos = line.find("(f ", pos)) != std::string::npos) {
                unsigned f = unsigned(atol(line.c_str() + pos + 3));
                any = true;
                if (f == 0 || !forest::getForestWithID(f)) bad = true; else fs.push_back(f);
                pos += 3;
            }
            if (!any) continue;
            const ct_entry_type* et = ct_entry_type::getEntryType(id);
            if (!et || et->isMarkedForDeletion()) continue;      // dead entries: not findable any more
            if (bad) { ++staleEts; continue; }
            std::sort(fs.begin(), fs.end());
            fs.erase(std::unique(fs.begin(), fs.end()), fs.end());
            if (cnt) live[fs] += cnt;
        }
        emit("stale %u %u", staleOps, staleEts);
        for (auto& p : live) {
            std::string c = "ct " + std::to_string(p.second);
            for (unsigned f : p.first) c += " " + std::to_string(f);
            emits(c);
        }
    }
    W.justDestroyed.clear();
    emit("endstep");
}

// look a returned operation up in / add it to the tracking table
std::string trackOp(World& W, const operation* op, int proposed, bool& usedProposed) {
    for (auto& o : W.ops) if (o.alive && o.op == op) { usedProposed = false; return "op " + std::to_string(o.id) + " cached"; }
    W.ops.push_back({proposed, op, true});
    usedProposed = true;
    return "op " + std::to_string(proposed) + " new";
}

// ------------------------------------------------------------------ one case
struct Gen {
    World W;
    Rng r;
    long stepNo = 0;
    bool thorough;
    explicit Gen(uint64_t seed, bool th) : r(seed), thorough(th) {}

    void out(const std::string& s) { emits("out " + s); }
    void outErr(const error& e) { emit("out err %s", errName(e)); STATS.hit(std::string("err.") + errName(e)); }
    void hdr(const std::string& s) { emits("step " + std::to_string(stepNo++) + " " + s); }

    // ---- steps
    void doInit() {
        CTConf ct; ct.style = r.below(4); ct.stale = r.below(3);
        ct.maxSize = r.chance(1, 3) ? 0 : (r.chance(1, 2) ? 16 : 1024);
        doInit(ct);
    }
    void doInit(CTConf ct) {
        hdr("init " + std::to_string(ct.style) + " " + std::to_string(ct.stale) + " " + std::to_string(ct.maxSize));
        try {
            // A rejected second initialisation must go through initialize(L) with an empty list:
            // merely building defaultInitializerList() while the library runs replaces the
            // compute-table factory (finding F-C17-2, probed separately).
            if (W.running) MEDDLY::initialize((initializer_list*) nullptr);
            else libInit(&ct);
            W.running = true;
            W.forests.clear();
            out("ok"); STATS.hit("step.init.ok");
        } catch (error& e) { outErr(e); }
    }
    void doCleanup() {
        hdr("cleanup");
        try {
            std::vector<const void*> addrs;
            for (auto& f : W.forests) if (f.live) addrs.push_back(f.addr);
            libCleanup();
            W.running = false;
            for (auto& f : W.forests) if (f.live) W.forestDied(f);
            for (auto& d : W.doms) { d.live = false; d.D.d = nullptr; }
            out("ok"); STATS.hit("step.cleanup.ok");
            W.justDestroyed.clear();     // registries are gone; nothing to scan
        } catch (error& e) { outErr(e); }
    }
    void doMkDom() {
        std::vector<int> sizes;
        unsigned K = r.range(1, 2);
        for (;;) {
            Dom t;
            for (unsigned i = 0; i < K; i++) t.sizes.push_back(r.range(2, 3));
            if (t.card(true) <= 36) { sizes = t.sizes; break; }
        }
        doMkDom(W.nextDom, sizes);
    }
    void doMkDom(int id, const std::vector<int>& sizes) {
        DRec d; d.id = id; d.live = false;
        if (id >= W.nextDom) W.nextDom = id + 1;
        d.D.sizes = sizes;
        std::string s = "mkdom " + std::to_string(d.id);
        for (int x : d.D.sizes) s += " " + std::to_string(x);
        hdr(s);
        try {
            d.D.create();
            d.live = true;
            out("ok"); STATS.hit("step.mkdom.ok");
        } catch (error& e) { outErr(e); }
        W.doms.push_back(d);
    }
    void doRmDom(DRec& d) {
        hdr("rmdom " + std::to_string(d.id));
        try {
            if (d.live) {
                domain::destroy(d.D.d);
                d.live = false;
                unsigned n = 0;
                for (auto& f : W.forests) if (f.live && f.dom == d.id) { W.forestDied(f); ++n; }
                STATS.hit(n ? "step.rmdom.withforests" : "step.rmdom.empty");
            } else {
                // only reached when the library is not running: the call must be rejected
                // before the (stale) pointer is looked at
                domain* stale = reinterpret_cast<domain*>(uintptr_t(8));
                domain::destroy(stale);
            }
            out("ok");
        } catch (error& e) { outErr(e); }
    }
    void doMkForest(DRec& d) {
        int code = r.below(6);
        int rr = r.below(3);
        Pol p = r.chance(1, 2) ? Pol::random(r) : Pol();
        doMkForest(d, code, rr, p);
    }
    void doMkForest(DRec& d, int code, int rr, Pol p) {
        Kind k = kindOf(code, rr);
        hdr("mkforest " + std::to_string(d.id) + " " + KCODE[code] + " " + std::to_string(rr) + " "
            + std::to_string(p.storage) + " " + std::to_string(p.mm) + " " + std::to_string(p.del));
        forest* F = makeForest(d.D.d, k, p);
        FRec f; f.fid = F->FID(); f.F = F; f.addr = F; f.dom = d.id; f.code = code; f.k = k; f.live = true;
        W.forests.push_back(f);
        out("fid " + std::to_string(f.fid));
        STATS.hit(std::string("step.mkforest.") + KCODE[code]);
    }
    void doRmForest(FRec* f) {
        hdr("rmforest " + std::to_string(f ? f->fid : 1u));
        try {
            if (f) {
                unsigned n = 0;
                for (auto& e : W.edges) if (e.e->getForest() == f->F) ++n;
                forest::destroy(f->F);
                W.forestDied(*f);
                STATS.hit(n ? "step.rmforest.withedges" : "step.rmforest.noedges");
            } else {
                forest* stale = reinterpret_cast<forest*>(uintptr_t(8));
                forest::destroy(stale);
            }
            out("ok");
        } catch (error& e) { outErr(e); }
    }
    void doMkEdge(FRec* f, int id = 0) {
        ERec e; e.id = id ? id : W.nextEdge;
        if (e.id >= W.nextEdge) W.nextEdge = e.id + 1;
        hdr("mkedge " + std::to_string(e.id) + " " + std::to_string(f ? f->fid : 0u));
        e.e = f ? new dd_edge(f->F) : new dd_edge();
        W.edges.push_back(e);
        out("ok"); STATS.hit(f ? "step.mkedge.attached" : "step.mkedge.none");
    }
    void doFill(ERec& e) {
        forest* F = e.e->getForest();
        FRec* fr = W.forestByFid(F->FID());
        DRec* d = W.dom(fr->dom);
        unsigned dens = r.pick(std::vector<unsigned>{10, 30, 50, 80});
        doFill(e, randomTable(r, d->D, fr->k, dens));
    }
    void doFill(ERec& e, const std::vector<Val>& t) {
        forest* F = e.e->getForest();
        FRec* fr = W.forestByFid(F->FID());
        DRec* d = W.dom(fr->dom);
        std::string ts;
        for (size_t i = 0; i < t.size(); i++) { if (i) ts += ','; ts += t[i].str(); }
        hdr("fill " + std::to_string(e.id) + " " + ts);
        buildFromTable(d->D, F, fr->k, t, *e.e);
        e.valid = true;
        W.edgeWritten(e.id);
        out("ok"); STATS.hit("step.fill");
    }
    void doCopyEdge(ERec src, int id = 0) {
        ERec e; e.id = id ? id : W.nextEdge;
        if (e.id >= W.nextEdge) W.nextEdge = e.id + 1;
        hdr("copyedge " + std::to_string(src.id) + " " + std::to_string(e.id));
        e.e = new dd_edge(*src.e);
        e.valid = src.valid && e.e->getForest();
        W.edges.push_back(e);
        out("ok"); STATS.hit(src.e->getForest() ? "step.copyedge.attached" : "step.copyedge.none");
    }
    void doAssign(ERec& dst, ERec& src) {
        hdr("assign " + std::to_string(dst.id) + " " + std::to_string(src.id));
        *dst.e = *src.e;
        dst.valid = src.valid && dst.e->getForest();
        W.edgeWritten(dst.id);
        out("ok"); STATS.hit("step.assign");
    }
    void doRmEdge(size_t idx) {
        ERec e = W.edges[idx];
        hdr("rmedge " + std::to_string(e.id));
        STATS.hit(e.e->getForest() ? "step.rmedge.attached" : (W.running ? "step.rmedge.none" : "step.rmedge.stopped"));
        delete e.e;
        W.edgeWritten(e.id);
        W.edges.erase(W.edges.begin() + long(idx));
        out("ok");
    }
    void doAttach(ERec& e, FRec& f) {
        hdr("attach " + std::to_string(e.id) + " " + std::to_string(f.fid));
        if (e.e->getForest() != f.F) e.valid = false;
        e.e->attach(f.F);
        W.edgeWritten(e.id);
        out("ok"); STATS.hit("step.attach");
    }
    void doDetach(ERec& e) {
        hdr("detach " + std::to_string(e.id));
        e.e->detach();
        e.valid = false;
        W.edgeWritten(e.id);
        out("ok"); STATS.hit("step.detach");
    }
    void doEvaluate(ERec& e) {
        hdr("evaluate " + std::to_string(e.id));
        try {
            forest* F = e.e->getForest();
            minterm m(F);
            if (F) {
                FRec* fr = W.forestByFid(F->FID());
                setMinterm(W.dom(fr->dom)->D, fr->k.rel, 0, m);
            }
            rangeval rv;
            e.e->evaluate(m, rv);
            out("ok"); STATS.hit("step.evaluate.ok");
        } catch (error& er) { outErr(er); STATS.hit("step.evaluate.detached"); }
    }
    void doMkIter(ERec& e, int id = 0) {
        IRec it; it.id = id ? id : W.nextIter;
        if (it.id >= W.nextIter) W.nextIter = it.id + 1;
        it.srcEdge = e.id; it.fid = e.e->getForest()->FID(); it.usable = true;
        hdr("mkiter " + std::to_string(it.id) + " " + std::to_string(e.id));
        it.it = new dd_edge::iterator(*e.e);
        W.iters.push_back(it);
        out("ok"); STATS.hit("step.mkiter");
    }
    void doAdvIter(IRec& it) {
        hdr("adviter " + std::to_string(it.id));
        ++(*it.it);
        out("ok"); STATS.hit("step.adviter");
    }
    void doRmIter(size_t idx) {
        IRec it = W.iters[idx];
        hdr("rmiter " + std::to_string(it.id));
        STATS.hit(it.fid ? "step.rmiter.live" : (W.running ? "step.rmiter.orphan" : "step.rmiter.stopped"));
        delete it.it;
        W.iters.erase(W.iters.begin() + long(idx));
        out("ok");
    }
    void doBuild(bool isUnion, const std::vector<FRec*>& fs) {
        int prop = W.nextOp;
        std::string s = std::string("build ") + std::to_string(prop) + (isUnion ? " UNION" : " COPY");
        for (auto* f : fs) s += " " + std::to_string(f->fid);
        hdr(s);
        try {
            const operation* op;
            if (isUnion) op = build(UNION, fs[0]->F, fs[1]->F, fs[2]->F);
            else op = build(COPY, fs[0]->F, fs[1]->F);
            if (!op) { out("err NULL"); return; }
            bool used;
            out(trackOp(W, op, prop, used));
            if (used) W.nextOp++;
            STATS.hit(used ? "step.build.new" : "step.build.cached");
        } catch (error& e) { outErr(e); }
    }
    // Calls that would succeed in building the operation but whose *computation* is outside this
    // family's subject are replaced by a build of the same operation: a union over forests of
    // non-boolean range (UNION is "logical OR"; the constructor does not check the range), and operands in EV+
    // forests that were never given a function (a fresh dd_edge in an EV forest has no edge value).
    bool outsideSubject(bool isUnion, const std::vector<ERec*>& es, std::vector<FRec*>& fs) {
        fs.clear();
        for (auto* e : es) {
            forest* F = e->e->getForest();
            if (!F) return false;
            fs.push_back(W.forestByFid(F->FID()));
        }
        for (auto* f : fs) if (f->dom != fs.back()->dom || f->k.rel != fs.back()->k.rel) return false;
        if (isUnion) {
            for (auto* f : fs) if (f->code % 3 == 2) return false;
            for (auto* f : fs) if (f->code % 3 != 0) return true;     // UNION is documented for sets (boolean range) only
            // cross-forest UNION on relation forests is broken in the unchanged library independent of
            // any lifecycle history (reported separately): relations only get in-forest unions
            if (fs.back()->k.rel) for (auto* f : fs) if (f != fs.back()) return true;
        }
        for (size_t i = 0; i + 1 < es.size(); i++) if (fs[i]->code % 3 == 2 && !es[i]->valid) return true;
        return false;
    }
    void doApply(bool isUnion, const std::vector<ERec*>& es) {
        {
            std::vector<FRec*> fs;
            if (outsideSubject(isUnion, es, fs)) { doBuild(isUnion, fs); return; }
        }
        int prop = W.nextOp;
        std::string s = std::string("apply ") + std::to_string(prop) + (isUnion ? " UNION" : " COPY");
        for (auto* e : es) s += " " + std::to_string(e->id);
        hdr(s);
        bool anyDetached = false;
        std::set<int> doms;
        for (auto* e : es) {
            forest* F = e->e->getForest();
            if (!F) anyDetached = true; else doms.insert(W.forestByFid(F->FID())->dom);
        }
        try {
            if (isUnion) apply(UNION, *es[0]->e, *es[1]->e, *es[2]->e);
            else apply(COPY, *es[0]->e, *es[1]->e);
            W.edgeWritten(es.back()->id);
            es.back()->valid = true;
            const operation* op;
            if (isUnion) op = build(UNION, es[0]->e->getForest(), es[1]->e->getForest(), es[2]->e->getForest());
            else op = build(COPY, es[0]->e->getForest(), es[1]->e->getForest());
            bool used;
            out(trackOp(W, op, prop, used));
            if (used) W.nextOp++;
            std::set<forest*> span;
            for (auto* e : es) span.insert(e->e->getForest());
            STATS.hit(span.size() > 1 ? "step.apply.ok.crossforest" : "step.apply.ok.inforest");
        } catch (error& e) {
            outErr(e);
            STATS.hit(anyDetached ? "step.apply.detached" : (doms.size() > 1 ? "step.apply.crossdomain" : "step.apply.typeerr"));
        }
    }
    void doCtClear(FRec& f) {
        if (steerCtClear && ctClearHazard(f.F)) {
            // the call would be a use-after-free in the unchanged library (finding F-C17-3, probed
            // separately): evaluate something instead
            STATS.hit("step.ctclear.avoided-hazard");
            if (!W.edges.empty()) doEvaluate(W.edges[r.below(unsigned(W.edges.size()))]);
            else doMkEdge(&f);
            return;
        }
        hdr("ctclear " + std::to_string(f.fid));
        f.F->removeAllComputeTableEntries();
        out("ok"); STATS.hit("step.ctclear");
    }

    // ---- random choice of the next step
    ERec* pickEdge(bool wantAttached, int domPref) {
        std::vector<ERec*> c;
        for (auto& e : W.edges) {
            forest* F = e.e->getForest();
            if (wantAttached && !F) continue;
            if (domPref && F && W.forestByFid(F->FID())->dom != domPref) continue;
            c.push_back(&e);
        }
        if (c.empty()) return nullptr;
        return c[r.below(unsigned(c.size()))];
    }
    ERec* pickEdgeOfForest(FRec* f) {
        std::vector<ERec*> c;
        for (auto& e : W.edges) if (e.e->getForest() == f->F) c.push_back(&e);
        if (c.empty()) return nullptr;
        return c[r.below(unsigned(c.size()))];
    }

    void randomStep() {
        auto LD = W.liveDoms();
        auto LF = W.liveForests();
        bool staleIters = false, usableIters = false;
        for (auto& it : W.iters) { if (!it.fid) staleIters = true; if (it.usable) usableIters = true; }
        std::vector<ERec*> attached;
        for (auto& e : W.edges) if (e.e->getForest()) attached.push_back(&e);

        struct Choice { int w; int what; };
        std::vector<Choice> ch;
        auto add = [&](int w, int what) { if (w > 0) ch.push_back({w, what}); };
        bool run = W.running;
        // an orphaned iterator of an earlier initialisation must not survive into the next one
        size_t nAtt = attached.size();
        add(run ? 1 : (staleIters ? 0 : 30), 0);                          // init
        add(run ? 1 : 2, 1);                                              // cleanup
        add(LD.size() < 3 ? (run ? (LD.empty() ? 40 : 4) : 2) : 0, 2);    // mkdom
        add(run ? (LD.empty() ? 0 : 2) : (W.doms.empty() ? 0 : 1), 3);    // rmdom
        add(!LD.empty() && LF.size() < 6 ? (LF.size() < 3 ? 30 : 6) : 0, 4);   // mkforest
        add(run ? (LF.empty() ? 0 : 4) : (W.forests.empty() ? 0 : 1), 5); // rmforest
        add(W.edges.size() < 20 ? (nAtt < 4 && !LF.empty() ? 30 : 6) : 0, 6);  // mkedge
        add(attached.empty() ? 0 : 16, 7);                                // fill
        add(!W.edges.empty() && W.edges.size() < 20 ? 3 : 0, 8);          // copyedge
        add(W.edges.size() >= 2 ? 4 : 0, 9);                              // assign
        add(W.edges.empty() ? 0 : (W.edges.size() > 15 ? 6 : 2), 10);     // rmedge
        add(!W.edges.empty() && !LF.empty() ? (nAtt < 4 ? 12 : 4) : 0, 11);    // attach
        add(attached.empty() ? 0 : 1, 12);                                // detach
        add(W.edges.empty() ? 0 : 2, 13);                                 // evaluate
        add(!attached.empty() && W.iters.size() < 4 ? 3 : 0, 14);         // mkiter
        add(usableIters ? 3 : 0, 15);                                     // adviter
        add(W.iters.empty() ? 0 : (staleIters ? 6 : 2), 16);              // rmiter
        add(LF.empty() ? 0 : 4, 17);                                      // build
        add(W.edges.empty() ? 0 : (nAtt >= 2 ? 30 : 6), 18);              // apply
        add(LF.empty() ? 0 : 1, 19);                                      // ctclear
        int tot = 0;
        for (auto& c : ch) tot += c.w;
        int x = int(r.below(unsigned(tot)));
        int what = -1;
        for (auto& c : ch) { if (x < c.w) { what = c.what; break; } x -= c.w; }

        switch (what) {
            case 0: doInit(); break;
            case 1: doCleanup(); break;
            case 2: doMkDom(); break;
            case 3: {
                if (run) doRmDom(*LD[r.below(unsigned(LD.size()))]);
                else doRmDom(W.doms[r.below(unsigned(W.doms.size()))]);
                break;
            }
            case 4: doMkForest(*LD[r.below(unsigned(LD.size()))]); break;
            case 5: {
                if (run) doRmForest(LF[r.below(unsigned(LF.size()))]);
                else doRmForest(nullptr);
                break;
            }
            case 6: doMkEdge(!LF.empty() && r.chance(9, 10) ? LF[r.below(unsigned(LF.size()))] : nullptr); break;
            case 7: doFill(*attached[r.below(unsigned(attached.size()))]); break;
            case 8: doCopyEdge(W.edges[r.below(unsigned(W.edges.size()))]); break;
            case 9: {
                unsigned a = r.below(unsigned(W.edges.size())), b = r.below(unsigned(W.edges.size()));
                doAssign(W.edges[a], W.edges[b]);
                break;
            }
            case 10: doRmEdge(r.below(unsigned(W.edges.size()))); break;
            case 11: doAttach(W.edges[r.below(unsigned(W.edges.size()))], *LF[r.below(unsigned(LF.size()))]); break;
            case 12: doDetach(*attached[r.below(unsigned(attached.size()))]); break;
            case 13: doEvaluate(W.edges[r.below(unsigned(W.edges.size()))]); break;
            case 14: doMkIter(*attached[r.below(unsigned(attached.size()))]); break;
            case 15: {
                std::vector<IRec*> u;
                for (auto& it : W.iters) if (it.usable) u.push_back(&it);
                doAdvIter(*u[r.below(unsigned(u.size()))]);
                break;
            }
            case 16: {
                std::vector<size_t> c;
                for (size_t i = 0; i < W.iters.size(); i++) if (!staleIters || !W.iters[i].fid) c.push_back(i);
                doRmIter(c[r.below(unsigned(c.size()))]);
                break;
            }
            case 17: {
                bool isUnion = r.chance(1, 2);
                unsigned n = isUnion ? 3 : 2;
                std::vector<FRec*> fs;
                // mostly forests of one domain (so that the operation can exist), sometimes anything
                if (r.chance(3, 4)) {
                    int d = LF[r.below(unsigned(LF.size()))]->dom;
                    std::vector<FRec*> same;
                    for (auto* f : LF) if (f->dom == d) same.push_back(f);
                    for (unsigned i = 0; i < n; i++) fs.push_back(same[r.below(unsigned(same.size()))]);
                } else {
                    for (unsigned i = 0; i < n; i++) fs.push_back(LF[r.below(unsigned(LF.size()))]);
                }
                doBuild(isUnion, fs);
                break;
            }
            case 18: {
                bool isUnion = r.chance(1, 2);
                unsigned n = isUnion ? 3 : 2;
                std::vector<ERec*> es;
                unsigned mode = r.below(10);
                if (mode < 8 && !LF.empty()) {
                    // choose compatible forests first (distinct ones when possible, so that the
                    // operation and its cache entries span forests), then edges attached to them
                    int d = LF[r.below(unsigned(LF.size()))]->dom;
                    for (int tries = 0; tries < 3; tries++) {
                        unsigned cnt = 0, cnt2 = 0;
                        int d2 = LF[r.below(unsigned(LF.size()))]->dom;
                        for (auto* f : LF) { if (f->dom == d) ++cnt; if (f->dom == d2) ++cnt2; }
                        if (cnt2 > cnt) d = d2;
                    }
                    std::vector<FRec*> same;
                    for (auto* f : LF) if (f->dom == d) same.push_back(f);
                    if (isUnion) {
                        std::vector<FRec*> bools;
                        for (auto* f : same) if (f->code % 3 == 0) bools.push_back(f);
                        if (bools.empty()) { isUnion = false; n = 2; } else same = bools;
                    }
                    FRec* first = same[r.below(unsigned(same.size()))];
                    std::vector<FRec*> compat;
                    for (auto* f : same)
                        if (f->k.rel == first->k.rel && (!isUnion || f->code % 3 == 0)) compat.push_back(f);
                    if (compat.empty()) compat = same;
                    if (isUnion && first->k.rel) { compat.clear(); compat.push_back(first); }
                    std::vector<FRec*> chosen;
                    for (unsigned i = 0; i < n; i++) {
                        FRec* f = compat[r.below(unsigned(compat.size()))];
                        for (int tries = 0; tries < 3; tries++) {
                            bool dup = false;
                            for (auto* c : chosen) if (c == f) dup = true;
                            if (!dup || !pickEdgeOfForest(f)) { if (!dup) break; }
                            f = compat[r.below(unsigned(compat.size()))];
                        }
                        chosen.push_back(f);
                        ERec* e = pickEdgeOfForest(f);
                        if (!e) e = pickEdge(true, d);
                        if (!e) e = pickEdge(true, 0);
                        if (!e) e = &W.edges[r.below(unsigned(W.edges.size()))];
                        es.push_back(e);
                    }
                } else if (mode < 9) {
                    for (unsigned i = 0; i < n; i++) es.push_back(&W.edges[r.below(unsigned(W.edges.size()))]);
                } else {
                    // force a detached edge somewhere, if there is one
                    for (unsigned i = 0; i < n; i++) {
                        ERec* e = pickEdge(true, 0);
                        es.push_back(e ? e : &W.edges[r.below(unsigned(W.edges.size()))]);
                    }
                    std::vector<ERec*> det;
                    for (auto& e : W.edges) if (!e.e->getForest()) det.push_back(&e);
                    if (!det.empty()) es[r.below(n)] = det[r.below(unsigned(det.size()))];
                }
                doApply(isUnion, es);
                break;
            }
            case 19: doCtClear(*LF[r.below(unsigned(LF.size()))]); break;
            default: break;
        }
        observe(W);
    }

    // ---- replay of the `step` lines of an earlier transcript (debugging aid: steps whose
    // objects do not exist any more are skipped, so lines can be deleted freely)
    static Val parseVal(const std::string& t, const Kind& k) {
        if (t == "inf") return Val::inf();
        if (t == "T") return Val::boolean(true);
        if (t == "F") return Val::boolean(false);
        (void) k;
        return Val::integer(atol(t.c_str()));
    }
    bool replayLine(const std::vector<std::string>& w) {
        // w[0]="step" w[1]=n w[2]=op ...
        if (w.size() < 3) return false;
        const std::string& op = w[2];
        auto num = [&](size_t i) { return i < w.size() ? atol(w[i].c_str()) : 0L; };
        auto liveForest = [&](long fid) -> FRec* { return fid > 0 ? W.forestByFid(unsigned(fid)) : nullptr; };
        auto iterIdx = [&](long id) -> long { for (size_t i = 0; i < W.iters.size(); i++) if (W.iters[i].id == id) return long(i); return -1; };
        if (op == "init") { CTConf ct; ct.style = int(num(3)); ct.stale = int(num(4)); ct.maxSize = num(5);
            for (auto& it : W.iters) if (!it.fid && !W.running) return false;
            doInit(ct); return true; }
        if (op == "cleanup") { doCleanup(); return true; }
        if (op == "mkdom") { if (W.dom(int(num(3)))) return false; std::vector<int> sz; for (size_t i = 4; i < w.size(); i++) sz.push_back(int(num(i)));
            doMkDom(int(num(3)), sz); return true; }
        if (op == "rmdom") { DRec* d = W.dom(int(num(3))); if (!d) return false; if (W.running && !d->live) return false; doRmDom(*d); return true; }
        if (op == "mkforest") { DRec* d = W.dom(int(num(3))); if (!d || !d->live || w.size() < 9) return false;
            int code = -1; for (int c = 0; c < 6; c++) if (w[4] == KCODE[c]) code = c;
            if (code < 0) return false;
            Pol p; p.storage = int(num(6)); p.mm = int(num(7)); p.del = int(num(8));
            doMkForest(*d, code, int(num(5)), p); return true; }
        if (op == "rmforest") { if (!W.running) { if (W.forests.empty()) return false; doRmForest(nullptr); return true; }
            FRec* f = liveForest(num(3)); if (!f) return false; doRmForest(f); return true; }
        if (op == "mkedge") { if (W.edge(int(num(3)))) return false; FRec* f = liveForest(num(4)); if (num(4) && !f) return false; doMkEdge(f, int(num(3))); return true; }
        if (op == "fill") { ERec* e = W.edge(int(num(3))); if (!e || !e->e->getForest() || w.size() < 5) return false;
            FRec* fr = W.forestByFid(e->e->getForest()->FID());
            std::vector<Val> t; std::stringstream ss(w[4]); std::string tok;
            while (std::getline(ss, tok, ',')) t.push_back(parseVal(tok, fr->k));
            if (t.size() != W.dom(fr->dom)->D.card(fr->k.rel)) return false;
            for (auto& v : t) if ((v.t == Val::B) != (fr->code % 3 == 0)) return false;
            doFill(*e, t); return true; }
        if (op == "copyedge") { ERec* e = W.edge(int(num(3))); if (!e || W.edge(int(num(4)))) return false; doCopyEdge(*e, int(num(4))); return true; }
        if (op == "assign") { ERec* a = W.edge(int(num(3))); ERec* b = W.edge(int(num(4))); if (!a || !b) return false; doAssign(*a, *b); return true; }
        if (op == "rmedge") { for (size_t i = 0; i < W.edges.size(); i++) if (W.edges[i].id == num(3)) { doRmEdge(i); return true; } return false; }
        if (op == "attach") { ERec* e = W.edge(int(num(3))); FRec* f = liveForest(num(4)); if (!e || !f) return false; doAttach(*e, *f); return true; }
        if (op == "detach") { ERec* e = W.edge(int(num(3))); if (!e) return false; doDetach(*e); return true; }
        if (op == "evaluate") { ERec* e = W.edge(int(num(3))); if (!e) return false; doEvaluate(*e); return true; }
        if (op == "mkiter") { ERec* e = W.edge(int(num(4))); if (!e || !e->e->getForest() || iterIdx(num(3)) >= 0) return false; doMkIter(*e, int(num(3))); return true; }
        if (op == "adviter") { long i = iterIdx(num(3)); if (i < 0 || !W.iters[size_t(i)].usable) return false; doAdvIter(W.iters[size_t(i)]); return true; }
        if (op == "rmiter") { long i = iterIdx(num(3)); if (i < 0) return false; doRmIter(size_t(i)); return true; }
        if (op == "build") { bool isUnion = w.size() > 4 && w[4] == "UNION"; std::vector<FRec*> fs;
            for (size_t i = 5; i < w.size(); i++) { FRec* f = liveForest(num(i)); if (!f) return false; fs.push_back(f); }
            if (fs.size() != (isUnion ? 3u : 2u)) return false;
            doBuild(isUnion, fs); return true; }
        if (op == "apply") { bool isUnion = w.size() > 4 && w[4] == "UNION"; std::vector<ERec*> es;
            for (size_t i = 5; i < w.size(); i++) { ERec* e = W.edge(int(num(i))); if (!e) return false; es.push_back(e); }
            if (es.size() != (isUnion ? 3u : 2u)) return false;
            doApply(isUnion, es); return true; }
        if (op == "ctclear") { FRec* f = liveForest(num(3)); if (!f) return false; doCtClear(*f); return true; }
        return false;
    }

    // orderly end of the case in one of several orders; everything goes through printed steps
    void teardown() {
        unsigned order = r.below(5);
        STATS.hit("teardown." + std::to_string(order));
        auto rmAllEdges = [&]() { while (!W.edges.empty()) { doRmEdge(r.below(unsigned(W.edges.size()))); observe(W); } };
        auto rmAllIters = [&]() { while (!W.iters.empty()) { doRmIter(r.below(unsigned(W.iters.size()))); observe(W); } };
        auto rmAllForests = [&]() { for (;;) { auto LF = W.liveForests(); if (LF.empty()) break; doRmForest(LF[r.below(unsigned(LF.size()))]); observe(W); } };
        auto rmAllDoms = [&]() { for (;;) { auto LD = W.liveDoms(); if (LD.empty()) break; doRmDom(*LD[r.below(unsigned(LD.size()))]); observe(W); } };
        auto cleanup = [&]() { if (W.running) { doCleanup(); observe(W); } };
        switch (order) {
            case 0: rmAllIters(); rmAllEdges(); cleanup(); break;                       // edges first
            case 1: cleanup(); rmAllEdges(); rmAllIters(); break;                       // edges outlive cleanup
            case 2: if (W.running) { rmAllDoms(); } rmAllEdges(); rmAllIters(); cleanup(); break;   // domains with live forests
            case 3: if (W.running) { rmAllForests(); rmAllDoms(); } rmAllIters(); rmAllEdges(); cleanup(); break;
            default: if (W.running) { rmAllForests(); } cleanup(); rmAllIters(); rmAllEdges(); break;
        }
    }
};

// F-C17-1: building an iterator for an edge without forest.  Run in a child process because the
// unchanged library dereferences a null pointer there.
void probeIterDetached() {
    fflush(stdout);
    pid_t pid = fork();
    if (pid == 0) {
        // child: no output, no atexit handlers
        FILE* devnull = freopen("/dev/null", "w", stderr);
        (void) devnull;
        int rc = 13;
        try {
            libInit();
            dd_edge det;
            dd_edge::iterator it(det);
            rc = bool(it) ? 11 : 10;
        } catch (error&) { rc = 12; }
        _exit(rc);
    }
    int status = 0;
    if (pid < 0 || waitpid(pid, &status, 0) < 0) { emit("probe iter-detached unavailable"); return; }
    if (WIFSIGNALED(status)) emit("probe iter-detached signal");
    else if (WEXITSTATUS(status) == 10) emit("probe iter-detached end");
    else if (WEXITSTATUS(status) == 11) emit("probe iter-detached notend");
    else if (WEXITSTATUS(status) == 12) emit("probe iter-detached error");
    else emit("probe iter-detached abort");    // sanitizer builds turn the fault into an abort / exit code
}

// F-C17-2: a second MEDDLY::initialize() is rejected with ALREADY_INITIALIZED, but building the default
// initializer list has already replaced the compute-table factory; with an operation-style table every
// later operation constructor throws.  Run in a child process to leave this process untouched.
void probeReinitOpStyle() {
    fflush(stdout);
    pid_t pid = fork();
    if (pid == 0) {
        FILE* devnull = freopen("/dev/null", "w", stderr);
        (void) devnull;
        int rc = 13;
        try {
            CTConf ct; ct.style = 2; ct.stale = 1; ct.maxSize = 0;
            libInit(&ct);
            bool rejected = false;
            try { MEDDLY::initialize(); } catch (error& e) { rejected = (e.getCode() == error::ALREADY_INITIALIZED); }
            if (!rejected) _exit(14);
            int b[2] = {2, 3};
            domain* d = domain::createBottomUp(b, 2);
            forest* f1 = forest::create(d, SET, range_type::BOOLEAN, edge_labeling::MULTI_TERMINAL);
            forest* f2 = forest::create(d, SET, range_type::BOOLEAN, edge_labeling::MULTI_TERMINAL);
            dd_edge a(f1), b2(f2), c(f2);
            apply(UNION, a, b2, c);
            rc = 10;
        } catch (error&) { rc = 12; }
        _exit(rc);
    }
    int status = 0;
    if (pid < 0 || waitpid(pid, &status, 0) < 0) { emit("probe reinit-opstyle unavailable"); return; }
    if (WIFSIGNALED(status)) emit("probe reinit-opstyle signal");
    else if (WEXITSTATUS(status) == 10) emit("probe reinit-opstyle ok");
    else if (WEXITSTATUS(status) == 12) emit("probe reinit-opstyle error");
    else if (WEXITSTATUS(status) == 14) emit("probe reinit-opstyle notrejected");
    else emit("probe reinit-opstyle abort");
}

// F-C17-3 (see ctClearHazard): the smallest history, in a child process.  The defect is a use-after-free (the
// table deleted from inside its own removeAll() loop), which a plain build survives by luck: the child asks
// glibc to overwrite freed memory (M_PERTURB) so that the stale loop reads garbage and dies; the sanitizer
// flavour aborts by itself.  While the probe fails, the generator replaces the hazardous `ctclear` steps.
void probeCtClearAfterDestroy() {
    fflush(stdout);
    pid_t pid = fork();
    if (pid == 0) {
        FILE* devnull = freopen("/dev/null", "w", stderr);
        (void) devnull;
        int rc = 13;
        try {
            mallopt(M_PERTURB, 0xA5);
            CTConf ct; ct.style = 2; ct.stale = 0; ct.maxSize = 1024;
            libInit(&ct);
            int b[1] = {2};
            domain* d = domain::createBottomUp(b, 1);
            forest* f1 = forest::create(d, SET, range_type::BOOLEAN, edge_labeling::MULTI_TERMINAL);
            forest* f3 = forest::create(d, SET, range_type::BOOLEAN, edge_labeling::MULTI_TERMINAL);
            dd_edge a(f1), c(f3);
            f1->createEdgeForVar(1, false, a);
            apply(COPY, a, c);                      // cache entries over (f1, f3)
            forest::destroy(f1);                    // kills COPY(f1,f3); its entry type keeps the entries
            bool hazard = ctClearHazard(f3);
            f3->removeAllComputeTableEntries();
            // the forest must still be usable, and the hazard gone
            dd_edge c2(f3);
            f3->createEdgeForVar(1, false, c2);
            apply(UNION, c, c2, c2);
            rc = !hazard ? 16 : (ctClearHazard(f3) ? 15 : 10);
        } catch (error&) { rc = 12; }
        _exit(rc);
    }
    int status = 0;
    if (pid < 0 || waitpid(pid, &status, 0) < 0) { emit("probe ctclear-after-destroy unavailable"); return; }
    if (WIFSIGNALED(status)) emit("probe ctclear-after-destroy signal");
    else if (WEXITSTATUS(status) == 10) { emit("probe ctclear-after-destroy ok"); steerCtClear = false; }
    else if (WEXITSTATUS(status) == 16) emit("probe ctclear-after-destroy nohazard");
    else if (WEXITSTATUS(status) == 15) emit("probe ctclear-after-destroy hazard");
    else if (WEXITSTATUS(status) == 12) emit("probe ctclear-after-destroy error");
    else emit("probe ctclear-after-destroy abort");
}

int run(const Args& A) {
    if (!A.get("replay").empty()) {
        // debugging aid: re-execute the `step` lines of a (possibly edited) transcript of ONE case
        FILE* f = fopen(A.get("replay").c_str(), "r");
        if (!f) { fprintf(stderr, "cannot open %s\n", A.get("replay").c_str()); return 2; }
        Gen G(1, false);
        emit("case 0");
        char buf[1 << 16];
        while (fgets(buf, sizeof buf, f)) {
            std::stringstream ss(buf); std::vector<std::string> w; std::string t;
            while (ss >> t) w.push_back(t);
            if (w.empty() || w[0] != "step") continue;
            if (G.replayLine(w)) observe(G.W);
        }
        fclose(f);
        G.teardown();
        emit("endcase");
        return 0;
    }
    long ncases = A.cases > 0 ? A.cases : (A.thorough() ? 10000 : 1500);
    if (A.getl("probe", 1) != 0 && A.only_case < 0) { probeIterDetached(); probeReinitOpStyle(); probeCtClearAfterDestroy(); }
    for (long c = 0; c < ncases; c++) {
        if (A.only_case >= 0 && c != A.only_case) continue;
        Gen G(Rng::mix(A.seed, uint64_t(c)), A.thorough());
        emit("case %ld", c);
        // a few cases start with calls on the uninitialised library
        long steps = A.thorough() ? G.r.range(40, 200) : G.r.range(30, 90);
        if (G.r.chance(9, 10)) { G.doInit(); observe(G.W); }
        for (long i = 0; i < steps; i++) G.randomStep();
        G.teardown();
        emit("endcase");
        STATS.hit("cases");
    }
    return 0;
}
FamilyReg reg("lifecycle", run, "C17 library / domain / forest / edge lifecycles in any order");
}  // namespace
