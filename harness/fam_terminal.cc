// Family `terminal` (C19): values <-> terminal handles <-> edge values, on the REAL library.
//
//   ei <v> -> <h>|overflow|err <E>     terminal(long v, INTEGER).getHandle()
//   di <h> -> <v>                      terminal(INTEGER, h).getInteger()
//   er <bits> -> <h>                   terminal(float / double, REAL).getHandle()     bits = float, 8 hex digits
//   dr <h> -> <bits>                   float(terminal(REAL, h).getReal())
//   eb <T|F> -> <h>                    terminal(bool [, BOOLEAN]).getHandle()
//   db <h> -> <T|F>|err <E>            terminal(BOOLEAN, h).getBoolean()
//   fh <int|real|bool> <value> -> <h>|overflow|err <E>      forest::handleForValue
//   fv <int|real|bool> <h> -> <value>|err <E>               forest::getValueFromHandle
//   const <kind> <value> -> <value>|overflow|err <E>        createConstant + dd_edge::evaluate
//   cedge <kind> <value> -> <node> <ev|->|overflow|err <E>  createConstant: raw (node, edge value)
// kinds: mtint mtintq mtreal mtrealq mtrealp mtbool evp evpq evt evtq
//        (q = quasi-reduced forest; mtrealq has terminal precision 0, mtrealp is quasi-reduced with the
//         DEFAULT terminal precision 1e-5: real terminals below a node are rounded to multiples of 1e-5)
// values: integers in decimal, `inf`, floats as bit patterns, booleans T / F.
#include "common.h"
#include <climits>
#include <cmath>
using namespace MEDDLY;
using namespace mdh;

namespace {

uint32_t bitsOf(float f) { uint32_t u; memcpy(&u, &f, 4); return u; }
float floatOf(uint32_t u) { float f; memcpy(&f, &u, 4); return f; }
bool nanBits(uint32_t u) { return (u & 0x7f800000u) == 0x7f800000u && (u & 0x007fffffu) != 0; }

std::string errStr(const error& e) {
    if (e.getCode() == error::VALUE_OVERFLOW) return "overflow";
    return std::string("err ") + errName(e);
}

// ------------------------------------------------------------------ class terminal, directly
void rec_ei(long v, int path) {
    try {
        node_handle h;
        if (path == 0) { terminal t(v, terminal_type::INTEGER); h = t.getHandle(); }
        else { terminal t(v); h = t.getHandle(); }
        emit("ei %ld -> %d", v, h);
        STATS.hit(v == 0 ? "ei.zero" : "ei.ok");
    } catch (error& e) {
        emit("ei %ld -> %s", v, errStr(e).c_str());
        STATS.hit("ei.overflow");
    }
}
void rec_di(node_handle h) {
    terminal t(terminal_type::INTEGER, h);
    emit("di %d -> %ld", h, t.getInteger());
    STATS.hit("di");
}
node_handle rec_er(uint32_t b, int path) {
    float f = floatOf(b);
    node_handle h;
    if (path == 0) { terminal t(f, terminal_type::REAL); h = t.getHandle(); }
    else if (path == 1) { double d = f; terminal t(d); h = t.getHandle(); }
    else { terminal t(f); h = t.getHandle(); }
    emit("er %08x -> %d", b, h);
    STATS.hit(h == 0 ? "er.zero" : "er.nonzero");
    return h;
}
void rec_dr(node_handle h) {
    terminal t(terminal_type::REAL, h);
    float g = float(t.getReal());
    emit("dr %d -> %08x", h, bitsOf(g));
    STATS.hit("dr");
}
void rec_eb(bool x, int path) {
    node_handle h;
    if (path == 0) { terminal t(x, terminal_type::BOOLEAN); h = t.getHandle(); }
    else { terminal t(x); h = t.getHandle(); }
    emit("eb %s -> %d", x ? "T" : "F", h);
    STATS.hit("eb");
}
void rec_db(node_handle h) {
    try {
        terminal t(terminal_type::BOOLEAN, h);
        emit("db %d -> %s", h, t.getBoolean() ? "T" : "F");
        STATS.hit("db.ok");
    } catch (error& e) {
        emit("db %d -> %s", h, errStr(e).c_str());
        STATS.hit("db.err");
    }
}

// ------------------------------------------------------------------ through forests
struct Forests {
    Dom D;
    Dom DR;
    forest *mtint = nullptr, *mtintq = nullptr, *mtreal = nullptr, *mtrealq = nullptr, *mtrealp = nullptr, *mtbool = nullptr;
    forest *evp = nullptr, *evpq = nullptr, *evt = nullptr, *evtq = nullptr;
    void create() {
        D.sizes = {2, 3};
        D.create();
        DR.sizes = {2, 2};
        DR.create();
        auto mk = [&](Dom& d, bool rel, range_type rt, edge_labeling el, reduction_rule rr) {
            Kind k; k.rel = rel; k.rt = rt; k.el = el; k.rr = rr;
            return makeForest(d.d, k, Pol());
        };
        const reduction_rule FR = reduction_rule::FULLY_REDUCED, QR = reduction_rule::QUASI_REDUCED;
        mtint = mk(D, false, range_type::INTEGER, edge_labeling::MULTI_TERMINAL, FR);
        mtintq = mk(D, false, range_type::INTEGER, edge_labeling::MULTI_TERMINAL, QR);
        mtreal = mk(D, false, range_type::REAL, edge_labeling::MULTI_TERMINAL, FR);
        mtrealq = mk(D, false, range_type::REAL, edge_labeling::MULTI_TERMINAL, QR);
        mtrealq->setTerminalPrecision(0);      // pure encoding: no rounding at node reduction
        mtrealp = mk(D, false, range_type::REAL, edge_labeling::MULTI_TERMINAL, QR);   // default: 1e-5
        mtbool = mk(D, false, range_type::BOOLEAN, edge_labeling::MULTI_TERMINAL, FR);
        evp = mk(D, false, range_type::INTEGER, edge_labeling::EVPLUS, FR);
        evpq = mk(D, false, range_type::INTEGER, edge_labeling::EVPLUS, QR);
        evt = mk(DR, true, range_type::REAL, edge_labeling::EVTIMES, FR);
        evtq = mk(DR, true, range_type::REAL, edge_labeling::EVTIMES, QR);
    }
    void destroy() {
        for (forest* f : {mtint, mtintq, mtreal, mtrealq, mtrealp, mtbool, evp, evpq, evt, evtq}) forest::destroy(f);
        D.destroy();
        DR.destroy();
    }
};

std::string rvStr(const rangeval& rv) {
    char buf[64];
    if (rv.isPlusInfinity()) return "inf";
    if (rv.isBoolean()) return bool(rv) ? "T" : "F";
    if (rv.isInteger()) { snprintf(buf, sizeof buf, "%ld", long(rv)); return buf; }
    snprintf(buf, sizeof buf, "%08x", bitsOf(float(double(rv))));
    return buf;
}

// createConstant + evaluate at a minterm chosen by `pick`; with `raw`, also the raw edge
void rec_const(const char* kind, forest* F, const Dom& D, const rangeval& val, const std::string& vs, unsigned pick,
               bool raw) {
    try {
        dd_edge e(F);
        F->createConstant(val, e);
        if (raw) {
            std::string evs = "-";
            const edge_value& ev = e.getEdgeValue();
            char buf[64];
            if (ev.isLong()) { snprintf(buf, sizeof buf, "%ld", long(ev)); evs = buf; }
            else if (ev.isInt()) { snprintf(buf, sizeof buf, "%d", int(ev)); evs = buf; }
            else if (ev.isFloat()) { snprintf(buf, sizeof buf, "%08x", bitsOf(float(ev))); evs = buf; }
            else if (!ev.isVoid()) evs = "?";
            emit("cedge %s %s -> %d %s", kind, vs.c_str(), e.getNode(), evs.c_str());
            STATS.hit("cedge");
        }
        minterm m(F);
        setMinterm(D, F->isForRelations(), pick % D.card(F->isForRelations()), m);
        rangeval out;
        e.evaluate(m, out);
        emit("const %s %s -> %s", kind, vs.c_str(), rvStr(out).c_str());
        STATS.hit(std::string("const.") + kind);
    } catch (error& e) {
        emit("const %s %s -> %s", kind, vs.c_str(), errStr(e).c_str());
        STATS.hit(std::string("const.") + kind + ".err");
    }
}

void forest_int(Forests& Fs, long v, unsigned pick) {
    char vs[32];
    snprintf(vs, sizeof vs, "%ld", v);
    try {
        node_handle h = Fs.mtint->handleForValue(v);
        emit("fh int %s -> %d", vs, h);
    } catch (error& e) {
        emit("fh int %s -> %s", vs, errStr(e).c_str());
    }
    STATS.hit("fh.int");
    rec_const("mtint", Fs.mtint, Fs.D, rangeval(v), vs, pick, true);
    rec_const("mtintq", Fs.mtintq, Fs.D, rangeval(v), vs, pick, false);
    rec_const("evp", Fs.evp, Fs.D, rangeval(v), vs, pick, true);
    rec_const("evpq", Fs.evpq, Fs.D, rangeval(v), vs, pick, false);
}
void forest_inf(Forests& Fs, unsigned pick) {
    rangeval inf(range_special::PLUS_INFINITY, range_type::INTEGER);
    rec_const("evp", Fs.evp, Fs.D, inf, "inf", pick, true);
    rec_const("evpq", Fs.evpq, Fs.D, inf, "inf", pick, false);
    rec_const("mtint", Fs.mtint, Fs.D, inf, "inf", pick, false);      // documented: NOT_IMPLEMENTED
    STATS.hit("const.inf");
}
void forest_real(Forests& Fs, uint32_t b, unsigned pick) {
    char vs[32];
    snprintf(vs, sizeof vs, "%08x", b);
    float f = floatOf(b);
    try {
        node_handle h = Fs.mtreal->handleForValue(f);
        emit("fh real %s -> %d", vs, h);
    } catch (error& e) {
        emit("fh real %s -> %s", vs, errStr(e).c_str());
    }
    STATS.hit("fh.real");
    rec_const("mtreal", Fs.mtreal, Fs.D, rangeval(double(f)), vs, pick, true);
    rec_const("mtrealq", Fs.mtrealq, Fs.D, rangeval(f), vs, pick, false);
    rec_const("mtrealp", Fs.mtrealp, Fs.D, rangeval(f), vs, pick, false);
    rec_const("evt", Fs.evt, Fs.DR, rangeval(f), vs, pick, true);
    rec_const("evtq", Fs.evtq, Fs.DR, rangeval(double(f)), vs, pick, false);
}
void forest_bool(Forests& Fs, bool x, unsigned pick) {
    const char* vs = x ? "T" : "F";
    emit("fh bool %s -> %d", vs, Fs.mtbool->handleForValue(x));
    STATS.hit("fh.bool");
    rec_const("mtbool", Fs.mtbool, Fs.D, rangeval(x), vs, pick, true);
}
void forest_fv_int(Forests& Fs, node_handle h) {
    long v;
    Fs.mtint->getValueFromHandle(h, v);
    emit("fv int %d -> %ld", h, v);
    STATS.hit("fv.int");
}
void forest_fv_real(Forests& Fs, node_handle h) {
    float g;
    Fs.mtreal->getValueFromHandle(h, g);
    emit("fv real %d -> %08x", h, bitsOf(g));
    STATS.hit("fv.real");
}
void forest_fv_bool(Forests& Fs, node_handle h) {
    try {
        bool x;
        Fs.mtbool->getValueFromHandle(h, x);
        emit("fv bool %d -> %s", h, x ? "T" : "F");
    } catch (error& e) {
        emit("fv bool %d -> %s", h, errStr(e).c_str());
    }
    STATS.hit("fv.bool");
}

// ------------------------------------------------------------------ generators
long randomLong(Rng& r) {
    const long P30 = 1L << 30;
    switch (r.below(8)) {
        case 0: return long(r.next());                                       // any 64-bit pattern
        case 1: return long(int32_t(uint32_t(r.next())));                    // sign-extended 32-bit pattern
        case 2: return long(r.next() % (2 * uint64_t(P30))) - P30;           // in range
        case 3: return long(r.next() % (2 * uint64_t(P30))) - P30;           // in range
        case 4: return (r.chance(1, 2) ? P30 : -P30) + long(r.below(65)) - 32;   // around the boundaries
        case 5: return long(r.below(2001)) - 1000;                           // small
        case 6: { int s = r.range(0, 63); long v = long(r.next() >> s); return r.chance(1, 2) ? v : -v; }
        default: return long(r.next() % (4 * uint64_t(P30))) - 2 * P30;      // int range, half of it overflowing
    }
}
uint32_t randomFloatBits(Rng& r) {
    for (;;) {
        uint32_t b;
        switch (r.below(4)) {
            case 0: b = uint32_t(r.next()); break;
            case 1: b = (uint32_t(r.next()) & 0x807fffffu) | (uint32_t(r.range(100, 150)) << 23); break;   // moderate exponents
            case 2: b = uint32_t(r.next()) & 0x807fffffu; break;                                          // denormals and zeros
            default: b = bitsOf(float(r.range(-64, 64)) / float(1 << r.range(0, 6))); break;              // small dyadics
        }
        if (!nanBits(b)) return b;
    }
}

int run(const Args& A) {
    libInit();
    const bool deep = A.thorough();
    const std::vector<uint32_t> lows_q = {0x0000u, 0x0001u, 0x8000u, 0xffffu};
    const std::vector<uint32_t> lows_t = {0x0000u, 0x0001u, 0x8000u, 0xffffu, 0x0002u, 0xfffeu, 0x7fffu, 0x5555u, 0xaaaau};
    const std::vector<uint32_t>& lows = deep ? lows_t : lows_q;
    const long nrandlow = deep ? 3 : 1;                     // sweeps with a random low half-word
    const long nsweep = long(lows.size()) + nrandlow;
    const long nrandom = A.cases > 0 ? A.cases : (deep ? 1000 : 100);
    const long ncases = 1 + nsweep + nrandom;
    const int per = 1000;                                   // random items per random case

    Forests Fs;
    Fs.create();
    for (long c = 0; c < ncases; c++) {
        if (A.only_case >= 0 && c != A.only_case) continue;
        Rng r(Rng::mix(A.seed, uint64_t(c)));
        if (c == 0) {
            emit("case %ld boundary", c);
            const long P30 = 1L << 30, P31 = 1L << 31, P32 = 1L << 32;
            std::vector<long> vs = {0, 1, -1, 2, -2, 3, 1000, -1000, P30 - 2, P30 - 1, P30, P30 + 1, -P30 + 1, -P30, -P30 - 1, -P30 - 2,
                                    P31 - 1, P31, P31 + 1, -P31 + 1, -P31, -P31 - 1, P32 - 1, P32, P32 + 1, -P32, -P32 - 1, -P32 + 1,
                                    P32 + P30, P32 - P30, P32 + 5, -P32 - P30, 3 * P30, -3 * P30,
                                    1L << 62, -(1L << 62), LONG_MAX, LONG_MAX - 1, LONG_MIN, LONG_MIN + 1,
                                    LONG_MIN + P30, LONG_MAX - P30, (1L << 62) | 5, 0x100000000L | 7, long(0x8000000080000001UL)};
            unsigned i = 0;
            for (long v : vs) {
                rec_ei(v, 0);
                rec_ei(v, 1);
                forest_int(Fs, v, i++);
            }
            std::vector<node_handle> hs = {0, -1, -2, -3, 1, 2, INT_MIN, INT_MIN + 1, INT_MIN + 2, INT_MAX, INT_MAX - 1,
                                           node_handle(0xC0000000u), node_handle(0xBFFFFFFFu), node_handle(0xC0000001u),
                                           0x40000000, 0x3FFFFFFF, 0x40000001, node_handle(0xFFFFFFFEu), node_handle(0x80000005u)};
            for (node_handle h : hs) {
                rec_di(h);
                rec_db(h);
                if (h <= 0) {
                    forest_fv_int(Fs, h);
                    forest_fv_bool(Fs, h);
                }
                if (!nanBits(uint32_t(h) << 1)) {
                    rec_dr(h);
                    if (h <= 0) forest_fv_real(Fs, h);
                }
            }
            for (int x = 0; x < 2; x++) {
                rec_eb(x, 0);
                rec_eb(x, 1);
                forest_bool(Fs, x, unsigned(x));
            }
            forest_inf(Fs, 0);
            forest_inf(Fs, 3);
            std::vector<uint32_t> bs = {0x00000000u, 0x80000000u, 0x00000001u, 0x80000001u, 0x00000002u, 0x00000003u, 0x007fffffu,
                                        0x00800000u, 0x00800001u, 0x3f800000u, 0x3f800001u, 0x3f800002u, 0x3f7fffffu, 0xbf800000u,
                                        0xbf800001u, 0x40490fdbu, 0x7f7fffffu, 0x7f7ffffeu, 0xff7fffffu, 0x7f800000u, 0xff800000u,
                                        0x3dcccccdu, 0x3e800000u, 0x4b800001u, 0xcb7fffffu};
            i = 0;
            for (uint32_t b : bs) {
                for (int path = 0; path < 3; path++) {
                    node_handle h = rec_er(b, path);
                    if (path == 0) rec_dr(h);
                }
                forest_real(Fs, b, i++);
            }
            emit("endcase");
            continue;
        }
        if (c <= nsweep) {
            uint32_t low = (c - 1 < long(lows.size())) ? lows[size_t(c - 1)] : uint32_t(r.next() & 0xffffu);
            emit("case %ld sweep %04x", c, low);
            for (uint32_t top = 0; top < 65536u; top++) {
                uint32_t b = (top << 16) | low;
                if (nanBits(b)) { STATS.hit("sweep.nan-skipped"); continue; }
                node_handle h = rec_er(b, int(top % 3));
                rec_dr(h);
                if ((top & 127u) == (uint32_t(c) & 127u)) {
                    forest_real(Fs, b, top);
                    if (h <= 0) forest_fv_real(Fs, h);
                }
            }
            emit("endcase");
            continue;
        }
        emit("case %ld random", c);
        for (int i = 0; i < per; i++) {
            long v = randomLong(r);
            rec_ei(v, int(r.below(2)));
            node_handle h = node_handle(uint32_t(r.next()));
            if (r.chance(1, 4)) h = node_handle(uint32_t(h) | 0x80000000u);
            rec_di(h);
            uint32_t b = randomFloatBits(r);
            node_handle hr = rec_er(b, int(r.below(3)));
            rec_dr(hr);
            node_handle h2 = node_handle(uint32_t(r.next()));
            if (!nanBits(uint32_t(h2) << 1)) rec_dr(h2); else STATS.hit("dr.nan-skipped");
            if (i % 16 == 0) {
                unsigned pick = r.below(64);
                forest_int(Fs, v, pick);
                forest_real(Fs, b, pick);
                node_handle hn = node_handle(uint32_t(h) | 0x80000000u);
                forest_fv_int(Fs, hn);
                if (!nanBits(uint32_t(hn) << 1)) forest_fv_real(Fs, hn);
                if (i % 64 == 0) {
                    rec_db(r.chance(1, 2) ? node_handle(r.range(-3, 2)) : h);
                    forest_fv_bool(Fs, node_handle(r.range(-3, 0)));
                    bool x = r.chance(1, 2);
                    rec_eb(x, int(r.below(2)));
                    forest_bool(Fs, x, pick);
                    forest_inf(Fs, pick);
                }
            }
        }
        emit("endcase");
    }
    Fs.destroy();
    libCleanup();
    return 0;
}
FamilyReg reg("terminal", run, "C19 values <-> terminal handles / edge values");
}  // namespace
