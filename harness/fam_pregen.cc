// Family `pregen` (C20): saturation over a partitioned transition relation.
//
// A list of event relations is handed to `pregen_relation` in BOTH construction modes (by events /
// by levels) and finalized with EVERY splitting option; `SATURATION_FORWARD(setF, rel, setF)` must
// return the set of states reachable from the initial set under the UNION of the events - the table
// the specification computes (Lean: Pregen.reachTable) and the very edge REACHABLE_TRAD_NOFS returns
// for the union built with UNION.
//
// Records (generic ones: see lean/Driver/Funcs.lean; own ones: lean/Driver/P_Pregen.lean):
//   input EV<i> <table> / table EV<i> Fr <table>      the event relations (2K positions)
//   ptop EV<i> <level>                                |root level| of the event's DD (identity-reduced only)
//   input INIT<j> ... / table INIT<j> Fs ...          initial sets
//   op B<j> PREGEN_BFS INIT<j> EV1 EV2 ...            REACHABLE_TRAD_NOFS on the UNION of the events
//   plevels <mode> <opt> <n> EV1..EVn <K> { <k> <cnt> <cnt tables> }   what arrayForLevel(k) holds after
//                                                     finalize(opt), k = K..1 (identity-reduced only)
//   op R<j>.<mode>.<opt> PREGEN_SAT.<mode>.<opt> INIT<j> EV1 EV2 ...   + table + `eq R.. B<j> 1|0`
//   probe <tag> <mode> <opt> <rule> <outcome...>      a known-trigger input run in a forked child;
//                                                      outcome `ok` or `signal <n>` / `exit <n>`
//
// Case numbers: 0..15 probe cases, 16..287 exhaustive core, 288.. random cases.
// Case numbers 0..PROBE_CASES-1 are the tagged probe cases (fixed inputs, fixed numbering):
//   0..3   F1   by-levels, option SplitOnly / SplitSubtract / SplitSubtractAll / MonolithicSplit on the
//               one-minterm event x2:0->0, x1:0->1 over (2,2), identity-reduced forest
//   4      F1   same input, option None (control: must pass)
//   5      F1   by-events (control: must pass, the option is ignored)
//   6      F8   MonolithicSplit where the union's root is a PRIMED-level node (events[-K] = u):
//               one event "x2' in {0,1} for every x2, x1 unchanged" over (2,2)
//   7      F8   control: a second event makes the union's root an unprimed node
//   8..9   F9   a fully-reduced relation forest (skipped levels are read as identity by the saturation):
//               by events / by levels, option None
//   10     F10  control: quasi-reduced relation forest, by events
//   11     F10  quasi-reduced relation forest, by levels, SplitOnly (set difference of a level-k node and
//               a node of a lower level in a quasi-reduced forest)
//   12     F11  by levels, None: the union of the events filed under level 1 is the terminal TRUE
//   13     F11  by levels, None: the union of the events filed under level 2 has its root at level 1
//   15     F12  fully-reduced SET forest: a fired sub-result that skips a level is not saturated at that level
//   14     F1   the same input with SplitOnly: splitMxd would move the union down to level 1 (the repair path
//               of F11), but the redundant reading of events[2] runs into F1
// Options:
//   --avoid-f1 auto|1|0   auto (default): try probe 0 silently first; steer the random cases away from the
//                         F1 trigger class iff it still fails.  1: always steer away.  0: never.
//   --avoid-f8 auto|1|0   same for F8 (probe 6): MonolithicSplit is skipped when the union's root is primed
//   --avoid-f11 auto|1|0  same for F11 (probes 12, 13): by levels, the saturation is skipped when after
//                         finalize() some events[k] has its root below level k
//   --rules safe|ident|all  relation forest rules of the random cases.  safe (default): identity-reduced,
//                         and quasi-reduced for the combinations that work (by events; by levels with None);
//                         all: every rule x every combination (F9/F10 then show up in the random cases)
//   --probes 1|0          run the probe cases (default 1)
//   --exhaustive 1|0      run the exhaustive core (cases 16..287: all lists of <= 2 events on domain (2), all
//                         initial sets; default 1)
//   --model-renorm 0|1    tell the acceptor that finalize() by levels ends with the re-bucketing step proposed
//                         as the repair of F11 (`pcfg renorm 1`; default 0 = the code as it is today)
//   --isolate 0|1         run every (mode, option) of the random cases in a forked child (default 0)
#include "common.h"
#include <sys/wait.h>
#include <unistd.h>
using namespace MEDDLY;
using namespace mdh;

namespace {

const long PROBE_CASES = 16;
const long EXH_CASES = 272;     // exhaustive core: every list of 1 or 2 event relations over the 2 states of domain (2)

typedef pregen_relation::splittingOption SplitOpt;
const SplitOpt OPTS[5] = {pregen_relation::None, pregen_relation::SplitOnly, pregen_relation::SplitSubtract,
                          pregen_relation::SplitSubtractAll, pregen_relation::MonolithicSplit};
const char* OPTN[5] = {"None", "SplitOnly", "SplitSubtract", "SplitSubtractAll", "MonolithicSplit"};
const char* MODEN[2] = {"events", "levels"};

const char* ruleName(reduction_rule rr) {
    return rr == reduction_rule::FULLY_REDUCED ? "fully" : rr == reduction_rule::QUASI_REDUCED ? "quasi" : "ident";
}

// ---------------------------------------------------------------- states and pairs
struct Space {
    const Dom* D;
    size_t nS;                          // number of states
    std::vector<size_t> stride;         // set-table stride of variable v (index v-1)
    explicit Space(const Dom& d) : D(&d) {
        nS = 1;
        for (int s : d.sizes) { stride.push_back(nS); nS *= size_t(s); }
    }
    int var(size_t s, unsigned v) const { return int((s / stride[v - 1]) % size_t(D->sizes[v - 1])); }
    size_t withVar(size_t s, unsigned v, int x) const { return s + (size_t(x) - size_t(var(s, v))) * stride[v - 1]; }
    // index in the relation table: digits x'_1, x_1, x'_2, x_2, ... (least significant first)
    size_t pairIndex(size_t s, size_t t) const {
        size_t idx = 0, st = 1;
        for (unsigned v = 1; v <= D->K(); v++) {
            size_t sz = size_t(D->sizes[v - 1]);
            idx += size_t(var(t, v)) * st; st *= sz;
            idx += size_t(var(s, v)) * st; st *= sz;
        }
        return idx;
    }
};

struct Event {
    std::vector<Val> tab;      // relation table
    std::string how;           // generator description (goes to a `note`)
};

Val TT() { return Val::boolean(true); }
Val FF() { return Val::boolean(false); }

// local relation on the variables in `supp`, identity on all others
void addLocal(const Space& S, Rng& r, const std::vector<unsigned>& supp, unsigned density, int unchangedVar,
              std::vector<Val>& tab) {
    // enumerate local states of the support
    size_t nl = 1;
    for (unsigned v : supp) nl *= size_t(S.D->sizes[v - 1]);
    std::vector<char> L(nl * nl, 0);
    bool any = false;
    for (size_t a = 0; a < nl; a++)
        for (size_t b = 0; b < nl; b++)
            if (r.below(100) < density) { L[a * nl + b] = 1; any = true; }
    if (!any) L[r.below(unsigned(nl * nl))] = 1;
    auto local = [&](size_t s) {
        size_t a = 0, st = 1;
        for (unsigned v : supp) { a += size_t(S.var(s, v)) * st; st *= size_t(S.D->sizes[v - 1]); }
        return a;
    };
    for (size_t s = 0; s < S.nS; s++)
        for (size_t t = 0; t < S.nS; t++) {
            bool ok = true;
            for (unsigned v = 1; v <= S.D->K() && ok; v++) {
                bool in = std::find(supp.begin(), supp.end(), v) != supp.end();
                if ((!in || int(v) == unchangedVar) && S.var(s, v) != S.var(t, v)) ok = false;
            }
            if (ok && L[local(s) * nl + local(t)]) tab[S.pairIndex(s, t)] = TT();
        }
}

std::vector<unsigned> randomSupport(const Dom& D, Rng& r) {
    std::vector<unsigned> supp;
    unsigned K = D.K();
    unsigned want = 1 + r.below(K);
    if (r.chance(1, 2)) want = 1 + r.below(std::min(2u, K));
    std::vector<unsigned> all;
    for (unsigned v = 1; v <= K; v++) all.push_back(v);
    for (unsigned i = 0; i < want; i++) {
        unsigned j = i + r.below(K - i);
        std::swap(all[i], all[j]);
        supp.push_back(all[i]);
    }
    std::sort(supp.begin(), supp.end());
    return supp;
}

std::string suppStr(const std::vector<unsigned>& s) {
    std::string o;
    for (unsigned v : s) o += (o.empty() ? "" : ",") + std::to_string(v);
    return o;
}

Event randomEvent(const Space& S, Rng& r, const std::vector<Event>& earlier) {
    Event e;
    size_t n = S.D->card(true);
    e.tab.assign(n, FF());
    unsigned g = r.below(100);
    if (g < 34) {
        auto supp = randomSupport(*S.D, r);
        unsigned dens = r.pick(std::vector<unsigned>{15, 30, 50, 80});
        addLocal(S, r, supp, dens, -1, e.tab);
        e.how = "local supp=" + suppStr(supp) + " dens=" + std::to_string(dens);
    } else if (g < 52) {
        // an event that reads a variable without changing it; the guard may be total (then the DD does
        // not depend on that variable at all: "top variable unchanged")
        auto supp = randomSupport(*S.D, r);
        unsigned top = supp.back();
        unsigned uv = r.chance(2, 3) ? top : r.pick(supp);
        addLocal(S, r, supp, r.pick(std::vector<unsigned>{30, 60, 100}), int(uv), e.tab);
        e.how = "guarded supp=" + suppStr(supp) + " unchanged=" + std::to_string(uv);
    } else if (g < 68) {
        // local moves plus self-loops on a slice (identity rows at the top of the DD)
        auto supp = randomSupport(*S.D, r);
        addLocal(S, r, supp, r.pick(std::vector<unsigned>{20, 50}), -1, e.tab);
        unsigned v = 1 + r.below(S.D->K());
        int x = int(r.below(unsigned(S.D->sizes[v - 1])));
        bool all = r.chance(1, 4);
        for (size_t s = 0; s < S.nS; s++)
            if (all || S.var(s, v) == x) e.tab[S.pairIndex(s, s)] = TT();
        e.how = "local+selfloops supp=" + suppStr(supp) + (all ? " loops=all" : " loops=slice v" + std::to_string(v));
    } else if (g < 82) {
        unsigned dens = r.pick(std::vector<unsigned>{3, 8, 15, 30});
        bool any = false;
        for (size_t i = 0; i < n; i++) if (r.below(100) < dens) { e.tab[i] = TT(); any = true; }
        if (!any) e.tab[r.below(unsigned(n))] = TT();
        e.how = "sparse dens=" + std::to_string(dens);
    } else if (g < 88) {
        // every row of the top variable moves (no identity row, no empty row at the top node)
        unsigned K = S.D->K();
        int sz = S.D->sizes[K - 1];
        int sh = 1 + int(r.below(unsigned(sz - 1)));
        bool lower = K > 1 && r.chance(1, 2);
        unsigned lv = lower ? 1 + r.below(K - 1) : 0;
        for (size_t s = 0; s < S.nS; s++) {
            size_t t = S.withVar(s, K, (S.var(s, K) + sh) % sz);
            if (lower) t = S.withVar(t, lv, (S.var(t, lv) + 1) % S.D->sizes[lv - 1]);
            e.tab[S.pairIndex(s, t)] = TT();
            if (r.chance(1, 3)) e.tab[S.pairIndex(s, S.withVar(s, K, (S.var(s, K) + sh) % sz))] = TT();
        }
        e.how = "rotate-top shift=" + std::to_string(sh) + (lower ? " with v" + std::to_string(lv) : "");
    } else if (g < 91) {
        e.how = "empty";
    } else if (g < 94) {
        for (size_t s = 0; s < S.nS; s++) e.tab[S.pairIndex(s, s)] = TT();
        e.how = "identity";
    } else if (g < 96) {
        e.tab.assign(n, TT());
        e.how = "full";
    } else if (!earlier.empty()) {
        e = earlier[r.below(unsigned(earlier.size()))];
        // same support, overlapping content: drop some pairs
        for (size_t i = 0; i < n; i++) if (e.tab[i] == TT() && r.chance(1, 3)) e.tab[i] = FF();
        e.how = "overlap-of-earlier";
    } else {
        // havoc of the top variable: x'_K ranges over >= 2 values for EVERY x_K, so the unprimed top node is
        // redundant and the root of the DD is a PRIMED node (identity-reduced forest)
        unsigned K = S.D->K();
        int sz = S.D->sizes[K - 1];
        int lim = sz == 2 ? 2 : 2 + int(r.below(unsigned(sz - 1)));
        for (size_t s = 0; s < S.nS; s++)
            for (int x = 0; x < lim; x++) e.tab[S.pairIndex(s, S.withVar(s, K, x))] = TT();
        e.how = "havoc-top lim=" + std::to_string(lim);
    }
    return e;
}

std::vector<Val> randomInit(const Space& S, Rng& r, std::string& how) {
    std::vector<Val> t(S.nS, FF());
    unsigned g = r.below(10);
    if (g == 0) { how = "empty"; }
    else if (g == 1) { t.assign(S.nS, TT()); how = "full"; }
    else if (g < 6) { t[r.below(unsigned(S.nS))] = TT(); how = "single"; }
    else {
        unsigned dens = r.pick(std::vector<unsigned>{10, 30, 60});
        for (size_t i = 0; i < S.nS; i++) if (r.below(100) < dens) t[i] = TT();
        how = "dens=" + std::to_string(dens);
    }
    return t;
}

// ---------------------------------------------------------------- F1 trigger prediction
// Replays pregen_relation::splitMxd with public operations and reports whether the loop would reach the
// mis-bound `initIdentity(-k, i, down, FULL_ONLY)` call: a visited level k >= 2 whose relation, unpacked at
// level k, has a row that does not point to a node of the primed level -k (empty row, identity row, or a
// relation that lives below k).  Used only to steer the generator (--avoid-f1).
bool f1Triggers(forest* mxd, unsigned K, const std::vector<dd_edge>& evs, int opt) {
    if (opt == 0) return false;
    std::vector<dd_edge> L(K + 1);
    for (auto& e : L) e.attach(mxd);
    for (const dd_edge& r : evs) {
        int k = r.getLevel();
        if (k == 0) continue;
        if (k < 0) k = -k;
        apply(UNION, L[k], r, L[k]);
    }
    if (opt == 4) {
        dd_edge u(mxd);
        for (unsigned k = 1; k <= K; k++) { apply(UNION, u, L[k], u); L[k].set(0); }
        int ul = u.getLevel();
        if (ul < 0) ul = -ul;         // F8 is steered separately (--avoid-f8)
        L[ul] = u;
        opt = 1;
    }
    for (int k = int(K); k > 1; k--) {
        if (0 == L[k].getNode()) continue;
        node_handle n = L[k].getNode();
        bool below = isLevelAbove(k, L[k].getLevel());
        unpacked_node* Mu = below ? unpacked_node::newRedundant(mxd, k, n, FULL_ONLY)
                                  : unpacked_node::newFromNode(mxd, n, FULL_ONLY);
        dd_edge maxDiag(mxd);
        bool trig = false;
        for (unsigned i = 0; i < Mu->getSize() && !trig; i++) {
            node_handle c = Mu->down(i);
            if (isLevelAbove(-k, mxd->getNodeLevel(c))) { trig = true; break; }
            unpacked_node* Mp = unpacked_node::newFromNode(mxd, c, FULL_ONLY);
            dd_edge d(mxd);
            d.set(mxd->linkNode(Mp->down(i)));
            unpacked_node::Recycle(Mp);
            if (i == 0) maxDiag = d; else apply(INTERSECTION, maxDiag, d, maxDiag);
        }
        unpacked_node::Recycle(Mu);
        if (trig) return true;
        if (0 == maxDiag.getNode()) continue;
        if (opt == 1) apply(DIFFERENCE, L[k], maxDiag, L[k]);
        int m = maxDiag.getLevel(); if (m < 0) m = -m;
        apply(UNION, maxDiag, L[m], L[m]);
        if (opt == 2) apply(DIFFERENCE, L[k], L[m], L[k]);
    }
    return false;
}

// ---------------------------------------------------------------- one (mode, option) run
struct Ctx {
    const Dom* D;
    forest* Fs;
    forest* Fr;
    std::vector<dd_edge>* evs;
    std::vector<dd_edge>* inits;
    std::vector<dd_edge>* bfs;
    std::string evNames;        // " EV1 EV2 ..."
    bool avoidF11;              // skip the saturation when events[k] has its root below level k
};

bool g_allEqual = true;      // every saturation result of this process equalled the BFS edge

// builds the relation, finalizes, dumps the per-level relations, saturates every initial set
void runCombo(const Ctx& X, int mode, int opt) {
    pregen_relation* rel = mode == 0 ? new pregen_relation(X.Fr, unsigned(X.evs->size())) : new pregen_relation(X.Fr);
    for (auto& e : *X.evs) rel->addToRelation(e);
    rel->finalize(OPTS[opt]);
    if (X.Fr->isIdentityReduced()) {
        std::string line = std::string("plevels ") + MODEN[mode] + " " + OPTN[opt] + " " + std::to_string(X.evs->size())
                           + X.evNames + " " + std::to_string(X.D->K());
        for (int k = int(X.D->K()); k >= 1; k--) {
            unsigned cnt = rel->lengthForLevel(k);
            dd_edge* arr = rel->arrayForLevel(k);
            line += " " + std::to_string(k) + " " + std::to_string(cnt);
            for (unsigned i = 0; i < cnt; i++) line += " " + tableStr(tableOf(*X.D, arr[i]));
        }
        emits(line);
    }
    // F11: by levels, the union stored at level k may have its root BELOW k (or be the terminal TRUE);
    // saturateHelper then unpacks a node of the wrong level / a terminal
    bool f11 = false;
    if (mode == 1)
        for (int k = 1; k <= int(X.D->K()); k++)
            if (rel->lengthForLevel(k)) {
                int lv = rel->arrayForLevel(k)[0].getLevel();
                if ((lv < 0 ? -lv : lv) != k) f11 = true;
            }
    if (f11) STATS.hit(std::string("f11.trigger.") + OPTN[opt]);
    if (f11 && X.avoidF11) {
        STATS.hit("f11.avoided");
        delete rel;
        return;
    }
    saturation_operation* sat = SATURATION_FORWARD(X.Fs, rel, X.Fs);   // owns rel from here on
    for (size_t j = 0; j < X.inits->size(); j++) {
        dd_edge R(X.Fs);
        sat->compute((*X.inits)[j], R);
        // F12 classifier: a result that differs from the BFS edge in a FULLY-reduced set forest is recomputed in
        // a quasi-reduced twin of the set forest (same relation forest, same events, same mode and option);
        // if the twin is right, the result edge is named F12R… so that exactly this class can be recognised
        bool f12 = false;
        if (R != (*X.bfs)[j] && X.Fs->isFullyReduced() && !X.Fs->isForRelations()) {
            Kind kq; kq.rel = false; kq.rr = reduction_rule::QUASI_REDUCED;
            forest* Fq = makeForest(X.D->d, kq, Pol());
            {
                dd_edge iq(Fq), rq(Fq);
                buildFromTable(*X.D, Fq, kq, tableOf(*X.D, (*X.inits)[j]), iq);
                pregen_relation* rel2 = mode == 0 ? new pregen_relation(X.Fr, unsigned(X.evs->size())) : new pregen_relation(X.Fr);
                for (auto& e : *X.evs) rel2->addToRelation(e);
                rel2->finalize(OPTS[opt]);
                saturation_operation* sat2 = SATURATION_FORWARD(Fq, rel2, Fq);
                sat2->compute(iq, rq);
                f12 = tableOf(*X.D, rq) == tableOf(*X.D, (*X.bfs)[j]);
                // F12 can only LOSE states (a level that is never saturated): a result with a state that is not
                // reachable is a different defect, whatever the quasi-reduced twin says
                if (f12) {
                    std::vector<Val> got = tableOf(*X.D, R), want = tableOf(*X.D, (*X.bfs)[j]);
                    for (size_t q = 0; q < got.size(); q++) if (got[q].n && !want[q].n) { f12 = false; STATS.hit("mismatch.extra-states-not-f12"); break; }
                }
                delete static_cast<operation*>(sat2);
            }
            forest::destroy(Fq);
            STATS.hit(f12 ? "f12.classified" : "mismatch.not-f12");
        }
        std::string rn = std::string(f12 ? "F12R" : "R") + std::to_string(j) + "." + MODEN[mode] + "." + OPTN[opt];
        emit("op %s PREGEN_SAT.%s.%s INIT%zu%s", rn.c_str(), MODEN[mode], OPTN[opt], j, X.evNames.c_str());
        emitTable(rn, "Fs", *X.D, R);
        emitEq(rn, "B" + std::to_string(j), R, (*X.bfs)[j]);
        if (R != (*X.bfs)[j]) g_allEqual = false;
        STATS.hit(std::string("sat.") + MODEN[mode] + "." + OPTN[opt]);
    }
    delete static_cast<operation*>(sat);
}


// run `body` in a forked child; returns "ok" or "signal <n>" / "exit <n>"
std::string isolated(const std::function<void()>& body) {
    fflush(stdout);
    pid_t p = fork();
    if (p == 0) {
        // keep sanitizer / libc chatter of the expected crash out of the log
        int rc = 0;
        try { body(); }
        catch (MEDDLY::error& e) { emit("note child-error %s %s:%u", errName(e), e.getFile(), e.getLine()); rc = 9; }
        fflush(stdout);
        _exit(rc);
    }
    int st = 0;
    waitpid(p, &st, 0);
    if (WIFSIGNALED(st)) return "signal " + std::to_string(WTERMSIG(st));
    if (WIFEXITED(st) && WEXITSTATUS(st) == 0) return "ok";
    return "exit " + std::to_string(WIFEXITED(st) ? WEXITSTATUS(st) : -1);
}

// ---------------------------------------------------------------- a complete case on explicit inputs
struct CaseIn {
    Dom D;
    reduction_rule relRule = reduction_rule::IDENTITY_REDUCED;
    reduction_rule setRule = reduction_rule::FULLY_REDUCED;
    Pol ps, pr;
    std::vector<Event> events;
    std::vector<std::vector<Val>> inits;
    std::vector<std::string> initHow;
};

struct Plan {                // which (mode, option) pairs to run and how
    bool run[2][5];
    bool fork[2][5];
    const char* tag[2][5];   // probe tag or nullptr
    Plan() { for (int m = 0; m < 2; m++) for (int o = 0; o < 5; o++) { run[m][o] = true; fork[m][o] = false; tag[m][o] = nullptr; } }
};

struct Steer { int f1 = 0; int f8 = 0; int f11 = 0; bool isolateAll = false; bool renorm = false; };

void doCase(long c, CaseIn& in, Plan& plan, const Steer& steer) {
    Dom& D = in.D;
    D.create();
    beginCase(c);
    emits(D.str());
    Kind ks; ks.rel = false; ks.rr = in.setRule;
    Kind kr; kr.rel = true; kr.rr = in.relRule;
    forest* Fs = makeForest(D.d, ks, in.ps);
    forest* Fr = makeForest(D.d, kr, in.pr);
    emitForest("Fs", Fs, ks, in.ps);
    emitForest("Fr", Fr, kr, in.pr);
    if (steer.renorm) emit("pcfg renorm 1");
    STATS.hit(std::string("rule.rel.") + ruleName(in.relRule));
    STATS.hit(std::string("rule.set.") + ruleName(in.setRule));
    STATS.hit("K." + std::to_string(D.K()));
    STATS.hit("events." + std::to_string(in.events.size()));
    bool ident = in.relRule == reduction_rule::IDENTITY_REDUCED;
    {
        std::vector<dd_edge> evs(in.events.size()), inits(in.inits.size()), bfs(in.inits.size());
        std::string evNames;
        for (size_t i = 0; i < evs.size(); i++) {
            std::string nm = "EV" + std::to_string(i + 1);
            buildFromTable(D, Fr, kr, in.events[i].tab, evs[i]);
            emit("note %s gen=%s toplevel=%d", nm.c_str(), in.events[i].how.c_str(), evs[i].getLevel());
            emit("input %s %s", nm.c_str(), tableStr(in.events[i].tab).c_str());
            emitTable(nm, "Fr", D, evs[i]);
            int lv = evs[i].getLevel();
            if (ident) emit("ptop %s %d", nm.c_str(), lv < 0 ? -lv : lv);
            evNames += " " + nm;
            STATS.hit(lv == 0 ? "evtop.terminal" : lv < 0 ? "evtop.primed" : (unsigned(lv) == D.K() ? "evtop.K" : "evtop.lower"));
            STATS.hit("gen." + in.events[i].how.substr(0, in.events[i].how.find(' ')));
        }
        for (size_t j = 0; j < inits.size(); j++) {
            std::string nm = "INIT" + std::to_string(j);
            buildFromTable(D, Fs, ks, in.inits[j], inits[j]);
            emit("note %s gen=%s", nm.c_str(), in.initHow[j].c_str());
            emit("input %s %s", nm.c_str(), tableStr(in.inits[j]).c_str());
            emitTable(nm, "Fs", D, inits[j]);
            STATS.hit("init." + in.initHow[j].substr(0, in.initHow[j].find('=')));
        }
        // the monolithic reference: UNION of all events, breadth-first reachability without frontier
        dd_edge U(Fr);
        for (auto& e : evs) apply(UNION, U, e, U);
        binary_operation* bfsop = build(REACHABLE_TRAD_NOFS(true), Fs, Fr, Fs);
        for (size_t j = 0; j < inits.size(); j++) {
            bfs[j].attach(Fs);
            bfsop->compute(inits[j], U, bfs[j]);
            emit("op B%zu PREGEN_BFS INIT%zu%s", j, j, evNames.c_str());
            emitTable("B" + std::to_string(j), "Fs", D, bfs[j]);
        }
        // root level of what unionLevels() will build: the events whose root is not a terminal
        int unionLevel = 0;
        {
            dd_edge u(Fr);
            for (auto& e : evs) if (e.getLevel() != 0) apply(UNION, u, e, u);
            unionLevel = u.getLevel();
        }
        if (unionLevel < 0) STATS.hit("union.root.primed");
        Ctx X{&D, Fs, Fr, &evs, &inits, &bfs, evNames, false};
        for (int mode = 0; mode < 2; mode++)
            for (int opt = 0; opt < 5; opt++) {
                if (!plan.run[mode][opt]) continue;
                const char* tag = plan.tag[mode][opt];
                X.avoidF11 = !tag && steer.f11;
                if (!tag && mode == 1 && opt == 4 && steer.f8 && unionLevel < 0) {
                    STATS.hit("f8.avoided");
                    continue;
                }
                if (!tag && mode == 1 && steer.f1 && f1Triggers(Fr, D.K(), evs, opt)) {
                    STATS.hit(std::string("f1.avoided.") + OPTN[opt]);
                    continue;
                }
                if (mode == 1 && opt > 0 && !tag) STATS.hit(std::string("split.exercised.") + OPTN[opt]);
                if (tag || plan.fork[mode][opt] || steer.isolateAll) {
                    std::string out = isolated([&]() { runCombo(X, mode, opt); });
                    if (tag) {
                        emit("probe %s %s %s %s %s", tag, MODEN[mode], OPTN[opt], ruleName(in.relRule), out.c_str());
                        STATS.hit(std::string("probe.") + tag + (out == "ok" ? ".ok" : ".failed"));
                    } else if (out != "ok") {
                        emit("probe isolated %s %s %s %s", MODEN[mode], OPTN[opt], ruleName(in.relRule), out.c_str());
                    }
                } else {
                    runCombo(X, mode, opt);
                }
            }
        // the caller's edges are untouched (the relation object works on its own copies)
        for (size_t i = 0; i < evs.size(); i++) {
            std::string nm = "EV" + std::to_string(i + 1);
            emitTable(nm, "Fr", D, evs[i]);
            emit("unchanged %s", nm.c_str());
        }
        for (size_t j = 0; j < inits.size(); j++) {
            std::string nm = "INIT" + std::to_string(j);
            emitTable(nm, "Fs", D, inits[j]);
            emit("unchanged %s", nm.c_str());
        }
        emitAudit("Fs", Fs, ks);
        emitAudit("Fr", Fr, kr);
    }
    endCase();
    forest::destroy(Fs);
    forest::destroy(Fr);
    D.destroy();
}

// the F1 input of DESIGN.md §8: domain (2,2), one minterm x2:0->0, x1:0->1
CaseIn f1Input(reduction_rule rr) {
    CaseIn in;
    in.D.sizes = {2, 2};
    in.relRule = rr;
    Space S(in.D);
    Event e;
    e.tab.assign(16, FF());
    e.tab[S.pairIndex(0, 1)] = TT();     // state 0 = (x1=0,x2=0) -> state 1 = (x1=1,x2=0)
    e.how = "f1-minterm";
    in.events.push_back(e);
    std::vector<Val> i0(4, FF()); i0[0] = TT();
    in.inits.push_back(i0); in.initHow.push_back("single");
    return in;
}

// "x2' in {0,1} for every x2, x1 unchanged" over (2,2): the DD's root is the primed node of level 2
CaseIn havocInput(reduction_rule rr, bool second) {
    CaseIn in;
    in.D.sizes = {2, 2};
    in.relRule = rr;
    Space S(in.D);
    Event e; e.tab.assign(16, FF());
    for (size_t s = 0; s < 4; s++) for (int x = 0; x < 2; x++) e.tab[S.pairIndex(s, S.withVar(s, 2, x))] = TT();
    e.how = "havoc-top";
    in.events.push_back(e);
    if (second) {
        Event f; f.tab.assign(16, FF());
        for (size_t s = 0; s < 4; s++) if (S.var(s, 1) == 0) f.tab[S.pairIndex(s, S.withVar(s, 1, 1))] = TT();
        f.how = "x1:0->1";
        in.events.push_back(f);
    }
    std::vector<Val> i0(4, FF()); i0[2] = TT();      // x1=0, x2=1
    in.inits.push_back(i0); in.initHow.push_back("single");
    return in;
}

void onlyCombo(Plan& p, int mode, int opt, const char* tag) {
    for (int m = 0; m < 2; m++) for (int o = 0; o < 5; o++) p.run[m][o] = (m == mode && o == opt);
    p.tag[mode][opt] = tag;
}

bool probeInput(long c, CaseIn& in, Plan& p) {
    if (c <= 3) { in = f1Input(reduction_rule::IDENTITY_REDUCED); onlyCombo(p, 1, int(c) + 1, "F1"); }
    else if (c == 4) { in = f1Input(reduction_rule::IDENTITY_REDUCED); onlyCombo(p, 1, 0, "F1-control-none"); }
    else if (c == 5) { in = f1Input(reduction_rule::IDENTITY_REDUCED); onlyCombo(p, 0, 2, "F1-control-events"); }
    else if (c == 6) { in = havocInput(reduction_rule::IDENTITY_REDUCED, false); onlyCombo(p, 1, 4, "F8"); }
    else if (c == 7) { in = havocInput(reduction_rule::IDENTITY_REDUCED, true); onlyCombo(p, 1, 4, "F8-control"); }
    else if (c == 8 || c == 9) {
        // F9: fully-reduced relation forest; the event "x1:0->1, x2 any -> any" has skipped levels that mean
        // "any value"; the saturation reads them as "unchanged"
        in.D.sizes = {2, 2};
        in.relRule = reduction_rule::FULLY_REDUCED;
        Space S(in.D);
        Event e; e.tab.assign(16, FF());
        for (size_t s = 0; s < 4; s++) for (size_t t = 0; t < 4; t++)
            if (S.var(s, 1) == 0 && S.var(t, 1) == 1) e.tab[S.pairIndex(s, t)] = TT();
        e.how = "x1:0->1,x2:any->any";
        in.events.push_back(e);
        std::vector<Val> i0(4, FF()); i0[0] = TT();
        in.inits.push_back(i0); in.initHow.push_back("single");
        onlyCombo(p, c == 8 ? 0 : 1, 0, "F9");
    } else if (c == 10) { in = havocInput(reduction_rule::QUASI_REDUCED, false); onlyCombo(p, 0, 0, "F10-control-events"); }
    else if (c == 11) { in = havocInput(reduction_rule::QUASI_REDUCED, false); onlyCombo(p, 1, 1, "F10"); }
    else if (c == 12) {
        // F11: by levels the two self-loop events 0->0 and 1->1 of the single variable unite to the identity,
        // whose DD is the terminal TRUE; events[1] = terminal, saturateHelper unpacks it
        in.D.sizes = {2};
        Space S(in.D);
        for (size_t x = 0; x < 2; x++) {
            Event e; e.tab.assign(4, FF());
            e.tab[S.pairIndex(x, x)] = TT();
            e.how = "loop-" + std::to_string(x);
            in.events.push_back(e);
        }
        std::vector<Val> i0(2, FF()); i0[0] = TT();
        in.inits.push_back(i0); in.initHow.push_back("single");
        onlyCombo(p, 1, 0, "F11");
    } else if (c == 13 || c == 14) {
        // F11 with a node: (x2:0->0 and x1:0->1) u (x2:1->1 and x1:0->1) = "x1:0->1, x2 unchanged", root at
        // level 1 but stored in events[2]; option None keeps it there (13), SplitOnly moves it down (14)
        in.D.sizes = {2, 2};
        Space S(in.D);
        for (int x = 0; x < 2; x++) {
            Event e; e.tab.assign(16, FF());
            for (size_t s = 0; s < 4; s++)
                if (S.var(s, 2) == x && S.var(s, 1) == 0) e.tab[S.pairIndex(s, S.withVar(s, 1, 1))] = TT();
            e.how = "x1:0->1@x2=" + std::to_string(x);
            in.events.push_back(e);
        }
        std::vector<Val> i0(4, FF()); i0[2] = TT();     // x1=0, x2=1
        in.inits.push_back(i0); in.initHow.push_back("single");
        onlyCombo(p, 1, c == 13 ? 0 : 1, c == 13 ? "F11" : "F1");
    }
    else if (c == 15) {
        // F12: fully-reduced SET forest.  Firing EV1 (top level 3, x2 untouched) on {x1=1, x2 any, x3=0} yields a
        // node that skips level 2; recFire saturates it at level 1 only, so EV2 (top level 2) is never fired on it
        in.D.sizes = {2, 2, 2};
        in.setRule = reduction_rule::FULLY_REDUCED;
        Space S(in.D);
        Event e1; e1.tab.assign(64, FF());
        for (size_t s = 0; s < 8; s++)
            if (S.var(s, 1) == 1 && S.var(s, 3) == 0) e1.tab[S.pairIndex(s, S.withVar(S.withVar(s, 1, 0), 3, 1))] = TT();
        e1.how = "x1:1->0,x3:0->1";
        Event e2; e2.tab.assign(64, FF());
        for (size_t s = 0; s < 8; s++)
            if (S.var(s, 1) == 0 && S.var(s, 2) == 0) e2.tab[S.pairIndex(s, S.withVar(S.withVar(s, 1, 1), 2, 1))] = TT();
        e2.how = "x1:0->1,x2:0->1";
        in.events.push_back(e1); in.events.push_back(e2);
        std::vector<Val> i0(8, FF());
        for (size_t s = 0; s < 8; s++) if (S.var(s, 1) == 1 && S.var(s, 3) == 0) i0[s] = TT();
        in.inits.push_back(i0); in.initHow.push_back("x1=1,x3=0");
        onlyCombo(p, 0, 0, "F12");
    }
    else return false;     // reserved
    return true;
}

// does probe case `c` still fail (crash, error, or a result different from the BFS edge)?  Runs silently.
bool stillFails(long c) {
    CaseIn in; Plan p;
    if (!probeInput(c, in, p)) return false;
    for (int m = 0; m < 2; m++) for (int o = 0; o < 5; o++) p.tag[m][o] = nullptr;
    fflush(stdout);
    pid_t pid = fork();
    if (pid == 0) {
        FILE* f = freopen("/dev/null", "w", stdout); (void) f;
        f = freopen("/dev/null", "w", stderr); (void) f;
        int rc = 0;
        try { doCase(c, in, p, Steer()); } catch (MEDDLY::error&) { rc = 9; }
        if (rc == 0 && !g_allEqual) rc = 7;
        fflush(stdout);
        _exit(rc);
    }
    int st = 0;
    waitpid(pid, &st, 0);
    return !(WIFEXITED(st) && WEXITSTATUS(st) == 0);
}

int run(const Args& A) {
    libInit();
    std::string av1 = A.get("avoid-f1", "auto"), av8 = A.get("avoid-f8", "auto");
    std::string rules = A.get("rules", "safe");
    Steer steer;
    steer.isolateAll = A.getl("isolate", 0) != 0;
    steer.renorm = A.getl("model-renorm", 0) != 0;
    steer.f1 = av1 == "auto" ? int(stillFails(0)) : (av1 == "0" ? 0 : 1);
    steer.f8 = av8 == "auto" ? int(stillFails(6)) : (av8 == "0" ? 0 : 1);
    std::string av11 = A.get("avoid-f11", "auto");
    steer.f11 = av11 == "auto" ? int(stillFails(12) || stillFails(13)) : (av11 == "0" ? 0 : 1);
    bool probes = A.getl("probes", 1) != 0;
    emit("cfg avoid-f1 %s effective %d avoid-f8 %s effective %d avoid-f11 %s effective %d rules %s", av1.c_str(),
         steer.f1, av8.c_str(), steer.f8, av11.c_str(), steer.f11, rules.c_str());
    STATS.hit(steer.f11 ? "cfg.avoid-f11.on" : "cfg.avoid-f11.off");
    STATS.hit(steer.f1 ? "cfg.avoid-f1.on" : "cfg.avoid-f1.off");
    STATS.hit(steer.f8 ? "cfg.avoid-f8.on" : "cfg.avoid-f8.off");
    long ncases = A.cases > 0 ? A.cases : (A.thorough() ? 2400 : 400);
    bool exhaustive = A.getl("exhaustive", 1) != 0;
    for (long c = 0; c < PROBE_CASES + EXH_CASES + ncases; c++) {
        if (!A.selected(c)) continue;
        if (c < PROBE_CASES) {
            CaseIn in; Plan p;
            Steer ps; ps.renorm = steer.renorm;
            if (probes && probeInput(c, in, p)) doCase(c, in, p, ps);
            continue;
        }
        if (c < PROBE_CASES + EXH_CASES) {
            // exhaustive core: domain (2); event relations are the 16 subsets of {0,1}x{0,1}; lists of one (16)
            // or two (256) events; all four initial sets
            if (!exhaustive) continue;
            long e = c - PROBE_CASES;
            CaseIn in; Plan p;
            in.D.sizes = {2};
            Space S(in.D);
            std::vector<long> masks;
            if (e < 16) masks = {e}; else masks = {(e - 16) / 16, (e - 16) % 16};
            for (long m : masks) {
                Event ev; ev.tab.assign(4, FF());
                for (int b = 0; b < 4; b++) if (m & (1L << b)) ev.tab[size_t(b)] = TT();
                ev.how = "mask " + std::to_string(m);
                in.events.push_back(ev);
            }
            for (int im = 0; im < 4; im++) {
                std::vector<Val> t(2, FF());
                if (im & 1) t[0] = TT();
                if (im & 2) t[1] = TT();
                in.inits.push_back(t); in.initHow.push_back("mask=" + std::to_string(im));
            }
            in.setRule = (e % 3 == 2) ? reduction_rule::QUASI_REDUCED : reduction_rule::FULLY_REDUCED;
            STATS.hit("exhaustive.cases");
            doCase(c, in, p, steer);
            continue;
        }
        Rng r(Rng::mix(A.seed, uint64_t(c)));
        CaseIn in;
        static const std::vector<std::vector<int>> quickDoms = {
            {2, 2}, {3, 2}, {2, 3}, {2, 2, 2}, {2, 3, 2}, {2}, {3}, {3, 3}, {3, 2, 2}, {2, 2, 3}};
        static const std::vector<std::vector<int>> moreDoms = {
            {2, 2, 2, 2}, {3, 3, 2}, {4, 2}, {2, 4}, {4}, {2, 2, 3, 2}, {3, 3, 3}};
        bool big = A.thorough() && r.chance(1, 5);
        in.D.sizes = big ? r.pick(moreDoms) : r.pick(quickDoms);
        Plan plan;
        if (rules == "all") {
            unsigned x = r.below(3);
            in.relRule = x == 0 ? reduction_rule::IDENTITY_REDUCED : x == 1 ? reduction_rule::FULLY_REDUCED
                                                                            : reduction_rule::QUASI_REDUCED;
        } else if (rules == "safe" && r.chance(1, 5)) {
            // quasi-reduced relation forest: only the combinations that work (see F10)
            in.relRule = reduction_rule::QUASI_REDUCED;
            for (int o = 1; o < 5; o++) plan.run[1][o] = false;
        }
        in.setRule = r.chance(1, 3) ? reduction_rule::QUASI_REDUCED : reduction_rule::FULLY_REDUCED;
        in.ps = r.chance(1, 4) ? Pol::random(r) : Pol();
        in.pr = r.chance(1, 4) ? Pol::random(r) : Pol();
        Space S(in.D);
        unsigned ne = 1 + r.below(6);
        if (r.chance(1, 3)) ne = 1 + r.below(2);
        for (unsigned i = 0; i < ne; i++) in.events.push_back(randomEvent(S, r, in.events));
        unsigned ni = 1 + r.below(3);
        for (unsigned j = 0; j < ni; j++) {
            std::string how;
            in.inits.push_back(randomInit(S, r, how));
            in.initHow.push_back(how);
        }
        std::string sr = A.get("set-rule");     // debugging aid: force the set forest rule
        if (sr == "quasi") in.setRule = reduction_rule::QUASI_REDUCED;
        if (sr == "fully") in.setRule = reduction_rule::FULLY_REDUCED;
        long oe = A.getl("only-events", -1);    // debugging aid: bit mask of the events to keep
        if (oe > 0) {
            std::vector<Event> keep;
            for (size_t i = 0; i < in.events.size(); i++) if (oe & (1L << i)) keep.push_back(in.events[i]);
            if (!keep.empty()) in.events = keep;
        }
        long oi = A.getl("only-init", -1);      // debugging aid: keep a single initial set
        if (oi >= 0 && size_t(oi) < in.inits.size()) {
            in.inits = {in.inits[size_t(oi)]};
            in.initHow = {in.initHow[size_t(oi)]};
        }
        doCase(c, in, plan, steer);
    }
    libCleanup();
    return 0;
}
FamilyReg reg("pregen", run, "C20 saturation over a partitioned relation (pregen_relation, all splitting options)");
}  // namespace
