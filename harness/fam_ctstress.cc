// Family `ctstress` (C07): warm-table stress under every built-in compute-table style.
// For each style (with a stale policy and a size limit chosen from the seed) the library is
// re-initialised and MANY operations whose cache keys have different shapes (2..5 items, mixing
// edge values, nodes and integers) are applied pairwise to a pool of functions that share key
// prefixes (same left operand, same root edge value), so that wrong hits on partially compared
// keys, on probe-window neighbours or on entries of another operation show up as wrong tables.
// Every result is compared with the pointwise oracle by the generic acceptor.
#include "common.h"
using namespace MEDDLY;
using namespace mdh;

namespace {

struct Pool {
    Kind k;
    forest* F = nullptr;
    std::string fname;
    std::vector<dd_edge> fn;
    std::vector<std::string> names;
    std::vector<std::vector<Val>> tabs;
};

void makePool(Pool& P, const Dom& D, Rng& r, int n, const char* fname, const char* prefix, bool posOnly) {
    P.fname = fname;
    P.F = makeForest(D.d, P.k, Pol());
    emitForest(fname, P.F, P.k, Pol());
    bool evp = P.k.el == edge_labeling::EVPLUS;
    for (int i = 0; i < n; i++) {
        std::vector<Val> t(D.card(P.k.rel));
        for (auto& v : t) {
            if (evp) v = r.chance(1, 7) ? Val::inf() : Val::integer(r.range(1, 5));   // no 0: EV+ 0*inf is a recorded finding of C05
            else v = Val::integer(posOnly ? r.range(1, 4) : r.range(0, 3));
        }
        if (evp) t[r.below(unsigned(t.size()))] = Val::integer(1);     // same root edge value for all: shared key prefix
        P.fn.emplace_back(P.F);
        buildFromTable(D, P.F, P.k, t, P.fn.back());
        P.names.push_back(std::string(prefix) + std::to_string(i));
        P.tabs.push_back(t);
        emitTable(P.names.back(), fname, D, P.fn.back());
    }
}

int run(const Args& A) {
    long ncases = A.cases > 0 ? A.cases : (A.thorough() ? 24 : 8);
    for (long c = 0; c < ncases; c++) {
        if (!A.selected(c)) continue;
        Rng r(Rng::mix(A.seed, uint64_t(c)));
        CTConf conf;
        conf.style = int(c % 4);
        conf.stale = r.below(3);
        static const long sizes[] = {0, 0, 1024, 4096};
        conf.maxSize = sizes[r.below(4)];
        libInit(&conf);
        beginCase(c);
        emit("cfg %s", conf.str().c_str());
        STATS.hit("style." + std::to_string(conf.style));
        Dom D;
        D.sizes = {r.range(2, 3), r.range(2, 3), r.range(2, 3), 2};
        D.create();
        emits(D.str());
        int n = A.thorough() ? 40 : 26;
        Pool E, M, B;
        E.k.rt = range_type::INTEGER; E.k.el = edge_labeling::EVPLUS;
        E.k.rr = r.chance(1, 2) ? reduction_rule::FULLY_REDUCED : reduction_rule::QUASI_REDUCED;
        M.k.rt = range_type::INTEGER;
        M.k.rr = r.chance(1, 2) ? reduction_rule::FULLY_REDUCED : reduction_rule::QUASI_REDUCED;
        B.k.rt = range_type::BOOLEAN;
        makePool(E, D, r, n, "FE", "e", false);
        makePool(M, D, r, n, "FM", "m", false);
        B.fname = "FB";
        B.F = makeForest(D.d, B.k, Pol());
        emitForest("FB", B.F, B.k, Pol());
        long serial = 0;
        auto doOp = [&](Pool& P, const char* opn, binary_builtin0 op, int i, int j, forest* resF, const char* resName) {
            dd_edge res(resF);
            std::string rn = "R" + std::to_string(serial++);
            emit("resforest %s", resName);
            try {
                apply(op, P.fn[size_t(i)], P.fn[size_t(j)], res);
                emit("op %s %s %s %s", rn.c_str(), opn, P.names[size_t(i)].c_str(), P.names[size_t(j)].c_str());
                emitTable(rn, resName, D, res);
                STATS.hit(std::string("op.") + opn);
            } catch (error& e) {
                emit("err %s %s %s %s %s", rn.c_str(), opn, P.names[size_t(i)].c_str(), P.names[size_t(j)].c_str(), errName(e));
                STATS.hit(std::string("err.") + opn + "." + errName(e));
            }
        };
        // all ordered pairs for the 4-item-key operations, a sample for the others; edges are released at once,
        // so nodes die and handles are recycled while their entries are still in the table
        for (int i = 0; i < n; i++)
            for (int j = 0; j < n; j++) {
                doOp(E, "MULTIPLY", MULTIPLY, i, j, E.F, "FE");
                if ((i + j) % 3 == 0) doOp(E, "PLUS", PLUS, i, j, E.F, "FE");
                if ((i + j) % 3 == 1) doOp(E, "MINIMUM", MINIMUM, i, j, E.F, "FE");
                if ((i + j) % 3 == 2) doOp(E, "MAXIMUM", MAXIMUM, i, j, E.F, "FE");
                if ((i * 7 + j) % 4 == 0) doOp(M, "MULTIPLY", MULTIPLY, i, j, M.F, "FM");
                if ((i * 7 + j) % 4 == 1) doOp(M, "PLUS", PLUS, i, j, M.F, "FM");
                if ((i * 7 + j) % 4 == 2) doOp(M, "LESS_THAN", LESS_THAN, i, j, B.F, "FB");
                if ((i * 7 + j) % 4 == 3) doOp(M, "EQUAL", EQUAL, i, j, B.F, "FB");
                if ((i * n + j) % 97 == 0 && r.chance(1, 2)) { E.F->removeAllComputeTableEntries(); STATS.hit("clear"); }
            }
        // 64-bit edge values: copies of some EV+ functions shifted by 2^32 and 2^33 (same nodes, root edge values that
        // agree in their low 32 bits): keys that differ only in the UPPER word of a long item must stay different keys
        {
            int ns = std::min(n, 6);
            size_t base = E.fn.size();
            for (int q = 0; q < ns; q++) for (int sh = 1; sh <= 2; sh++) {
                std::vector<Val> t = E.tabs[size_t(q)];
                for (auto& v : t) if (v.t == Val::I) v.n += (long(sh) << 32);
                E.fn.emplace_back(E.F);
                buildFromTable(D, E.F, E.k, t, E.fn.back());
                E.names.push_back("eS" + std::to_string(q) + "_" + std::to_string(sh));
                E.tabs.push_back(t);
                emitTable(E.names.back(), "FE", D, E.fn.back());
            }
            for (int i = 0; i < std::min(n, 12); i++)
                for (int q = 0; q < ns; q++) {
                    // the unshifted question first (warms the table), then the shifted ones over the same nodes
                    doOp(E, "MINIMUM", MINIMUM, i, q, E.F, "FE");
                    doOp(E, "MINIMUM", MINIMUM, i, int(base) + 2 * q, E.F, "FE");
                    doOp(E, "MINIMUM", MINIMUM, i, int(base) + 2 * q + 1, E.F, "FE");
                    doOp(E, "MAXIMUM", MAXIMUM, int(base) + 2 * q, i, E.F, "FE");
                    doOp(E, "MAXIMUM", MAXIMUM, i, q, E.F, "FE");
                    doOp(E, "PLUS", PLUS, i, int(base) + 2 * q + 1, E.F, "FE");
                    doOp(E, "PLUS", PLUS, i, q, E.F, "FE");
                }
            STATS.hit("long-edge-values");
        }
        // boolean sets, a relation, images and reachability (keys with level items, saturation's two entry types),
        // copies between labelings - all sharing the same tables in the monolithic styles
        {
            Kind ks; ks.rt = range_type::BOOLEAN; ks.rr = M.k.rr;
            Kind kr; kr.rel = true; kr.rt = range_type::BOOLEAN; kr.rr = reduction_rule::IDENTITY_REDUCED;
            forest* FS = makeForest(D.d, ks, Pol());
            forest* FR = makeForest(D.d, kr, Pol());
            emitForest("FS", FS, ks, Pol());
            emitForest("FR", FR, kr, Pol());
            int ns = 10;
            std::vector<dd_edge> S, R;
            for (int i = 0; i < ns; i++) {
                S.emplace_back(FS);
                buildFromTable(D, FS, ks, randomTable(r, D, ks, i == 0 ? 3 : 10 + 8 * unsigned(i)), S.back());
                emitTable("s" + std::to_string(i), "FS", D, S.back());
            }
            for (int i = 0; i < 4; i++) {
                // sparse relations: a few random transitions plus, sometimes, an identity part
                std::vector<Val> t(D.card(true), Val::boolean(false));
                int nt = r.range(3, 14);
                for (int q = 0; q < nt; q++) t[r.below(unsigned(t.size()))] = Val::boolean(true);
                R.emplace_back(FR);
                buildFromTable(D, FR, kr, t, R.back());
                emitTable("r" + std::to_string(i), "FR", D, R.back());
            }
            auto un = [&](const char* opn, binary_builtin0 op, int i, int j) {
                dd_edge res(FS); std::string rn = "R" + std::to_string(serial++);
                emit("resforest FS");
                apply(op, S[size_t(i)], S[size_t(j)], res);
                emit("op %s %s s%d s%d", rn.c_str(), opn, i, j);
                emitTable(rn, "FS", D, res); STATS.hit(std::string("op.") + opn);
            };
            for (int i = 0; i < ns; i++) for (int j = 0; j < ns; j++) {
                un("UNION", UNION, i, j); un("INTERSECTION", INTERSECTION, i, j); un("DIFFERENCE", DIFFERENCE, i, j);
            }
            for (int i = 0; i < ns; i++) for (int q = 0; q < 4; q++) {
                for (int pass = 0; pass < 2; pass++) {
                    {   dd_edge res(FS); std::string rn = "R" + std::to_string(serial++);
                        emit("resforest FS");
                        apply(pass ? PRE_IMAGE : POST_IMAGE, S[size_t(i)], R[size_t(q)], res);
                        emit("op %s %s s%d r%d", rn.c_str(), pass ? "PRE_IMAGE" : "POST_IMAGE", i, q);
                        emitTable(rn, "FS", D, res); STATS.hit(pass ? "op.PRE_IMAGE" : "op.POST_IMAGE"); }
                    if (i < 5) {
                        dd_edge res(FS); std::string rn = "R" + std::to_string(serial++);
                        emit("resforest FS");
                        apply(REACHABLE_TRAD_NOFS(pass == 0), S[size_t(i)], R[size_t(q)], res);
                        emit("op %s %s s%d r%d", rn.c_str(), pass ? "REACH_NOFS_BWD" : "REACH_NOFS_FWD", i, q);
                        emitTable(rn, "FS", D, res); STATS.hit("op.REACH_NOFS");
                        dd_edge res2(FS); std::string rn2 = "R" + std::to_string(serial++);
                        emit("resforest FS");
                        apply(REACHABLE_SATUR(pass == 0), S[size_t(i)], R[size_t(q)], res2);
                        emit("op %s %s s%d r%d", rn2.c_str(), pass ? "REACH_SAT_BWD" : "REACH_SAT_FWD", i, q);
                        emitTable(rn2, "FS", D, res2); STATS.hit("op.REACH_SAT");
                    }
                }
            }
            // copies MT int -> EV+ and back
            for (int i = 0; i < n; i += 3) {
                dd_edge res(E.F); std::string rn = "R" + std::to_string(serial++);
                emit("resforest FE");
                apply(COPY, M.fn[size_t(i)], res);
                emit("op %s COPY %s", rn.c_str(), M.names[size_t(i)].c_str());
                emitTable(rn, "FE", D, res); STATS.hit("op.COPY");
            }
            emitAudit("FS", FS, ks);
            S.clear(); R.clear();
            forest::destroy(FS); forest::destroy(FR);
        }
        // second pass over a sample: now every answer may come from the table
        for (int t = 0; t < n * 4; t++) {
            int i = r.below(unsigned(n)), j = r.below(unsigned(n));
            doOp(E, "MULTIPLY", MULTIPLY, i, j, E.F, "FE");
            doOp(M, "MULTIPLY", MULTIPLY, i, j, M.F, "FM");
        }
        emitAudit("FE", E.F, E.k);
        emitAudit("FM", M.F, M.k);
        E.fn.clear(); M.fn.clear();
        endCase();
        forest::destroy(E.F); forest::destroy(M.F); forest::destroy(B.F);
        D.destroy();
        libCleanup();
    }
    return 0;
}
FamilyReg reg("ctstress", run, "C07 warm-table stress of many key shapes under all four table styles");
}  // namespace
