// Family `memman` (C18): memory managers never hand out overlapping or corrupted chunks.
//
// For each style (orig grid, array+grid, heap, malloc, free lists) x slot granularity (4, 8 bytes)
// x minsize, random request/recycle histories are driven through the public memory_manager
// interface.  Every granted chunk is filled completely with a sentinel pattern derived from the
// chunk id; after EVERY step all live chunks are re-read.
//
// Transcript records (one per line):
//   mm <style> <gran> <minsize> <firstMSB> <lastMSB> <manual>
//         style in orig|array|heap|malloc|free ; flags = firstSlotMustClearMSB, lastSlotMustClearMSB,
//         mustRecycleManually
//   req <id> <want> <got> <handle>     requestChunk(want) -> handle, numSlots=got.  Slot-addressed
//         managers: handle = slot index.  malloc: the handle is a raw pointer and is NOT printed;
//         instead an opaque token is printed: a fresh number, unless the pointer equals the handle of a
//         chunk that is still live, in which case that chunk's token is repeated.
//   reqerr <want> <error>              requestChunk threw (free lists: request larger than 15 slots)
//   ovl <id> <otherid>                 malloc only: byte ranges of two live chunks intersect
//   rec <id> <handle> <size>           recycleChunk(handle, size)
//   scan <nlive> <nslots> <nbad> <ninvalid>   all live chunks re-read: nslots verified, nbad changed,
//         ninvalid chunks whose handle (or last slot) fails isValidHandle
//   bad <id> <slot>                    a changed slot (repaired afterwards, so reported once)
//   inval <id>                         isValidHandle failed for a live chunk
//   tile <end> <n> <tok>*              hole-based styles: the arena walked with getFirstAddress /
//         isAddressInUse / getNextAddress; tok = L<addr>:<size> live chunk (manager says in use),
//         l<addr>:<size> live chunk the manager reports as NOT in use, H<addr>:<size> hole,
//         U<addr> in use but unknown to the client (walk stops), X<addr> walk cannot advance;
//         end = first address past the arena (0 if the walk was aborted)
//   drop <nlive>                       the manager is destroyed with nlive chunks still live
//   crash signal <n>                   the library crashed (SIGSEGV...); the transcript ends here
#include "common.h"
#include <csignal>
#include <unistd.h>
using namespace MEDDLY;
using namespace mdh;

namespace {

struct Chunk {
    long id;
    node_address h;
    size_t got;
    unsigned long tok;   // what is printed as handle
};

struct Ctx {
    memory_manager* mm = nullptr;
    int style = 0;       // 0 orig, 1 array, 2 heap, 3 malloc, 4 free
    int gran = 4;
    size_t minsize = 2, maxsize = 64;
    bool fmsb = false, lmsb = false;
    bool hole = false, slotAddr = true;
    std::vector<Chunk> live;             // allocation order
    std::map<uintptr_t, std::pair<uintptr_t, size_t> > bytes;   // malloc: begin -> (end, index key=id)
    std::map<uintptr_t, unsigned long> ptrTok;                   // malloc: live pointer -> token
    long nextId = 0;
    unsigned long nextTok = 1;
    size_t liveSlots = 0;
    size_t maxLive = 250, maxLiveSlots = 12000;
    long step = 0;
    int tilePeriod = 1;
    std::vector<size_t> freed;           // sizes of recently recycled chunks
    node_address hiWater = 0;            // one past the highest slot ever granted (slot-addressed)
};

const char* styleName[] = {"orig", "array", "heap", "malloc", "free"};

inline uint64_t sentinel(const Ctx& C, long id, size_t slot, size_t got) {
    uint64_t z = uint64_t(id + 1) * 0x9E3779B97F4A7C15ull + uint64_t(slot + 1) * 0xBF58476D1CE4E5B9ull;
    z ^= z >> 29;
    const uint64_t msb = C.gran == 4 ? 0x80000000ull : 0x8000000000000000ull;
    const uint64_t mask = C.gran == 4 ? 0xffffffffull : ~0ull;
    z &= mask;
    bool first = slot == 0, last = slot + 1 == got;
    if ((first && C.fmsb) || (last && C.lmsb)) return z & ~msb;
    if (!first && !last) {
        // interior slots deliberately imitate hole bookkeeping: "size | MSB", small pointers, -1
        switch (slot & 3) {
            case 1: return ((got - slot) | msb) & mask;
            case 2: return (z | msb) & mask;
            case 3: return (slot & 4) ? mask : (z & 0xff);
            default: break;
        }
    }
    return z;
}
inline uint64_t rdSlot(const Ctx& C, void* base, size_t i) {
    return C.gran == 4 ? uint64_t(((uint32_t*) base)[i]) : ((uint64_t*) base)[i];
}
inline void wrSlot(const Ctx& C, void* base, size_t i, uint64_t v) {
    if (C.gran == 4) ((uint32_t*) base)[i] = uint32_t(v); else ((uint64_t*) base)[i] = v;
}

void scan(Ctx& C) {
    size_t nslots = 0, nbad = 0, ninv = 0;
    for (const Chunk& c : C.live) {
        bool ok = C.mm->isValidHandle(c.h);
        if (ok && C.slotAddr) ok = C.mm->isValidHandle(c.h + c.got - 1);
        if (!ok) { ninv++; emit("inval %ld", c.id); continue; }
        void* base = C.mm->getChunkAddress(c.h);
        for (size_t i = 0; i < c.got; i++) {
            uint64_t want = sentinel(C, c.id, i, c.got);
            if (rdSlot(C, base, i) != want) {
                nbad++;
                if (nbad <= 50) emit("bad %ld %zu", c.id, i);
                wrSlot(C, base, i, want);
            }
        }
        nslots += c.got;
    }
    emit("scan %zu %zu %zu %zu", C.live.size(), nslots, nbad, ninv);
    STATS.hit("scan.records");
    STATS.hit("scan.slots", long(nslots));
}

void tile(Ctx& C) {
    if (!C.hole) return;
    std::map<node_address, const Chunk*> byAddr;
    for (const Chunk& c : C.live) byAddr[c.h] = &c;
    std::string s;
    char buf[64];
    size_t n = 0;
    node_address a = C.mm->getFirstAddress();
    node_address end = 0;
    for (size_t guard = 0; guard < 10000000; guard++) {
        auto it = byAddr.find(a);
        if (it != byAddr.end()) {
            bool inuse = C.mm->isAddressInUse(a);
            snprintf(buf, sizeof buf, " %c%lu:%zu", inuse ? 'L' : 'l', (unsigned long) a, it->second->got);
            s += buf; n++;
            a += it->second->got;
            continue;
        }
        if (C.mm->isAddressInUse(a)) {
            snprintf(buf, sizeof buf, " U%lu", (unsigned long) a);
            s += buf; n++;
            break;
        }
        node_address nx = C.mm->getNextAddress(a);
        if (nx == 0) { end = a; break; }
        if (nx <= a) {
            snprintf(buf, sizeof buf, " X%lu", (unsigned long) a);
            s += buf; n++;
            break;
        }
        snprintf(buf, sizeof buf, " H%lu:%lu", (unsigned long) a, (unsigned long) (nx - a));
        s += buf; n++;
        STATS.hit("tile.holes");
        a = nx;
    }
    snprintf(buf, sizeof buf, "tile %lu %zu", (unsigned long) end, n);
    emits(std::string(buf) + s);
    STATS.hit("tile.records");
}

void afterStep(Ctx& C) {
    C.step++;
    scan(C);
    if (C.hole && C.step % C.tilePeriod == 0) tile(C);
}

bool doRequest(Ctx& C, size_t want, const char* why) {
    size_t got = want;
    node_address h = 0;
    try {
        h = C.mm->requestChunk(got);
    } catch (error& e) {
        emit("reqerr %zu %s", want, errName(e));
        STATS.hit("req.error");
        return false;
    }
    Chunk c;
    c.id = C.nextId++;
    c.h = h;
    c.got = got;
    if (C.slotAddr) {
        c.tok = (unsigned long) h;
    } else {
        auto it = C.ptrTok.find(uintptr_t(h));
        c.tok = (it != C.ptrTok.end()) ? it->second : C.nextTok++;
        if (h == 0) c.tok = 0;
    }
    emit("req %ld %zu %zu %lu", c.id, want, got, c.tok);
    STATS.hit("op.req");
    STATS.hit(std::string("req.") + why);
    if (got > want) STATS.hit("req.got>want");
    if (h == 0 || got == 0) { afterStep(C); return false; }
    if (C.slotAddr) {
        if (h < C.hiWater) STATS.hit("req.reuse"); else STATS.hit("req.extend");
        if (h + got > C.hiWater) C.hiWater = h + got;
    } else {
        // byte-range overlap with other live chunks
        uintptr_t b = uintptr_t(h), e = b + got * size_t(C.gran);
        auto it = C.bytes.lower_bound(b);
        if (it != C.bytes.end() && it->first < e) emit("ovl %ld %zu", c.id, it->second.second);
        if (it != C.bytes.begin()) {
            --it;
            if (it->second.first > b) emit("ovl %ld %zu", c.id, it->second.second);
        }
        C.bytes[b] = std::make_pair(e, size_t(c.id));
        C.ptrTok[b] = c.tok;
    }
    void* base = C.mm->getChunkAddress(h);
    for (size_t i = 0; i < got; i++) wrSlot(C, base, i, sentinel(C, c.id, i, got));
    C.live.push_back(c);
    C.liveSlots += got;
    afterStep(C);
    return true;
}

void doRecycle(Ctx& C, size_t idx, const char* why) {
    Chunk c = C.live[idx];
    C.live.erase(C.live.begin() + long(idx));
    C.liveSlots -= c.got;
    if (!C.slotAddr) {
        auto it = C.bytes.find(uintptr_t(c.h));
        if (it != C.bytes.end() && it->second.second == size_t(c.id)) C.bytes.erase(it);
        auto jt = C.ptrTok.find(uintptr_t(c.h));
        if (jt != C.ptrTok.end() && jt->second == c.tok) {
            // keep the token if another live chunk (a duplicate hand-out) still uses this pointer
            bool dup = false;
            for (const Chunk& o : C.live) if (o.h == c.h) dup = true;
            if (!dup) C.ptrTok.erase(jt);
        }
    }
    emit("rec %ld %lu %zu", c.id, c.tok, c.got);
    C.mm->recycleChunk(c.h, c.got);
    C.freed.push_back(c.got);
    if (C.freed.size() > 24) C.freed.erase(C.freed.begin());
    STATS.hit("op.rec");
    STATS.hit(std::string("rec.") + why);
    afterStep(C);
}

size_t clampSize(const Ctx& C, long s) {
    if (s < long(C.minsize)) s = long(C.minsize);
    if (s > long(C.maxsize)) s = long(C.maxsize);
    return size_t(s);
}

size_t pickSize(Rng& r, const Ctx& C, int cls) {
    long lo = long(C.minsize), hi = long(C.maxsize);
    switch (cls) {
        case 0: return clampSize(C, lo + r.range(0, 4));
        case 1: return clampSize(C, lo + r.range(0, 14));
        case 2: return clampSize(C, r.range(int(lo), int(std::min<long>(hi, 64))));
        case 3: return clampSize(C, hi > 64 ? r.range(64, int(hi)) : r.range(int(lo), int(hi)));
        default: {
            // log-uniform
            int bits = 1;
            while ((1L << bits) < hi) bits++;
            int b = r.range(1, bits);
            long top = std::min<long>(hi, (1L << b));
            long bot = std::max<long>(lo, (1L << (b - 1)));
            if (bot > top) bot = lo;
            return clampSize(C, r.range(int(bot), int(top)));
        }
    }
}

bool room(const Ctx& C) { return C.live.size() < C.maxLive && C.liveSlots < C.maxLiveSlots; }

// indexes into C.live sorted by handle (address order); meaningful for slot-addressed styles
std::vector<size_t> byAddress(const Ctx& C) {
    std::vector<size_t> ix(C.live.size());
    for (size_t i = 0; i < ix.size(); i++) ix[i] = i;
    std::sort(ix.begin(), ix.end(), [&](size_t a, size_t b) { return C.live[a].h < C.live[b].h; });
    return ix;
}

// recycle the chunks with the given ids, in the given order
void recycleIds(Ctx& C, const std::vector<long>& ids, const char* why, long& budget) {
    for (long id : ids) {
        if (budget <= 0) return;
        for (size_t i = 0; i < C.live.size(); i++)
            if (C.live[i].id == id) { doRecycle(C, i, why); budget--; break; }
    }
}

void shuffle(Rng& r, std::vector<long>& v) {
    for (size_t i = v.size(); i > 1; i--) std::swap(v[i - 1], v[r.below(unsigned(i))]);
}

void phaseBurst(Rng& r, Ctx& C, long& budget) {
    int k = r.range(4, 40);
    int cls = r.below(5);
    int mode = r.below(6);   // 0 same size, 1 ladder up, 2 ladder down, else random in class
    size_t same = pickSize(r, C, cls);
    size_t base = r.chance(1, 2) ? C.minsize : pickSize(r, C, 1);
    STATS.hit(mode == 0 ? "phase.burst.same" : mode == 1 ? "phase.burst.ladderUp" : mode == 2 ? "phase.burst.ladderDown" : "phase.burst.random");
    for (int i = 0; i < k && budget > 0; i++) {
        if (!room(C)) return;
        size_t s = mode == 0 ? same : mode == 1 ? clampSize(C, long(base) + i) : mode == 2 ? clampSize(C, long(base) + k - i) : pickSize(r, C, cls);
        doRequest(C, s, "burst");
        budget--;
    }
}

void phaseFree(Rng& r, Ctx& C, long& budget) {
    if (C.live.empty()) return;
    int pat = r.below(7);
    std::vector<long> ids;
    size_t n = C.live.size();
    size_t k = size_t(r.range(1, int(std::min<size_t>(n, 30))));
    switch (pat) {
        case 0: {   // random subset
            unsigned q = 1 + r.below(3);
            for (auto& c : C.live) if (r.chance(q, 4)) ids.push_back(c.id);
            shuffle(r, ids);
            STATS.hit("phase.free.subset");
            recycleIds(C, ids, "subset", budget);
            break;
        }
        case 1:   // FIFO
            for (size_t i = 0; i < k; i++) ids.push_back(C.live[i].id);
            STATS.hit("phase.free.fifo");
            recycleIds(C, ids, "fifo", budget);
            break;
        case 2:   // LIFO
            for (size_t i = 0; i < k; i++) ids.push_back(C.live[n - 1 - i].id);
            STATS.hit("phase.free.lifo");
            recycleIds(C, ids, "lifo", budget);
            break;
        case 3: case 4: {   // a window of address-adjacent chunks, in some order
            std::vector<size_t> ix = byAddress(C);
            size_t start = r.below(unsigned(n - k + 1));
            for (size_t i = 0; i < k; i++) ids.push_back(C.live[ix[start + i]].id);
            int ord = r.below(4);
            if (ord == 1) std::reverse(ids.begin(), ids.end());
            else if (ord == 2) shuffle(r, ids);
            else if (ord == 3) {   // odd positions first, then even ones: every later recycle merges on both sides
                std::vector<long> a, b;
                for (size_t i = 0; i < ids.size(); i++) (i % 2 ? a : b).push_back(ids[i]);
                ids = a;
                ids.insert(ids.end(), b.begin(), b.end());
            }
            STATS.hit(ord == 0 ? "phase.free.windowAsc" : ord == 1 ? "phase.free.windowDesc" : ord == 2 ? "phase.free.windowRand" : "phase.free.windowOddEven");
            recycleIds(C, ids, "window", budget);
            break;
        }
        case 5: {   // every other chunk in address order (isolated holes of every size present)
            std::vector<size_t> ix = byAddress(C);
            for (size_t i = r.below(2); i < n; i += 2) ids.push_back(C.live[ix[i]].id);
            STATS.hit("phase.free.everyOther");
            recycleIds(C, ids, "everyOther", budget);
            break;
        }
        default: {   // the chunks at the end of the arena (array shrinks)
            std::vector<size_t> ix = byAddress(C);
            for (size_t i = 0; i < k; i++) ids.push_back(C.live[ix[n - 1 - i]].id);
            if (r.chance(1, 2)) std::reverse(ids.begin(), ids.end());
            STATS.hit("phase.free.tail");
            recycleIds(C, ids, "tail", budget);
            break;
        }
    }
}

void phaseRefill(Rng& r, Ctx& C, long& budget) {
    int k = r.range(2, 20);
    STATS.hit("phase.refill");
    for (int i = 0; i < k && budget > 0; i++) {
        if (!room(C)) return;
        if (C.freed.empty()) { doRequest(C, pickSize(r, C, 4), "refill.random"); budget--; continue; }
        size_t s = C.freed[r.below(unsigned(C.freed.size()))];
        int v = r.below(6);
        if (v <= 1) doRequest(C, clampSize(C, long(s)), "refill.exact");
        else if (v <= 3) doRequest(C, clampSize(C, long(s) - r.range(1, 5)), "refill.smaller");
        else if (v == 4) doRequest(C, clampSize(C, long(s) + r.range(1, 5)), "refill.larger");
        else doRequest(C, clampSize(C, long(s) / 2), "refill.half");
        budget--;
    }
}

void phaseMix(Rng& r, Ctx& C, long& budget) {
    int n = r.range(10, 80);
    unsigned p = 1 + r.below(3);   // alloc probability p/4
    int cls = r.below(5);
    STATS.hit("phase.mix");
    for (int i = 0; i < n && budget > 0; i++) {
        if (C.live.empty() || (r.chance(p, 4) && room(C))) doRequest(C, pickSize(r, C, cls), "mix");
        else doRecycle(C, r.below(unsigned(C.live.size())), "mix");
        budget--;
    }
}

void drain(Rng& r, Ctx& C, const char* why) {
    int ord = r.below(4);
    STATS.hit(std::string("phase.drain.") + (ord == 0 ? "fifo" : ord == 1 ? "lifo" : ord == 2 ? "random" : "address"));
    std::vector<long> ids;
    if (ord == 3) { for (size_t i : byAddress(C)) ids.push_back(C.live[i].id); }
    else for (auto& c : C.live) ids.push_back(c.id);
    if (ord == 1) std::reverse(ids.begin(), ids.end());
    if (ord == 2) shuffle(r, ids);
    long inf = 1L << 40;
    recycleIds(C, ids, why, inf);
}

// A corrupted arena can crash the library: keep the transcript written so far and say so.
void onCrash(int sig) {
    fprintf(stdout, "\ncrash signal %d\n", sig);
    fflush(stdout);
    _exit(3);
}

int run(const Args& A) {
    signal(SIGSEGV, onCrash);
    signal(SIGBUS, onCrash);
    signal(SIGABRT, onCrash);
    signal(SIGFPE, onCrash);
    libInit();
    const memory_manager_style* styles[5] = {ORIGINAL_GRID, ARRAY_PLUS_GRID, HEAP_MANAGER, MALLOC_MANAGER, FREELISTS};
    long ncases = A.cases > 0 ? A.cases : (A.thorough() ? 500 : 240);
    for (long c = 0; c < ncases; c++) {
        if (A.only_case >= 0 && c != A.only_case) continue;
        Rng r(Rng::mix(A.seed, uint64_t(c)));
        Ctx C;
        // hole-based styles get more cases: they have the interesting structure
        static const int styleDist[] = {0, 0, 0, 1, 1, 1, 2, 2, 2, 3, 4, 4};
        C.style = styleDist[r.below(12)];
        C.gran = r.chance(1, 2) ? 4 : 8;
        C.hole = C.style <= 2;
        C.slotAddr = C.style != 3;
        // minsize: compute tables use 2; node storage uses slotsForNode(0) = 3 + header slots; 1 = stress
        static const unsigned minDist[] = {1, 2, 2, 2, 3, 3, 4, 5, 5, 7};
        C.minsize = minDist[r.below(10)];
        if (C.style == 4) {
            if (C.minsize > 5) C.minsize = 2;
            C.maxsize = 15;
        } else {
            static const unsigned maxQ[] = {12, 24, 60, 150, 400};
            static const unsigned maxT[] = {12, 24, 60, 150, 400, 1200, 3000};
            C.maxsize = A.thorough() ? maxT[r.below(7)] : maxQ[r.below(5)];
        }
        C.maxLive = A.thorough() ? 500 : 220;
        C.maxLiveSlots = A.thorough() ? 30000 : 10000;
        C.tilePeriod = A.thorough() ? std::vector<int>{1, 3, 7, 17, 29}[r.below(5)] : std::vector<int>{1, 1, 2, 5, 11}[r.below(5)];
        long budget = A.thorough() ? r.range(300, 2200) : r.range(80, 500);

        memstats ms;
        C.mm = styles[C.style]->initManager((unsigned char) C.gran, (unsigned char) C.minsize, ms);
        emit("case %ld", c);
        if (!C.mm) {
            emit("nomm %s %d %zu", styleName[C.style], C.gran, C.minsize);
            emit("endcase");
            continue;
        }
        C.fmsb = C.mm->firstSlotMustClearMSB();
        C.lmsb = C.mm->lastSlotMustClearMSB();
        emit("mm %s %d %zu %d %d %d", styleName[C.style], C.gran, C.minsize, int(C.fmsb), int(C.lmsb),
             int(C.mm->mustRecycleManually()));
        STATS.hit(std::string("style.") + styleName[C.style]);
        STATS.hit(std::string("gran.") + std::to_string(C.gran));
        STATS.hit(std::string("minsize.") + std::to_string(C.minsize));
        STATS.hit(std::string("maxsize.") + std::to_string(C.maxsize));
        if (C.hole) tile(C);   // the empty arena

        bool bigDone = false;
        while (budget > 0) {
            switch (r.below(10)) {
                case 0: case 1: case 2: phaseBurst(r, C, budget); break;
                case 3: case 4: case 5: phaseFree(r, C, budget); break;
                case 6: case 7: phaseRefill(r, C, budget); break;
                case 8: phaseMix(r, C, budget); break;
                default:
                    if (r.chance(1, 3)) { drain(r, C, "drain"); budget -= 5; }
                    else if (C.style == 4 && !bigDone) {
                        // free lists refuse requests above 15 slots with an exception
                        size_t want = size_t(r.range(16, 60));
                        size_t got = want;
                        try {
                            node_address h = C.mm->requestChunk(got);
                            emit("req %ld %zu %zu %lu", C.nextId++, want, got, (unsigned long) h);
                        } catch (error& e) {
                            emit("reqerr %zu %s", want, errName(e));
                            STATS.hit("req.toobig");
                        }
                        bigDone = true;
                        budget--;
                    }
                    break;
            }
        }
        // end of the case: usually give everything back (mandatory for malloc), sometimes destroy the
        // manager with live chunks
        if (C.style == 3 || r.chance(3, 4)) {
            drain(r, C, "final");
            if (C.hole) tile(C);
        } else {
            if (C.hole) tile(C);
            emit("drop %zu", C.live.size());
            STATS.hit("end.drop");
        }
        delete C.mm;
        emit("endcase");
    }
    libCleanup();
    signal(SIGSEGV, SIG_DFL);
    signal(SIGBUS, SIG_DFL);
    signal(SIGABRT, SIG_DFL);
    signal(SIGFPE, SIG_DFL);
    return 0;
}
FamilyReg reg("memman", run, "C18 memory managers: no overlap, no corruption, reuse only after recycle");
}  // namespace
