// Family `io` (C14): a list of root edges written with mdd_writer and read back with mdd_reader
// denotes the same functions in the same order; the receiving forest stays canonical with exact
// reference counts.
//
// Per case: one writer forest F (random kind, rule, policies), a pool of edges sharing sub-graphs
// (built from tables, by operations, constants, the transparent function), a root list of 0..6 pool
// members (repeats allowed), written once to an in-memory stream (ostream_output) or to a file under
// the work directory (FILE_output).  The text is then read by up to three receivers:
//   (a) the writer forest itself                              (`eq W<i> R<i>` must be 1),
//   (b) another forest of the same kind that already holds equal and unrelated nodes
//       (same rule; a few cases use another rule and are flagged `note cross-rule`),
//   (c) a forest created by mdd_reader(input&, domain*) from the file's own header
//       (library default rule: fully for sets, identity for relations).
// Records added by this family (handled by lean/Driver/P_Io.lean):
//   rt  W<i> R<i>                table after reading must equal the table before writing
//   rtx W<i> R<i> <child>        cross-rule: table after reading must equal the WRITER's graph
//                                (dump `Fw`, root <child>) evaluated under the READER's rule
//   rcaudit <forest>             reference recount only (cross-rule receivers may be non-canonical)
//   ioread Fw <pre> <post> <filenodes> <n> cw.. cr..
//                                replay of the Lean model: read(write(dump Fw, cw..)) into dump <pre>
//                                must give graphs isomorphic to the real roots cr.. in dump <post>,
//                                the same number of new nodes and the same number of file records
#include "common.h"
#include <sstream>
#include <fstream>
#include <unistd.h>
using namespace MEDDLY;
using namespace mdh;

namespace {

bool isMT(const Kind& k) { return k.el == edge_labeling::MULTI_TERMINAL; }
bool isEVP(const Kind& k) { return k.el == edge_labeling::EVPLUS; }
bool isEVT(const Kind& k) { return k.el == edge_labeling::EVTIMES; }
bool isIDX(const Kind& k) { return k.el == edge_labeling::INDEX_SET; }
bool isBoolMT(const Kind& k) { return isMT(k) && k.rt == range_type::BOOLEAN; }

struct PoolEdge { dd_edge e; std::string how; std::vector<Val> src; /* idx: source set */ };

// index set of the set with characteristic table `t` (values T/F), built through an auxiliary
// boolean forest B over the same domain
bool buildIndexSet(const Dom& D, forest* B, forest* F, const std::vector<Val>& t, dd_edge& out) {
    try {
        Kind kb;   // bool mt fully set
        dd_edge s(B);
        buildFromTable(D, B, kb, t, s);
        out.attach(F);
        apply(CONVERT_TO_INDEX_SET, s, out);
        return true;
    } catch (error& e) {
        STATS.hit(std::string("idx.err.") + errName(e));
        return false;
    }
}

std::vector<Val> randomBoolTable(Rng& r, const Dom& D, unsigned density) {
    Kind kb;
    return randomTable(r, D, kb, density);
}

bool combine(Rng& r, const Kind& k, const dd_edge& a, const dd_edge& b, dd_edge& out, std::string& how) {
    try {
        if (isBoolMT(k)) {
            switch (r.below(3)) {
                case 0: apply(UNION, a, b, out); how = "union"; break;
                case 1: apply(INTERSECTION, a, b, out); how = "inter"; break;
                default: apply(DIFFERENCE, a, b, out); how = "diff"; break;
            }
        } else if (isEVP(k)) {
            if (r.chance(1, 2)) { apply(MINIMUM, a, b, out); how = "min"; }
            else { apply(PLUS, a, b, out); how = "plus"; }
        } else if (isMT(k)) {
            switch (r.below(3)) {
                case 0: apply(MAXIMUM, a, b, out); how = "max"; break;
                case 1: apply(MINIMUM, a, b, out); how = "min"; break;
                default: apply(PLUS, a, b, out); how = "plus"; break;
            }
        } else return false;
        return true;
    } catch (error& e) {
        STATS.hit(std::string("combine.err.") + errName(e));
        return false;
    }
}

// index sets: the per-node cardinality header (unhashed, so invisible to the unique table and to
// evaluate) of every node reachable from `root`, in depth-first order by child index
void cardSeq(forest* F, node_handle p, std::set<node_handle>& seen, std::string& out) {
    if (p <= 0 || !seen.insert(p).second) return;
    out += (out.empty() ? "" : ",") + std::to_string(F->getIndexSetCardinality(p));
    unpacked_node* U = unpacked_node::newFromNode(F, p, FULL_ONLY);
    std::vector<node_handle> kids;
    for (unsigned i = 0; i < U->getSize(); i++) kids.push_back(U->down(i));
    unpacked_node::Recycle(U);
    for (node_handle c : kids) cardSeq(F, c, seen, out);
}
std::string cardSeq(const dd_edge& e) {
    std::set<node_handle> seen; std::string out;
    cardSeq(e.getForest(), e.getNode(), seen, out);
    return out.empty() ? "-" : out;
}

reduction_rule defaultRule(bool rel) { return rel ? reduction_rule::IDENTITY_REDUCED : reduction_rule::FULLY_REDUCED; }

const char* ruleName(reduction_rule rr) {
    return rr == reduction_rule::FULLY_REDUCED ? "fully" : rr == reduction_rule::QUASI_REDUCED ? "quasi" : "ident";
}

struct Receiver {
    char tag;              // 'a', 'b', 'c'
    std::string name;      // forest name in the transcript
    std::string pre;       // name of the dump taken before reading ("-" = empty store)
    forest* G = nullptr;
    Kind k;
    bool cross = false;
};

int run(const Args& A) {
    libInit();
    long ncases = A.cases > 0 ? A.cases : (A.thorough() ? 8000 : 600);
    std::string workdir = A.get("workdir", getenv("MDH_WORKDIR") ? getenv("MDH_WORKDIR") : ".");
    bool crossOK = A.getl("cross", 1) != 0;
    bool domFromFile = A.getl("domfromfile", 1) != 0;   // C14-F1 (domain::create(input&) order) is repaired in /repo (fix: 50387d1): no steering by default
    bool probe = A.getl("probe", 1) != 0;
    std::vector<Kind> kinds = allKinds(true, true);
    {
        Kind ki; ki.rel = false; ki.rt = range_type::INTEGER; ki.el = edge_labeling::INDEX_SET;
        ki.rr = reduction_rule::FULLY_REDUCED; kinds.push_back(ki);
        ki.rr = reduction_rule::QUASI_REDUCED; kinds.push_back(ki);
    }
    for (long c = 0; c < ncases; c++) {
        if (!A.selected(c)) continue;
        Rng r(Rng::mix(A.seed, uint64_t(c)));
        Kind k = kinds[r.below(unsigned(kinds.size()))];
        Dom D = randomDom(r, 1, k.rel ? 3 : (A.thorough() ? 5 : 4), A.thorough() ? 4 : 3, k.rel ? 700 : 260, k.rel);
        D.create();
        beginCase(c);
        emits(D.str());
        Pol pol = r.chance(2, 3) ? Pol::random(r) : Pol();
        forest* F = makeForest(D.d, k, pol);
        emitForest("F", F, k, pol);
        emitForest("Fw", F, k, pol);
        STATS.hit("kind." + k.str());
        STATS.hit("writer.storage." + std::to_string(pol.storage));
        forest* B = nullptr;   // auxiliary boolean forest for index sets
        if (isIDX(k)) { Kind kb; B = makeForest(D.d, kb, Pol()); }

        // ------------------------------------------------------------ pool
        std::vector<PoolEdge*> pool;
        auto add = [&](const dd_edge& e, const std::string& how) { pool.push_back(new PoolEdge{e, how, {}}); STATS.hit("pool." + how); };
        int nbase = r.range(1, 4);
        static const unsigned dens[] = {0, 5, 20, 50, 80, 100};
        for (int i = 0; i < nbase; i++) {
            dd_edge e(F);
            if (isIDX(k)) {
                std::vector<Val> t = randomBoolTable(r, D, dens[1 + r.below(5)]);
                if (!buildIndexSet(D, B, F, t, e)) continue;
                pool.push_back(new PoolEdge{e, "idx", t});
                STATS.hit("pool.idx");
                continue;
            }
            std::vector<Val> t;
            if (i > 0 && r.chance(1, 4) && !pool.empty()) {
                // near-duplicate of an earlier function: shares most of its graph
                t = tableOf(D, pool[r.below(unsigned(pool.size()))]->e);
                t[r.below(unsigned(t.size()))] = randomValue(r, k, true);
            } else t = randomTable(r, D, k, dens[r.below(6)]);
            if (k.el == edge_labeling::EVPLUS && r.chance(1, 3)) {
                // 64-bit edge values: offsets beyond 2^31 / 2^32 on some or all finite values (root edge value and,
                // with a partial shift, inner edge values need more than 32 bits in the file)
                static const long offs[] = {3000000000L, 5000000000L, (1L << 40) + 7, -(1L << 33)};
                long o = offs[r.below(4)];
                bool all = r.chance(1, 2);
                for (auto& v : t) if (v.t == Val::I && (all || r.chance(1, 2))) v.n += o;
                STATS.hit("gen.evplus.long-values");
            }
            if (isMT(k) && k.rt == range_type::REAL && r.chance(1, 3)) {
                // values that need the full printed precision (5 decimals survive the library's 1e-5
                // terminal rounding; magnitudes in [64,1024) are avoided: float spacing ~ 1e-5 there
                // makes that rounding non-idempotent, which is not this property's subject)
                static const double off[] = {0.12345, 3.14159, -2.71828, 0.00001, 12345.678, 0.33333};
                int m = r.range(1, 4);
                for (int q = 0; q < m; q++) t[r.below(unsigned(t.size()))] = Val::real(double(float(off[r.below(6)])));
                STATS.hit("real.offgrid");
            }
            try {
                buildFromTable(D, F, k, t, e);
                add(e, "table");
            } catch (error& er) { STATS.hit(std::string("build.err.") + errName(er)); }
        }
        // operations over the pool (shared sub-graphs)
        int nops = pool.empty() ? 0 : r.range(0, 3);
        for (int i = 0; i < nops; i++) {
            dd_edge res(F);
            std::string how;
            if (combine(r, k, pool[r.below(unsigned(pool.size()))]->e, pool[r.below(unsigned(pool.size()))]->e, res, how)) add(res, how);
        }
        // terminal roots: constants and the transparent function
        if (!isIDX(k)) {
            if (r.chance(1, 2)) {
                dd_edge e(F);
                try { F->createConstant(toRangeval(k.zero(), k.rt), e); add(e, "transparent"); }
                catch (error& er) { STATS.hit(std::string("const.err.") + errName(er)); }
            }
            if (r.chance(1, 2)) {
                dd_edge e(F);
                try { F->createConstant(toRangeval(randomValue(r, k, false), k.rt), e); add(e, "constant"); }
                catch (error& er) { STATS.hit(std::string("const.err.") + errName(er)); }
            }
        }
        // ------------------------------------------------------------ root list
        int nroots = pool.empty() ? 0 : (r.chance(1, 12) ? 0 : r.range(1, 6));
        std::vector<int> pick;
        for (int i = 0; i < nroots; i++) {
            if (i > 0 && r.chance(1, 5)) pick.push_back(pick[r.below(unsigned(pick.size()))]);   // repeated root
            else pick.push_back(int(r.below(unsigned(pool.size()))));
        }
        STATS.hit("roots." + std::to_string(nroots));
        std::vector<std::vector<Val>> wtab;
        for (int i = 0; i < nroots; i++) {
            const dd_edge& e = pool[pick[i]]->e;
            wtab.push_back(tableOf(D, e));
            emit("table W%d F %s", i, tableStr(wtab.back()).c_str());
            if (e.getNode() <= 0) STATS.hit("root.terminal");
        }
        {
            std::set<int> distinct(pick.begin(), pick.end());
            if (int(distinct.size()) < nroots) STATS.hit("root.repeated", nroots - long(distinct.size()));
        }
        // dump of the writer (taken under the alias Fw: it must survive the later dumps of F)
        emitAudit("F", F, k);
        emitAudit("Fw", F, k);
        for (int i = 0; i < nroots; i++) emitRoot("W" + std::to_string(i), "Fw", pool[pick[i]]->e, k);

        // ------------------------------------------------------------ write
        std::string text;
        bool viaFile = r.chance(1, 4);
        bool withDomain = r.chance(1, 3);
        bool twoSections = r.chance(1, 4);    // a second file section follows: the same roots in reverse order
        std::string path = workdir + "/mdh_io_" + std::to_string(long(getpid())) + "_" + std::to_string(c) + ".tmp";
        bool wrote = false;
        try {
            if (viaFile) {
                FILE* fp = fopen(path.c_str(), "w");
                if (!fp) { viaFile = false; STATS.hit("file.fallback"); }
                else {
                    {
                        FILE_output out(fp);
                        if (withDomain) D.d->write(out);
                        mdd_writer W(out, F);
                        for (int i = 0; i < nroots; i++) W.writeRootEdge(pool[pick[i]]->e);
                        if (r.chance(1, 2)) { W.finish(); W.finish(); }   // a second finish() is a no-op; else the destructor writes
                        if (twoSections) {
                            if (!r.chance(1, 2)) W.finish();                 // (otherwise finished above or here)
                            W.finish();
                            mdd_writer W2(out, F);
                            for (int i = nroots - 1; i >= 0; i--) W2.writeRootEdge(pool[pick[i]]->e);
                        }
                    }
                    fclose(fp);
                    std::ifstream in(path.c_str());
                    std::stringstream ss; ss << in.rdbuf();
                    text = ss.str();
                    STATS.hit("sink.file");
                }
            }
            if (!viaFile) {
                std::ostringstream os;
                {
                    ostream_output out(os);
                    if (withDomain) D.d->write(out);
                    mdd_writer W(out, F);
                    for (int i = 0; i < nroots; i++) W.writeRootEdge(pool[pick[i]]->e);
                    if (r.chance(1, 2)) W.finish();
                    if (twoSections) {
                        W.finish();
                        mdd_writer W2(out, F);
                        for (int i = nroots - 1; i >= 0; i--) W2.writeRootEdge(pool[pick[i]]->e);
                    }
                }
                text = os.str();
                STATS.hit("sink.stream");
            }
            wrote = true;
        } catch (error& e) {
            emit("err WRITE IOWRITE %s", errName(e));
            emit("note thrown-at %s:%u", e.getFile(), e.getLine());
        }
        emit("note wrote %d %zu", nroots, text.size());
        if (A.getl("showfile", 0)) {
            std::istringstream ls(text); std::string line;
            while (std::getline(ls, line)) emit("note file| %s", line.c_str());
        }
        // writing must not change the writer
        for (int i = 0; i < nroots; i++) {
            emitTable("W" + std::to_string(i), "F", D, pool[pick[i]]->e);
            emit("unchanged W%d", i);
        }

        // ------------------------------------------------------------ receivers
        std::vector<Receiver> recv;
        {
            Receiver a; a.tag = 'a'; a.name = "F"; a.pre = "Fw"; a.G = F; a.k = k; recv.push_back(a);
        }
        std::vector<dd_edge*> held;          // edges held in G before reading
        std::vector<std::string> heldName;
        Pol polg = Pol::random(r);
        forest* Gb = nullptr;
        {
            Receiver b; b.tag = 'b'; b.name = "G"; b.pre = "Gpre"; b.k = k;
            if (crossOK && r.chance(1, 7)) {
                std::vector<reduction_rule> rules = {reduction_rule::FULLY_REDUCED, reduction_rule::QUASI_REDUCED};
                if (k.rel) rules.push_back(reduction_rule::IDENTITY_REDUCED);
                b.k.rr = r.pick(rules);
                b.cross = b.k.rr != k.rr;
            }
            b.G = makeForest(D.d, b.k, polg);
            Gb = b.G;
            emitForest("G", b.G, b.k, polg);
            emitForest("Gpre", b.G, b.k, polg);
            STATS.hit("reader.storage." + std::to_string(polg.storage));
            // pre-populate: equal functions (same tables as some pool members) and unrelated ones
            int npre = r.range(0, 4);
            for (int j = 0; j < npre; j++) {
                dd_edge* e = new dd_edge(b.G);
                bool ok = true;
                try {
                    if (isIDX(k)) {
                        std::vector<Val> t = (!pool.empty() && r.chance(1, 2)) ? pool[r.below(unsigned(pool.size()))]->src
                                                                              : randomBoolTable(r, D, dens[1 + r.below(5)]);
                        if (t.empty()) t = randomBoolTable(r, D, 50);
                        ok = buildIndexSet(D, B, b.G, t, *e);
                    } else if (!pool.empty() && r.chance(1, 2)) {
                        buildFromTable(D, b.G, b.k, tableOf(D, pool[r.below(unsigned(pool.size()))]->e), *e);
                        STATS.hit("pre.equal");
                    } else {
                        buildFromTable(D, b.G, b.k, randomTable(r, D, b.k, dens[r.below(6)]), *e);
                        STATS.hit("pre.unrelated");
                    }
                } catch (error& er) { ok = false; STATS.hit(std::string("pre.err.") + errName(er)); }
                if (!ok || r.chance(1, 4)) { delete e; continue; }   // released: its nodes may linger (optimistic) or go
                heldName.push_back("P" + std::to_string(held.size()));
                held.push_back(e);
            }
            recv.push_back(b);
        }
        {
            Receiver cc; cc.tag = 'c'; cc.name = "H"; cc.pre = "-"; cc.k = k; cc.k.rr = defaultRule(k.rel);
            cc.cross = cc.k.rr != k.rr;
            recv.push_back(cc);
        }
        if (!wrote) recv.clear();

        for (Receiver& R : recv) {
            if (R.tag != 'a' && r.chance(1, 5)) continue;     // not every receiver in every case
            std::string tag(1, R.tag);
            STATS.hit("recv." + tag);
            if (R.cross) {
                emit("note cross-rule writer=%s reader=%s receiver=%c", ruleName(k.rr), ruleName(R.k.rr), R.tag);
                STATS.hit(std::string("cross.") + ruleName(k.rr) + ">" + ruleName(R.k.rr));
            }
            if (R.tag == 'b') {
                for (size_t j = 0; j < held.size(); j++) emitTable(heldName[j], "G", D, *held[j]);
                emitAudit("Gpre", R.G, R.k);
            }
            std::vector<dd_edge> got;
            mdd_reader* rd = nullptr;
            domain* fileDom = nullptr;
            std::istringstream is(text);
            FILE* fp = nullptr;
            input* in = nullptr;
            bool useFile = viaFile && r.chance(1, 2);
            if (useFile) {
                fp = fopen(path.c_str(), "r");
                if (!fp) useFile = false;
            }
            if (useFile) { in = new FILE_input(fp); STATS.hit("source.file"); }
            else { in = new istream_input(is); STATS.hit("source.stream"); }
            bool ok = true;
            try {
                if (withDomain) {
                    bool palin = true;
                    for (unsigned v = 0; v < D.K(); v++) if (D.sizes[v] != D.sizes[D.K() - 1 - v]) palin = false;
                    // FINDING C14-F1: domain::create(input&) assigns the bounds in the reverse order of
                    // domain::write; by default only symmetric bound lists take this path (see the probe
                    // case at the end of the run, which keeps reporting the defect)
                    if (R.tag == 'c' && r.chance(1, 2) && (palin || domFromFile)) {
                        // domain created from the file as well
                        fileDom = domain::create(*in);
                        std::string s1 = "dom", s2 = "dom";
                        for (unsigned v = 1; v <= D.K(); v++) s1 += "," + std::to_string(D.sizes[v - 1]);
                        for (unsigned v = 1; v <= fileDom->getNumVariables(); v++) s2 += "," + std::to_string(fileDom->getVariableBound(v, false));
                        emit("expect domain-from-file %s %s", s1.c_str(), s2.c_str());
                        STATS.hit("domain.fromfile");
                    } else {
                        D.d->verify(*in);
                        STATS.hit("domain.verify");
                    }
                }
                if (R.tag == 'c') {
                    rd = new mdd_reader(*in, fileDom ? fileDom : D.d);
                    R.G = rd->getForest();
                    Pol pd; pd.storage = 2; pd.mm = 1; pd.del = 1;
                    // the created forest must be of the file's kind, with the library's default rule
                    Kind kc = R.k;
                    emit("expect created-kind %d,%d,%d,%s %d,%d,%d,%s", int(k.rel), int(k.rt), int(k.el), ruleName(R.k.rr),
                         int(R.G->isForRelations()), int(R.G->getRangeType()), int(R.G->getEdgeLabeling()),
                         ruleName(R.G->getReductionRule()));
                    emitForest("H", R.G, kc, pd);
                } else {
                    rd = new mdd_reader(*in, R.G);
                }
                emit("expect numroots %d %u", nroots, rd->numRoots());
                for (int i = 0; i < nroots; i++) {
                    dd_edge e(R.G);
                    rd->readRootEdge(e);
                    got.push_back(e);
                }
                // one more root than written must be refused
                try {
                    dd_edge e(R.G);
                    rd->readRootEdge(e);
                    emit("expect extra-root COULDNT_READ none");
                } catch (error& e2) {
                    emit("expect extra-root COULDNT_READ %s", errName(e2));
                }
                // the reader must have stopped exactly at the end of its section: a second section
                // (same forest, roots reversed) is read from the same input
                if (twoSections && R.tag != 'c') {
                    mdd_reader rd2(*in, R.G);
                    emit("expect numroots2 %d %u", nroots, rd2.numRoots());
                    for (int i = 0; i < nroots; i++) {
                        dd_edge e(R.G);
                        rd2.readRootEdge(e);
                        std::string sn = "S" + tag + std::to_string(i), wn = "W" + std::to_string(nroots - 1 - i);
                        emitTable(sn, R.name, D, e);
                        if (R.cross && k.rr != reduction_rule::QUASI_REDUCED)
                            emit("rtx %s %s %s", wn.c_str(), sn.c_str(), edgeStr(pool[pick[nroots - 1 - i]]->e, k).c_str());
                        else
                            emit("rt %s %s", wn.c_str(), sn.c_str());
                        if (!R.cross) {
                            std::string rn = "R" + tag + std::to_string(nroots - 1 - i);
                            emitTable(rn, R.name, D, got[size_t(nroots - 1 - i)]);
                            emitEq(rn, sn, got[size_t(nroots - 1 - i)], e);
                        }
                    }
                    STATS.hit("two-sections");
                }
            } catch (error& e) {
                ok = false;
                emit("err R%c IOREAD %s", R.tag, errName(e));
                emit("note thrown-at %s:%u", e.getFile(), e.getLine());
                STATS.hit(std::string("read.err.") + errName(e));
            }
            size_t fileNodes = rd ? rd->getFileNodes() : 0;
            bool auditWhileOpen = r.chance(1, 3);
            if (!auditWhileOpen) { delete rd; rd = nullptr; }
            if (ok && R.G) {
                const std::string& gn = R.name;
                for (int i = 0; i < nroots; i++) {
                    std::string wn = "W" + std::to_string(i), rn = "R" + tag + std::to_string(i);
                    emitTable(rn, gn, D, got[size_t(i)]);
                    if (R.cross && k.rr != reduction_rule::QUASI_REDUCED)
                        emit("rtx %s %s %s", wn.c_str(), rn.c_str(), edgeStr(pool[pick[i]]->e, k).c_str());
                    else
                        emit("rt %s %s", wn.c_str(), rn.c_str());
                    if (R.tag == 'a') emitEq(wn, rn, pool[pick[i]]->e, got[size_t(i)]);
                    if (isIDX(k))
                        emit("expect idxcards %s %s", cardSeq(pool[pick[i]]->e).c_str(), cardSeq(got[size_t(i)]).c_str());
                }
                // read edges against each other and against what the receiver already held
                // (not for cross-rule receivers: those may be non-canonical by design, equal functions
                // need not be equal edges there; their structure is checked by `ioread`)
                for (int i = 0; i < nroots && !R.cross; i++)
                    for (int j = i + 1; j < nroots; j++)
                        emitEq("R" + tag + std::to_string(i), "R" + tag + std::to_string(j), got[size_t(i)], got[size_t(j)]);
                if (R.tag == 'b' && !R.cross)
                    for (size_t j = 0; j < held.size(); j++)
                        for (int i = 0; i < nroots; i++)
                            emitEq(heldName[j], "R" + tag + std::to_string(i), *held[j], got[size_t(i)]);
                if (R.cross) {
                    emit("cleardump %s", gn.c_str());
                    dumpForest(gn.c_str(), R.G, R.k);
                    emit("rcaudit %s %s", gn.c_str(), ruleName(k.rr));
                } else {
                    emitAudit(gn, R.G, R.k);
                }
                for (int i = 0; i < nroots; i++) emitRoot("R" + tag + std::to_string(i), gn, got[size_t(i)], R.k);
                if (isMT(k)) {
                    std::string s = "ioread Fw " + R.pre + " " + gn + " " + std::to_string(fileNodes) + " " + std::to_string(nroots);
                    for (int i = 0; i < nroots; i++) s += " " + edgeStr(pool[pick[i]]->e, k);
                    for (int i = 0; i < nroots; i++) s += " " + edgeStr(got[size_t(i)], R.k);
                    emits(s);
                }
            }
            delete rd;
            got.clear();
            delete in;
            if (fp) fclose(fp);
            if (R.tag == 'c' && R.G) {
                R.G->removeAllComputeTableEntries();
                emit("expect leak-H 0 %ld", R.G->getCurrentNumNodes());
                forest::destroy(R.G);
                R.G = nullptr;
            }
            if (fileDom) domain::destroy(fileDom);
            fflush(stdout);
        }
        if (viaFile) unlink(path.c_str());

        // ------------------------------------------------------------ release everything
        forest* G = Gb;
        for (dd_edge* e : held) delete e;
        for (PoolEdge* p : pool) delete p;
        F->removeAllComputeTableEntries();
        if (B) B->removeAllComputeTableEntries();
        emit("expect leak-F 0 %ld", F->getCurrentNumNodes());
        if (G) {
            G->removeAllComputeTableEntries();
            emit("expect leak-G 0 %ld", G->getCurrentNumNodes());
        }
        endCase();
        if (G) forest::destroy(G);
        if (B) forest::destroy(B);
        forest::destroy(F);
        D.destroy();
    }
    // ---------------------------------------------------------------- probe for finding C14-F1
    // domain::write followed by domain::create(input&) must give back the same variable bounds.
    if (probe && A.selected(ncases)) {
        beginCase(ncases);
        Dom D; D.sizes = {2, 3};
        D.create();
        emits(D.str());
        std::ostringstream os;
        { ostream_output out(os); D.d->write(out); }
        std::istringstream is(os.str());
        istream_input in(is);
        try {
            domain* fd = domain::create(in);
            std::string s1 = "dom", s2 = "dom";
            for (unsigned v = 1; v <= D.K(); v++) s1 += "," + std::to_string(D.sizes[v - 1]);
            for (unsigned v = 1; v <= fd->getNumVariables(); v++) s2 += "," + std::to_string(fd->getVariableBound(v, false));
            emit("note probe C14-F1 domain::write then domain::create(input&)");
            emit("expect domain-from-file-probe %s %s", s1.c_str(), s2.c_str());
            domain::destroy(fd);
        } catch (error& e) {
            emit("expect domain-from-file-probe ok %s", errName(e));
        }
        endCase();
        D.destroy();
    }
    libCleanup();
    return 0;
}
FamilyReg reg("io", run, "C14 exchange file round trip (mdd_writer / mdd_reader)");
}  // namespace
