// Family `policy` (C12): one scripted history executed under every combination of
// node storage flags x memory manager x deletion policy; the functions denoted by all edges
// (checked against the specification oracle, hence equal across configurations), their node
// counts and the canonical structure of the forest must not depend on the combination.
#include "common.h"
using namespace MEDDLY;
using namespace mdh;

namespace {

struct Step {
    int kind;            // 0 build from table, 1 binary op, 2 release, 3 clear caches, 4 complement
    int a = -1, b = -1;  // operand slots
    int op = 0;          // 0 union 1 intersection 2 difference ; numeric: 0 plus 1 max 2 min 3 mult
    int dst = -1;
    std::vector<Val> table;
};

int run(const Args& A) {
    libInit();
    long ncases = A.cases > 0 ? A.cases : (A.thorough() ? 60 : 14);
    for (long c = 0; c < ncases; c++) {
        if (!A.selected(c)) continue;
        Rng r(Rng::mix(A.seed, uint64_t(c)));
        Kind k;
        k.rel = r.chance(1, 3);
        bool numeric = r.chance(1, 3);
        if (numeric) { k.rt = range_type::INTEGER; if (r.chance(1, 3)) k.el = edge_labeling::EVPLUS; }
        {
            std::vector<reduction_rule> rules = {reduction_rule::FULLY_REDUCED, reduction_rule::QUASI_REDUCED};
            if (k.rel) rules.push_back(reduction_rule::IDENTITY_REDUCED);
            k.rr = r.pick(rules);
        }
        Dom D = randomDom(r, 2, k.rel ? 3 : 5, 4, k.rel ? 700 : 600, k.rel);
        D.create();
        beginCase(c);
        emits(D.str());
        STATS.hit("kind." + k.str());
        // ---- script
        const int NSLOT = 10;
        int nsteps = A.thorough() ? 60 : 34;
        std::vector<Step> script;
        std::vector<bool> live(NSLOT, false);
        for (int s = 0; s < nsteps; s++) {
            Step st;
            std::vector<int> liveSlots;
            for (int i = 0; i < NSLOT; i++) if (live[i]) liveSlots.push_back(i);
            int choice = r.below(10);
            if (liveSlots.size() < 2 || choice < 3) {
                st.kind = 0; st.dst = r.below(NSLOT);
                static const unsigned dens[] = {5, 20, 50, 80, 100};
                st.table = r.chance(1, 3) ? structuredTable(r, D, k, dens[r.below(5)]) : randomTable(r, D, k, dens[r.below(5)]);
                live[st.dst] = true;
            } else if (choice < 7) {
                st.kind = 1; st.a = r.pick(liveSlots); st.b = r.pick(liveSlots); st.dst = r.below(NSLOT);
                st.op = r.below(numeric ? 3 : 3);
                live[st.dst] = true;
            } else if (choice < 9) {
                st.kind = 2; st.a = r.pick(liveSlots); live[st.a] = false;
            } else {
                st.kind = 3;
            }
            script.push_back(st);
        }
        // ---- configurations
        std::vector<Pol> pols;
        for (int st = 0; st < 3; st++) for (int mm = 0; mm < 4; mm++) for (int dl = 0; dl < 3; dl++) {
            Pol p; p.storage = st; p.mm = mm; p.del = dl; pols.push_back(p);
        }
        if (!A.thorough()) {
            // quick: reference (default) + 8 combinations chosen by the seed
            std::vector<Pol> chosen; chosen.push_back(Pol());
            for (int i = 0; i < 8; i++) chosen.push_back(pols[r.below(unsigned(pols.size()))]);
            pols.swap(chosen);
        }
        std::vector<std::vector<unsigned long>> refCounts;   // per step: node count of dst edge (config 0)
        for (size_t ci = 0; ci < pols.size(); ci++) {
            const Pol& p = pols[ci];
            forest* F = makeForest(D.d, k, p);
            emit("cfg %zu %s", ci, p.str().c_str());
            emitForest("F", F, k, p);
            STATS.hit("pol." + p.str());
            std::vector<dd_edge*> slot(NSLOT, nullptr);
            std::vector<std::vector<unsigned long>> counts;
            int sn = 0;
            for (const Step& st : script) {
                std::string dn = "S" + std::to_string(sn);
                std::vector<unsigned long> cnt;
                switch (st.kind) {
                    case 0: {
                        dd_edge* e = new dd_edge(F);
                        buildFromTable(D, F, k, st.table, *e);
                        delete slot[st.dst]; slot[st.dst] = e;
                        emit("input %s %s", dn.c_str(), tableStr(st.table).c_str());
                        emitTable(dn, "F", D, *e);
                        cnt = {e->getNodeCount(), e->getEdgeCount(false)};
                        break;
                    }
                    case 1: {
                        dd_edge* e = new dd_edge(F);
                        const char* opn;
                        // operand tables must be known to the acceptor under stable names
                        emitTable("X", "F", D, *slot[st.a]);
                        emitTable("Y", "F", D, *slot[st.b]);
                        if (!numeric) {
                            static const char* names[] = {"UNION", "INTERSECTION", "DIFFERENCE"};
                            opn = names[st.op];
                            if (st.op == 0) apply(UNION, *slot[st.a], *slot[st.b], *e);
                            else if (st.op == 1) apply(INTERSECTION, *slot[st.a], *slot[st.b], *e);
                            else apply(DIFFERENCE, *slot[st.a], *slot[st.b], *e);
                        } else {
                            static const char* names[] = {"PLUS", "MAXIMUM", "MINIMUM"};
                            opn = names[st.op];
                            if (st.op == 0) apply(PLUS, *slot[st.a], *slot[st.b], *e);
                            else if (st.op == 1) apply(MAXIMUM, *slot[st.a], *slot[st.b], *e);
                            else apply(MINIMUM, *slot[st.a], *slot[st.b], *e);
                        }
                        emit("resforest F");
                        emit("op %s %s X Y", dn.c_str(), opn);
                        emitTable(dn, "F", D, *e);
                        delete slot[st.dst]; slot[st.dst] = e;
                        cnt = {e->getNodeCount(), e->getEdgeCount(false)};
                        break;
                    }
                    case 2: delete slot[st.a]; slot[st.a] = nullptr; break;
                    default: F->removeAllComputeTableEntries(); break;
                }
                counts.push_back(cnt);
                ++sn;
                if (sn % 12 == 0) emitAudit("F", F, k);
            }
            emitAudit("F", F, k);
            if (ci == 0) refCounts = counts;
            else {
                for (size_t i = 0; i < counts.size(); i++)
                    for (size_t j = 0; j < counts[i].size(); j++)
                        emit("expect count.S%zu.%zu %lu %lu", i, j, refCounts[i][j], counts[i][j]);
            }
            for (dd_edge* e : slot) delete e;
            F->removeAllComputeTableEntries();
            emit("expect leak 0 %ld", F->getCurrentNumNodes());
            forest::destroy(F);
        }
        endCase();
        D.destroy();
    }
    libCleanup();
    return 0;
}
FamilyReg reg("policy", run, "C12 same history under all storage x memory-manager x deletion policies");
}  // namespace
