// Family `nodelife` (C06): node lifetime at the primitive level.
//
// Two kinds of cases (record `kind ca` / `kind nl` after `case <i>`):
//
//  ca : drives a real MEDDLY::counter_array (arrays.h) with in-contract call sequences that push
//       single counters across 255/256 and 65535/65536 in both directions, interleaved with
//       expand/shrink.          ca <op> <args> -> <result> <entry_bits>
//       (ops: expand n | shrink n | get i | swap i j | inc i | dec i | izbi i | ipad i |
//             rep n inc|dec|izbi|ipad i     -> sum of the n results)
//
//  nl : drives a real MT integer set forest (fully reduced; deletion policy, storage flags and
//       node memory manager varied) through unpacked_node + createReducedNode, linkNode, unlinkNode,
//       cacheNode, uncacheNode and dd_edge::set / operator=.  The harness keeps a ledger of the
//       references and cache marks it owns and never leaves the API contract.  After every step it
//       reads the state of every handle 1..getLastNode() from the library and prints the handles
//       whose (class, incoming count, cache count) changed since the previous step
//           h <handle> <A|D|F> <inCount> <cacheCount>
//       followed by  `last <getLastNode> <getCurrentNumNodes>`  and  `end`.
//       (A: isActiveNode; D: deleted, cache count > 0; F: deleted, cache count 0.)
#include "common.h"
#include "arrays.h"
using namespace MEDDLY;
using namespace mdh;

namespace {

// ===================================================================== counter_array cases
struct CaDriver {
    counter_array ca;
    size_t size = 0;
    Rng& r;
    explicit CaDriver(Rng& rr) : ca(nullptr), r(rr) {}
    unsigned bits() { return unsigned(ca.entry_bits()); }

    void expand(size_t n) { ca.expand(n); if (n > size) size = n; emit("ca expand %zu -> 0 %u", n, bits()); STATS.hit("ca.expand"); }
    void shrink(size_t n) {
        bool dirty = false;
        for (size_t i = n; i < size; i++) if (ca.get(i) >= 256) dirty = true;
        ca.shrink(n); if (n < size) size = n;
        emit("ca shrink %zu -> 0 %u", n, bits());
        STATS.hit(dirty ? "ca.shrink.dropsLarge" : "ca.shrink");
    }
    void get(size_t i) { emit("ca get %zu -> %u %u", i, ca.get(i), bits()); STATS.hit("ca.get"); }
    void swap(size_t i, size_t j) { ca.swap(i, j); emit("ca swap %zu %zu -> 0 %u", i, j, bits()); STATS.hit("ca.swap"); }
    void noteCross(unsigned before, unsigned after) {
        if (before == 255 && after == 256) STATS.hit("ca.cross.255up");
        if (before == 256 && after == 255) STATS.hit("ca.cross.256down");
        if (before == 65535 && after == 65536) STATS.hit("ca.cross.65535up");
        if (before == 65536 && after == 65535) STATS.hit("ca.cross.65536down");
    }
    // kind: 0 inc, 1 dec, 2 izbi, 3 ipad ; returns result
    unsigned call(int kind, size_t i) {
        unsigned before = ca.get(i), res = 0;
        switch (kind) {
            case 0: ca.increment(i); break;
            case 1: ca.decrement(i); break;
            case 2: res = ca.isZeroBeforeIncrement(i) ? 1 : 0; break;
            default: res = ca.isPositiveAfterDecrement(i) ? 1 : 0; break;
        }
        noteCross(before, ca.get(i));
        return res;
    }
    static const char* kname(int k) { static const char* n[] = {"inc", "dec", "izbi", "ipad"}; return n[k]; }
    void one(int kind, size_t i) {
        unsigned before = bits();
        unsigned res = call(kind, i);
        emit("ca %s %zu -> %u %u", kname(kind), i, res, bits());
        STATS.hit(std::string("ca.") + kname(kind));
        if (bits() > before) STATS.hit("ca.widen." + std::to_string(before) + "to" + std::to_string(bits()));
    }
    void rep(int kind, size_t i, unsigned n) {
        unsigned long sum = 0;
        unsigned before = bits();
        for (unsigned k = 0; k < n; k++) sum += call(kind, i);
        emit("ca rep %u %s %zu -> %lu %u", n, kname(kind), i, sum, bits());
        STATS.hit("ca.rep");
        if (bits() > before) STATS.hit("ca.widen." + std::to_string(before) + "to" + std::to_string(bits()));
    }
    // move counter i to exactly `target` using bulk calls
    void driveTo(size_t i, unsigned target) {
        unsigned cur = ca.get(i);
        if (cur < target) rep(r.chance(1, 2) ? 0 : 2, i, target - cur);
        else if (cur > target) rep(r.chance(1, 2) ? 1 : 3, i, cur - target);
    }
    void resize() {
        unsigned before = bits();
        size_t n = size_t(r.below(17));
        if (r.chance(1, 2)) {
            // a clean shrink / growth: keep every entry >= 256 inside
            size_t lastLarge = 0;
            for (size_t i = 0; i < size; i++) if (ca.get(i) >= 256) lastLarge = i + 1;
            if (n < lastLarge) n = lastLarge;
        }
        // shrink(0) on a non-empty array is outside the contract: realloc(p, 0) returns NULL on glibc,
        // which the class reports as INSUFFICIENT_MEMORY while keeping the freed pointer (see NOTES.md)
        if (n == 0) n = 1;
        if (n >= size) expand(n == size ? n + 1 : n); else shrink(n);
        if (bits() < before) STATS.hit("ca.narrow." + std::to_string(before) + "to" + std::to_string(bits()));
    }
};

void runCa(Rng& r, bool thorough) {
    emit("kind ca");
    CaDriver d(r);
    d.expand(size_t(r.range(1, 10)));
    int steps = thorough ? r.range(60, 400) : r.range(30, 160);
    static const unsigned edges[] = {0, 1, 2, 254, 255, 256, 257, 65534, 65535, 65536, 65537, 70000};
    for (int s = 0; s < steps; s++) {
        if (d.size == 0) { d.expand(size_t(r.range(1, 8))); continue; }
        size_t i = size_t(r.below(unsigned(d.size)));
        unsigned x = r.below(100);
        if (x < 10) d.resize();
        else if (x < 20) d.get(i);
        else if (x < 25) d.swap(i, size_t(r.below(unsigned(d.size))));
        else if (x < 40) {
            // jump next to a width boundary (small ones much more often: they are cheap)
            unsigned t = edges[r.chance(3, 4) ? r.below(7) : r.below(12)];
            d.driveTo(i, t);
            d.get(i);
        } else {
            // single steps around the current value; in contract: no decrement of zero
            unsigned cur = d.ca.get(i);
            int kind = int(r.below(4));
            if (cur == 0 && (kind == 1 || kind == 3)) kind = r.chance(1, 2) ? 0 : 2;
            d.one(kind, i);
            if (r.chance(1, 3)) d.get(i);
        }
    }
    // final sweep: everything back to zero, then shrink to nothing (narrowing back to 8 bits)
    if (r.chance(2, 3)) {
        for (size_t i = 0; i < d.size; i++) { d.driveTo(i, 0); d.get(i); }
        unsigned before = d.bits();
        if (d.size > 2 && r.chance(1, 2)) d.shrink(1); else if (d.size > 1) d.shrink(d.size - 1); else d.expand(d.size + 1);
        if (d.bits() < before) STATS.hit("ca.narrow." + std::to_string(before) + "to" + std::to_string(d.bits()));
    }
}

// ===================================================================== node lifetime cases
struct Obs { char cls = 'F'; unsigned long in = 0, cc = 0;
    bool operator!=(const Obs& o) const { return cls != o.cls || in != o.in || cc != o.cc; } };

struct Spec { int lvl; std::vector<node_handle> kids; };   // terminals stored as library handles

struct NlDriver {
    Rng& r;
    Dom D;
    forest* F = nullptr;
    Kind k;
    Pol pol;
    std::map<node_handle, long> own;      // outside references the harness holds (not in edges)
    std::map<node_handle, long> marks;    // cache marks the harness placed
    std::vector<dd_edge*> E;              // user edges; each holds one reference to its node
    std::vector<Obs> shadow;              // last printed observation per handle (index = handle)
    node_handle prevLast = 0;
    std::vector<Spec> history;
    long steps = 0;
    size_t maxLast = 0;

    explicit NlDriver(Rng& rr) : r(rr) {}

    std::string tok(node_handle h) const {
        char buf[40];
        if (h > 0) snprintf(buf, sizeof buf, "N%d", h);
        else snprintf(buf, sizeof buf, "T%d", F->getIntegerFromHandle(h));
        return buf;
    }
    Obs observe(node_handle h) const {
        Obs o;
        o.in = F->getNodeInCount(h);
        o.cc = F->verifCacheCount(h);
        o.cls = F->isActiveNode(h) ? 'A' : (o.cc > 0 ? 'D' : 'F');
        return o;
    }
    // print the state delta, `last`, `end`
    void endStep() {
        node_handle last = F->getLastNode();
        if (size_t(last) + 1 > shadow.size()) shadow.resize(size_t(last) + 1);
        for (node_handle h = 1; h <= last; h++) {
            Obs o = observe(h);
            if (o != shadow[size_t(h)]) {
                emit("h %d %c %lu %lu", h, o.cls, o.in, o.cc);
                shadow[size_t(h)] = o;
                if (o.cls == 'D') STATS.hit("nl.seen.deleted");
                if (o.cls == 'A' && o.in == 0) STATS.hit("nl.seen.unreachable");
                if (o.in == 256) STATS.hit("nl.in.256");
                if (o.in == 65536) STATS.hit("nl.in.65536");
                if (o.cc == 256) STATS.hit("nl.cc.256");
            }
        }
        for (size_t h = size_t(last) + 1; h < shadow.size(); h++) shadow[h] = Obs();
        emit("last %d %ld", last, F->getCurrentNumNodes());
        emit("end");
        if (last < prevLast) STATS.hit("nl.last.collapse");
        if (size_t(last) > maxLast) maxLast = size_t(last);
        prevLast = last;
        ++steps;
    }
    bool isActive(node_handle h) const { return h > 0 && h <= F->getLastNode() && F->isActiveNode(h); }

    void link(node_handle h) {
        bool revive = F->getNodeInCount(h) == 0;
        F->linkNode(h); own[h]++;
        emit("op link %d", h); STATS.hit(revive ? "nl.link.revive" : "nl.link");
        endStep();
    }
    void unlink(node_handle h) {
        F->unlinkNode(h); if (--own[h] == 0) own.erase(h);
        emit("op unlink %d", h); STATS.hit("nl.unlink");
        endStep();
    }
    void cache(node_handle h) { F->cacheNode(h); marks[h]++; emit("op cache %d", h); STATS.hit("nl.cache"); endStep(); }
    void uncache(node_handle h) {
        F->uncacheNode(h); if (--marks[h] == 0) marks.erase(h);
        emit("op uncache %d", h); STATS.hit("nl.uncache");
        endStep();
    }
    void linkn(node_handle h, long n) { for (long i = 0; i < n; i++) F->linkNode(h); own[h] += n; emit("op linkn %d %ld", h, n); STATS.hit("nl.linkn"); endStep(); }
    void unlinkn(node_handle h, long n) {
        for (long i = 0; i < n; i++) F->unlinkNode(h);
        if ((own[h] -= n) == 0) own.erase(h);
        emit("op unlinkn %d %ld", h, n); STATS.hit("nl.unlinkn"); endStep();
    }
    void cachen(node_handle h, long n) { for (long i = 0; i < n; i++) F->cacheNode(h); marks[h] += n; emit("op cachen %d %ld", h, n); STATS.hit("nl.cachen"); endStep(); }
    void uncachen(node_handle h, long n) {
        for (long i = 0; i < n; i++) F->uncacheNode(h);
        if ((marks[h] -= n) == 0) marks.erase(h);
        emit("op uncachen %d %ld", h, n); STATS.hit("nl.uncachen"); endStep();
    }

    // build a node; every non-terminal child is linked first (one step each)
    node_handle mk(const Spec& sp) {
        for (node_handle c : sp.kids) if (c > 0) link(c);
        unpacked_node* un = unpacked_node::newWritable(F, sp.lvl, FULL_ONLY);
        for (unsigned i = 0; i < sp.kids.size(); i++) un->setFull(i, sp.kids[i]);
        node_handle lastBefore = F->getLastNode();
        std::vector<char> wasActive(size_t(lastBefore) + 1, 0);
        for (node_handle h = 1; h <= lastBefore; h++) wasActive[size_t(h)] = F->isActiveNode(h);
        edge_value ev;
        node_handle res = 0;
        F->createReducedNode(un, ev, res, -1);
        const char* kind;
        bool allSame = true, allZero = true;
        for (node_handle c : sp.kids) { if (c != sp.kids[0]) allSame = false; if (c != 0) allZero = false; }
        if (allZero) kind = "zero";
        else if (allSame && res == sp.kids[0]) kind = "red";
        else if (res > 0 && res <= lastBefore && wasActive[size_t(res)]) kind = "hit";
        else kind = "new";
        std::string s = "op mk " + std::to_string(sp.lvl) + " " + std::to_string(sp.kids.size());
        for (node_handle c : sp.kids) s += " " + tok(c);
        s += " -> " + tok(res) + " " + kind;
        emits(s);
        STATS.hit(std::string("nl.mk.") + kind);
        // ledger
        if (!strcmp(kind, "red")) {
            if (sp.kids[0] > 0) { if ((own[sp.kids[0]] -= long(sp.kids.size()) - 1) == 0) own.erase(sp.kids[0]); }
        } else if (strcmp(kind, "zero")) {
            for (node_handle c : sp.kids) if (c > 0) { if (--own[c] == 0) own.erase(c); }
            own[res]++;
            if (!strcmp(kind, "new")) history.push_back(sp);
        }
        endStep();
        return res;
    }

    int levelOf(node_handle h) const { return F->getNodeLevel(h); }

    std::vector<node_handle> activeBelow(int lvl) const {
        std::vector<node_handle> v;
        node_handle last = F->getLastNode();
        for (node_handle h = 1; h <= last; h++) if (F->isActiveNode(h) && levelOf(h) < lvl) v.push_back(h);
        return v;
    }
    std::vector<node_handle> activeAll() const { return activeBelow(1 << 20); }

    Spec randomSpec(int maxTerm) {
        Spec sp;
        sp.lvl = r.range(1, int(D.K()));
        unsigned n = unsigned(D.sizes[size_t(sp.lvl) - 1]);
        std::vector<node_handle> below = activeBelow(sp.lvl);
        int style = int(r.below(10));   // 0: all equal (redundant), 1: mostly zero, else mixed
        node_handle same = 0;
        if (style == 0) same = (!below.empty() && r.chance(1, 2)) ? r.pick(below) : F->handleForValue(int(r.range(0, maxTerm)));
        for (unsigned i = 0; i < n; i++) {
            node_handle c;
            if (style == 0) c = same;
            else if (!below.empty() && r.chance(style == 1 ? 1 : 3, 5)) c = r.pick(below);
            else c = F->handleForValue(int(style == 1 ? (r.chance(1, 4) ? r.range(0, maxTerm) : 0) : r.range(0, maxTerm)));
            sp.kids.push_back(c);
        }
        return sp;
    }
    bool specUsable(const Spec& sp) const {
        for (node_handle c : sp.kids) if (c > 0 && !(isActive(c) && levelOf(c) < sp.lvl)) return false;
        return true;
    }

    // ---- user edges
    void eset(unsigned slot, node_handle h) {        // h: a reference the harness owns, moved into the edge
        E[slot]->set(h);
        if (h > 0) { if (--own[h] == 0) own.erase(h); }
        emit("op eset %u %s", slot, tok(h).c_str()); STATS.hit("nl.eset");
        endStep();
        etab(slot);
    }
    void ecopy(unsigned dst, unsigned src) {
        *E[dst] = *E[src];
        emit("op ecopy %u %u", dst, src); STATS.hit("nl.ecopy");
        endStep();
        etab(dst);
    }
    void eclear(unsigned slot) { E[slot]->set(0); emit("op eclear %u", slot); STATS.hit("nl.eclear"); endStep(); }
    void etab(unsigned slot) {
        emit("etab %u %s", slot, tableStr(tableOf(D, *E[slot])).c_str());
        STATS.hit("nl.etab");
    }

    void randomStep(int maxTerm) {
        unsigned x = r.below(100);
        std::vector<node_handle> act = activeAll();
        if (x < 28 || act.empty()) {
            if (!history.empty() && r.chance(1, 4)) {
                const Spec& sp = r.pick(history);
                if (specUsable(sp)) { Spec c = sp; mk(c); STATS.hit("nl.mk.replay"); return; }
            }
            mk(randomSpec(maxTerm));
        } else if (x < 38) {
            link(r.pick(act));
        } else if (x < 62) {
            if (own.empty()) return;
            auto it = own.begin(); std::advance(it, r.below(unsigned(own.size())));
            unlink(it->first);
        } else if (x < 74) {
            cache(r.pick(act));
        } else if (x < 88) {
            if (marks.empty()) return;
            auto it = marks.begin(); std::advance(it, r.below(unsigned(marks.size())));
            uncache(it->first);
        } else if (x < 93) {
            if (own.empty()) return;
            auto it = own.begin(); std::advance(it, r.below(unsigned(own.size())));
            eset(r.below(unsigned(E.size())), it->first);
        } else if (x < 96) {
            ecopy(r.below(unsigned(E.size())), r.below(unsigned(E.size())));
        } else if (x < 98) {
            eclear(r.below(unsigned(E.size())));
        } else {
            unsigned s = r.below(unsigned(E.size()));
            if (E[s]->getNode() != 0) etab(s);
        }
    }

    void releaseAll() {
        emit("phase release");
        for (unsigned s = 0; s < E.size(); s++) if (E[s]->getNode() != 0) { etab(s); eclear(s); }
        // random interleaving of unlinks and uncaches
        while (!own.empty() || !marks.empty()) {
            bool u = marks.empty() || (!own.empty() && r.chance(1, 2));
            if (u) {
                auto it = own.begin(); std::advance(it, r.below(unsigned(own.size())));
                if (it->second > 3) unlinkn(it->first, it->second - 1); else unlink(it->first);
            } else {
                auto it = marks.begin(); std::advance(it, r.below(unsigned(marks.size())));
                if (it->second > 3) uncachen(it->first, it->second - 1); else uncache(it->first);
            }
        }
        emit("final %d %ld", F->getLastNode(), F->getCurrentNumNodes());
        STATS.hit("nl.final");
    }
};

void runNl(Rng& r, bool thorough) {
    emit("kind nl");
    NlDriver d(r);
    unsigned K = unsigned(r.range(2, 4));
    for (unsigned i = 0; i < K; i++) d.D.sizes.push_back(r.range(2, 3));
    d.D.create();
    d.k.rel = false; d.k.rt = range_type::INTEGER; d.k.el = edge_labeling::MULTI_TERMINAL;
    d.k.rr = reduction_rule::FULLY_REDUCED;
    d.pol = Pol::random(r);
    d.F = makeForest(d.D.d, d.k, d.pol);
    emits(d.D.str());
    emit("forest %s", d.pol.str().c_str());
    STATS.hit(std::string("nl.policy.") + (d.pol.del == 0 ? "never" : d.pol.del == 1 ? "optimistic" : "pessimistic"));
    for (int i = 0; i < 3; i++) d.E.push_back(new dd_edge(d.F));
    d.endStep();   // initial (empty) state

    int flavour = int(r.below(12));   // 0: grow the handle table; 1,2: huge counts; else random walk
    int maxTerm = r.range(1, 4);
    if (flavour == 0) {
        STATS.hit("nl.flavour.grow");
        // many distinct level-1 nodes (distinct terminal tuples) -> handle table expands past 512 (and 1024)
        long want = (thorough ? r.range(520, 2300) : r.range(520, 1150));
        unsigned n = unsigned(d.D.sizes[0]);
        std::vector<node_handle> made;
        long code = 1;
        while (long(made.size()) < want) {
            Spec sp; sp.lvl = 1;
            long c = code++;
            for (unsigned i = 0; i < n; i++) { sp.kids.push_back(d.F->handleForValue(int(c % 53))); c /= 53; }
            bool same = true; for (node_handle kk : sp.kids) if (kk != sp.kids[0]) same = false;
            if (same) continue;
            made.push_back(d.mk(sp));
            if (r.chance(1, 40)) d.cache(made.back());
            if (r.chance(1, 60)) d.linkn(made.back(), r.range(200, 300));
        }
        // a few upper nodes over them
        for (int i = 0; i < 20; i++) d.randomStep(maxTerm);
        // release in reverse / forward / random order so that a_last collapses and the table shrinks
        int order = int(r.below(3));
        STATS.hit("nl.grow.order." + std::to_string(order));
        if (order == 2) for (size_t i = made.size(); i > 1; i--) std::swap(made[i - 1], made[r.below(unsigned(i))]);
        if (order == 0) std::reverse(made.begin(), made.end());
        size_t keep = r.chance(1, 2) ? 0 : size_t(r.below(100));
        for (size_t i = 0; i + keep < made.size(); i++) {
            node_handle h = made[i];
            auto it = d.own.find(h);
            if (it == d.own.end()) continue;
            if (it->second > 1) d.unlinkn(h, it->second); else d.unlink(h);
        }
        // grow again a little (re-use of recycled handles), then random walk
        for (int i = 0; i < 60; i++) d.randomStep(maxTerm);
    } else if (flavour <= 2) {
        STATS.hit("nl.flavour.bigcount");
        for (int i = 0; i < 12; i++) d.randomStep(maxTerm);
        std::vector<node_handle> act = d.activeAll();
        if (!act.empty()) {
            node_handle h = r.pick(act);
            bool huge = thorough ? r.chance(2, 3) : r.chance(1, 2);
            long base = huge ? 65530 : 250;
            long cur = long(d.F->getNodeInCount(h));
            if (cur < base) d.linkn(h, base - cur);
            for (int i = 0; i < 12; i++) d.link(h);           // crosses 255->256 or 65535->65536 one by one
            for (int i = 0; i < 8; i++) d.unlink(h);
            if (r.chance(1, 2)) {
                long cb = 250; long cc = long(d.F->verifCacheCount(h));
                if (cc < cb) d.cachen(h, cb - cc);
                for (int i = 0; i < 10; i++) d.cache(h);
                for (int i = 0; i < 6; i++) d.uncache(h);
            }
            for (int i = 0; i < 30; i++) d.randomStep(maxTerm);
            // while the count is still huge, make the handle table (and with it the counter arrays) grow
            // past 512: a widened counter array must survive the resize without losing the count
            if (huge && r.chance(2, 3)) {
                STATS.hit("nl.bigcount.then.grow");
                unsigned n = unsigned(d.D.sizes[0]);
                long want = r.range(520, 700), made = 0, code = 1;
                while (made < want) {
                    Spec sp; sp.lvl = 1;
                    long c = code++;
                    for (unsigned i = 0; i < n; i++) { sp.kids.push_back(d.F->handleForValue(int(c % 53))); c /= 53; }
                    bool same = true; for (node_handle kk : sp.kids) if (kk != sp.kids[0]) same = false;
                    if (same) continue;
                    d.mk(sp); ++made;
                }
            }
            // back down across the boundary
            long o = d.own.count(h) ? d.own[h] : 0;
            if (o > 20) { d.unlinkn(h, o - 10); for (int i = 0; i < 6; i++) d.unlink(h); }
        }
        for (int i = 0; i < 30; i++) d.randomStep(maxTerm);
    } else {
        STATS.hit("nl.flavour.walk");
        int steps = thorough ? r.range(40, 500) : r.range(30, 220);
        for (int i = 0; i < steps; i++) d.randomStep(maxTerm);
    }
    if (r.chance(5, 6)) d.releaseAll();
    if (d.maxLast >= 512) STATS.hit("nl.table.expanded512");
    if (d.maxLast >= 1024) STATS.hit("nl.table.expanded1024");
    STATS.hit("nl.steps", d.steps);
    emit("endcase");
    for (dd_edge* e : d.E) delete e;
    forest::destroy(d.F);
    d.D.destroy();
}

int run(const Args& A) {
    libInit();
    long ncases = A.cases > 0 ? A.cases : (A.thorough() ? 400 : 90);
    for (long c = 0; c < ncases; c++) {
        if (A.only_case >= 0 && c != A.only_case) continue;
        Rng r(Rng::mix(A.seed, uint64_t(c)));
        emit("case %ld", c);
        if (c % 3 == 0) { runCa(r, A.thorough()); emit("endcase"); }
        else runNl(r, A.thorough());
    }
    libCleanup();
    return 0;
}
FamilyReg reg("nodelife", run, "C06 node lifetime: counter_array + link/unlink/cache/uncache on a real forest");
}  // namespace
