// Family `gen`: differential validation of the source-to-Lean translators translate/levels_to_lean.py and
// translate/hashstream_to_lean.py.  The REAL inline functions of forest_levels.h / defines.h / hash_stream.h
// (as compiled into this harness from /repo's current headers) are called on many inputs; the acceptor
// lean/MeddlyModel/Fam/GenAccept.lean evaluates the GENERATED Lean functions on the same inputs.
//
//   lv <fn> <k> -> <r>            fn: ABS MDD.downLevel MDD.upLevel MXD.downLevel MXD.upLevel
//                                     MXD.unprimedOfLevel MXD.primedOfLevel
//   lv <fn> <k1> <k2> -> <r>      fn: MAX MDD.topLevel MXD.topLevel MXD.topUnprimed isLevelAbove (r = 0 | 1)
//   hr <x> <k> -> <r>             hash_stream::rot(x, k)             (0 < k < 32; all words in decimal)
//   hm mix <a> <b> <c> -> <a'> <b'> <c'>        hash_stream::mix(a, b, c)       (static, reference parameters)
//   hm final_mix <a> <b> <c> -> <a'> <b'> <c'>  hash_stream::final_mix(a, b, c)
//   hs <init|-> <spec> <w1> .. <wn> -> <h>      start(init) (`-`: start()), then one call per character of
//                                               <spec> (`1` push(a), `2` push(a,b), `3` push(a,b,c); `.` = no
//                                               call) consuming the words in order, then finish()
//                                               -> `throw <E>` if a call throws
// Cases: 0 unary level functions, 1..5 one binary level function each (all pairs of [-40,40] and large levels),
//        6 rot / mix / final_mix, 7.. random hash streams (200 per case).
#include "common.h"
#include "forest_levels.h"
#include "hash_stream.h"
#include <climits>
using namespace MEDDLY;
using namespace mdh;

namespace {

// the protected static helpers of hash_stream
struct HS : public hash_stream {
    static unsigned rot_(unsigned x, int k) { return rot(x, k); }
    static void mix_(unsigned& a, unsigned& b, unsigned& c) { mix(a, b, c); }
    static void final_mix_(unsigned& a, unsigned& b, unsigned& c) { final_mix(a, b, c); }
};

std::vector<int> levelValues() {
    std::vector<int> v;
    for (int k = -40; k <= 40; k++) v.push_back(k);
    const int P30 = 1 << 30;
    // large levels for which no function below overflows (|k| <= 2^31 - 2)
    for (int k : {P30 - 1, -(P30 - 1), P30, -P30, INT_MAX - 1, -(INT_MAX - 1), 1000000007, -1000000007}) v.push_back(k);
    return v;
}

void unaryLevels() {
    struct U { const char* name; int (*fn)(int); };
    const U fns[] = {
        {"ABS", [](int k) { return ABS(k); }},
        {"MDD.downLevel", [](int k) { return MDD_levels::downLevel(k); }},
        {"MDD.upLevel", [](int k) { return MDD_levels::upLevel(k); }},
        {"MXD.downLevel", [](int k) { return MXD_levels::downLevel(k); }},
        {"MXD.upLevel", [](int k) { return MXD_levels::upLevel(k); }},
        {"MXD.unprimedOfLevel", [](int k) { return MXD_levels::unprimedOfLevel(k); }},
        {"MXD.primedOfLevel", [](int k) { return MXD_levels::primedOfLevel(k); }},
    };
    for (const U& u : fns)
        for (int k : levelValues()) {
            emit("lv %s %d -> %d", u.name, k, u.fn(k));
            STATS.hit(std::string("lv.") + u.name);
        }
}

void binaryLevels(int which) {
    struct Bn { const char* name; int (*fn)(int, int); };
    const Bn fns[] = {
        {"MAX", [](int a, int b) { return MAX(a, b); }},
        {"MDD.topLevel", [](int a, int b) { return MDD_levels::topLevel(a, b); }},
        {"MXD.topLevel", [](int a, int b) { return MXD_levels::topLevel(a, b); }},
        {"MXD.topUnprimed", [](int a, int b) { return MXD_levels::topUnprimed(a, b); }},
        {"isLevelAbove", [](int a, int b) { return int(isLevelAbove(a, b)); }},
    };
    const Bn& b = fns[which];
    std::vector<int> vs = levelValues();
    for (int k1 : vs)
        for (int k2 : vs) {
            emit("lv %s %d %d -> %d", b.name, k1, k2, b.fn(k1, k2));
            STATS.hit(std::string("lv.") + b.name);
        }
}

unsigned randomWord(Rng& r) {
    switch (r.below(6)) {
        case 0: return unsigned(r.below(8));                    // node indices / small handles
        case 1: return unsigned(r.below(1000));
        case 2: return 0xffffffffu - unsigned(r.below(4));      // carries in every addition
        case 3: return 1u << r.below(32);
        default: return unsigned(r.next());
    }
}

void helpers(Rng& r, long n) {
    for (int k = 1; k < 32; k++)
        for (unsigned x : {0u, 1u, 0x80000000u, 0xffffffffu, 0xdeadbeefu, unsigned(r.next())}) {
            emit("hr %u %d -> %u", x, k, HS::rot_(x, k));
            STATS.hit("hr");
        }
    for (long i = 0; i < n; i++) {
        unsigned a = randomWord(r), b = randomWord(r), c = randomWord(r);
        unsigned x = a, y = b, z = c;
        HS::mix_(x, y, z);
        emit("hm mix %u %u %u -> %u %u %u", a, b, c, x, y, z);
        x = a; y = b; z = c;
        HS::final_mix_(x, y, z);
        emit("hm final_mix %u %u %u -> %u %u %u", a, b, c, x, y, z);
        STATS.hit("hm", 2);
    }
}

void stream(Rng& r) {
    // grouping: mostly the shapes the library uses (pairs, pairs + singles), sometimes anything
    int shape = int(r.below(5));
    int ncalls = int(r.below(r.chance(1, 4) ? 40 : 9));
    bool noarg = r.chance(1, 8);          // start() : slot 3
    unsigned init = r.chance(1, 2) ? 0u : randomWord(r);
    std::string spec;
    std::vector<unsigned> ws;
    hash_stream s;
    if (noarg) s.start(); else s.start(init);
    std::string out;
    try {
        for (int i = 0; i < ncalls; i++) {
            int g;
            switch (shape) {
                case 0: g = 1; break;
                case 1: g = 2; break;
                case 2: g = (i % 2 == 0) ? 2 : 1; break;
                case 3: g = 3; break;
                default: g = 1 + int(r.below(3));
            }
            // start() followed by push(a,b,c) leaves slot = 3 for ever (known defect, modelled): keep some, not all
            unsigned w[3];
            for (int j = 0; j < g; j++) { w[j] = randomWord(r); ws.push_back(w[j]); }
            spec += char('0' + g);
            if (g == 1) s.push(w[0]);
            else if (g == 2) s.push(w[0], w[1]);
            else s.push(w[0], w[1], w[2]);
        }
        char buf[32];
        snprintf(buf, sizeof buf, "%u", s.finish());
        out = buf;
    } catch (error& e) {
        out = std::string("throw ") + errName(e);
    }
    if (spec.empty()) spec = ".";
    std::string line = "hs ";
    line += noarg ? std::string("-") : std::to_string(init);
    line += " " + spec;
    for (unsigned w : ws) line += " " + std::to_string(w);
    line += " -> " + out;
    emits(line);
    STATS.hit(noarg ? "hs.start0" : "hs.start");
    STATS.hit("hs.words", long(ws.size()));
    STATS.hit(std::string("hs.shape") + char('0' + shape));
}

int run(const Args& A) {
    const long nstreamCases = A.cases > 0 ? A.cases : (A.thorough() ? 500 : 50);
    const long ncases = 7 + nstreamCases;
    for (long c = 0; c < ncases; c++) {
        if (!A.selected(c)) continue;
        Rng r(Rng::mix(A.seed, uint64_t(c)));
        beginCase(c);
        if (c == 0) unaryLevels();
        else if (c <= 5) binaryLevels(int(c - 1));
        else if (c == 6) helpers(r, A.thorough() ? 20000 : 2000);
        else for (int i = 0; i < 200; i++) stream(r);
        endCase();
    }
    return 0;
}
FamilyReg reg("gen", run, "translator validation: level arithmetic and hash_stream, real functions vs generated Lean");
}  // namespace
