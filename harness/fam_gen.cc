// Family `gen`: differential validation of the source-to-Lean translators translate/levels_to_lean.py,
// translate/hashstream_to_lean.py and translate/counterarray_to_lean.py.  The REAL inline functions of
// forest_levels.h / defines.h / hash_stream.h / arrays.h (as compiled into this harness from /repo's current
// headers) and the real counter_array of the library (arrays.cc) are called on many inputs; the acceptor
// lean/MeddlyModel/Fam/GenAccept.lean evaluates the GENERATED Lean functions on the same inputs.
//
//   lv <fn> <k> -> <r>            fn: ABS MDD.downLevel MDD.upLevel MXD.downLevel MXD.upLevel
//                                     MXD.unprimedOfLevel MXD.primedOfLevel
//   lv <fn> <k1> <k2> -> <r>      fn: MAX MDD.topLevel MXD.topLevel MXD.topUnprimed isLevelAbove (r = 0 | 1)
//   hr <x> <k> -> <r>             hash_stream::rot(x, k)             (0 < k < 32; all words in decimal)
//   hm mix <a> <b> <c> -> <a'> <b'> <c'>        hash_stream::mix(a, b, c)       (static, reference parameters)
//   hm final_mix <a> <b> <c> -> <a'> <b'> <c'>  hash_stream::final_mix(a, b, c)
//   hs <init|-> <spec> <w1> .. <wn> -> <h>      start(init) (`-`: start()), then one call per character of
//                                               <spec> (`1` push(a), `2` push(a,b), `3` push(a,b,c); `.` = no
//                                               call) consuming the words in order, then finish()
//                                               -> `throw <E>` if a call throws
//   gc new <0|1>                  a fresh counter_array (1: with a recording array_watcher)
//   gc <op> <args> -> <result> <entry_bits>      op: expand n | shrink n | get i | swap i j | inc i | dec i |
//                                               izbi i | ipad i | rep n inc|dec|izbi|ipad i (-> sum of the n results)
//   gc watched -> <e|s>:<old>:<new> ...         the calls received by the watcher so far (`-` if none)
// Cases: 0 unary level functions, 1..5 one binary level function each (all pairs of [-40,40] and large levels),
//        6 rot / mix / final_mix, 7.. random hash streams (200 per case), then 24 (thorough 80) counter_array
//        histories: in-contract call sequences that push single counters across 255/256 and 65535/65536 in both
//        directions, interleaved with expand / shrink (with and without narrowing 16->8, 32->16, 32->8).
#include "common.h"
#include "forest_levels.h"
#include "hash_stream.h"
#include "arrays.h"
#include <climits>
using namespace MEDDLY;
using namespace mdh;

namespace {

// the protected static helpers of hash_stream
struct HS : public hash_stream {
    static unsigned rot_(unsigned x, int k) { return rot(x, k); }
    static void mix_(unsigned& a, unsigned& b, unsigned& c) { mix(a, b, c); }
    static void final_mix_(unsigned& a, unsigned& b, unsigned& c) { final_mix(a, b, c); }
};

std::vector<int> levelValues() {
    std::vector<int> v;
    for (int k = -40; k <= 40; k++) v.push_back(k);
    const int P30 = 1 << 30;
    // large levels for which no function below overflows (|k| <= 2^31 - 2)
    for (int k : {P30 - 1, -(P30 - 1), P30, -P30, INT_MAX - 1, -(INT_MAX - 1), 1000000007, -1000000007}) v.push_back(k);
    return v;
}

void unaryLevels() {
    struct U { const char* name; int (*fn)(int); };
    const U fns[] = {
        {"ABS", [](int k) { return ABS(k); }},
        {"MDD.downLevel", [](int k) { return MDD_levels::downLevel(k); }},
        {"MDD.upLevel", [](int k) { return MDD_levels::upLevel(k); }},
        {"MXD.downLevel", [](int k) { return MXD_levels::downLevel(k); }},
        {"MXD.upLevel", [](int k) { return MXD_levels::upLevel(k); }},
        {"MXD.unprimedOfLevel", [](int k) { return MXD_levels::unprimedOfLevel(k); }},
        {"MXD.primedOfLevel", [](int k) { return MXD_levels::primedOfLevel(k); }},
    };
    for (const U& u : fns)
        for (int k : levelValues()) {
            emit("lv %s %d -> %d", u.name, k, u.fn(k));
            STATS.hit(std::string("lv.") + u.name);
        }
}

void binaryLevels(int which) {
    struct Bn { const char* name; int (*fn)(int, int); };
    const Bn fns[] = {
        {"MAX", [](int a, int b) { return MAX(a, b); }},
        {"MDD.topLevel", [](int a, int b) { return MDD_levels::topLevel(a, b); }},
        {"MXD.topLevel", [](int a, int b) { return MXD_levels::topLevel(a, b); }},
        {"MXD.topUnprimed", [](int a, int b) { return MXD_levels::topUnprimed(a, b); }},
        {"isLevelAbove", [](int a, int b) { return int(isLevelAbove(a, b)); }},
    };
    const Bn& b = fns[which];
    std::vector<int> vs = levelValues();
    for (int k1 : vs)
        for (int k2 : vs) {
            emit("lv %s %d %d -> %d", b.name, k1, k2, b.fn(k1, k2));
            STATS.hit(std::string("lv.") + b.name);
        }
}

unsigned randomWord(Rng& r) {
    switch (r.below(6)) {
        case 0: return unsigned(r.below(8));                    // node indices / small handles
        case 1: return unsigned(r.below(1000));
        case 2: return 0xffffffffu - unsigned(r.below(4));      // carries in every addition
        case 3: return 1u << r.below(32);
        default: return unsigned(r.next());
    }
}

void helpers(Rng& r, long n) {
    for (int k = 1; k < 32; k++)
        for (unsigned x : {0u, 1u, 0x80000000u, 0xffffffffu, 0xdeadbeefu, unsigned(r.next())}) {
            emit("hr %u %d -> %u", x, k, HS::rot_(x, k));
            STATS.hit("hr");
        }
    for (long i = 0; i < n; i++) {
        unsigned a = randomWord(r), b = randomWord(r), c = randomWord(r);
        unsigned x = a, y = b, z = c;
        HS::mix_(x, y, z);
        emit("hm mix %u %u %u -> %u %u %u", a, b, c, x, y, z);
        x = a; y = b; z = c;
        HS::final_mix_(x, y, z);
        emit("hm final_mix %u %u %u -> %u %u %u", a, b, c, x, y, z);
        STATS.hit("hm", 2);
    }
}

void stream(Rng& r) {
    // grouping: mostly the shapes the library uses (pairs, pairs + singles), sometimes anything
    int shape = int(r.below(5));
    int ncalls = int(r.below(r.chance(1, 4) ? 40 : 9));
    bool noarg = r.chance(1, 8);          // start() : slot 3
    unsigned init = r.chance(1, 2) ? 0u : randomWord(r);
    std::string spec;
    std::vector<unsigned> ws;
    hash_stream s;
    if (noarg) s.start(); else s.start(init);
    std::string out;
    try {
        for (int i = 0; i < ncalls; i++) {
            int g;
            switch (shape) {
                case 0: g = 1; break;
                case 1: g = 2; break;
                case 2: g = (i % 2 == 0) ? 2 : 1; break;
                case 3: g = 3; break;
                default: g = 1 + int(r.below(3));
            }
            // start() followed by push(a,b,c) leaves slot = 3 for ever (known defect, modelled): keep some, not all
            unsigned w[3];
            for (int j = 0; j < g; j++) { w[j] = randomWord(r); ws.push_back(w[j]); }
            spec += char('0' + g);
            if (g == 1) s.push(w[0]);
            else if (g == 2) s.push(w[0], w[1]);
            else s.push(w[0], w[1], w[2]);
        }
        char buf[32];
        snprintf(buf, sizeof buf, "%u", s.finish());
        out = buf;
    } catch (error& e) {
        out = std::string("throw ") + errName(e);
    }
    if (spec.empty()) spec = ".";
    std::string line = "hs ";
    line += noarg ? std::string("-") : std::to_string(init);
    line += " " + spec;
    for (unsigned w : ws) line += " " + std::to_string(w);
    line += " -> " + out;
    emits(line);
    STATS.hit(noarg ? "hs.start0" : "hs.start");
    STATS.hit("hs.words", long(ws.size()));
    STATS.hit(std::string("hs.shape") + char('0' + shape));
}

// ===================================================================== counter_array histories
struct Watcher : public array_watcher {
    std::string log;
    void expandElementSize(unsigned o, unsigned n) override { log += " e:" + std::to_string(o) + ":" + std::to_string(n); }
    void shrinkElementSize(unsigned o, unsigned n) override { log += " s:" + std::to_string(o) + ":" + std::to_string(n); }
};

struct CaDriver {
    Watcher* w;
    counter_array ca;
    size_t size = 0;
    Rng& r;
    CaDriver(Rng& rr, Watcher* ww) : w(ww), ca(ww), r(rr) {}
    unsigned bits() { return unsigned(ca.entry_bits()); }
    void watched() { if (w) emits("gc watched ->" + (w->log.empty() ? std::string(" -") : w->log)); }
    void expand(size_t n) {
        unsigned before = bits();
        ca.expand(n); if (n > size) size = n;
        emit("gc expand %zu -> 0 %u", n, bits()); STATS.hit("gc.expand");
        if (bits() < before) STATS.hit("gc.narrow." + std::to_string(before) + "to" + std::to_string(bits()) + ".expand");
    }
    void shrink(size_t n) {
        unsigned before = bits();
        bool dirty = false;
        for (size_t i = n; i < size; i++) if (ca.get(i) >= 256) dirty = true;
        ca.shrink(n); if (n < size) size = n;
        emit("gc shrink %zu -> 0 %u", n, bits());
        STATS.hit(dirty ? "gc.shrink.dropsLarge" : "gc.shrink");
        if (bits() < before) STATS.hit("gc.narrow." + std::to_string(before) + "to" + std::to_string(bits()) + ".shrink");
    }
    void get(size_t i) { emit("gc get %zu -> %u %u", i, ca.get(i), bits()); STATS.hit("gc.get"); }
    void swap(size_t i, size_t j) { ca.swap(i, j); emit("gc swap %zu %zu -> 0 %u", i, j, bits()); STATS.hit(i == j ? "gc.swap.same" : "gc.swap"); }
    void noteCross(unsigned before, unsigned after) {
        if (before == 255 && after == 256) STATS.hit("gc.cross.255up");
        if (before == 256 && after == 255) STATS.hit("gc.cross.256down");
        if (before == 65535 && after == 65536) STATS.hit("gc.cross.65535up");
        if (before == 65536 && after == 65535) STATS.hit("gc.cross.65536down");
    }
    unsigned call(int kind, size_t i) {   // 0 inc, 1 dec, 2 izbi, 3 ipad
        unsigned before = ca.get(i), res = 0;
        switch (kind) {
            case 0: ca.increment(i); break;
            case 1: ca.decrement(i); break;
            case 2: res = ca.isZeroBeforeIncrement(i) ? 1 : 0; break;
            default: res = ca.isPositiveAfterDecrement(i) ? 1 : 0; break;
        }
        noteCross(before, ca.get(i));
        return res;
    }
    static const char* kname(int k) { static const char* n[] = {"inc", "dec", "izbi", "ipad"}; return n[k]; }
    void one(int kind, size_t i) {
        unsigned before = bits();
        unsigned res = call(kind, i);
        emit("gc %s %zu -> %u %u", kname(kind), i, res, bits());
        STATS.hit(std::string("gc.") + kname(kind));
        if (bits() > before) STATS.hit("gc.widen." + std::to_string(before) + "to" + std::to_string(bits()));
    }
    void rep(int kind, size_t i, unsigned n) {
        unsigned long sum = 0;
        unsigned before = bits();
        for (unsigned k = 0; k < n; k++) sum += call(kind, i);
        emit("gc rep %u %s %zu -> %lu %u", n, kname(kind), i, sum, bits());
        STATS.hit("gc.rep");
        if (bits() > before) STATS.hit("gc.widen." + std::to_string(before) + "to" + std::to_string(bits()));
    }
    void driveTo(size_t i, unsigned target) {
        unsigned cur = ca.get(i);
        if (cur < target) rep(r.chance(1, 2) ? 0 : 2, i, target - cur);
        else if (cur > target) rep(r.chance(1, 2) ? 1 : 3, i, cur - target);
    }
    void resize() {
        size_t n = size_t(r.below(17));
        if (r.chance(1, 2)) {     // a clean shrink / growth: keep every entry >= 256 inside
            size_t lastLarge = 0;
            for (size_t i = 0; i < size; i++) if (ca.get(i) >= 256) lastLarge = i + 1;
            if (n < lastLarge) n = lastLarge;
        }
        // shrink(0) of a non-empty array is outside the contract (realloc(p, 0): `.error .unmodelled` in the model)
        if (n == 0) n = 1;
        if (n >= size) expand(n == size ? n + 1 : n); else shrink(n);
    }
};

void counterHistory(Rng& r, bool thorough) {
    Watcher w;
    bool withWatcher = r.chance(2, 3);
    emit("gc new %d", withWatcher ? 1 : 0);
    CaDriver d(r, withWatcher ? &w : nullptr);
    d.watched();
    if (r.chance(1, 6)) d.expand(0);          // no-op on the empty array
    d.expand(size_t(r.range(1, 10)));
    int steps = thorough ? r.range(60, 400) : r.range(30, 160);
    static const unsigned edges[] = {0, 1, 2, 254, 255, 256, 257, 65534, 65535, 65536, 65537, 70000};
    for (int s = 0; s < steps; s++) {
        size_t i = size_t(r.below(unsigned(d.size)));
        unsigned x = r.below(100);
        if (x < 10) d.resize();
        else if (x < 20) d.get(i);
        else if (x < 25) d.swap(i, r.chance(1, 5) ? i : size_t(r.below(unsigned(d.size))));
        else if (x < 40) {
            unsigned t = edges[r.chance(3, 4) ? r.below(7) : r.below(12)];
            d.driveTo(i, t);
            d.get(i);
        } else {
            unsigned cur = d.ca.get(i);
            int kind = int(r.below(4));
            if (cur == 0 && (kind == 1 || kind == 3)) kind = r.chance(1, 2) ? 0 : 2;   // in contract: no decrement of zero
            d.one(kind, i);
            if (r.chance(1, 3)) d.get(i);
        }
        if (r.chance(1, 25)) d.watched();
    }
    // final sweep: everything back below a width boundary, then a resize (narrowing back to 8 bits)
    if (r.chance(2, 3)) {
        for (size_t i = 0; i < d.size; i++) { d.driveTo(i, r.chance(1, 2) ? 0 : r.below(256)); d.get(i); }
        if (d.size > 2 && r.chance(1, 2)) d.shrink(1); else if (d.size > 1 && r.chance(1, 2)) d.shrink(d.size - 1); else d.expand(d.size + 1 + r.below(4));
        for (size_t i = 0; i < d.size; i++) d.get(i);
    }
    d.watched();
}

int run(const Args& A) {
    const long nstreamCases = A.cases > 0 ? A.cases : (A.thorough() ? 500 : 50);
    const long ncaCases = A.thorough() ? 80 : 24;
    const long ncases = 7 + nstreamCases + ncaCases;
    for (long c = 0; c < ncases; c++) {
        if (!A.selected(c)) continue;
        Rng r(Rng::mix(A.seed, uint64_t(c)));
        beginCase(c);
        if (c == 0) unaryLevels();
        else if (c <= 5) binaryLevels(int(c - 1));
        else if (c == 6) helpers(r, A.thorough() ? 20000 : 2000);
        else if (c < 7 + nstreamCases) for (int i = 0; i < 200; i++) stream(r);
        else counterHistory(r, A.thorough());
        endCase();
    }
    return 0;
}
FamilyReg reg("gen", run, "translator validation: level arithmetic, hash_stream and counter_array, real functions vs generated Lean");
}  // namespace
